// dir: .
// Head(slice, n) must not touch rows of the destination frame beyond those it
// delivers.  Before the repair headReader.Read handed the whole destination to
// its input and only trimmed the returned count: a 10-row destination came
// back with n == 3 and all 10 rows overwritten.
package bigslice_test

import (
	"context"
	"testing"

	"github.com/grailbio/bigslice"
	"github.com/grailbio/bigslice/frame"
	"github.com/grailbio/bigslice/sliceio"
)

func TestC17HeadWritesOnlyDeliveredRows(t *testing.T) {
	in := make([]int, 100)
	for i := range in {
		in[i] = 1000 + i
	}
	src := bigslice.Const(1, in)
	head := bigslice.Head(src, 3)
	r := head.Reader(0, []sliceio.Reader{src.Reader(0, nil)})
	dst := make([]int, 10)
	for i := range dst {
		dst[i] = -1
	}
	n, err := r.Read(context.Background(), frame.Slices(dst))
	if err != nil && err != sliceio.EOF {
		t.Fatal(err)
	}
	if n != 3 {
		t.Fatalf("got %d rows, want 3", n)
	}
	for i := n; i < len(dst); i++ {
		if dst[i] != -1 {
			t.Errorf("row %d of the destination was overwritten (%d) although only %d rows were delivered", i, dst[i], n)
		}
	}
}
