// Place in: exec/   (package exec)
// Run:      go test -vet=off -count=1 -run TestCombinerRetryResidue ./exec
//
// A task that feeds a per-task combiner (Reduce without machine combiners)
// fails with a retryable error after part of its input has already been
// spilled into the worker's combine buffer for that task.  The evaluator
// resubmits the task; on the same worker the retry must start from an empty
// buffer, otherwise the rows combined by the failed attempt are counted again.
package exec

import (
	"context"
	"github.com/grailbio/base/errors"
	"sync/atomic"
	"testing"

	"github.com/grailbio/bigmachine/testsystem"
	"github.com/grailbio/bigslice"
	"github.com/grailbio/bigslice/sliceio"
)

var combinerRetryFailed int32

const combinerRetryKeys = 200

var combinerRetryFunc = bigslice.Func(func() bigslice.Slice {
	type state struct{ next int }
	s := bigslice.ReaderFunc(1, func(shard int, st *state, keys []int, vals []int) (int, error) {
		n := 0
		for n < len(keys) && st.next < combinerRetryKeys {
			if st.next == combinerRetryKeys*3/4 && atomic.CompareAndSwapInt32(&combinerRetryFailed, 0, 1) {
				// a failure that goes away on retry
				return n, errors.E(errors.Temporary, "transient read failure")
			}
			keys[n], vals[n] = st.next, 1
			st.next++
			n++
		}
		if st.next >= combinerRetryKeys {
			return n, sliceio.EOF
		}
		return n, nil
	})
	return bigslice.Reduce(s, func(a, b int) int { return a + b })
})

func TestCombinerRetryResidue(t *testing.T) {
	atomic.StoreInt32(&combinerRetryFailed, 0)
	sess := Start(Bigmachine(testsystem.New()), Parallelism(1))
	defer sess.Shutdown()
	ctx := context.Background()
	res, err := sess.Run(ctx, combinerRetryFunc)
	if err != nil {
		t.Fatalf("run: %v", err)
	}
	if atomic.LoadInt32(&combinerRetryFailed) != 1 {
		t.Fatal("the injected failure did not fire")
	}
	sc := res.Scanner()
	defer sc.Close()
	var k, v int
	seen := map[int]int{}
	for sc.Scan(ctx, &k, &v) {
		seen[k] += v
	}
	if err := sc.Err(); err != nil {
		t.Fatal(err)
	}
	bad := 0
	for i := 0; i < combinerRetryKeys; i++ {
		if seen[i] != 1 {
			bad++
			if bad <= 5 {
				t.Errorf("key %d: sum %d, want 1", i, seen[i])
			}
		}
	}
	if bad > 0 {
		t.Errorf("%d of %d keys have wrong sums after a retried combiner task", bad, combinerRetryKeys)
	}
}

// The same with machine-shared combine buffers (session option
// MachineCombiners).  Recorded as a known finding, not repaired: a run that
// fails is acceptable here, a run that succeeds with wrong sums is not.
func TestCombinerRetryResidueMachineCombiners(t *testing.T) {
	atomic.StoreInt32(&combinerRetryFailed, 0)
	sess := Start(Bigmachine(testsystem.New()), Parallelism(1), MachineCombiners)
	defer sess.Shutdown()
	ctx := context.Background()
	res, err := sess.Run(ctx, combinerRetryFunc)
	if err != nil {
		t.Logf("run failed (acceptable: recovery is documented as not implemented): %v", err)
		return
	}
	sc := res.Scanner()
	defer sc.Close()
	var k, v int
	seen := map[int]int{}
	for sc.Scan(ctx, &k, &v) {
		seen[k] += v
	}
	if err := sc.Err(); err != nil {
		t.Logf("scan failed: %v", err)
		return
	}
	bad := 0
	for i := 0; i < combinerRetryKeys; i++ {
		if seen[i] != 1 {
			bad++
		}
	}
	if bad > 0 {
		t.Errorf("%d of %d keys have wrong sums after a retried machine-combiner task", bad, combinerRetryKeys)
	}
}
