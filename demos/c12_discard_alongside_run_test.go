// dir: exec
// Stress: res.Discard() concurrently with sess.Run(use, res) on Bigmachine(testsystem). Before fix 6f5da49 the run failed within 12-22 iterations with "too many tries: lost on 5 consecutive attempts" (the driver kept a task OK whose output the worker had deleted). With the fix that failure no longer occurs (75+ iterations); the test can still hit its own 30 s deadline, because a consumer that reads an input discarded under it retries "resource does not exist" with a 5-60 s back-off before it is reported lost (slow, not wrong; not claimed).
package exec

import (
	"context"
	"sync"
	"testing"
	"time"

	"github.com/grailbio/bigmachine/testsystem"
	"github.com/grailbio/bigslice"
)

func TestZZObsDiscardRace(t *testing.T) {
	f := bigslice.Func(func() bigslice.Slice {
		vs := make([]int, 2000)
		for i := range vs {
			vs[i] = i
		}
		return bigslice.Map(bigslice.Const(16, vs), func(i int) int { return i })
	})
	use := bigslice.Func(func(r *Result) bigslice.Slice {
		return bigslice.Map(r, func(i int) int { return i + 1 })
	})
	ctx := context.Background()
	sys := testsystem.New()
	sys.Machineprocs = 8
	sess := Start(Bigmachine(sys), Parallelism(8))
	res, err := sess.Run(ctx, f)
	if err != nil {
		t.Fatal(err)
	}
	deadline := time.Now().Add(60 * time.Second)
	iter := 0
	for time.Now().Before(deadline) && !t.Failed() {
		iter++
		var wg sync.WaitGroup
		wg.Add(2)
		go func() { defer wg.Done(); res.Discard(ctx) }()
		var r *Result
		var runErr error
		go func() {
			defer wg.Done()
			rctx, cancel := context.WithTimeout(ctx, 30*time.Second)
			defer cancel()
			r, runErr = sess.Run(rctx, use, res)
		}()
		wg.Wait()
		if runErr != nil {
			t.Fatalf("iter %d: run: %v", iter, runErr)
		}
		s := r.Scanner()
		var v, n int
		sctx, cancel := context.WithTimeout(ctx, 30*time.Second)
		for s.Scan(sctx, &v) {
			n++
		}
		cancel()
		if err := s.Err(); err != nil {
			t.Fatalf("iter %d: scan: %v", iter, err)
		}
		s.Close()
		if n != 2000 {
			t.Fatalf("iter %d: got %d rows", iter, n)
		}
	}
	t.Logf("%d iterations", iter)
}
