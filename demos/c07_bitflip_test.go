package sliceio

import (
	"bytes"
	"context"
	"fmt"
	"testing"

	"github.com/grailbio/bigslice/frame"
)

func TestBitFlipsDetected(t *testing.T) {
	ctx := context.Background()
	var b bytes.Buffer
	enc := NewEncodingWriter(&b)
	var want []int
	k := 0
	for _, n := range []int{3, 2, 2} {
		col := make([]int, n)
		for i := range col {
			k++
			col[i] = k * 1000003
			want = append(want, col[i])
		}
		if err := enc.Write(ctx, frame.Slices(col)); err != nil {
			t.Fatal(err)
		}
	}
	stream := b.Bytes()
	silent, panics, ok := 0, 0, 0
	var firstSilent, firstPanic string
	for bit := 0; bit < len(stream)*8; bit++ {
		mut := append([]byte{}, stream...)
		mut[bit/8] ^= 1 << uint(bit%8)
		func() {
			defer func() {
				if e := recover(); e != nil {
					panics++
					if firstPanic == "" {
						firstPanic = fmt.Sprintf("bit %d of byte %d: %v", bit%8, bit/8, e)
					}
				}
			}()
			r := NewDecodingReader(bytes.NewReader(mut))
			out := frame.Make(frame.Slices([]int{}), 2, 2)
			var got []int
			var err error
			for {
				var n int
				n, err = r.Read(ctx, out)
				got = append(got, out.Slice(0, n).Interface(0).([]int)...)
				if err != nil {
					break
				}
			}
			if err == EOF {
				same := len(got) == len(want)
				for i := range got {
					if i < len(want) && got[i] != want[i] {
						same = false
					}
				}
				if !same {
					silent++
					if firstSilent == "" {
						firstSilent = fmt.Sprintf("bit %d of byte %d: clean EOF after %v (want %d rows)", bit%8, bit/8, got, len(want))
					}
				} else {
					ok++
				}
			} else {
				// an error: rows delivered before it must be a correct prefix
				for i := range got {
					if i >= len(want) || got[i] != want[i] {
						silent++
						if firstSilent == "" {
							firstSilent = fmt.Sprintf("bit %d of byte %d: wrong rows %v before error %v", bit%8, bit/8, got, err)
						}
						return
					}
				}
				ok++
			}
		}()
	}
	t.Logf("%d bytes, %d flips: %d fine, %d silent corruption/truncation, %d panics", len(stream), len(stream)*8, ok, silent, panics)
	if silent > 0 {
		t.Errorf("silent: %s", firstSilent)
	}
	if panics > 0 {
		t.Errorf("panic: %s", firstPanic)
	}
}
