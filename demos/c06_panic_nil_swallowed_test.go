// dir: exec
// A user function that calls panic(nil) is stopped by the executors' recover
// handlers, which test the recovered value for non-nil: under this module's go
// directive (< go1.21) recover() returns nil for panic(nil), no error is
// recorded, and Run succeeds with a truncated result.  KNOWN FINDING (not
// repaired): this test documents the behaviour and FAILS on the current tree.
package exec

import (
	"context"
	"testing"

	"github.com/grailbio/bigslice"
)

var c06PanicNil = bigslice.Func(func() bigslice.Slice {
	s := bigslice.Const(1, []int{1, 2, 3, 4, 5})
	return bigslice.Map(s, func(i int) int {
		if i == 3 {
			panic(nil)
		}
		return i
	})
})

func TestC06PanicNilSurfaces(t *testing.T) {
	sess := Start(Local)
	defer sess.Shutdown()
	res, err := sess.Run(context.Background(), c06PanicNil)
	if err != nil {
		return // the panic surfaced as an error: the property holds
	}
	var (
		n    int
		v    int
		scan = res.Scanner()
	)
	for scan.Scan(context.Background(), &v) {
		n++
	}
	t.Fatalf("Run returned nil although the user function panicked; the result has %d of 5 rows (scan error: %v)", n, scan.Err())
}
