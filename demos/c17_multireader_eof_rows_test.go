package sliceio

// Demonstration for C17-R6: copy into /repo/sliceio as zz_multi_test.go and run
//   go test -vet=off -run TestMultiReaderRowsWithEOF -gcflags='github.com/grailbio/bigslice/...=-lang=go1.17' ./sliceio
// The Reader contract allows Read to return n > 0 together with EOF (FrameReader
// does).  Before the fix multiReader dropped those rows.

import (
	"context"
	"testing"

	"github.com/grailbio/bigslice/frame"
)

func TestMultiReaderRowsWithEOF(t *testing.T) {
	r := MultiReader(
		NopCloser(FrameReader(frame.Slices([]int{1, 2, 3}))),
		NopCloser(FrameReader(frame.Slices([]int{4, 5}))),
	)
	var got []int
	if err := ReadAll(context.Background(), r, &got); err != nil {
		t.Fatal(err)
	}
	want := []int{1, 2, 3, 4, 5}
	if len(got) != len(want) {
		t.Fatalf("got %v, want %v", got, want)
	}
	for i := range want {
		if got[i] != want[i] {
			t.Fatalf("got %v, want %v", got, want)
		}
	}
}
