// dir: frame
// A frame built by frame.Slices / frame.Values from Go slices with spare
// capacity reports that capacity (Cap), so Slice, Grow and Ensure extend the
// view into it without reallocating — but (before the repair) the column
// values and the computed operators were bound to the slices' *lengths*, so
// the extended rows could not be read, compared, hashed, swapped or sorted,
// and Value returned a column shorter than the frame.
package frame_test

import (
	"sort"
	"testing"

	"github.com/grailbio/bigslice/frame"
)

func TestC11SlicesSpareCapacity(t *testing.T) {
	backing := []int{5, 4, 3, 2, 1, 0, 9, 8}
	f := frame.Slices(backing[:3])
	if f.Len() != 3 || f.Cap() != 8 {
		t.Fatalf("len %d cap %d", f.Len(), f.Cap())
	}
	g := f.Grow(3) // within capacity: a view of the same storage, rows 0..5
	if g.Len() != 6 {
		t.Fatalf("grown len %d", g.Len())
	}
	// every operation on the grown view must behave as on a copy of rows 5,4,3,2,1,0
	if got := g.Index(0, 4).Int(); got != 1 {
		t.Errorf("Index(0,4) = %d, want 1", got)
	}
	if !g.Less(4, 1) {
		t.Errorf("row 4 (1) should sort before row 1 (4)")
	}
	_ = g.Hash(4)
	if got := g.Value(0).Len(); got != 6 {
		t.Errorf("Value(0).Len() = %d, want 6", got)
	}
	sort.Sort(g)
	for i := 0; i < 6; i++ {
		if got := g.Index(0, i).Int(); got != int64(i) {
			t.Errorf("after sort row %d = %d", i, got)
		}
	}
	// the whole-capacity view: Value must have the frame's length
	h := frame.Slices(backing[:2:4]).Slice(0, 4)
	if got := h.Value(0).Len(); got != 4 {
		t.Errorf("Slice(0,Cap()).Value(0).Len() = %d, want 4", got)
	}
	// the same through frame.Values
}
