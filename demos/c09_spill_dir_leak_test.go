// Place in: exec/   (package exec)
// Run:      go test -vet=off -count=1 -run TestCombinerSpillDirRemovedOnFailure ./exec
//
// A combiner owns a temporary spill directory from the moment it is created
// (sliceio.NewSpiller); reading it back (Reader/WriteTo) or Discard removes
// it.  The local executor's in-line input combination dropped the combiner
// when reading or combining failed — or when the user's combine function
// panicked — and the directory stayed behind.
package exec

import (
	"context"
	"io/ioutil"
	"os"
	"strings"
	"testing"

	"github.com/grailbio/bigslice"
)

var spillLeakFunc = bigslice.Func(func() bigslice.Slice {
	s := bigslice.Const(2, []int{1, 2, 3, 1, 2, 3, 4, 5}, []int{1, 1, 1, 1, 1, 1, 1, 1})
	return bigslice.Reduce(s, func(a, b int) int { panic("combine failed") })
})

func TestCombinerSpillDirRemovedOnFailure(t *testing.T) {
	dir, err := ioutil.TempDir("", "c09demo")
	if err != nil {
		t.Fatal(err)
	}
	defer os.RemoveAll(dir)
	old := os.Getenv("TMPDIR")
	os.Setenv("TMPDIR", dir)
	defer os.Setenv("TMPDIR", old)

	sess := Start(Local, Parallelism(2))
	defer sess.Shutdown()
	_, err = sess.Run(context.Background(), spillLeakFunc)
	if err == nil {
		t.Fatal("expected the run to fail")
	}
	infos, err := ioutil.ReadDir(dir)
	if err != nil {
		t.Fatal(err)
	}
	var left []string
	for _, fi := range infos {
		if strings.HasPrefix(fi.Name(), "spiller-") {
			left = append(left, fi.Name())
		}
	}
	if len(left) > 0 {
		t.Errorf("%d spill director(ies) left behind after the failed run: %v", len(left), left)
	}
}
