// dir: sortio
// Demonstrates (on the tree before the repair) that the sorting reader
// panics with "integer divide by zero" when a spilled run encodes to fewer
// bytes than it has rows, which any column codec that compresses well can do.
package sortio_test

import (
	"context"
	"testing"

	"github.com/grailbio/bigslice/frame"
	"github.com/grailbio/bigslice/sliceio"
	"github.com/grailbio/bigslice/slicetype"
	"github.com/grailbio/bigslice/sortio"
)

type c10tiny uint8

func init() {
	frame.RegisterOps(func(slice []c10tiny) frame.Ops {
		return frame.Ops{
			Less:         func(i, j int) bool { return slice[i] < slice[j] },
			HashWithSeed: func(i int, seed uint32) uint32 { return uint32(slice[i]) ^ seed },
			// run-length encoding of a constant column: one small message per batch
			Encode: func(e frame.Encoder, i, j int) error {
				var v c10tiny
				if j > i {
					v = slice[i]
				}
				return e.Encode(uint8(v))
			},
			Decode: func(d frame.Decoder, i, j int) error {
				var v uint8
				if err := d.Decode(&v); err != nil {
					return err
				}
				for k := i; k < j; k++ {
					slice[k] = c10tiny(v)
				}
				return nil
			},
		}
	})
}

func TestC10SorterSubByteRows(t *testing.T) {
	const n = 100000
	col := make([]c10tiny, n)
	f := frame.Slices(col)
	r, err := sortio.SortReader(context.Background(), 1<<20, slicetype.New(f.Out(0)), sliceio.FrameReader(f))
	if err != nil {
		t.Fatal(err)
	}
	out := frame.Make(f, n+1, n+1)
	m, err := sliceio.ReadFull(context.Background(), r, out)
	if err != nil && err != sliceio.EOF {
		t.Fatal(err)
	}
	if m != n {
		t.Fatalf("got %d rows, want %d", m, n)
	}
}
