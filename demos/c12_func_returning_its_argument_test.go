package exec

import (
	"context"
	"testing"

	"github.com/grailbio/bigmachine/testsystem"
	"github.com/grailbio/bigslice"
)

var idSource = bigslice.Func(func() bigslice.Slice { return bigslice.Const(2, []int{1, 2, 3, 4}) })
var idFunc = bigslice.Func(func(s bigslice.Slice) bigslice.Slice { return s })
var idMap = bigslice.Func(func(s bigslice.Slice) bigslice.Slice {
	return bigslice.Map(s, func(i int) int { return i * 2 })
})

func TestFuncReturningItsArgument(t *testing.T) {
	for name, opt := range map[string]Option{"Local": Local, "Bigmachine": Bigmachine(testsystem.New())} {
		t.Run(name, func(t *testing.T) {
			sess := Start(opt, Parallelism(2))
			defer sess.Shutdown()
			ctx := context.Background()
			r, err := sess.Run(ctx, idSource)
			if err != nil {
				t.Fatal(err)
			}
			r2, err := sess.Run(ctx, idFunc, r)
			if err != nil {
				t.Fatal(err)
			}
			r3, err := sess.Run(ctx, idMap, r2)
			if err != nil {
				t.Fatal(err)
			}
			sc := r3.Scanner()
			defer sc.Close()
			sum, x := 0, 0
			for sc.Scan(ctx, &x) {
				sum += x
			}
			if err := sc.Err(); err != nil {
				t.Fatal(err)
			}
			if sum != 20 {
				t.Errorf("sum %d, want 20", sum)
			}
		})
	}
}
