package sliceio

// Demonstration for C07-R6: copy into /repo/sliceio as zz_neglen_test.go and run
//   go test -vet=off -run TestNegativeBatchLength -gcflags='github.com/grailbio/bigslice/...=-lang=go1.17' ./sliceio
// Before the fix a damaged (negative) batch length makes Read panic in
// frame.Slice instead of returning an error.

import (
	"bytes"
	"context"
	"encoding/gob"
	"testing"

	"github.com/grailbio/bigslice/frame"
)

func TestNegativeBatchLength(t *testing.T) {
	var b bytes.Buffer
	if err := gob.NewEncoder(&b).Encode(-3); err != nil {
		t.Fatal(err)
	}
	r := NewDecodingReader(bytes.NewReader(b.Bytes()))
	out := frame.Make(frame.Slices([]int{}), 8, 8)
	defer func() {
		if e := recover(); e != nil {
			t.Fatalf("reader panicked on a damaged batch length: %v", e)
		}
	}()
	n, err := r.Read(context.Background(), out)
	if err == nil || err == EOF || n != 0 {
		t.Fatalf("got n=%d err=%v, want an error", n, err)
	}
}
