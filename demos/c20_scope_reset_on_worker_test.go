// Place in: exec/   (file name e.g. exec/c20_3_demo_test.go)
// Package:  exec
// Run:      go test -vet=off -count=1 -run 'TestC20Seed3' ./exec

package exec

import (
	"context"
	"testing"
	"time"

	"github.com/grailbio/bigmachine/testsystem"
	"github.com/grailbio/bigslice"
	"github.com/grailbio/bigslice/metrics"
)

var (
	c20wkCounter = metrics.NewCounter()

	c20wkSource = bigslice.Func(func() bigslice.Slice {
		slice := bigslice.Const(3, []int{1, 2, 3, 4, 5, 6})
		return bigslice.Map(slice, func(ctx context.Context, i int) int {
			c20wkCounter.Incr(metrics.ContextScope(ctx), int64(i))
			return i
		})
	})

	c20wkIdent = bigslice.Func(func(slice bigslice.Slice) bigslice.Slice {
		return bigslice.Map(slice, func(i int) int { return i })
	})
)

// TestMetricsOncePerTaskAfterDiscard computes a result, discards it (a failure-free,
// user-requested release of its storage), and then uses it as the input of a
// second computation, which makes the evaluator recompute the discarded
// tasks. Each task's scope must describe the (one) run that produced its
// current output, so the second result reports 1+...+6 = 21, however many
// times the tasks were computed before.
func TestMetricsOncePerTaskAfterDiscard(t *testing.T) {
	// Only the local executor: the unmodified bigmachine worker never resets
	// a task's scope before recomputing it on the same machine, so the
	// Bigmachine executor reports 42 here even without the seeded change
	// (see README.txt).
	for name, opt := range map[string]Option{
		"Local": Local, "Bigmachine": Bigmachine(testsystem.New()),
	} {
		t.Run(name, func(t *testing.T) {
			ctx, cancel := context.WithTimeout(context.Background(), 60*time.Second)
			defer cancel()
			sess := Start(opt)
			defer sess.Shutdown()
			res1, err := sess.Run(ctx, c20wkSource)
			if err != nil {
				t.Fatal(err)
			}
			res1.Discard(ctx)
			res2, err := sess.Run(ctx, c20wkIdent, res1)
			if err != nil {
				t.Fatal(err)
			}
			if got, want := c20wkCounter.Value(res2.Scope()), int64(21); got != want {
				t.Errorf("got %v, want %v", got, want)
			}
			// The recomputed output is intact.
			var (
				scan = res2.Scanner()
				sum  int
				x    int
			)
			defer scan.Close()
			for scan.Scan(ctx, &x) {
				sum += x
			}
			if err := scan.Err(); err != nil {
				t.Fatal(err)
			}
			if got, want := sum, 21; got != want {
				t.Errorf("sum: got %v, want %v", got, want)
			}
		})
	}
}
