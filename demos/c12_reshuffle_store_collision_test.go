package exec

import (
	"context"
	"sync"
	"testing"

	"github.com/grailbio/bigmachine/testsystem"
	"github.com/grailbio/bigslice"
)

var collisionSource = bigslice.Func(func() bigslice.Slice {
	n := 20000
	keys := make([]int, n)
	for i := range keys {
		keys[i] = i
	}
	return bigslice.Const(8, keys)
})

var collisionReshard = bigslice.Func(func(s bigslice.Slice, nshard int) bigslice.Slice {
	return bigslice.Reshard(s, nshard)
})

func TestReshuffleOfOneResultByTwoInvocations(t *testing.T) {
	sess := Start(Bigmachine(testsystem.New()), Parallelism(8))
	defer sess.Shutdown()
	ctx := context.Background()
	src, err := sess.Run(ctx, collisionSource)
	if err != nil {
		t.Fatal(err)
	}
	for round := 0; round < 5; round++ {
		var wg sync.WaitGroup
		errs := make([]string, 2)
		for gi, nshard := range []int{2, 3} {
			gi, nshard := gi, nshard
			wg.Add(1)
			go func() {
				defer wg.Done()
				res, err := sess.Run(ctx, collisionReshard, src, nshard)
				if err != nil {
					errs[gi] = err.Error()
					return
				}
				sc := res.Scanner()
				defer sc.Close()
				seen := map[int]int{}
				var k int
				for sc.Scan(ctx, &k) {
					seen[k]++
				}
				if err := sc.Err(); err != nil {
					errs[gi] = err.Error()
					return
				}
				bad := 0
				for i := 0; i < 20000; i++ {
					if seen[i] != 1 {
						bad++
					}
				}
				if bad > 0 || len(seen) != 20000 {
					errs[gi] = "wrong rows"
					t.Errorf("round %d reshard(%d): %d keys not seen exactly once, %d distinct", round, nshard, bad, len(seen))
				}
			}()
		}
		wg.Wait()
		for gi, e := range errs {
			if e != "" && e != "wrong rows" {
				t.Errorf("round %d run %d: %v", round, gi, e)
			}
		}
	}
}
