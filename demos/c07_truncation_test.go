package sliceio

// Demonstration for C07-R4 (F14): copy into /repo/sliceio and run
//   go test -vet=off -run TestTruncationInsideBatch -gcflags='github.com/grailbio/bigslice/...=-lang=go1.17' ./sliceio
// Before the fix some cut points inside the second batch end the stream
// "cleanly" (nil error, rows of the cut batch missing).

import (
	"bytes"
	"context"
	"testing"

	"github.com/grailbio/bigslice/frame"
)

func TestTruncationInsideBatch(t *testing.T) {
	ctx := context.Background()
	var b bytes.Buffer
	enc := NewEncodingWriter(&b)
	if err := enc.Write(ctx, frame.Slices([]int{1, 2, 3}, []string{"a", "b", "c"})); err != nil {
		t.Fatal(err)
	}
	first := b.Len()
	if err := enc.Write(ctx, frame.Slices([]int{4, 5, 6}, []string{"d", "e", "f"})); err != nil {
		t.Fatal(err)
	}
	full := b.Bytes()
	for cut := first + 1; cut < len(full); cut++ {
		r := NewDecodingReader(bytes.NewReader(full[:cut]))
		out := frame.Make(frame.Slices([]int{}, []string{}), 8, 8)
		rows := 0
		var err error
		for {
			var n int
			n, err = r.Read(ctx, out)
			rows += n
			if err != nil {
				break
			}
		}
		if err == EOF {
			t.Errorf("cut at byte %d of %d (inside batch 2): reader reported clean end of stream after %d rows", cut, len(full), rows)
		}
	}
}
