// dir: exec
// (*bigmachineExecutor).addInvocation replaced each *Result argument by an
// invocationRef in the argument vector it was given, which shares its backing
// array with the task's invocation and with the slice the caller passed to
// Session.Run: after the first task of the invocation ran, the caller's own
// slice held invocationRefs, and running another Func with it failed the
// typecheck ("exec.invocationRef does not implement bigslice.Slice").
package exec

import (
	"context"
	"testing"

	"github.com/grailbio/bigmachine/testsystem"
	"github.com/grailbio/bigslice"
)

var (
	c16mk  = bigslice.Func(func() bigslice.Slice { return bigslice.Const(2, []int{1, 2, 3, 4}) })
	c16use = bigslice.Func(func(r *Result) bigslice.Slice {
		return bigslice.Map(r, func(i int) int { return i + 1 })
	})
)

func TestC16CallerArgumentsAreNotRewritten(t *testing.T) {
	ctx := context.Background()
	sess := Start(Bigmachine(testsystem.New()))
	defer sess.Shutdown()
	res, err := sess.Run(ctx, c16mk)
	if err != nil {
		t.Fatal(err)
	}
	args := []interface{}{res}
	if _, err := sess.Run(ctx, c16use, args...); err != nil {
		t.Fatal(err)
	}
	if _, ok := args[0].(*Result); !ok {
		t.Fatalf("the caller's argument slice was rewritten: args[0] is now a %T", args[0])
	}
	// and the same slice can be used again
	if _, err := sess.Run(ctx, c16use, args...); err != nil {
		t.Fatal(err)
	}
}
