package bigslice_test

// Demonstration for C01-R1 (F15) and C18-R5 (F16), C18-R6 (F9). Needs the dependency shim
// (/verif/tools/shim/apply.sh <worktree>); copy into the root package directory and run
//   go test -vet=off -run 'TestScanReaderNoInventedRow|TestReaderFuncArity|TestFoldNamedKey' .

import (
	"bytes"
	"context"
	"fmt"
	"io"
	"io/ioutil"
	"strings"
	"testing"

	"github.com/grailbio/bigslice"
	"github.com/grailbio/bigslice/exec"
	"github.com/grailbio/bigslice/frame"
	"github.com/grailbio/bigslice/typecheck"
)

func TestScanReaderNoInventedRow(t *testing.T) {
	var b bytes.Buffer
	for i := 0; i < 10; i++ {
		fmt.Fprintf(&b, "line%d\n", i)
	}
	fn := bigslice.Func(func() bigslice.Slice {
		return bigslice.ScanReader(3, func() (io.ReadCloser, error) {
			return ioutil.NopCloser(bytes.NewReader(b.Bytes())), nil
		})
	})
	sess := exec.Start(exec.Local)
	defer sess.Shutdown()
	res, err := sess.Run(context.Background(), fn)
	if err != nil {
		t.Fatal(err)
	}
	sc := res.Scanner()
	defer sc.Close()
	var s string
	n := 0
	for sc.Scan(context.Background(), &s) {
		n++
		if !strings.HasPrefix(s, "line") {
			t.Errorf("row %q is not an input line", s)
		}
	}
	if err := sc.Err(); err != nil {
		t.Fatal(err)
	}
	if n != 10 {
		t.Errorf("got %d rows, want 10", n)
	}
}

func TestReaderFuncArity(t *testing.T) {
	defer func() {
		e := recover()
		if e == nil {
			t.Fatal("expected a typecheck panic")
		}
		if _, ok := e.(*typecheck.Error); ok {
			return
		}
		t.Fatalf("not a located typecheck error: %T %v", e, e)
	}()
	bigslice.ReaderFunc(1, func(shard int, state int, xs []int) int { return 0 })
}

type namedKey string

func init() {
	frame.RegisterOps(func(slice []namedKey) frame.Ops {
		return frame.Ops{
			Less:         func(i, j int) bool { return slice[i] < slice[j] },
			HashWithSeed: func(i int, seed uint32) uint32 { return uint32(len(slice[i])) + seed },
		}
	})
}

func TestFoldNamedKey(t *testing.T) {
	fn := bigslice.Func(func() bigslice.Slice {
		s := bigslice.Const(1, []namedKey{"a", "b", "a"}, []int{1, 2, 3})
		return bigslice.Fold(s, func(acc int, v int) int { return acc + v })
	})
	sess := exec.Start(exec.Local)
	defer sess.Shutdown()
	_, err := sess.Run(context.Background(), fn)
	if err != nil {
		t.Fatalf("Fold over a key type the constructor accepted failed at run time: %v", err)
	}
}
