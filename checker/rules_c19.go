package main

import (
	"fmt"
	"go/ast"
	"go/types"
	"sort"
	"strings"
)

func init() {
	registerProperty(&Property{
		ID:          "C19",
		Explanation: "Decides structural necessary conditions of race freedom: (R1) a lockset analysis over every function of package exec: each read or write of a field in the guarded-by table (confirmed by reading and frozen here) happens with its guard held on every path — Task.{state,err,waitc,subs,consecutiveLost} under the task's own mutex; the executors', worker's, slice machine's, session's, caches' and status maps under their mu — and the functions documented as 'caller holds the lock' (Task.Broadcast, Task.Wait, invDiskCache.init, evalStatus.lockedPrint) are only called with it held; (R2) the fields owned by the machine manager's event loop are touched by no other goroutine (C14-R2 for writes; reads listed here); (R3) the per-machine once-only RPCs Worker.Compile and Worker.CommitCombiner are issued only inside their once.Map guards; (R4 = C03-R1) a task is handed to the executor by exactly one evaluation, under the task lock. Not decided: deadlock freedom, results of concurrent runs, races outside the table (what the race detector would find dynamically).",
		Rules: []Rule{
			{ID: "C19-R1", Doc: "guarded-by table respected on every path (lockset)", Run: c19r1},
			{ID: "C19-R2", Doc: "manager-owned fields are not read from other goroutines", Run: c19r2},
			{ID: "C19-R3", Doc: "once-per-machine RPCs only under their once.Map", Run: c19r3},
			{ID: "C19-R4", Doc: "a guarded map/slice/pointer is not used through a local copy outside its lock", Run: c19r4},
			{ID: "C19-R5", Doc: "locks are acquired in one global order (no cycle between lock classes)", Run: c19r5},
			{ID: "C19-R6", Doc: "every lock a function takes is released on every exit (deferred, explicit or handed over)", Run: c19r6},
			{ID: "C12-R9", Doc: "a Discard running alongside a Run does not leave the driver with an OK task whose output the worker deleted (shared)", Run: c12r9},
			{ID: "C16-R11", Doc: "concurrent runs do not share a rewritten argument array (shared)", Run: c16r11},
			{ID: "C03-R9", Doc: "a task that failed in one run is not re-run by a concurrent run that shares it: TaskInit only from TaskLost (shared)", Run: c03r9},
			{ID: "C02-R6", Doc: "a run that finds an input discarded by a concurrent Discard recomputes it: dependency read errors are not fatal (shared)", Run: c02r6},
			{ID: "C02-R4", Doc: "a completed task is located, then OK, then assigned; machine stop marks tasks lost atomically (shared)", Run: c02r4},
			{ID: "C12-R1", Doc: "discard leaves no task parked in RUNNING (shared)", Run: c12r1},
			{ID: "C03-R1", Doc: "single hand-off site under lock (shared)", Run: c03r1},
			{ID: "C14-R2", Doc: "manager-owned fields have a single writer (shared)", Run: c14r2},
		},
	})
}

// guard kinds: "self" = the object's own (embedded) mutex; "mu" = sibling field mu.
var guardedBy = map[string]string{
	"exec.Task.state":           "self",
	"exec.Task.err":             "self",
	"exec.Task.waitc":           "self",
	"exec.Task.subs":            "self",
	"exec.Task.consecutiveLost": "self",
	"exec.TaskSubscriber.tasks": "self",

	"exec.localExecutor.buffers": "mu",

	"exec.bigmachineExecutor.locations":      "mu",
	"exec.bigmachineExecutor.invocations":    "mu",
	"exec.bigmachineExecutor.invocationDeps": "mu",
	"exec.bigmachineExecutor.managers":       "mu",

	"exec.worker.tasks":          "mu",
	"exec.worker.taskStats":      "mu",
	"exec.worker.slices":         "mu",
	"exec.worker.combinerStates": "mu",
	"exec.worker.combinerErrors": "mu",
	"exec.worker.combiners":      "mu",

	"exec.sliceMachine.lost":  "mu",
	"exec.sliceMachine.tasks": "mu",
	"exec.sliceMachine.mem":   "mu",
	"exec.sliceMachine.disk":  "mu",
	"exec.sliceMachine.load":  "mu",
	"exec.sliceMachine.vals":  "mu",

	"exec.Session.roots": "mu",

	"exec.invDiskCache.cacheDir": "mu",
	"exec.invDiskCache.invPaths": "mu",

	"exec.memoryStore.tasks":  "mu",
	"exec.memoryStore.counts": "mu",

	"exec.evalStatus.tasks": "mu",
}

// functions entered with a lock held ("caller holds the lock").
var lockRequired = map[string]string{
	"exec.(*Task).Broadcast":         "self",
	"exec.(*Task).Wait":              "self",
	"exec.(*invDiskCache).init":      "mu",
	"exec.(*evalStatus).lockedPrint": "mu",
}

// functions that initialise an object before it is published.
var c19constructors = map[string]string{
	"exec.(*bigmachineExecutor).Start": "initialises the executor before it is published to any other goroutine",
	"exec.(*worker).Init":              "initialises the worker service before it serves RPCs",
	"exec.newEvalStatus":               "the evalStatus is not yet shared",
}

type c19exc struct{ fn, field, reason string }

var c19exceptions = []c19exc{
	{"exec.(*state).Return", "exec.Task.err", "ordered after the writer by the task.State() critical section just before; TaskErr is never rewritten on the driver"},
}

func recvNameOf(fn *Func) string {
	if fn.Decl != nil && fn.Decl.Recv != nil && len(fn.Decl.Recv.List) == 1 && len(fn.Decl.Recv.List[0].Names) == 1 {
		return fn.Decl.Recv.List[0].Names[0].Name
	}
	return ""
}

func isIIFE(pr *Prog, fn *Func) bool {
	if fn.Lit == nil || fn.Parent == nil || fn.Parent.Body == nil {
		return false
	}
	res := false
	ast.Inspect(fn.Parent.Body, func(n ast.Node) bool {
		if c, ok := n.(*ast.CallExpr); ok && c.Fun == ast.Expr(fn.Lit) {
			par := parentOf(fn.Parent.Body, c)
			if _, isDefer := par.(*ast.DeferStmt); isDefer {
				return true
			}
			if _, isGo := par.(*ast.GoStmt); isGo {
				return true
			}
			res = true
		}
		return true
	})
	return res
}

func c19r1(c *RC) {
	pr := c.P
	naccess := 0
	for _, fn := range pr.FuncsIn("exec") {
		if fn.Body == nil {
			continue
		}
		fq := fn.QName()
		if _, isCtor := c19constructors[fq]; isCtor {
			c.Except(fq, c19constructors[fq])
			continue
		}
		if isIIFE(pr, fn) {
			continue // analysed inline in its parent
		}
		// does the function touch anything guarded, or call a lock-required function?
		touches := false
		inspectNoLit(fn.Body, func(n ast.Node) bool {
			switch x := n.(type) {
			case *ast.SelectorExpr:
				if _, ok := guardedBy[pr.fieldQName(fn.Pkg.FieldOf(x))]; ok {
					touches = true
				}
			case *ast.CallExpr:
				if _, ok := lockRequired[fn.Pkg.CalleeName(x)]; ok {
					touches = true
				}
			}
			return true
		})
		if !touches {
			continue
		}
		fl := pr.Flow(fn)
		init := map[string]bool{}
		if kind, ok := lockRequired[fq]; ok {
			r := recvNameOf(fn)
			if kind == "self" {
				init[r] = true
			} else {
				init[r+".mu"] = true
			}
		}
		// lock hand-over to a goroutine literal
		for _, p := range fn.Type.Params.List {
			for _, nm := range p.Names {
				if strings.HasSuffix(expr(p.Type), "Task") && c03handedOver(c, fn, nm.Name) {
					init[nm.Name] = true
				}
			}
		}
		encode := func(m map[string]bool) string {
			var l []string
			for k := range m {
				l = append(l, k)
			}
			sort.Strings(l)
			return strings.Join(l, ",")
		}
		decode := func(x string) map[string]bool {
			m := map[string]bool{}
			for _, k := range strings.Split(x, ",") {
				if k != "" {
					m[k] = true
				}
			}
			return m
		}
		reported := map[string]bool{}
		fl.Walk(fl.Entry(), encode(init), nil, Visitor{NoFacts: true,
			Node: func(n ast.Node, x string, s *Step) (string, bool) {
				held := decode(x)
				if _, isDefer := n.(*ast.DeferStmt); isDefer {
					// deferred unlocks release at exit; deferred closures are separate functions
					return x, false
				}
				if _, isGo := n.(*ast.GoStmt); isGo {
					return x, false
				}
				// process in source order: accesses and lock events within the node
				type ev struct {
					pos  int
					kind string // "lock","unlock","access","need"
					key  string
					desc string
					fld  string
				}
				var evs []ev
				inspectNoLit(n, func(m ast.Node) bool {
					switch a := m.(type) {
					case *ast.CallExpr:
						if sel, ok := a.Fun.(*ast.SelectorExpr); ok {
							switch sel.Sel.Name {
							case "Lock", "RLock":
								evs = append(evs, ev{int(a.End()), "lock", strings.ReplaceAll(expr(sel.X), " ", ""), "", ""})
							case "Unlock", "RUnlock":
								evs = append(evs, ev{int(a.Pos()), "unlock", strings.ReplaceAll(expr(sel.X), " ", ""), "", ""})
							}
						}
						if kind, ok := lockRequired[fn.Pkg.CalleeName(a)]; ok {
							if sel, ok := a.Fun.(*ast.SelectorExpr); ok {
								need := expr(sel.X)
								if kind == "mu" {
									need += ".mu"
								}
								evs = append(evs, ev{int(a.Pos()), "need", need, "call of " + fn.Pkg.CalleeName(a) + " (caller must hold the lock)", fn.Pkg.CalleeName(a)})
							}
						}
					case *ast.SelectorExpr:
						fqn := pr.fieldQName(fn.Pkg.FieldOf(a))
						if kind, ok := guardedBy[fqn]; ok {
							need := expr(a.X)
							if kind == "mu" {
								need += ".mu"
							}
							evs = append(evs, ev{int(a.Pos()), "access", need, "access to " + fqn + " (" + expr(a) + ")", fqn})
						}
					}
					return true
				})
				sort.SliceStable(evs, func(i, j int) bool { return evs[i].pos < evs[j].pos })
				for _, e := range evs {
					switch e.kind {
					case "lock":
						held[e.key] = true
					case "unlock":
						delete(held, e.key)
					case "access", "need":
						naccess++
						okHeld := held[strings.ReplaceAll(e.key, " ", "")]
						// the key names the guard by role, not by the spelling of the base expression
						role := e.key
						if r := recvNameOf(fn.Root()); r != "" {
							role = replaceWord(role, r, "$recv")
						}
						key := fmt.Sprintf("%s|%s|%s", fq, e.fld, role)
						if !okHeld {
							excepted := false
							for _, ex := range c19exceptions {
								if ex.fn == fq && ex.field == e.fld {
									excepted = true
									if !reported[key] {
										c.Except(fq+" / "+e.fld, ex.reason)
									}
								}
							}
							if excepted {
								reported[key] = true
								continue
							}
						}
						if !reported[key] || !okHeld {
							c.Check(okHeld, key, pr.Pos(n.Pos()),
								fmt.Sprintf("%s in %s with %s not held on this path (held: {%s}): a concurrent run, scan or discard can touch the same field at the same time", e.desc, fq, e.key, encode(held)), s.Trail()...)
							reported[key] = true
						}
					}
				}
				return encode(held), false
			}})
	}
	c.Floor("guarded accesses and lock-required calls examined", naccess, 60)
}

func c19r2(c *RC) {
	pr := c.P
	owner := map[string]bool{
		"exec.(*machineManager).Do": true, "exec.schedule": true,
		"exec.machineQ.Less": true, "exec.machineQ.Swap": true, "exec.(*machineQ).Push": true, "exec.(*machineQ).Pop": true,
		"exec.machineFailureQ.Less": true, "exec.machineFailureQ.Swap": true, "exec.(*machineFailureQ).Push": true, "exec.(*machineFailureQ).Pop": true,
		"exec.machineQ.Len": true, "exec.machineFailureQ.Len": true,
	}
	// static call counts, to leave out dead code
	callers := map[string]int{}
	for _, f := range pr.Funcs() {
		if f.Body == nil {
			continue
		}
		for _, k := range directCalls(f.Body) {
			callers[f.Pkg.CalleeName(k)]++
			// calls through an interface reach every implementation
			if sel, ok := k.Fun.(*ast.SelectorExpr); ok {
				if sl, ok := f.Pkg.Info.Selections[sel]; ok {
					if it, ok := sl.Recv().Underlying().(*types.Interface); ok {
						for _, impl := range pr.implementers(it, sel.Sel.Name) {
							callers[impl.QName()]++
						}
					}
				}
			}
		}
		// method values (go x.M, handler registration) count as references
		ast.Inspect(f.Body, func(n ast.Node) bool {
			if sel, ok := n.(*ast.SelectorExpr); ok {
				if sl, ok := f.Pkg.Info.Selections[sel]; ok && sl.Kind() == types.MethodVal {
					if mf, ok := sl.Obj().(*types.Func); ok {
						callers[short(objQName(mf))]++
					}
				}
			}
			return true
		})
	}
	// exported methods of the worker are RPC entry points
	for _, f := range pr.FuncsIn("exec") {
		if f.Decl != nil && f.Decl.Recv != nil && strings.HasPrefix(f.Name, "(*worker).") && f.Decl.Name.IsExported() {
			callers[f.QName()]++
		}
	}
	fields := map[string]bool{"exec.sliceMachine.taskProcs": true, "exec.sliceMachine.health": true, "exec.sliceMachine.lastFailure": true, "exec.sliceMachine.index": true}
	n := 0
	for _, fn := range pr.FuncsIn("exec") {
		if fn.Body == nil {
			continue
		}
		root := fn.Root().QName()
		if owner[root] {
			continue
		}
		if root == "exec.(*sliceMachine).String" {
			// String reads health; it is legitimate only if no function outside the
			// manager formats a sliceMachine (checked below)
			continue
		}
		if callers[root] == 0 {
			c.Note("%s touches manager-owned state but has no caller in the module (dead code); not counted", root)
			continue
		}
		seen := map[string]bool{}
		ast.Inspect(fn.Body, func(nd ast.Node) bool {
			if lit, ok := nd.(*ast.FuncLit); ok && lit != fn.Lit {
				return false
			}
			sel, ok := nd.(*ast.SelectorExpr)
			if !ok {
				return true
			}
			fq := pr.fieldQName(fn.Pkg.FieldOf(sel))
			if !fields[fq] || seen[fq] {
				return true
			}
			seen[fq] = true
			n++
			// (*sliceMachine).String is called by the manager's own log statements only if no one else calls it
			c.Fail(fn.QName()+"|touches:"+fq, pr.Pos(sel.Pos()),
				fmt.Sprintf("%s is owned by the machine manager's event loop (written there without a lock) but is accessed in %s, which runs on other goroutines: an unsynchronised concurrent read of the manager's state", fq, fn.QName()))
			return true
		})
	}
	// sliceMachine.String (which reads health) may only be reached from the manager:
	// no other function passes a *sliceMachine / machineDone to a variadic ...interface{} formatter
	for _, fn := range pr.FuncsIn("exec") {
		if fn.Body == nil || owner[fn.Root().QName()] || fn.Root().QName() == "exec.(*sliceMachine).String" {
			continue
		}
		for _, k := range directCalls(fn.Body) {
			for ai, a := range k.Args {
				tv := fn.Pkg.Info.Types[a]
				if tv.Type == nil {
					continue
				}
				ts := typeString(tv.Type)
				if ts != "*exec.sliceMachine" && ts != "exec.machineDone" {
					continue
				}
				// is the parameter an interface (formatting) parameter?
				if ptv := fn.Pkg.Info.Types[k.Fun]; ptv.Type != nil {
					if sig, ok := ptv.Type.Underlying().(*types.Signature); ok {
						var pt types.Type
						np := sig.Params().Len()
						switch {
						case sig.Variadic() && ai >= np-1:
							if sl, ok := sig.Params().At(np - 1).Type().(*types.Slice); ok {
								pt = sl.Elem()
							}
						case ai < np:
							pt = sig.Params().At(ai).Type()
						}
						if pt != nil {
							if _, isIface := pt.Underlying().(*types.Interface); isIface {
								c.Fail(fn.QName()+"|formats-sliceMachine", pr.Pos(k.Pos()),
									"a *sliceMachine is formatted (its String method reads the manager-owned health field) outside the machine manager's goroutine")
							}
						}
					}
				}
			}
		}
	}
	c.Pass("exec.(*sliceMachine).String|only-formatted-by-the-manager", "exec/slicemachine.go", "no formatter call outside the manager takes a *sliceMachine")
	// the owner set still exists
	for q := range owner {
		if strings.HasSuffix(q, ".Do") || q == "exec.schedule" {
			c.Check(pr.Fn(q) != nil, q+"|exists", "", "owner function "+q+" not found")
		}
	}
	_ = n
}

func c19r3(c *RC) {
	pr := c.P
	want := map[string]string{"Worker.Compile": "Compiles", "Worker.CommitCombiner": "Commits"}
	found := map[string]int{}
	for _, fn := range pr.FuncsIn("exec") {
		if fn.Body == nil {
			continue
		}
		for _, call := range directCalls(fn.Body) {
			cn := fn.Pkg.CalleeName(call)
			if !strings.HasSuffix(cn, "RetryCall") && !strings.HasSuffix(cn, "Machine).Call") {
				continue
			}
			if len(call.Args) < 2 {
				continue
			}
			name := strings.Trim(nodeSrc0(pr, call.Args[1]), `"`)
			guard, tracked := want[name]
			if !tracked {
				continue
			}
			found[name]++
			// the call must sit in a literal passed to <m>.<guard>.Do(key, literal)
			ok := false
			for f := fn; f != nil && f.Lit != nil; f = f.Parent {
				p := f.Parent
				if p == nil || p.Body == nil {
					break
				}
				ast.Inspect(p.Body, func(nd ast.Node) bool {
					k, isC := nd.(*ast.CallExpr)
					if !isC || len(k.Args) != 2 || k.Args[1] != ast.Expr(f.Lit) {
						return true
					}
					if sel, isS := k.Fun.(*ast.SelectorExpr); isS && sel.Sel.Name == "Do" && strings.HasSuffix(expr(sel.X), "."+guard) {
						ok = true
					}
					return true
				})
			}
			c.Check(ok, fmt.Sprintf("%s|%s-under-%s.Do", fn.Root().QName(), name, guard), pr.Pos(call.Pos()),
				fmt.Sprintf("the RPC %s is issued outside the machine's %s once.Map: two tasks racing for the same machine both issue it (double compilation / double commit of a combiner)", name, guard))
		}
	}
	for name := range want {
		c.Check(found[name] >= 1, "exec|issues:"+name, "exec/bigmachine.go", "no call of "+name+" found")
	}
	// the worker side is idempotent too: Compile runs under w.compiles.Do keyed by the invocation index
	if w := c.MustFn("exec.(*worker).Compile"); w != nil {
		ok := false
		for _, k := range callsIn(w.Body) {
			if sel, isS := k.Fun.(*ast.SelectorExpr); isS && sel.Sel.Name == "Do" && strings.HasSuffix(expr(sel.X), ".compiles") && len(k.Args) == 2 && strings.HasSuffix(expr(k.Args[0]), ".Index") {
				ok = true
			}
		}
		c.Check(ok, w.QName()+"|once-per-invocation", pr.Pos(w.Body.Pos()), "the worker no longer compiles each invocation at most once (once.Map keyed by invocation index)")
	}
}
