package main

import (
	"fmt"
	"go/ast"
	"go/token"
	"go/types"
	"strings"
)

func init() {
	registerProperty(&Property{
		ID:          "C10",
		Explanation: "Decides structural necessary conditions of the external sort / merge / reduce-merge: (R1) in SortReader every run is sorted (sort.Sort on the very frame) immediately before it is spilled; (R2) once the spiller exists every exit of SortReader passes its Cleanup; (R3) no error of an input read, fill, spill or reader construction in sortio, cogroup.go and reduce.go is dropped or overwritten (error-value flow), and the end-of-stream sentinel is manufactured only at the sanctioned exhaustion sites (FrameBuffer.Fill: Len == 0 && err == nil; merge/reduce/cogroup: nothing produced / heap empty); (R4) after the cursor of the heap's top buffer moves, every path repairs the heap (Fix/Remove for merge and cogroup; push-back unless the refill hit end-of-stream for reduce) before the top is consulted again; (R5) the readers test their sticky error first and store every error they return; (R6) the reduce reader stores the combined value into the output row before any buffer of the group is refilled. Not decided: sortedness and multiset equality of the output (value-level).",
		Rules: []Rule{
			{ID: "C10-R1", Doc: "sort precedes spill", Run: c10r1},
			{ID: "C10-R2", Doc: "spill directory cleaned on every exit", Run: c10r2},
			{ID: "C10-R3", Doc: "input errors are reported; EOF only at sanctioned sites", Run: c10r3},
			{ID: "C10-R4", Doc: "heap repaired after every cursor move", Run: c10r4},
			{ID: "C10-R5", Doc: "sticky terminal state", Run: c10r5},
			{ID: "C10-R6", Doc: "combined value stored before refill", Run: c10r6},
			{ID: "C10-R7", Doc: "the sorter's fill frame is resized to a size clamped from below by a positive constant", Run: c10r7},
			{ID: "C10-R8", Doc: "a merge heap is heapified after it has been filled", Run: c10r8},
			{ID: "C10-R9", Doc: "a merge cursor moves only past a row that was taken", Run: c10r9},
			{ID: "C10-R10", Doc: "no integer division on the sort/merge path can divide by zero", Run: c10r10},
			{ID: "C10-R11", Doc: "frames on which a reader compares or hashes keys take their key prefix from the reader's own type, never from the caller's destination frame", Run: c10r11},
			{ID: "C10-R12", Doc: "a loop over the input readers visits every reader (no break, no success return inside it)", Run: c10r12},
			{ID: "C11-R10", Doc: "comparison and hashing cover every key column, so keys equal for the hash are equal for the order (shared)", Run: c11r10},
			{ID: "C17-R9", Doc: "a pump loop ends exactly at end-of-stream (shared)", Run: c17r9},
			{ID: "C01-R3", Doc: "operator row loops visit every row read exactly once, at its own index, and write it at the next free output row (shared)", Run: c01r3},
			{ID: "C17-R7", Doc: "no compound nil/end-of-stream test is constant (shared)", Run: c17r7},
		},
	})
}

func c10r1(c *RC) {
	pr := c.P
	check := func(qname string, spillCallee string, floor int) {
		fn := c.MustFn(qname)
		if fn == nil {
			return
		}
		fl := pr.Flow(fn)
		n := 0
		for _, call := range callsIn(fn.Body) {
			cn := fn.Pkg.CalleeName(call)
			if cn != spillCallee || len(call.Args) < 1 {
				continue
			}
			n++
			target := expr(call.Args[0])
			loc, ok := fl.LocOf(call)
			if !ok {
				c.Undecide("%s: spill call not in CFG", qname)
				continue
			}
			bad := false
			var trail []string
			fl.Walk(fl.Entry(), "", nil, Visitor{NoFacts: true,
				Node: func(nd ast.Node, x string, s *Step) (string, bool) {
					for _, k := range callsIn(nd) {
						kn := fn.Pkg.CalleeName(k)
						switch {
						case k == call:
							if x != "sorted" {
								bad = true
								trail = s.Trail()
							}
							x = ""
						case kn == "sort.Sort" && len(k.Args) == 1 && expr(k.Args[0]) == target:
							x = "sorted"
						case kn == "sort.Sort":
						case kn == "sliceio.ReadFull" || kn == "sliceio.Reader.Read" || strings.HasSuffix(kn, ".Combine") || strings.HasSuffix(kn, ".Compact"):
							x = ""
						}
					}
					if a, ok := nd.(*ast.AssignStmt); ok {
						for i, l := range a.Lhs {
							if expr(l) == target {
								// (re)definition of the frame: unsorted unless it is sorted later
								_ = i
								x = ""
							}
						}
					}
					_ = loc
					return x, false
				}})
			c.Check(!bad, fmt.Sprintf("%s|sorted-before-%s#%d", qname, shortCallee(spillCallee), n), pr.Pos(call.Pos()),
				fmt.Sprintf("%s is handed %s on a path where sort.Sort(%s) did not run since the frame was last filled: the run on disk is unsorted and the merge emits rows out of order", shortCallee(spillCallee), target, target), trail...)
		}
		c.Floor("spill sites in "+qname, n, floor)
	}
	check("sortio.SortReader", "sliceio.Spiller.Spill", 1)
}

func c10r2(c *RC) {
	pr := c.P
	fn := c.MustFn("sortio.SortReader")
	if fn == nil {
		return
	}
	fq := fn.QName()
	fl := pr.Flow(fn)
	var mk *ast.CallExpr
	spillVar := ""
	inspectNoLit(fn.Body, func(n ast.Node) bool {
		if a, ok := n.(*ast.AssignStmt); ok && len(a.Rhs) == 1 {
			if call, ok := a.Rhs[0].(*ast.CallExpr); ok && fn.Pkg.CalleeName(call) == "sliceio.NewSpiller" {
				mk = call
				spillVar = expr(a.Lhs[0])
			}
		}
		return true
	})
	if mk == nil {
		c.Fail(fq+"|creates-spiller", pr.Pos(fn.Body.Pos()), "SortReader no longer creates its spiller with sliceio.NewSpiller")
		return
	}
	loc, _ := fl.LocOf(mk)
	isCleanup := func(call *ast.CallExpr) bool {
		if fn.Pkg.CalleeName(call) != "sliceio.Spiller.Cleanup" {
			return false
		}
		sel, _ := call.Fun.(*ast.SelectorExpr)
		return sel != nil && expr(sel.X) == spillVar
	}
	nex := 0
	fl.Walk(Loc{loc.B, loc.I + 1}, "0", nil, Visitor{
		Enter: func(from, to *cfg2Block, x string, s *Step) (string, bool) {
			// the constructor's own failure branch owns nothing
			if from == loc.B {
				if _, ok := nonNilEdge(fl, from, to); ok {
					return x, true
				}
			}
			return x, false
		},
		Node: func(n ast.Node, x string, s *Step) (string, bool) {
			if d, ok := n.(*ast.DeferStmt); ok {
				hit := false
				if lit, ok := d.Call.Fun.(*ast.FuncLit); ok {
					for _, call := range callsIn(lit.Body) {
						if isCleanup(call) {
							hit = true
						}
					}
				} else if isCleanup(d.Call) {
					hit = true
				}
				if hit {
					return "1", false
				}
				return x, false
			}
			for _, call := range callsIn(n) {
				if isCleanup(call) {
					return "1", false
				}
			}
			return x, false
		},
		Exit: func(kind ExitKind, ret *ast.ReturnStmt, x string, s *Step) {
			if kind == ExitPanic {
				return
			}
			nex++
			c.Check(x == "1", fq+"|exit:"+exitKey(fl, s, ret)+"|Cleanup", fl.exitPos(s, ret),
				"SortReader returns on this path without removing its spill directory: spill files outlive the reader's creation", s.Trail()...)
		}})
	if nex == 0 {
		c.Undecide("%s: no exits after NewSpiller", fq)
	}
}

// readerLikeCallee: calls whose error result carries an input's error.
func c10callee(cn string) bool {
	switch cn {
	case "sliceio.Reader.Read", "sliceio.ReadCloser.Read", "sliceio.ReadFull", "sortio.(*FrameBuffer).Fill",
		"sliceio.Spiller.Spill", "sliceio.Spiller.ClosingReaders", "sliceio.Spiller.Readers",
		"sortio.SortReader", "sortio.NewMergeReader", "sliceio.NewSpiller", "sliceio.(*Encoder).Write":
		return true
	}
	return false
}

func c10r3(c *RC) {
	pr := c.P
	var fns []*Func
	fns = append(fns, pr.FuncsIn("sortio")...)
	fns = append(fns, pr.FuncsInFile("cogroup.go")...)
	fns = append(fns, pr.FuncsInFile("reduce.go")...)
	// Spiller.Spill itself and ReadFull
	for _, q := range []string{"sliceio.Spiller.Spill", "sliceio.ReadFull", "sliceio.Spiller.ClosingReaders", "sliceio.Spiller.Readers"} {
		if f := pr.Fn(q); f != nil {
			fns = append(fns, f)
			fns = append(fns, f.Lits...)
		}
	}
	n := errSites(c, fns, func(fn *Func, call *ast.CallExpr, cn string) bool {
		if c10callee(cn) {
			return true
		}
		// file-level operations inside Spill/Readers
		if fn.Root().QName() == "sliceio.Spiller.Spill" || fn.Root().QName() == "sliceio.Spiller.Readers" {
			switch cn {
			case "io/ioutil.TempFile", "os.(*File).Seek", "os.(*File).Close", "os.Open", "github.com/grailbio/base/file.Lister.Err":
				return true
			}
		}
		return false
	}, ErrFlowOpts{SentinelOK: []string{"sliceio.EOF"}}, nil)
	c.Floor("input/spill error sites", n, 8)
	// EOF manufacture in these functions: sanctioned sites only
	eofSites(c, fns)
}

// eofTable: the sanctioned sites at which the end-of-stream sentinel is
// produced (not merely propagated), with the facts that must hold there.
// Confirmed by reading; one line of reason each.
var eofTable = map[string]struct {
	need   [][2]string // normalised fact key (see Flow.NormKey) -> value, all required
	reason string
}{
	"sortio.(*FrameBuffer).Fill":     {[][2]string{{"$r.Len", "0"}, {"$error", "nil"}}, "an empty read is documented as end of input for merge buffers"},
	"sortio.(*mergeReader).Read":     {[][2]string{{"$int", "0"}}, "nothing was produced: no buffer is left"},
	"sortio.(*reader).Read":          {[][2]string{{"len($r.heap.Buffers)", "0"}}, "all inputs exhausted"},
	".(*cogroupReader).Read":         {[][2]string{{"$int", "0"}}, "nothing was produced: no buffer is left"},
	"sliceio.(*multiReader).Read":    {[][2]string{{"len($r.q)>0", "false"}}, "all readers consumed"},
	"exec.(*multiReader).Read":       {[][2]string{{"len($r.q)>0", "false"}}, "all readers consumed"},
	"sliceio.(*frameReader).Read":    {[][2]string{{"$r.Frame.Len()", "0"}}, "frame exhausted"},
	"sliceio.EmptyReader.Read":       {nil, "always empty"},
	"sliceio.(*Scanner).Scan":        {[][2]string{{"$r.atEOF", "true"}}, "upstream already signalled end-of-stream"},
	"sliceio.(*decodingReader).Read": {[][2]string{{"$r.err", "io.EOF"}}, "byte stream ended at a batch boundary"},
	"exec.(*taskBufferReader).Read":  {nil, "buffer index reached the end (switch case len(r.q) == r.i)"},
	".(*constReader).Read":           {[][2]string{{"$int", "0"}}, "shard frame exhausted"},
	".(*flatmapReader).Read":         {[][2]string{{"$r.eof", "true"}, {"$r.out.Len()", "0"}, {"$r.begIn==$r.endIn", "true"}}, "upstream ended, no buffered output and no unexpanded input"},
	".(*headReader).Read":            {[][2]string{{"$r.n<=0", "true"}}, "quota used up"},
	".(*scanReader).Read":            {[][2]string{{"$error", "nil"}}, "scan callback finished"},
	".(*stringAccumulator).Read":     {[][2]string{{"len($r.state)", "0"}}, "accumulator drained"},
	".(*intAccumulator).Read":        {[][2]string{{"len($r.state)", "0"}}, "accumulator drained"},
	".(*int64Accumulator).Read":      {[][2]string{{"len($r.state)", "0"}}, "accumulator drained"},
	".skip":                          {[][2]string{{"$error", "nil"}}, "the line scanner stopped (Scan false) without an error"},
}

// eofSites checks every site in fns where the sentinel sliceio.EOF is used as
// a value (returned or assigned), as opposed to compared.
func eofSites(c *RC, fns []*Func) {
	pr := c.P
	isEOF := func(pk *Pkg, e ast.Expr) bool {
		var id *ast.Ident
		switch x := ast.Unparen(e).(type) {
		case *ast.Ident:
			id = x
		case *ast.SelectorExpr:
			id = x.Sel
		}
		if id == nil {
			return false
		}
		v, ok := pk.Info.Uses[id].(*types.Var)
		return ok && v.Pkg() != nil && v.Pkg().Path() == modulePath+"/sliceio" && v.Name() == "EOF"
	}
	seen := map[*Func]bool{}
	for _, fn := range fns {
		if fn.Body == nil || seen[fn] {
			continue
		}
		seen[fn] = true
		fl := pr.Flow(fn)
		for _, b := range fl.G.Blocks {
			if !b.Live {
				continue
			}
			for i, nd := range b.Nodes {
				uses := false
				switch a := nd.(type) {
				case *ast.ReturnStmt:
					for _, r := range a.Results {
						if isEOF(fn.Pkg, r) {
							uses = true
						}
					}
				case *ast.AssignStmt:
					for _, r := range a.Rhs {
						if isEOF(fn.Pkg, r) {
							uses = true
						}
					}
				}
				if !uses {
					continue
				}
				fq := fn.QName()
				key := fq + "|EOF-produced"
				entry, sanctioned := eofTable[fq]
				// facts on every path reaching this node
				okAll := true
				var trail []string
				why := ""
				fl.Walk(fl.Entry(), "", nil, Visitor{
					Node: func(n2 ast.Node, x string, s *Step) (string, bool) {
						if s.Block != b || s.Idx != i {
							return x, false
						}
						// propagation: some error variable is known to be EOF
						for _, f := range s.Facts {
							if f.eq && f.val == "sliceio.EOF" {
								return x, true
							}
						}
						if !sanctioned {
							okAll = false
							why = "this function is not a sanctioned end-of-stream site"
							trail = s.Trail()
							return x, true
						}
						for _, need := range entry.need {
							got := ""
							for _, f := range s.Facts {
								if fl.NormKey(f.key) == need[0] && f.eq && (got == "" || f.val == need[1]) {
									got = f.val
								}
							}
							if got != need[1] {
								okAll = false
								why = fmt.Sprintf("it requires %s == %s here (%s) but the path only knows %q", need[0], need[1], entry.reason, s.Facts.String())
								trail = s.Trail()
							}
						}
						return x, true
					}})
				c.Check(okAll, key, pr.Pos(nd.Pos()),
					"the end-of-stream sentinel is produced (not propagated) where nothing justifies it: "+why+" — rows after this point are silently dropped", trail...)
			}
		}
	}
}

func c10r4(c *RC) {
	pr := c.P
	// merge and cogroup: after `<top>.Index++`, every path to the next
	// evaluation of the enclosing loop's condition (or exit without error)
	// passes heap.Fix/heap.Remove.
	for _, q := range []string{"sortio.(*mergeReader).Read", ".(*cogroupReader).Read"} {
		fn := c.MustFn(q)
		if fn == nil {
			continue
		}
		fl := pr.Flow(fn)
		n := 0
		for _, b := range fl.G.Blocks {
			if !b.Live {
				continue
			}
			for i, nd := range b.Nodes {
				inc, ok := nd.(*ast.IncDecStmt)
				if !ok || inc.Tok != token.INC {
					continue
				}
				sel, ok := inc.X.(*ast.SelectorExpr)
				if !ok || pr.fieldQName(fn.Pkg.FieldOf(sel)) != "sortio.FrameBuffer.Index" {
					continue
				}
				n++
				okAll := true
				var trail []string
				fl.Walk(Loc{b, i + 1}, "", nil, Visitor{NoFacts: true,
					Node: func(n2 ast.Node, x string, s *Step) (string, bool) {
						for _, call := range callsIn(n2) {
							cn := fn.Pkg.CalleeName(call)
							if cn == "container/heap.Fix" || cn == "container/heap.Remove" {
								return x, true
							}
						}
						// reaching the loop condition again or another cursor move without repair
						if n2 == ast.Node(inc) {
							okAll = false
							trail = s.Trail()
							return x, true
						}
						return x, false
					},
					Enter: func(from, to *cfg2Block, x string, s *Step) (string, bool) {
						if (to.Kind.String() == "ForLoop" || to.Kind.String() == "RangeLoop") && to.Stmt == enclosingLoop(fn.Body, inc) {
							okAll = false
							trail = s.Trail()
							return x, true
						}
						return x, false
					},
					Exit: func(kind ExitKind, ret *ast.ReturnStmt, x string, s *Step) {
						// returning an error without repair is fine: the reader is dead
						if ret != nil && len(ret.Results) == 2 {
							if tv := fn.Pkg.Info.Types[ret.Results[1]]; !tv.IsNil() && expr(ret.Results[1]) != "nil" {
								return
							}
						}
						if kind == ExitPanic {
							return
						}
						okAll = false
						trail = s.Trail()
					}})
				c.Check(okAll, fmt.Sprintf("%s|heap-repaired-after-cursor-move#%d", q, n), pr.Pos(inc.Pos()),
					"after the cursor of the heap's top buffer advances, a path reaches the next loop iteration without heap.Fix/heap.Remove: the heap order is stale and rows are emitted out of key order", trail...)
			}
		}
		c.Floor("cursor moves in "+q, n, 1)
	}
	// reduce: every buffer popped for a group is pushed back unless its refill
	// returned EOF (or the reader fails)
	fn := c.MustFn("sortio.(*reader).Read")
	if fn == nil {
		return
	}
	fl := pr.Flow(fn)
	n := 0
	for _, b := range fl.G.Blocks {
		if !b.Live {
			continue
		}
		for i, nd := range b.Nodes {
			inc, ok := nd.(*ast.IncDecStmt)
			if !ok || inc.Tok != token.INC {
				continue
			}
			sel, ok := inc.X.(*ast.SelectorExpr)
			if !ok || pr.fieldQName(fn.Pkg.FieldOf(sel)) != "sortio.FrameBuffer.Index" {
				continue
			}
			n++
			buf := expr(sel.X)
			okAll := true
			var trail []string
			fl.Walk(Loc{b, i + 1}, "", nil, Visitor{
				Node: func(n2 ast.Node, x string, s *Step) (string, bool) {
					for _, call := range callsIn(n2) {
						if fn.Pkg.CalleeName(call) == "container/heap.Push" && len(call.Args) == 2 && expr(call.Args[1]) == buf {
							return x, true
						}
					}
					return x, false
				},
				Enter: func(from, to *cfg2Block, x string, s *Step) (string, bool) {
					if (to.Kind.String() == "RangeLoop" || to.Kind.String() == "ForLoop") && to.Stmt == enclosingLoop(fn.Body, inc) {
						// next buffer of the group / next group: this buffer was dropped;
						// legitimate only if its refill hit EOF
						eof := false
						for _, f := range s.Facts {
							if f.eq && f.val == "sliceio.EOF" {
								eof = true
							}
						}
						if !eof {
							okAll = false
							trail = s.Trail()
						}
						return x, true
					}
					return x, false
				},
				Exit: func(kind ExitKind, ret *ast.ReturnStmt, x string, s *Step) {
					if ret != nil && len(ret.Results) == 2 && expr(ret.Results[1]) != "nil" {
						return
					}
					if kind == ExitPanic {
						return
					}
					okAll = false
					trail = s.Trail()
				}})
			c.Check(okAll, fmt.Sprintf("sortio.(*reader).Read|popped-buffer-pushed-back#%d", n), pr.Pos(inc.Pos()),
				"a buffer popped for the current key group is neither pushed back onto the heap nor at end-of-stream when the loop moves on: the rest of that input is silently dropped", trail...)
		}
	}
	c.Floor("cursor moves in sortio.(*reader).Read", n, 1)
}

// stickyCheck: fn's first statement returns the sticky error; every return of
// a possibly-bad error variable is preceded by storing it in the sticky field.
func stickyFirst(c *RC, fn *Func) string {
	pr := c.P
	sticky := ""
	if len(fn.Body.List) > 0 {
		for _, st := range fn.Body.List {
			if _, isDecl := st.(*ast.DeclStmt); isDecl {
				continue
			}
			if ifs, ok := st.(*ast.IfStmt); ok {
				if tx, nonNil, ok := nilTest(ifs.Cond); ok && nonNil {
					for _, s2 := range ifs.Body.List {
						if ret, ok := s2.(*ast.ReturnStmt); ok && len(ret.Results) == 2 && expr(ret.Results[1]) == tx {
							if v, ok := constInt(fn.Pkg, ret.Results[0]); ok && v == 0 {
								sticky = tx
							}
						}
					}
				}
			}
			break
		}
	}
	c.Check(sticky != "" && strings.Contains(sticky, "."), fn.QName()+"|sticky-error-tested-first", pr.Pos(fn.Body.Pos()),
		"Read no longer starts by returning (0, sticky error): after a failure or end-of-stream a later Read would touch exhausted or broken inputs again")
	return sticky
}

func c10r5(c *RC) {
	pr := c.P
	for _, q := range []string{"sortio.(*mergeReader).Read", "sortio.(*reader).Read", ".(*cogroupReader).Read"} {
		fn := c.MustFn(q)
		if fn == nil {
			continue
		}
		sticky := stickyFirst(c, fn)
		if sticky == "" {
			continue
		}
		// every `return X, err` inside an `err != nil ...` branch is preceded by sticky = err
		n := 0
		var visit func(list []ast.Stmt, inErrBranch string)
		visit = func(list []ast.Stmt, inErr string) {
			for i, st := range list {
				switch x := st.(type) {
				case *ast.ReturnStmt:
					if len(x.Results) != 2 || inErr == "" {
						continue
					}
					ev := expr(x.Results[1])
					if ev != inErr {
						continue
					}
					n++
					stored := false
					for j := 0; j < i; j++ {
						if a, ok := list[j].(*ast.AssignStmt); ok && len(a.Lhs) == 1 && expr(a.Lhs[0]) == sticky && expr(a.Rhs[0]) == ev {
							stored = true
						}
					}
					c.Check(stored, fmt.Sprintf("%s|error-return-stored#%d", q, n), pr.Pos(x.Pos()),
						fmt.Sprintf("the reader returns %s without first storing it in %s: the next Read carries on past the failed input", ev, sticky))
				case *ast.IfStmt:
					ev := inErr
					if nm, ok := impliesError(x.Cond); ok && !strings.Contains(nm, ".") {
						ev = nm
					}
					visit(x.Body.List, ev)
					switch e := x.Else.(type) {
					case *ast.BlockStmt:
						visit(e.List, inErr)
					case *ast.IfStmt:
						visit([]ast.Stmt{e}, inErr)
					}
				case *ast.ForStmt:
					visit(x.Body.List, inErr)
				case *ast.RangeStmt:
					visit(x.Body.List, inErr)
				case *ast.BlockStmt:
					visit(x.List, inErr)
				case *ast.SwitchStmt:
					for _, cs := range x.Body.List {
						cc := cs.(*ast.CaseClause)
						ev := inErr
						if len(cc.List) == 1 {
							if tx, nonNil, ok := nilTest(cc.List[0]); ok && nonNil {
								ev = tx
							}
						}
						visit(cc.Body, ev)
					}
				}
			}
		}
		visit(fn.Body.List, "")
		c.Floor("error returns in "+q, n, 1)
	}
}

func c10r6(c *RC) {
	pr := c.P
	fn := c.MustFn("sortio.(*reader).Read")
	if fn == nil {
		return
	}
	fq := fn.QName()
	fl := pr.Flow(fn)
	// the store: <out>.Index(vcol, n).Set(combined); combined = variable assigned from combiner.Call
	var combined string
	inspectNoLit(fn.Body, func(n ast.Node) bool {
		if a, ok := n.(*ast.AssignStmt); ok && len(a.Lhs) == 1 && len(a.Rhs) == 1 {
			found := false
			ast.Inspect(a.Rhs[0], func(m ast.Node) bool {
				if call, ok := m.(*ast.CallExpr); ok && fn.Pkg.CalleeName(call) == "slicefunc.Func.Call" {
					found = true
				}
				return true
			})
			if found {
				combined = expr(a.Lhs[0])
			}
		}
		return true
	})
	if combined == "" {
		c.Fail(fq+"|combines", pr.Pos(fn.Body.Pos()), "the reduce reader no longer calls the combiner")
		return
	}
	var set *ast.CallExpr
	for _, call := range callsIn(fn.Body) {
		if strings.HasSuffix(fn.Pkg.CalleeName(call), "reflect.Value.Set") && len(call.Args) == 1 && expr(call.Args[0]) == combined {
			set = call
		}
	}
	if set == nil {
		c.Fail(fq+"|stores-combined", pr.Pos(fn.Body.Pos()), "the combined value is never stored into the output row")
		return
	}
	// on every path from the Set backwards... equivalently: no Fill call is
	// reachable between the last write of `combined` and the Set.
	bad := false
	var trail []string
	fl.Walk(fl.Entry(), "", nil, Visitor{NoFacts: true,
		Node: func(n ast.Node, x string, s *Step) (string, bool) {
			if a, ok := n.(*ast.AssignStmt); ok {
				for _, l := range a.Lhs {
					if expr(l) == combined {
						x = "fresh"
					}
				}
			}
			for _, call := range callsIn(n) {
				cn := fn.Pkg.CalleeName(call)
				if call == set {
					if x == "stale" {
						bad = true
						trail = s.Trail()
					}
					x = ""
				}
				if cn == "sortio.(*FrameBuffer).Fill" && x == "fresh" {
					x = "stale"
				}
			}
			return x, false
		}})
	c.Check(!bad, fq+"|combined-stored-before-refill", pr.Pos(set.Pos()),
		"a buffer of the key group is refilled between computing the combined value and storing it in the output row: for a key present in one input only the value aliases the buffer slot and is overwritten by the refill", trail...)
}

// enclosingLoop returns the innermost for/range statement containing n.
func enclosingLoop(root ast.Node, n ast.Node) ast.Stmt {
	var best ast.Stmt
	for _, p := range pathTo(root, n) {
		switch x := p.(type) {
		case *ast.ForStmt:
			best = x
		case *ast.RangeStmt:
			best = x
		}
	}
	return best
}
