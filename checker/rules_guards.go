package main

// Guard evaluation helpers and three rules built on them (sixth round; each
// from a seeded change the earlier rules missed because the changed code kept
// the construct the rules looked for and weakened the condition under which
// it runs):
//
//   C11-R7  a frame parameter is replaced by a frame built from another frame
//           (which carries that other frame's key prefix) only where the
//           parameter is known to be the zero frame            (seed C11-c2)
//   C11-R8  Copy moves rows element by element only when a single row is
//           copied: a forward element-wise copy of overlapping views of one
//           backing store duplicates rows                      (seed C11-c3)
//   C10-R11 frames on which a reader compares or hashes keys take their key
//           prefix from the reader's own type, never from the caller's
//           destination frame                                  (seed C10-c1)
//
// The conditions that hold at a statement are collected from the enclosing
// ifs (which branch the statement sits in) and from the early exits that
// precede it in the enclosing blocks; each is evaluated in three-valued logic
// under a scenario ("the parameter is not the zero frame", "more than one row
// is copied") and the rule demands that some condition certainly excludes
// the scenario.  Nothing is matched as text.

import (
	"fmt"
	"go/ast"
	"os"
	"sort"
	"go/constant"
	"go/token"
	"go/types"
	"strings"
)

type guardAt struct {
	cond ast.Expr
	val  bool // the value cond has when control reaches the statement
}

// terminates: the block cannot fall out of its end (return, panic, continue,
// break, goto as last statement).
func blockTerminates(pk *Pkg, b *ast.BlockStmt) bool {
	if b == nil || len(b.List) == 0 {
		return false
	}
	switch s := b.List[len(b.List)-1].(type) {
	case *ast.ReturnStmt:
		return true
	case *ast.BranchStmt:
		return s.Tok == token.CONTINUE || s.Tok == token.BREAK || s.Tok == token.GOTO
	case *ast.ExprStmt:
		if k, ok := s.X.(*ast.CallExpr); ok {
			if id, ok := k.Fun.(*ast.Ident); ok && id.Name == "panic" {
				return true
			}
			return !pk.mayReturn(k)
		}
	}
	return false
}

// guardsAt returns the conditions known at target inside fn: for every
// enclosing if, the condition with the value of the branch target sits in;
// for every statement list on the way, the negation of each preceding
// `if c { ...; return }` without else.  (Loops are not unrolled: a guard
// established before a loop holds inside it only for variables the caller
// knows to be loop-invariant; callers use parameters and method calls on
// them.)
func guardsAt(fn *Func, target ast.Node) []guardAt {
	var out []guardAt
	path := pathTo(fn.Body, target)
	for i, nd := range path {
		var next ast.Node
		if i+1 < len(path) {
			next = path[i+1]
		} else {
			next = target
		}
		switch x := nd.(type) {
		case *ast.IfStmt:
			if next == ast.Node(x.Body) {
				out = append(out, guardAt{x.Cond, true})
			} else if x.Else != nil && next == ast.Node(x.Else) {
				out = append(out, guardAt{x.Cond, false})
			}
		case *ast.BlockStmt:
			for _, st := range x.List {
				if st == next {
					break
				}
				if ifs, ok := st.(*ast.IfStmt); ok && ifs.Else == nil && ifs.Init == nil && blockTerminates(fn.Pkg, ifs.Body) {
					out = append(out, guardAt{ifs.Cond, false})
				}
			}
		case *ast.CaseClause:
			for _, st := range x.Body {
				if st == next {
					break
				}
				if ifs, ok := st.(*ast.IfStmt); ok && ifs.Else == nil && ifs.Init == nil && blockTerminates(fn.Pkg, ifs.Body) {
					out = append(out, guardAt{ifs.Cond, false})
				}
			}
		case *ast.CommClause:
			for _, st := range x.Body {
				if st == next {
					break
				}
				if ifs, ok := st.(*ast.IfStmt); ok && ifs.Else == nil && ifs.Init == nil && blockTerminates(fn.Pkg, ifs.Body) {
					out = append(out, guardAt{ifs.Cond, false})
				}
			}
		}
	}
	return out
}

// excludedBy: under the scenario described by atom, some guard certainly has
// the other value, so the statement is not reached in that scenario.
func excludedBy(gs []guardAt, atom func(ast.Expr) (bool, bool)) bool {
	for _, g := range gs {
		if v, known := evalCond3(g.cond, atom); known && v != g.val {
			return true
		}
	}
	return false
}

// clauseAtom evaluates comparison leaves under "form rel 0" (integers), as
// C18-R8 does; other leaves go to extra (may be nil).
func clauseAtom(norm func(ast.Expr) lin, form lin, rel string, extra func(ast.Expr) (bool, bool)) func(ast.Expr) (bool, bool) {
	return func(e ast.Expr) (bool, bool) {
		e = ast.Unparen(e)
		if be, ok := e.(*ast.BinaryExpr); ok {
			switch be.Op {
			case token.EQL, token.NEQ, token.LSS, token.LEQ, token.GTR, token.GEQ:
				d := norm(be.X)
				d.addScaled(norm(be.Y), -1)
				for _, sgn := range []int{1, -1} {
					rest := lin{}
					rest.addScaled(d, 1)
					rest.addScaled(form, -sgn)
					nz := nonZero(rest)
					if len(nz) > 1 || (len(nz) == 1 && nz[0] != "") {
						continue
					}
					return truthInRange(be.Op, rel, sgn, int64(rest[""]))
				}
			}
		}
		if extra != nil {
			return extra(e)
		}
		return false, false
	}
}

// frameParams: the parameters (and receiver) of fn of type frame.Frame, by object.
func frameParams(fn *Func) map[types.Object]bool {
	out := map[types.Object]bool{}
	add := func(fl *ast.FieldList) {
		if fl == nil {
			return
		}
		for _, f := range fl.List {
			for _, nm := range f.Names {
				if o := fn.Pkg.Info.Defs[nm]; o != nil && isFrameType(o.Type()) {
					out[o] = true
				}
			}
		}
	}
	if fn.Decl != nil {
		add(fn.Decl.Recv)
	}
	if fn.Type != nil {
		add(fn.Type.Params)
	}
	return out
}

// C11-R7
func c11r7(c *RC) {
	pr := c.P
	n := 0
	for _, fn := range pr.FuncsIn("frame") {
		if fn.Body == nil || fn.Parent != nil {
			continue
		}
		params := frameParams(fn)
		if len(params) == 0 {
			continue
		}
		fq := fn.QName()
		inspectNoLit(fn.Body, func(nd ast.Node) bool {
			as, ok := nd.(*ast.AssignStmt)
			if !ok || as.Tok != token.ASSIGN || len(as.Lhs) != 1 || len(as.Rhs) != 1 {
				return true
			}
			lid, ok := as.Lhs[0].(*ast.Ident)
			if !ok || !params[fn.Pkg.Info.Uses[lid]] {
				return true
			}
			k, ok := ast.Unparen(as.Rhs[0]).(*ast.CallExpr)
			if !ok || fn.Pkg.CalleeName(k) != "frame.Make" || len(k.Args) < 1 {
				return true
			}
			src, ok := ast.Unparen(k.Args[0]).(*ast.Ident)
			if !ok || fn.Pkg.Info.Uses[src] == fn.Pkg.Info.Uses[lid] || !isFrameType(fn.Pkg.Info.TypeOf(src)) {
				return true
			}
			n++
			po := fn.Pkg.Info.Uses[lid]
			// scenario: the parameter is not the zero frame
			notZero := func(e ast.Expr) (bool, bool) {
				if kk, ok := ast.Unparen(e).(*ast.CallExpr); ok {
					if se, ok := kk.Fun.(*ast.SelectorExpr); ok && se.Sel.Name == "IsZero" {
						if id, ok := ast.Unparen(se.X).(*ast.Ident); ok && fn.Pkg.Info.Uses[id] == po && fn.Pkg.CalleeName(kk) == "frame.Frame.IsZero" {
							return false, true
						}
					}
				}
				return false, false
			}
			ok2 := excludedBy(guardsAt(fn, as), notZero)
			c.Check(ok2, fq+"|replaces:"+canon(fn, lid)+"|from:"+canon(fn, src), pr.Pos(as.Pos()),
				strings.TrimPrefix(fq, "frame.")+" replaces its frame parameter "+lid.Name+" by a fresh frame made from "+src.Name+" (which takes "+src.Name+"'s key prefix) on a path where "+lid.Name+" is not known to be the zero frame: a non-zero destination without spare capacity comes back with the source's prefix, so Less, Hash and sorting on the result use the wrong key columns")
			return true
		})
	}
	c.Floor("frame parameters replaced by a frame made from another frame", n, 1)
}

// C11-R8
func c11r8(c *RC) {
	pr := c.P
	fn := c.MustFn("frame.Copy")
	if fn == nil {
		return
	}
	fq := fn.QName()
	le := newLinEnv(pr, fn)
	norm := func(e ast.Expr) lin { return le.norm(e, 0) }
	// parameters of type Frame, positional
	var ps []string
	if fn.Type.Params != nil {
		i := 0
		for _, f := range fn.Type.Params.List {
			for range f.Names {
				ps = append(ps, "$p"+itoa(i))
				i++
			}
		}
	}
	if len(ps) != 2 {
		c.Undecide("frame.Copy no longer takes (dst, src)")
		return
	}
	// a descending row loop containing an assign makes the function direction-aware
	directionAware := false
	inspectNoLit(fn.Body, func(nd ast.Node) bool {
		fs, ok := nd.(*ast.ForStmt)
		if !ok {
			return true
		}
		if ids, ok := fs.Post.(*ast.IncDecStmt); ok && ids.Tok == token.DEC {
			for _, k := range callsIn(fs.Body) {
				if fn.Pkg.CalleeName(k) == "frame.assign" {
					directionAware = true
				}
			}
		}
		return true
	})
	n := 0
	for _, k := range callsIn(fn.Body) {
		if fn.Pkg.CalleeName(k) != "frame.assign" {
			continue
		}
		n++
		gs := guardsAt(fn, k)
		single := true
		for _, p := range ps {
			form := lin{p + ".Len()": 1, "": -1}
			if !excludedBy(gs, clauseAtom(norm, form, ">", nil)) {
				single = false
			}
		}
		c.Check(single || directionAware, fq+"|element-wise-copy-is-single-row", pr.Pos(k.Pos()),
			"Copy assigns elements one by one on a path where more than one row may be copied (no guard establishes that both frames have exactly one row): for two overlapping views of one backing store with the destination ahead of the source, a front-to-back element copy overwrites source rows before they are read — the bulk path (typedslicecopy) has memmove semantics, this one duplicates rows")
	}
	c.Floor("element-wise assignments in frame.Copy", n, 1)
}

// C10-R11
func c10r11(c *RC) {
	pr := c.P
	n := 0
	sensitive := map[string]bool{"Less": true, "Hash": true, "HashWithSeed": true, "Swap": true, "Prefix": true}
	for _, fn := range readerFuncs(pr) {
		if fn.Decl == nil || fn.Decl.Recv == nil || fn.Decl.Name.Name != "Read" || fn.Body == nil {
			continue
		}
		// the destination parameter
		var dst types.Object
		if fn.Type.Params != nil {
			for _, f := range fn.Type.Params.List {
				for _, nm := range f.Names {
					if o := fn.Pkg.Info.Defs[nm]; o != nil && isFrameType(o.Type()) {
						dst = o
					}
				}
			}
		}
		if dst == nil {
			continue
		}
		fq := fn.QName()
		// frames made from the destination (closures included: they run on behalf of Read)
		type made struct {
			text string
			pos  token.Pos
		}
		var mades []made
		ast.Inspect(fn.Body, func(nd ast.Node) bool {
			as, ok := nd.(*ast.AssignStmt)
			if !ok || len(as.Lhs) != len(as.Rhs) {
				return true
			}
			for i, r := range as.Rhs {
				k, ok := ast.Unparen(r).(*ast.CallExpr)
				if !ok || fn.Pkg.CalleeName(k) != "frame.Make" || len(k.Args) < 1 {
					continue
				}
				id, ok := ast.Unparen(k.Args[0]).(*ast.Ident)
				if !ok || fn.Pkg.Info.Uses[id] != dst {
					continue
				}
				mades = append(mades, made{strings.ReplaceAll(expr(as.Lhs[i]), " ", ""), as.Pos()})
			}
			return true
		})
		// prefix-sensitive uses in the methods of the same receiver type
		recvT := ""
		if len(fn.Decl.Recv.List) > 0 {
			recvT = strings.TrimPrefix(expr(fn.Decl.Recv.List[0].Type), "*")
		}
		var uses []string
		usePos := map[string]token.Pos{}
		for _, m := range pr.FuncsIn(fn.Pkg.Rel) {
			root := m.Root()
			if root.Decl == nil || root.Decl.Recv == nil || len(root.Decl.Recv.List) == 0 || strings.TrimPrefix(expr(root.Decl.Recv.List[0].Type), "*") != recvT || m.Body == nil {
				continue
			}
			if m.Parent != nil {
				continue // literals are visited through their root
			}
			ast.Inspect(m.Body, func(nd ast.Node) bool {
				k, ok := nd.(*ast.CallExpr)
				if !ok {
					return true
				}
				if se, ok := k.Fun.(*ast.SelectorExpr); ok && sensitive[se.Sel.Name] && isFrameType(m.Pkg.Info.TypeOf(se.X)) {
					t := strings.ReplaceAll(expr(se.X), " ", "")
					// same receiver name assumed within one type's methods only for field paths
					uses = append(uses, t)
					usePos[t] = k.Pos()
				}
				if m.Pkg.CalleeName(k) == "sort.Sort" && len(k.Args) == 1 && isFrameType(m.Pkg.Info.TypeOf(k.Args[0])) {
					t := strings.ReplaceAll(expr(k.Args[0]), " ", "")
					uses = append(uses, t)
					usePos[t] = k.Pos()
				}
				return true
			})
		}
		if len(uses) > 0 {
			n++
		}
		recv := recvOf(fn)
		for _, md := range mades {
			bad := ""
			for _, u := range uses {
				// a field path is compared modulo the receiver's name; a local by identity of text within Read
				if u == md.text || (recv != "" && strings.HasPrefix(md.text, recv+".") && strings.HasSuffix(u, md.text[len(recv):]) && strings.Count(u, ".") == strings.Count(md.text, ".")) {
					bad = u
				}
			}
			c.Check(bad == "", fq+"|keyed-frame-made-from-the-destination:"+unrecv(fn, md.text), pr.Pos(md.pos),
				strings.TrimPrefix(fq, ".")+" builds "+md.text+" with frame.Make from the caller's destination frame and then compares, hashes or sorts rows in it: the frame takes the caller's key prefix, which need not be the reader's (a prefix-less frame from ReadAll has prefix 1), so keys that differ only in a later key column are treated as equal — rows are merged, duplicated or emitted out of order")
		}
	}
	c.Floor("reader types that compare or hash rows of a frame", n, 2)
}

// C10-R12: a loop over the readers to be merged (or read in turn) visits every
// reader.  A `break` out of such a loop, or a `return` in it that reports
// success, silently drops every later input: the merge ends cleanly without
// their rows (seed C10-c3, where a `switch` arm "no data, skip" was rewritten
// as an `if` with a `break`, which in an `if` leaves the loop).
func c10r12(c *RC) {
	pr := c.P
	n := 0
	for _, fn := range readerFuncs(pr) {
		if fn.Body == nil {
			continue
		}
		fq := fn.QName()
		inspectNoLit(fn.Body, func(nd ast.Node) bool {
			rs, ok := nd.(*ast.RangeStmt)
			if !ok {
				return true
			}
			t := fn.Pkg.Info.TypeOf(rs.X)
			if t == nil {
				return true
			}
			sl, ok := t.Underlying().(*types.Slice)
			if !ok || short(namedQName(sl.Elem())) != "sliceio.Reader" {
				return true
			}
			n++
			bad := ""
			var badPos token.Pos
			var walk func(nd ast.Node, breakable bool)
			walk = func(nd ast.Node, inner bool) {
				ast.Inspect(nd, func(m ast.Node) bool {
					switch x := m.(type) {
					case *ast.FuncLit:
						return false
					case *ast.ForStmt:
						if m != nd {
							walk(x.Body, true)
							return false
						}
					case *ast.RangeStmt:
						if m != nd {
							walk(x.Body, true)
							return false
						}
					case *ast.SwitchStmt:
						walk(x.Body, true)
						return false
					case *ast.TypeSwitchStmt:
						walk(x.Body, true)
						return false
					case *ast.SelectStmt:
						walk(x.Body, true)
						return false
					case *ast.BranchStmt:
						if x.Tok == token.BREAK && (x.Label != nil || !inner) {
							// a labelled break is held to the same rule unless it names an inner statement
							if x.Label != nil {
								if ls, ok := labelTarget(fn, x.Label.Name); ok && ls != ast.Stmt(rs) && rs.Pos() <= ls.Pos() && ls.End() <= rs.End() {
									return true
								}
							}
							bad, badPos = "leaves the loop with break", x.Pos()
						}
					case *ast.ReturnStmt:
						if len(x.Results) > 0 {
							last := x.Results[len(x.Results)-1]
							if id, ok := ast.Unparen(last).(*ast.Ident); ok && id.Name == "nil" {
								if tt := fn.Pkg.Info.TypeOf(last); tt == nil || typeString(tt) == "untyped nil" {
									bad, badPos = "returns success from inside the loop", x.Pos()
								}
							}
						}
					}
					return true
				})
			}
			walk(rs.Body, false)
			pos := rs.Pos()
			if bad != "" {
				pos = badPos
			}
			c.Check(bad == "", fq+"|visits-every-reader:"+canon(fn, rs.X), pr.Pos(pos),
				strings.TrimPrefix(fq, ".")+" "+bad+" while ranging over its input readers ("+expr(rs.X)+"): the readers after that point are never examined, so their rows are dropped and the stream still ends cleanly")
			return true
		})
	}
	c.Floor("loops over a slice of input readers", n, 3)
}

func labelTarget(fn *Func, name string) (ast.Stmt, bool) {
	var out ast.Stmt
	ast.Inspect(fn.Body, func(m ast.Node) bool {
		if ls, ok := m.(*ast.LabeledStmt); ok && ls.Label.Name == name {
			out = ls.Stmt
		}
		return true
	})
	return out, out != nil
}

// C08-R10: a composed pragma answers "some element asks for it".
//
// Pragmas (the list a slice carries) implements Pragma by combining its
// elements.  For the boolean requests (Materialize, Exclusive) the
// combination is a disjunction: pipeline() must cut at a slice that carries
// ExperimentalMaterialize whatever other pragmas accompany it, and the
// executor must clamp an Exclusive task whatever else is asked.  Decided per
// method: every return inside the loop over the receiver's elements returns
// the constant true and is reached only when that element's own method said
// true (its guards are evaluated under "the element says false" and must
// exclude the return); every return outside the loop returns the constant
// false; the loop has such a return.  (Seed C08-c1 turned "any" into "all":
// the guard and both returns were still there.)
func c08r10(c *RC) {
	pr := c.P
	n := 0
	for _, name := range []string{"Materialize", "Exclusive"} {
		fn := c.MustFn(".Pragmas." + name)
		if fn == nil {
			continue
		}
		fq := fn.QName()
		recv := recvOf(fn)
		var loop *ast.RangeStmt
		inspectNoLit(fn.Body, func(nd ast.Node) bool {
			if rs, ok := nd.(*ast.RangeStmt); ok && loop == nil {
				if id, ok := ast.Unparen(rs.X).(*ast.Ident); ok && id.Name == recv {
					loop = rs
				}
			}
			return true
		})
		if loop == nil {
			c.Undecide("%s: no loop over the receiver's elements", fq)
			continue
		}
		var elem types.Object
		if id, ok := loop.Value.(*ast.Ident); ok {
			elem = fn.Pkg.Info.Defs[id]
		}
		elemFalse := func(e ast.Expr) (bool, bool) {
			k, ok := ast.Unparen(e).(*ast.CallExpr)
			if !ok {
				return false, false
			}
			se, ok := k.Fun.(*ast.SelectorExpr)
			if !ok || se.Sel.Name != name {
				return false, false
			}
			if id, ok := ast.Unparen(se.X).(*ast.Ident); ok && elem != nil && fn.Pkg.Info.Uses[id] == elem {
				return false, true
			}
			return false, false
		}
		constBool := func(e ast.Expr) (bool, bool) {
			if tv, ok := fn.Pkg.Info.Types[e]; ok && tv.Value != nil && tv.Value.Kind() == constant.Bool {
				return constant.BoolVal(tv.Value), true
			}
			return false, false
		}
		inside, okIn, okOut := 0, true, true
		why := ""
		inspectNoLit(fn.Body, func(nd ast.Node) bool {
			ret, ok := nd.(*ast.ReturnStmt)
			if !ok || len(ret.Results) != 1 {
				return true
			}
			v, isC := constBool(ret.Results[0])
			if ret.Pos() >= loop.Body.Pos() && ret.End() <= loop.Body.End() {
				inside++
				if !isC || !v {
					okIn, why = false, "a return inside the loop does not return the constant true"
				} else if !excludedBy(guardsAt(fn, ret), elemFalse) {
					okIn, why = false, "the loop returns true on a path where the element's own "+name+"() is not known to be true"
				}
			} else if !isC || v {
				okOut, why = false, "the return after the loop is not the constant false"
			}
			return true
		})
		n++
		c.Check(inside > 0 && okIn && okOut, fq+"|is-a-disjunction", pr.Pos(fn.Body.Pos()),
			"Pragmas."+name+" no longer answers \"some element asks for it\" ("+why+"): a slice that carries the pragma together with another one is treated as if it did not carry it — for Materialize, pipeline() fuses across the boundary and every consumer recomputes the slice under different task names; for Exclusive, the task is not given the whole machine")
	}
	c.Floor("composed boolean pragmas", n, 2)
}

// C11-R9: a column is bound over the frame's whole capacity.
//
// data.val "represents the whole data slice": Index, Value and the computed
// operators (Less, Hash, Swap) are closures over the value handed to newData,
// and they can address only its *length*.  A frame records a capacity, and
// Slice, Grow and Ensure extend a view up to it without reallocating; if a
// column was bound to a value shorter than that capacity, the extended rows
// cannot be read, compared, hashed, swapped or sorted (reflect index panics),
// and Value returns a column shorter than the frame.  So every value handed to
// newData in a function that builds a Frame must have length == the capacity
// the frame records there: reflect.MakeSlice(t, c, c) with one expression for
// length and capacity, or X.Slice(0, F.cap) / X.Slice3(0, F.cap, F.cap) with F
// the frame under construction.  (Found frame.Slices/Values, which recorded
// Cap() of the caller's slices but bound the slices as given.)
func c11r9(c *RC) {
	pr := c.P
	n := 0
	for _, fn := range pr.FuncsIn("frame") {
		if fn.Body == nil || fn.Parent != nil {
			continue
		}
		fq := fn.QName()
		le := newLinEnv(pr, fn)
		for _, k := range callsIn(fn.Body) {
			if fn.Pkg.CalleeName(k) != "frame.newData" || len(k.Args) != 1 {
				continue
			}
			n++
			arg := ast.Unparen(k.Args[0])
			if id, ok := arg.(*ast.Ident); ok {
				if d, ok := le.defs[fn.Pkg.Info.Uses[id]]; ok {
					arg = ast.Unparen(d)
				}
			}
			ok := false
			why := "the value is bound as given, so the column's length is whatever the caller's slice has"
			if call, isCall := arg.(*ast.CallExpr); isCall {
				switch cn := fn.Pkg.CalleeName(call); {
				case cn == "reflect.MakeSlice" && len(call.Args) == 3:
					a, b := le.norm(call.Args[1], 0), le.norm(call.Args[2], 0)
					ok = a.String() == b.String()
					why = "MakeSlice is given a length different from its capacity"
				case (cn == "reflect.Value.Slice" && len(call.Args) == 2) || (cn == "reflect.Value.Slice3" && len(call.Args) == 3):
					lo, isC := constInt(fn.Pkg, call.Args[0])
					hi := ast.Unparen(call.Args[1])
					capField := false
					if se, isSel := hi.(*ast.SelectorExpr); isSel && pr.fieldQName(fn.Pkg.FieldOf(se)) == "frame.Frame.cap" {
						capField = true
					}
					ok = isC && lo == 0 && capField
					if ok && len(call.Args) == 3 {
						ok = nospace(call.Args[2]) == nospace(call.Args[1])
					}
					why = "the value is not re-sliced to [0, the frame's cap)"
				}
			}
			c.Check(ok, fq+"|column-bound-over-the-capacity", pr.Pos(k.Pos()),
				strings.TrimPrefix(fq, "frame.")+" binds a column with newData("+expr(k.Args[0])+") but "+why+": the frame records a capacity that Slice, Grow and Ensure extend views into, while Index, Value, Less, Hash and Swap address only the bound value's length — rows of a grown view within that capacity cannot be read or sorted, and Value returns a column shorter than the frame")
		}
	}
	c.Floor("columns bound by newData in package frame", n, 3)
}

// C03-R7: the task's wait channel is retired only by Broadcast.
//
// Task.Wait parks every waiter of a task on one shared channel (waitc) that
// Broadcast closes and clears.  A waiter that clears the field itself (for
// instance when it gives up on a cancelled context) strands the other
// waiters: the next Broadcast finds nil, closes nothing, and an evaluation
// that only waits for that task never learns that it finished, was lost or
// failed (seed C03-c3).  Decided as ownership: every assignment of nil to
// Task.waitc follows close() of that channel in the same block, and every
// other assignment is a fresh channel made under a test that the field is nil.
func c03r7(c *RC) {
	pr := c.P
	n := 0
	for _, fn := range pr.FuncsIn("exec") {
		if fn.Body == nil {
			continue
		}
		fq := fn.QName()
		ast.Inspect(fn.Body, func(nd ast.Node) bool {
			blk, ok := nd.(*ast.BlockStmt)
			if !ok {
				return true
			}
			for i, st := range blk.List {
				as, ok := st.(*ast.AssignStmt)
				if !ok || len(as.Lhs) != 1 || len(as.Rhs) != 1 {
					continue
				}
				se, ok := as.Lhs[0].(*ast.SelectorExpr)
				if !ok || pr.fieldQName(fn.Pkg.FieldOf(se)) != "exec.Task.waitc" {
					continue
				}
				n++
				target := nospace(se)
				if tv, ok := fn.Pkg.Info.Types[as.Rhs[0]]; ok && tv.IsNil() {
					closed := false
					for j := 0; j < i; j++ {
						if es, ok := blk.List[j].(*ast.ExprStmt); ok {
							if k, ok := es.X.(*ast.CallExpr); ok && expr(k.Fun) == "close" && len(k.Args) == 1 && nospace(k.Args[0]) == target {
								closed = true
							}
						}
					}
					c.Check(closed, fq+"|wait-channel-cleared-only-after-close", pr.Pos(as.Pos()),
						strings.TrimPrefix(fq, "exec.")+" clears the task's wait channel without closing it: the channel is shared by every waiter of the task, so the waiters still parked on it miss the next Broadcast — an evaluation waiting only for this task hangs although the task finished, was lost or failed")
					continue
				}
				// a fresh channel, only when there is none
				k, isMake := ast.Unparen(as.Rhs[0]).(*ast.CallExpr)
				fresh := isMake && expr(k.Fun) == "make"
				isNil := func(e ast.Expr) (bool, bool) {
					if x, nonNil, ok := nilTest(e); ok && nospace2(x) == target {
						return nonNil, true // scenario: the field is non-nil
					}
					return false, false
				}
				c.Check(fresh && excludedBy(guardsAt(fn, as), isNil), fq+"|wait-channel-made-only-when-absent", pr.Pos(as.Pos()),
					strings.TrimPrefix(fq, "exec.")+" replaces the task's wait channel while waiters may be parked on the old one (the new value is not a fresh channel made under a test that the field is nil): those waiters are never woken")
			}
			return true
		})
	}
	c.Floor("writes of Task.waitc", n, 2)
}

func nospace2(s string) string { return strings.ReplaceAll(s, " ", "") }

// C20-R5: a result's counters are the sum over *every* task behind it.
//
// (*Result).Scope merges the scope of each task reachable from the result's
// tasks, once (sync.Once).  The merge must be unconditional inside the
// visitor: a task that is not OK right now (discarded, lost, being recomputed)
// still holds the counters of the run that computed the result, and because of
// the Once a total taken while it is excluded is wrong for ever (seed C20-c2).
func c20r5(c *RC) {
	pr := c.P
	fn := c.MustFn("exec.(*Result).Scope")
	if fn == nil {
		return
	}
	fq := fn.QName()
	n := 0
	for _, lit := range allLits(fn) {
		for _, k := range callsIn(lit.Body) {
			if lit.Pkg.CalleeName(k) != "metrics.(*Scope).Merge" {
				continue
			}
			// only calls directly in this literal
			inner := false
			for _, l2 := range lit.Lits {
				if l2.Body.Pos() <= k.Pos() && k.End() <= l2.Body.End() {
					inner = true
				}
			}
			if inner {
				continue
			}
			n++
			gs := guardsAt(lit, k)
			c.Check(len(gs) == 0, fq+"|every-task-is-merged", pr.Pos(k.Pos()),
				"(*Result).Scope merges a task's scope only under a condition ("+condList(gs)+"): a task that is discarded, lost or being recomputed at the moment of the first Scope call is left out of the total, and sync.Once keeps that total — the counters reported for the result are no longer the sum of the increments performed while computing it")
		}
	}
	c.Floor("task scope merges in (*Result).Scope", n, 1)
}

func condList(gs []guardAt) string {
	var out []string
	for _, g := range gs {
		t := expr(g.cond)
		if !g.val {
			t = "!(" + t + ")"
		}
		out = append(out, t)
	}
	return strings.Join(out, ", ")
}

func allLits(fn *Func) []*Func {
	var out []*Func
	var walk func(f *Func)
	walk = func(f *Func) {
		for _, l := range f.Lits {
			out = append(out, l)
			walk(l)
		}
	}
	walk(fn)
	return out
}

// C03-R8: a task is ready only if *every* dependency is satisfied.
//
// state.Enqueue decides readiness with a flag that starts true and is lowered
// in the loop over the task's dependencies.  The flag is a conjunction: every
// assignment to it inside the loop is the constant false, and on every
// iteration in which the recursive Enqueue of the dependency reports
// unsatisfied tasks (n != 0) such an assignment is reached (its guards are
// evaluated under n > 0 and must all hold).  A flag that is *re-assigned*
// from the current dependency lets the last dependency decide alone, and the
// task is handed to the executor while an earlier dependency is still running
// or lost (seed C03-c2).
func c03r8(c *RC) {
	pr := c.P
	fn := c.MustFn("exec.(*state).Enqueue")
	if fn == nil {
		return
	}
	fq := fn.QName()
	le := newLinEnv(pr, fn)
	le.defs = map[types.Object]ast.Expr{}
	norm := func(e ast.Expr) lin { return le.norm(e, 0) }
	n := 0
	inspectNoLit(fn.Body, func(nd ast.Node) bool {
		rs, ok := nd.(*ast.RangeStmt)
		if !ok {
			return true
		}
		t := fn.Pkg.Info.TypeOf(rs.X)
		if t == nil {
			return true
		}
		sl, ok := t.Underlying().(*types.Slice)
		if !ok || short(namedQName(sl.Elem())) != "exec.TaskDep" {
			return true
		}
		// the count returned by the recursive call in this loop
		var cnt *ast.Ident
		inspectNoLit(rs.Body, func(m ast.Node) bool {
			as, ok := m.(*ast.AssignStmt)
			if !ok || len(as.Lhs) != 1 || len(as.Rhs) != 1 {
				return true
			}
			if k, ok := ast.Unparen(as.Rhs[0]).(*ast.CallExpr); ok && fn.Pkg.CalleeName(k) == fq {
				if id, ok := as.Lhs[0].(*ast.Ident); ok {
					cnt = id
				}
			}
			return true
		})
		if cnt == nil {
			return true
		}
		// bool locals assigned in the loop and declared outside it
		flags := map[types.Object][]*ast.AssignStmt{}
		inspectNoLit(rs.Body, func(m ast.Node) bool {
			as, ok := m.(*ast.AssignStmt)
			if !ok {
				return true
			}
			for _, l := range as.Lhs {
				id, ok := l.(*ast.Ident)
				if !ok {
					continue
				}
				o := fn.Pkg.Info.Uses[id]
				if o == nil || o.Pos() >= rs.Pos() {
					continue
				}
				if b, ok := o.Type().Underlying().(*types.Basic); ok && b.Kind() == types.Bool {
					flags[o] = append(flags[o], as)
				}
			}
			return true
		})
		for o, asg := range flags {
			n++
			allFalse, reached := true, false
			for _, as := range asg {
				if len(as.Lhs) != 1 || len(as.Rhs) != 1 {
					allFalse = false
					continue
				}
				tv := fn.Pkg.Info.Types[as.Rhs[0]]
				if tv.Value == nil || tv.Value.Kind() != constant.Bool || constant.BoolVal(tv.Value) {
					allFalse = false
					continue
				}
				// reached whenever n > 0: every guard holds in that scenario
				holds := true
				atom := clauseAtom(norm, lin{le.atom(cnt): 1}, ">", nil)
				for _, g := range guardsAt(fn, as) {
					if g.cond.Pos() < rs.Body.Pos() {
						continue // guards outside the loop body do not concern the iteration
					}
					if v, known := evalCond3(g.cond, atom); !known || v != g.val {
						holds = false
					}
				}
				if holds {
					reached = true
				}
			}
			c.Check(allFalse && reached, fq+"|readiness-is-a-conjunction-over-the-dependencies", pr.Pos(rs.Pos()),
				"in Enqueue's loop over a task's dependencies the readiness flag "+o.Name()+" is not a conjunction (it is assigned something other than the constant false, or is not lowered on every iteration whose dependency reports unsatisfied tasks): the last dependency alone decides, and a task is handed to the executor while an earlier dependency is still running, lost or failed")
		}
		return true
	})
	c.Floor("readiness flags in Enqueue", n, 1)
}

// C16-R9: every field of a decoded invocation comes from the stream.
//
// gob omits zero-valued fields, and decoding leaves such a field of the
// destination untouched.  A GobDecode that pre-initialises (or afterwards
// "normalises") a field that travels — for instance Env with a fresh, writable
// CompileEnv — therefore turns the sender's frozen environment (Writable ==
// false, the zero value) back into a writable one, and the worker re-decides
// cache hits and compiles a different graph (seeds C16-c1, C08-c3).  Decided:
// (*execInvocation).GobDecode assigns no field listed in directEncodedFields,
// nor any part of one.
func c16r9(c *RC) {
	pr := c.P
	dec := c.MustFn("exec.(*execInvocation).GobDecode")
	def := c.MustFn("exec.(*execInvocation).directEncodedFields")
	if dec == nil || def == nil {
		return
	}
	fq := dec.QName()
	// fields whose address is listed
	listed := map[string]bool{}
	rdef := recvOf(def)
	ast.Inspect(def.Body, func(nd ast.Node) bool {
		if u, ok := nd.(*ast.UnaryExpr); ok && u.Op == token.AND {
			if se, ok := u.X.(*ast.SelectorExpr); ok {
				root := se
				for {
					inner, ok := root.X.(*ast.SelectorExpr)
					if !ok {
						break
					}
					root = inner
				}
				if id, ok := root.X.(*ast.Ident); ok && id.Name == rdef {
					listed[root.Sel.Name] = true
				}
			}
		}
		return true
	})
	if len(listed) == 0 {
		c.Undecide("directEncodedFields lists no field of the receiver")
		return
	}
	r := recvOf(dec)
	bad := ""
	var badPos token.Pos
	ast.Inspect(dec.Body, func(nd ast.Node) bool {
		as, ok := nd.(*ast.AssignStmt)
		if !ok {
			return true
		}
		for _, l := range as.Lhs {
			e := ast.Unparen(l)
			for {
				switch x := e.(type) {
				case *ast.IndexExpr:
					e = x.X
					continue
				case *ast.StarExpr:
					e = x.X
					continue
				}
				break
			}
			se, ok := e.(*ast.SelectorExpr)
			if !ok {
				continue
			}
			root := se
			for {
				inner, ok := root.X.(*ast.SelectorExpr)
				if !ok {
					break
				}
				root = inner
			}
			if id, ok := root.X.(*ast.Ident); ok && id.Name == r && listed[root.Sel.Name] {
				bad, badPos = root.Sel.Name, as.Pos()
			}
		}
		return true
	})
	pos := dec.Body.Pos()
	if bad != "" {
		pos = badPos
	}
	c.Check(bad == "", fq+"|travelling-fields-are-only-decoded", pr.Pos(pos),
		"GobDecode assigns the field "+bad+", which travels in the stream: gob omits zero values and leaves the destination's field untouched for them, so whatever is assigned here survives for exactly the values that encode as zero — a frozen compile environment (Writable == false) arrives writable again and the worker re-decides cache hits, compiling a different task graph than the driver")
	c.Floor("fields listed for direct encoding", len(listed), 3)
}

// C18-R10: Fold hands its function the accumulator followed by *all columns
// after the first*.
//
// Fold groups by the first column only, whatever the input's key prefix; its
// documented schema is func(acc, t2, ..., tn) acc.  The expected argument
// vector is built with slicetype.Slice(slice, lo, hi): lo must be the constant
// 1 and hi the slice's NumOut(), as linear forms.  With lo = Prefix() the
// constructor rejects the fitting function for an input of prefix > 1 and
// accepts one that fails inside reflect at run time (seed C18-c1).
func c18r10(c *RC) {
	pr := c.P
	fn := c.MustFn(".Fold")
	if fn == nil {
		return
	}
	fq := fn.QName()
	le := newLinEnv(pr, fn)
	n := 0
	for _, k := range callsIn(fn.Body) {
		if fn.Pkg.CalleeName(k) != "slicetype.Slice" || len(k.Args) != 3 {
			continue
		}
		if canon(fn, k.Args[0]) != "$p0" {
			continue
		}
		n++
		lo, isC := constInt(fn.Pkg, k.Args[1])
		hi := le.norm(k.Args[2], 0)
		want := lin{"$p0.NumOut()": 1}
		c.Check(isC && lo == 1 && hi.String() == want.String(), fq+"|value-columns-are-all-after-the-first", pr.Pos(k.Pos()),
			"Fold compares its function's parameters with slicetype.Slice(slice, "+expr(k.Args[1])+", "+expr(k.Args[2])+") instead of columns [1, NumOut()): Fold groups by the first column only, so for an input whose key prefix is larger than 1 the documented func(acc, t2, ..., tn) is rejected and a function over fewer columns is accepted, which fails inside reflect when the first task runs")
	}
	c.Floor("value-column vectors in Fold", n, 1)
}

// C11-R10: comparison and hashing cover every key column.
//
// Frame.Less is lexicographic over columns 0..prefix and Frame.HashWithSeed
// combines the same columns.  Every column access in them is f.data[X] with X
// the induction variable of a loop that tiles [0, f.prefix) or the linear form
// f.prefix itself; a constant index compares only that column, so keys that
// differ in a middle key column are equal for Less but not for the hash: they
// are folded together when they collide, sorted arbitrarily and merged across
// runs (seed C09-c3).
func c11r10(c *RC) {
	pr := c.P
	n := 0
	for _, q := range []string{"frame.Frame.Less", "frame.Frame.HashWithSeed"} {
		fn := c.MustFn(q)
		if fn == nil {
			continue
		}
		le := newLinEnv(pr, fn)
		recv := recvOf(fn)
		loopVars := map[types.Object]bool{}
		inspectNoLit(fn.Body, func(nd ast.Node) bool {
			fs, ok := nd.(*ast.ForStmt)
			if !ok {
				return true
			}
			init, ok1 := fs.Init.(*ast.AssignStmt)
			cond, ok2 := fs.Cond.(*ast.BinaryExpr)
			post, ok3 := fs.Post.(*ast.IncDecStmt)
			if !ok1 || !ok2 || !ok3 || post.Tok != token.INC || len(init.Lhs) != 1 || len(init.Rhs) != 1 {
				return true
			}
			iv, ok := init.Lhs[0].(*ast.Ident)
			if !ok {
				return true
			}
			if z, isC := constInt(fn.Pkg, init.Rhs[0]); !isC || z != 0 {
				return true
			}
			// iv < f.prefix  (or f.prefix > iv)
			d := le.norm(cond.X, 0)
			d.addScaled(le.norm(cond.Y, 0), -1)
			want := lin{le.atom(iv): 1, "$recv.prefix": -1}
			neg := lin{le.atom(iv): -1, "$recv.prefix": 1}
			if (cond.Op == token.LSS && d.String() == want.String()) || (cond.Op == token.GTR && d.String() == neg.String()) {
				loopVars[fn.Pkg.Info.Defs[iv]] = true
			}
			return true
		})
		_ = recv
		looped, last, bad := 0, 0, ""
		inspectNoLit(fn.Body, func(nd ast.Node) bool {
			ix, ok := nd.(*ast.IndexExpr)
			if !ok {
				return true
			}
			se, ok := ast.Unparen(ix.X).(*ast.SelectorExpr)
			if !ok || pr.fieldQName(fn.Pkg.FieldOf(se)) != "frame.Frame.data" {
				return true
			}
			if id, ok := ast.Unparen(ix.Index).(*ast.Ident); ok && loopVars[fn.Pkg.Info.Uses[id]] {
				looped++
				return true
			}
			if le.norm(ix.Index, 0).String() == (lin{"$recv.prefix": 1}).String() {
				last++
				return true
			}
			bad = expr(ix)
			return true
		})
		n++
		c.Check(bad == "" && looped > 0 && last > 0, q+"|covers-every-key-column", pr.Pos(fn.Body.Pos()),
			strings.TrimPrefix(q, "frame.")+" does not address the key columns as a loop over [0, prefix) plus column prefix ("+bad+"): a key column is skipped, so rows that differ only in it compare equal while they hash differently (or the reverse) — equal keys are split across shards or distinct keys are folded together, sorted arbitrarily and merged across runs")
	}
	c.Floor("key-column kernels of Frame", n, 2)
}

// C02-R6: the failure of a *dependency* read is never fatal.
//
// When a task cannot read the output of a task it depends on (discarded,
// machine lost), the dependency is recomputed: the executors classify the
// task as lost unless the error is fatal.  The functions that open dependency
// readers must therefore not wrap the error of such a read with errors.Fatal
// (user-code failures — the combiner — are fatal, and stay so).  Seed C12-c3
// tagged the local executor's "error reading" return Fatal, "like the returns
// around it".
func c02r6(c *RC) {
	pr := c.P
	n := 0
	for _, fn := range pr.FuncsIn("exec") {
		if fn.Body == nil || fn.Parent != nil {
			continue
		}
		// functions that open readers on dependency tasks
		opens := false
		for _, k := range callsIn(fn.Body) {
			cn := fn.Pkg.CalleeName(k)
			if strings.HasSuffix(cn, ".Reader") && (strings.Contains(cn, "Executor") || strings.Contains(cn, "localExecutor")) {
				opens = true
			}
		}
		if !opens {
			continue
		}
		fq := fn.QName()
		// error variables assigned from a Read of a sliceio.Reader; every
		// assignment is remembered with its position so that a use is
		// attributed to the assignment that precedes it in the source
		type asg struct {
			pos    token.Pos
			isRead bool
		}
		assigns := map[types.Object][]asg{}
		readErr := map[types.Object]bool{}
		ast.Inspect(fn.Body, func(nd ast.Node) bool {
			as, ok := nd.(*ast.AssignStmt)
			if !ok {
				return true
			}
			isRead := false
			if len(as.Rhs) == 1 && len(as.Lhs) == 2 {
				if k, ok := ast.Unparen(as.Rhs[0]).(*ast.CallExpr); ok && isReaderRead(pr, fn.Pkg, k) {
					isRead = true
				}
			}
			for i, l := range as.Lhs {
				id, ok := l.(*ast.Ident)
				if !ok {
					continue
				}
				o := fn.Pkg.Info.Defs[id]
				if o == nil {
					o = fn.Pkg.Info.Uses[id]
				}
				if o == nil {
					continue
				}
				r := isRead && i == 1
				assigns[o] = append(assigns[o], asg{as.Pos(), r})
				if r {
					readErr[o] = true
				}
			}
			return true
		})
		if len(readErr) == 0 {
			continue
		}
		fromRead := func(o types.Object, at token.Pos) bool {
			best := asg{}
			for _, a := range assigns[o] {
				if a.pos < at && a.pos > best.pos {
					best = a
				}
			}
			return best.isRead
		}
		ast.Inspect(fn.Body, func(nd ast.Node) bool {
			k, ok := nd.(*ast.CallExpr)
			if !ok || fn.Pkg.CalleeName(k) != "github.com/grailbio/base/errors.E" {
				return true
			}
			fatal, carries := false, false
			for _, a := range k.Args {
				if se, ok := ast.Unparen(a).(*ast.SelectorExpr); ok && se.Sel.Name == "Fatal" {
					fatal = true
				}
				if id, ok := ast.Unparen(a).(*ast.Ident); ok && readErr[fn.Pkg.Info.Uses[id]] && fromRead(fn.Pkg.Info.Uses[id], k.Pos()) {
					carries = true
				}
			}
			if carries {
				n++
				c.Check(!fatal, fq+"|dependency-read-error-is-not-fatal", pr.Pos(k.Pos()),
					strings.TrimPrefix(fq, "exec.")+" wraps the error of reading a dependency's output with errors.Fatal: a dependency whose output was discarded or lost is recomputed on demand, but a fatal error puts the reading task in TaskErr for good — the evaluation fails, and so does every later use of the result")
			}
			return true
		})
	}
	c.Floor("dependency read errors that are wrapped", n, 1)
}

// C16-R10: everything reachable from the transported invocation is made of
// exported fields.
//
// gob silently ignores unexported struct fields.  The invocation's own codec
// (C16-R1/R2) hands its fields to gob, which walks their types: every struct
// type of the module reachable from execInvocation's travelling fields (through
// fields, pointers, slices, arrays and map keys/elements; interfaces excluded)
// must consist of exported fields only, unless the type has its own
// GobEncode.  Seed C13-c3 renamed taskOp.OpIdx to opIdx: the key of
// CompileEnv.Cached lost its operator index in transit, so a cache hit for
// operator k arrived as a hit for operator 0.
func c16r10(c *RC) {
	pr := c.P
	root := pr.lookupType("exec", "execInvocation")
	if root == nil {
		c.Undecide("exec.execInvocation not found")
		return
	}
	seen := map[string]bool{}
	n := 0
	var visit func(t types.Type, via string)
	visit = func(t types.Type, via string) {
		switch x := t.(type) {
		case *types.Pointer:
			visit(x.Elem(), via)
		case *types.Slice:
			visit(x.Elem(), via)
		case *types.Array:
			visit(x.Elem(), via)
		case *types.Map:
			visit(x.Key(), via+" (map key)")
			visit(x.Elem(), via)
		case *types.Named:
			q := namedQName(x)
			if seen[q] {
				return
			}
			seen[q] = true
			if x.Obj().Pkg() == nil || !strings.HasPrefix(x.Obj().Pkg().Path(), "github.com/grailbio/bigslice") {
				return
			}
			st, ok := x.Underlying().(*types.Struct)
			if !ok {
				visit(x.Underlying(), via)
				return
			}
			// a type with its own GobEncode decides for itself (execInvocation: C16-R1)
			own := false
			for i := 0; i < x.NumMethods(); i++ {
				if x.Method(i).Name() == "GobEncode" {
					own = true
				}
			}
			if ms := types.NewMethodSet(types.NewPointer(x)); ms.Lookup(nil, "GobEncode") != nil {
				own = true
			}
			for i := 0; i < st.NumFields(); i++ {
				f := st.Field(i)
				if !own {
					n++
					c.Check(f.Exported(), "transported:"+short(q)+"."+f.Name(), pr.Pos(f.Pos()), "the field "+f.Name()+" of "+short(q)+" ("+via+") is unexported, and gob silently skips unexported fields: the value arrives on the worker with that field zero — for the key of CompileEnv.Cached, a cache hit recorded for operator k of a task arrives as a hit for operator 0, and the worker compiles a different graph")
				}
				if _, isIface := f.Type().Underlying().(*types.Interface); isIface {
					continue
				}
				if own && !f.Exported() {
					continue
				}
				visit(f.Type(), "reached from "+short(q)+"."+f.Name())
			}
		case *types.Struct:
			for i := 0; i < x.NumFields(); i++ {
				n++
				c.Check(x.Field(i).Exported(), "transported:struct."+x.Field(i).Name(), pr.Pos(x.Field(i).Pos()), "an anonymous struct in the transported invocation has the unexported field "+x.Field(i).Name())
				visit(x.Field(i).Type(), via)
			}
		}
	}
	visit(root, "the transported invocation")
	c.Floor("fields of struct types reachable from the transported invocation", n, 8)
}

// C18-R11: a key column must be hashable *and* comparable.
//
// canMakeCombiningFrame (behind Reduce, Reshuffle and Reshard) reports a key
// column as failing from a condition over frame.CanHash and frame.CanCompare.
// The condition is evaluated under "CanHash failed" and under "CanCompare
// failed" (the other unknown): each must certainly reach the statement that
// records the failure.  `!(CanHash || CanCompare)` records only types that
// support neither (seed C18-c3).
func c18r11(c *RC) {
	pr := c.P
	fn := c.MustFn(".canMakeCombiningFrame")
	if fn == nil {
		return
	}
	fq := fn.QName()
	done := map[string]bool{}
	inspectNoLit(fn.Body, func(nd ast.Node) bool {
		ifs, ok := nd.(*ast.IfStmt)
		if !ok {
			return true
		}
		var names []string
		ast.Inspect(ifs.Cond, func(m ast.Node) bool {
			if k, ok := m.(*ast.CallExpr); ok {
				if nm := c18checks[fn.Pkg.CalleeName(k)]; nm == "CanHash" || nm == "CanCompare" {
					names = append(names, nm)
				}
			}
			return true
		})
		for _, nm := range names {
			vf, known := c18failValue(fn.Pkg, ifs.Cond, nm, nil)
			// the body must record the failure: append to a slice or return a non-nil error
			records := false
			ast.Inspect(ifs.Body, func(m ast.Node) bool {
				if k, ok := m.(*ast.CallExpr); ok && expr(k.Fun) == "append" {
					records = true
				}
				if r, ok := m.(*ast.ReturnStmt); ok && len(r.Results) > 0 {
					if tv, ok := fn.Pkg.Info.Types[r.Results[len(r.Results)-1]]; ok && !tv.IsNil() {
						records = true
					}
				}
				return true
			})
			if known && vf && records {
				done[nm] = true
			}
		}
		return true
	})
	for _, nm := range []string{"CanHash", "CanCompare"} {
		c.Check(done[nm], fq+"|failing-"+nm+"-is-recorded", pr.Pos(fn.Body.Pos()),
			"canMakeCombiningFrame does not certainly report a key column for which frame."+nm+" fails (the condition that records failing types is not taken whenever this check alone fails): Reduce, Reshuffle and Reshard accept a key type that supports only one of hashing and comparison, and the first task that needs the other fails with a nil function call")
	}
}

// C17-R10: a reader with a row budget asks its input for no more rows than it
// may deliver.
//
// headReader.Read returns at most h.n more rows.  "Writes only those rows of
// the destination" requires the frame it hands to its input to be cut to that
// budget first: trimming the *count* afterwards leaves the rows beyond it
// overwritten with data the caller was told it did not get.  Decided: every
// upstream Read in (*headReader).Read is handed a frame variable that, on the
// way there, was re-sliced to (0, budget) under a guard that is certainly
// taken when the frame is longer than the budget (evaluated, not matched).
func c17r10(c *RC) {
	pr := c.P
	fn := c.MustFn(".(*headReader).Read")
	if fn == nil {
		return
	}
	fq := fn.QName()
	le := newLinEnv(pr, fn)
	le.defs = map[types.Object]ast.Expr{}
	norm := func(e ast.Expr) lin { return le.norm(e, 0) }
	// the budget: the receiver's int field
	n := 0
	for _, k := range callsIn(fn.Body) {
		if !isReaderRead(pr, fn.Pkg, k) || len(k.Args) != 2 {
			continue
		}
		n++
		id, ok := ast.Unparen(k.Args[1]).(*ast.Ident)
		if !ok {
			c.Check(false, fq+"|input-read-is-cut-to-the-budget", pr.Pos(k.Pos()), "the frame handed to the input is not a variable that was cut to the remaining budget")
			continue
		}
		fo := fn.Pkg.Info.Uses[id]
		cut := false
		// a top-level `if C { F = F.Slice(0, B) }` that precedes the read
		for _, st := range fn.Body.List {
			if st.Pos() > k.Pos() {
				break
			}
			ifs, ok := st.(*ast.IfStmt)
			if !ok || ifs.Else != nil || len(ifs.Body.List) != 1 {
				continue
			}
			as, ok := ifs.Body.List[0].(*ast.AssignStmt)
			if !ok || len(as.Lhs) != 1 || len(as.Rhs) != 1 {
				continue
			}
			lid, ok := as.Lhs[0].(*ast.Ident)
			if !ok || fn.Pkg.Info.Uses[lid] != fo {
				continue
			}
			sl, ok := ast.Unparen(as.Rhs[0]).(*ast.CallExpr)
			if !ok || fn.Pkg.CalleeName(sl) != "frame.Frame.Slice" || len(sl.Args) != 2 {
				continue
			}
			if se, ok := sl.Fun.(*ast.SelectorExpr); !ok || nospace(se.X) != id.Name {
				continue
			}
			if z, isC := constInt(fn.Pkg, sl.Args[0]); !isC || z != 0 {
				continue
			}
			budget := norm(sl.Args[1])
			// the budget is a field of the receiver
			if t, _, single := budget.single(); !single || !strings.HasPrefix(t, "$recv.") {
				continue
			}
			// scenario: the frame is longer than the budget: Len() - B > 0
			form := lin{le.atom(id) + ".Len()": 1}
			form.addScaled(budget, -1)
			if v, known := evalCond3(ifs.Cond, clauseAtom(norm, form, ">", nil)); known && v {
				cut = true
			}
		}
		c.Check(cut, fq+"|input-read-is-cut-to-the-budget", pr.Pos(k.Pos()),
			"Head hands its whole destination frame to its input and trims only the returned count: the rows of the destination beyond the rows delivered are overwritten with input rows the caller was told it did not get (a reader must write only the rows it returns)")
	}
	c.Floor("input reads in (*headReader).Read", n, 1)
}

// C06-R8: a recover handler notices every panic, panic(nil) included.
//
// Under this module's go directive (below go1.21) recover() returns nil for
// panic(nil).  A handler of the form `if e := recover(); e != nil { err = ... }`
// stops such a panic and records nothing: the task "succeeds" with whatever
// rows it had produced, and Run returns nil.  Decided per handler on the user
// code paths (the handlers of C06-R5): the statement that assigns the error is
// reached also when the recovered value is nil — i.e. its guards are not
// excluded by that scenario (a handler that keeps a completion flag and tests
// it instead passes).
func c06r8(c *RC) {
	pr := c.P
	n := 0
	for _, fn := range pr.FuncsIn("exec") {
		for i, d := range recoverDefers(fn) {
			lit := d.Call.Fun.(*ast.FuncLit)
			lf := pr.idx.byLit[lit]
			if lf == nil {
				continue
			}
			rv := ""
			ast.Inspect(lit.Body, func(m ast.Node) bool {
				if a, ok := m.(*ast.AssignStmt); ok && len(a.Rhs) == 1 {
					if k, ok := a.Rhs[0].(*ast.CallExpr); ok {
						if id, ok := k.Fun.(*ast.Ident); ok && id.Name == "recover" {
							rv = expr(a.Lhs[0])
						}
					}
				}
				return true
			})
			if rv == "" {
				continue
			}
			n++
			// the assignments of the function's error result inside the handler
			swallowed := false
			found := false
			ast.Inspect(lit.Body, func(m ast.Node) bool {
				as, ok := m.(*ast.AssignStmt)
				if !ok {
					return true
				}
				for _, l := range as.Lhs {
					if id, ok := l.(*ast.Ident); ok && c06isErrResult(fn, id) {
						found = true
						isNil := func(e ast.Expr) (bool, bool) {
							if x, nonNil, ok := nilTest(e); ok && x == rv {
								return !nonNil, true // scenario: the recovered value is nil
							}
							return false, false
						}
						// if-init guards (`if e := recover(); e != nil`) have an Init and are
						// enclosing ifs, which guardsAt reports through the Body branch
						if excludedBy(guardsAt(lf, as), isNil) {
							swallowed = true
						}
					}
				}
				return true
			})
			if !found {
				continue
			}
			c.Check(!swallowed, fmt.Sprintf("%s|recover-handler#%d|panic-nil-is-noticed", fn.QName(), i+1), pr.Pos(d.Pos()),
				"the recover handler records an error only when the recovered value is non-nil; the module's go directive is below go1.21, so recover() returns nil for panic(nil): a user function that calls panic(nil) is stopped silently, the task is reported OK with the rows produced so far, and Run returns nil with a truncated result")
		}
	}
	c.Floor("recover handlers that assign the error result", n, 3)
}

// C03-R9: a task goes back to TaskInit only from TaskLost.
//
// The evaluator re-elects a runner for a task by rewriting its state to
// TaskInit.  That is legitimate for a *lost* task only: a task that failed
// (TaskErr) must stay failed — re-running it executes the user's code twice
// and lets a concurrent evaluation that shares the task return success where
// the task reported an error — and a task that is waiting, running or done
// must not be handed out again.  Every assignment of TaskInit to a task's
// state is therefore guarded so that each of the other states certainly
// excludes it (the guards are evaluated under state == k for every k other
// than TaskLost, over the constants' values).  Seed C19-c1 relaxed the test
// `state == TaskLost` to `state > TaskOk`.
func c03r9(c *RC) {
	pr := c.P
	n := 0
	lost, okL := pr.constVal("exec", "TaskLost")
	maxS, okM := pr.constVal("exec", "TaskLost")
	if !okL || !okM {
		c.Undecide("exec.TaskLost not found")
		return
	}
	for _, fn := range pr.FuncsIn("exec") {
		if fn.Body == nil {
			continue
		}
		fq := fn.Root().QName()
		le := newLinEnv(pr, fn)
		le.defs = map[types.Object]ast.Expr{}
		norm := func(e ast.Expr) lin { return le.norm(e, 0) }
		inspectNoLit(fn.Body, func(nd ast.Node) bool {
			as, ok := nd.(*ast.AssignStmt)
			if !ok || len(as.Lhs) != 1 || len(as.Rhs) != 1 {
				return true
			}
			se, ok := as.Lhs[0].(*ast.SelectorExpr)
			if !ok || pr.fieldQName(fn.Pkg.FieldOf(se)) != "exec.Task.state" {
				return true
			}
			if v, isC := constInt(fn.Pkg, as.Rhs[0]); !isC || v != 0 {
				return true
			}
			n++
			gs := guardsAt(fn, as)
			bad := int64(-1)
			for k := int64(1); k <= maxS; k++ {
				if k == lost {
					continue
				}
				form := lin{le.atom(se): 1, "": int(-k)}
				if !excludedBy(gs, clauseAtom(norm, form, "==", nil)) {
					bad = k
				}
			}
			c.Check(bad < 0, fq+"|reset-to-init-only-from-lost", pr.Pos(as.Pos()),
				fmt.Sprintf("a task's state is rewritten to TaskInit on a path where it may be in state %d (not TaskLost): a failed task is re-run (the user's code executes twice and a concurrent evaluation sharing the task reports success where the task failed), or a task that is waiting, running or done is handed out again", bad))
			return true
		})
	}
	c.Floor("rewrites of a task's state to TaskInit", n, 1)
}

// constVal: the integer value of package-level constant name in the module
// package rel.
func (pr *Prog) constVal(rel, name string) (int64, bool) {
	for _, fn := range pr.FuncsIn(rel) {
		if k, ok := fn.Pkg.Types.Scope().Lookup(name).(*types.Const); ok {
			if v, exact := constant.Int64Val(constant.ToInt(k.Val())); exact {
				return v, true
			}
		}
		break
	}
	return 0, false
}

// C19-R6: every lock a function takes is released on every exit.
//
// Per function of package exec (closures are functions of their own), over the
// control-flow graph: a counter per lock expression, +1 at X.Lock()/RLock(),
// -1 at X.Unlock()/RUnlock(), deferred unlocks credited at the exits.  At
// every return the counters are back at their entry value.  Two documented
// hand-overs are modelled, not excepted: a `go` statement that passes a locked
// task to a goroutine literal which unlocks it (the evaluator's waiter) moves
// the obligation into the literal; functions entered with the lock held that
// release and re-take it (Task.Wait) are balanced by construction.  A missing
// unlock on one path is a deadlock for the next run, scan or discard that
// touches the object — which is how a "concurrent run" clause fails without
// any data race.
func c19r6(c *RC) {
	pr := c.P
	n := 0
	for _, fn := range pr.FuncsIn("exec") {
		if fn.Body == nil {
			continue
		}
		// does it lock or unlock anything?
		has := false
		inspectNoLit(fn.Body, func(nd ast.Node) bool {
			if k, ok := nd.(*ast.CallExpr); ok {
				if se, ok := k.Fun.(*ast.SelectorExpr); ok {
					switch se.Sel.Name {
					case "Lock", "RLock", "Unlock", "RUnlock":
						if isMutexLike(fn.Pkg, se) {
							has = true
						}
					}
				}
			}
			return true
		})
		if !has {
			continue
		}
		n++
		fq := fn.QName()
		fl := pr.Flow(fn)
		// entry state: a literal that is handed a locked task starts at +1 for it
		init := map[string]int{}
		if fn.Type != nil && fn.Type.Params != nil {
			for _, p := range fn.Type.Params.List {
				for _, nm := range p.Names {
					if strings.HasSuffix(expr(p.Type), "Task") && c03handedOver(c, fn, nm.Name) {
						init[nm.Name] = 1
					}
				}
			}
		}
		enc := func(m map[string]int) string {
			var l []string
			for k, v := range m {
				if v != 0 {
					l = append(l, k+"="+itoa(v))
				}
			}
			sort.Strings(l)
			return strings.Join(l, ",")
		}
		dec := func(x string) map[string]int {
			m := map[string]int{}
			for _, kv := range strings.Split(x, ",") {
				if i := strings.LastIndexByte(kv, '='); i > 0 {
					v := 0
					fmt.Sscanf(kv[i+1:], "%d", &v)
					m[kv[:i]] = v
				}
			}
			return m
		}
		// deferred unlocks (direct, or inside a deferred literal)
		deferred := map[ast.Node]map[string]int{}
		inspectNoLit(fn.Body, func(nd ast.Node) bool {
			d, ok := nd.(*ast.DeferStmt)
			if !ok {
				return true
			}
			m := map[string]int{}
			count := func(k *ast.CallExpr) {
				if se, ok := k.Fun.(*ast.SelectorExpr); ok && isMutexLike(fn.Pkg, se) {
					switch se.Sel.Name {
					case "Unlock", "RUnlock":
						m[nospace(se.X)]--
					case "Lock", "RLock":
						m[nospace(se.X)]++
					}
				}
			}
			count(d.Call)
			if lit, ok := d.Call.Fun.(*ast.FuncLit); ok {
				for _, k := range callsIn(lit.Body) {
					count(k)
				}
			}
			deferred[d] = m
			return true
		})
		bad := ""
		var trail []string
		fl.Walk(fl.Entry(), enc(init)+"|", nil, Visitor{NoFacts: true,
			Node: func(nd ast.Node, x string, s *Step) (string, bool) {
				parts := strings.SplitN(x, "|", 2)
				held := dec(parts[0])
				defs := parts[1]
				if d, ok := nd.(*ast.DeferStmt); ok {
					for k, v := range deferred[d] {
						defs += fmt.Sprintf("%s=%d;", k, v)
					}
					return enc(held) + "|" + defs, false
				}
				if g, ok := nd.(*ast.GoStmt); ok {
					// hand-over: a locked task passed to a literal that unlocks it
					if lit, ok := g.Call.Fun.(*ast.FuncLit); ok {
						if lf := pr.idx.byLit[lit]; lf != nil && lf.Type.Params != nil {
							i := 0
							for _, p := range lf.Type.Params.List {
								for _, nm := range p.Names {
									if i < len(g.Call.Args) && strings.HasSuffix(expr(p.Type), "Task") && c03handedOver(c, lf, nm.Name) {
										held[nospace(g.Call.Args[i])]--
									}
									i++
								}
							}
						}
					}
					return enc(held) + "|" + defs, false
				}
				inspectNoLit(nd, func(m ast.Node) bool {
					k, ok := m.(*ast.CallExpr)
					if !ok {
						return true
					}
					// ctxsync.(*Cond).Done is documented to release the Cond's lock
					// before it returns; the Cond is a field of the object whose
					// lock it was built on (owner.cond)
					if strings.HasSuffix(fn.Pkg.CalleeName(k), "ctxsync.(*Cond).Done") {
						if se, ok := k.Fun.(*ast.SelectorExpr); ok {
							if owner, ok := ast.Unparen(se.X).(*ast.SelectorExpr); ok {
								held[nospace(owner.X)]--
							}
						}
						return true
					}
					if se, ok := k.Fun.(*ast.SelectorExpr); ok && isMutexLike(fn.Pkg, se) {
						key := nospace(se.X)
						switch se.Sel.Name {
						case "Lock", "RLock":
							if held[key] < 2 {
								held[key]++
							}
						case "Unlock", "RUnlock":
							if held[key] > -2 {
								held[key]--
							}
						}
					}
					return true
				})
				return enc(held) + "|" + defs, false
			},
			Exit: func(kind ExitKind, ret *ast.ReturnStmt, x string, s *Step) {
				if kind != ExitReturn {
					return
				}
				parts := strings.SplitN(x, "|", 2)
				held := dec(parts[0])
				for _, kv := range strings.Split(parts[1], ";") {
					if i := strings.LastIndexByte(kv, '='); i > 0 {
						v := 0
						fmt.Sscanf(kv[i+1:], "%d", &v)
						held[kv[:i]] += v
					}
				}
				for k, v := range init {
					held[k] -= v
				}
				for k, v := range held {
					if v > 0 && bad == "" {
						bad = k
						trail = s.Trail()
					}
				}
			}})
		c.Check(bad == "", fq+"|locks-released-on-every-exit", pr.Pos(fn.Body.Pos()),
			strings.TrimPrefix(fq, "exec.")+" returns on a path on which "+bad+" is still locked (taken here, not released, not deferred, not handed over): the next run, scan, discard or status update that needs the lock blocks for ever", trail...)
	}
	c.Floor("functions of package exec that take or release locks", n, 25)
}

// isMutexLike: the selector is a method of sync.Mutex/RWMutex, reached directly
// or through embedding (Task embeds a mutex).
func isMutexLike(pk *Pkg, se *ast.SelectorExpr) bool {
	if sel, ok := pk.Info.Selections[se]; ok {
		if f, ok := sel.Obj().(*types.Func); ok && f.Pkg() != nil && f.Pkg().Path() == "sync" {
			return true
		}
	}
	return false
}

// C09-R12: the worker's combining path folds every row read, once, into the
// partition the partitioner chose.
//
// (*worker).runCombine reads a batch, asks the partitioner for shards[0:n] and
// then, for i in [0, n), folds row i into the combining frame of partition
// shards[i].  Decided on the loop whose induction variable runs over [0, n),
// n the count of that Read: an unconditional statement of its body (before any
// branch) calls Combine on `combiners[shards[i]]` — single-definition locals
// expanded — with exactly the one-row view `frame.Slice(i, i+1)` of the frame
// that was read (bounds compared as linear forms).  Without it rows are
// dropped before they reach any combiner; with another index they are folded
// into a partition the partitioner did not choose (the mutation sweep's
// "delete pcomb.Combine(...)" survived every earlier rule).
func c09r12(c *RC) {
	pr := c.P
	fn := c.MustFn("exec.(*worker).runCombine")
	if fn == nil {
		return
	}
	fq := fn.QName()
	le := newLinEnv(pr, fn)
	expand := func(e ast.Expr) string {
		t := nospace(e)
		for depth := 0; depth < 4; depth++ {
			before := t
			for o, d := range le.defs {
				// only aliases of a place are expanded (x := a[i], y := s.f, z := x)
				switch ast.Unparen(d).(type) {
				case *ast.IndexExpr, *ast.Ident, *ast.SelectorExpr:
				default:
					continue
				}
				t = replaceWord(t, o.Name(), nospace(d))
			}
			if t == before {
				break
			}
		}
		return t
	}
	n := 0
	inspectNoLit(fn.Body, func(nd ast.Node) bool {
		as, ok := nd.(*ast.AssignStmt)
		if !ok || len(as.Lhs) != 2 || len(as.Rhs) != 1 {
			return true
		}
		k, ok := ast.Unparen(as.Rhs[0]).(*ast.CallExpr)
		if !ok || !isReaderRead(pr, fn.Pkg, k) {
			return true
		}
		cnt, ok1 := as.Lhs[0].(*ast.Ident)
		frm, ok2 := ast.Unparen(k.Args[1]).(*ast.Ident)
		if !ok1 || !ok2 {
			return true
		}
		// the enclosing block: partitioner call and the row loop follow
		blk := enclosingBlock(fn.Body, as)
		if blk == nil {
			return true
		}
		shards := ""
		var loop *ast.ForStmt
		for _, st := range blk {
			if st.Pos() < as.Pos() {
				continue
			}
			if es, ok := st.(*ast.ExprStmt); ok {
				if pk, ok := es.X.(*ast.CallExpr); ok && len(pk.Args) == 4 {
					if se, ok := pk.Fun.(*ast.SelectorExpr); ok && pr.fieldQName(fn.Pkg.FieldOf(se)) == "exec.Task.Partitioner" {
						if sl, ok := ast.Unparen(pk.Args[3]).(*ast.SliceExpr); ok {
							shards = nospace(sl.X)
						}
					}
				}
			}
			if fs, ok := st.(*ast.ForStmt); ok && loop == nil && shards != "" {
				loop = fs
			}
		}
		if loop == nil {
			return true
		}
		n++
		// induction variable over [0, n)
		iv := ""
		if init, ok := loop.Init.(*ast.AssignStmt); ok && len(init.Lhs) == 1 {
			if z, isC := constInt(fn.Pkg, init.Rhs[0]); isC && z == 0 {
				iv = expr(init.Lhs[0])
			}
		}
		okBound := false
		if be, ok := loop.Cond.(*ast.BinaryExpr); ok && iv != "" {
			okBound = (be.Op == token.LSS && expr(be.X) == iv && expr(be.Y) == cnt.Name) || (be.Op == token.GTR && expr(be.Y) == iv && expr(be.X) == cnt.Name)
		}
		folded := false
		for _, st := range loop.Body.List {
			if _, isIf := st.(*ast.IfStmt); isIf {
				break
			}
			if _, isBr := st.(*ast.BranchStmt); isBr {
				break
			}
			es, ok := st.(*ast.ExprStmt)
			if !ok {
				continue
			}
			ck, ok := es.X.(*ast.CallExpr)
			if !ok || fn.Pkg.CalleeName(ck) != "exec.(*combiningFrame).Combine" || len(ck.Args) != 1 {
				continue
			}
			se := ck.Fun.(*ast.SelectorExpr)
			recv := strings.NewReplacer("(", "", ")", "").Replace(expand(se.X))
			// <combiners>[<shards>[<iv>]]
			okRecv := strings.HasSuffix(recv, "["+shards+"["+iv+"]]")
			arg, isCall := ast.Unparen(ck.Args[0]).(*ast.CallExpr)
			okArg := false
			if isCall && fn.Pkg.CalleeName(arg) == "frame.Frame.Slice" && len(arg.Args) == 2 {
				if ase, ok := arg.Fun.(*ast.SelectorExpr); ok && nospace(ase.X) == frm.Name {
					lo, hi := le.norm(arg.Args[0], 0), le.norm(arg.Args[1], 0)
					wantLo := lin{le.atom(&ast.Ident{Name: iv}): 1}
					wantHi := lin{le.atom(&ast.Ident{Name: iv}): 1, "": 1}
					okArg = lo.String() == wantLo.String() && hi.String() == wantHi.String()
				}
			}
			if os.Getenv("BSVET_DEBUG") != "" {
				fmt.Fprintf(os.Stderr, "c09r12: recv=%q shards=%q iv=%q okRecv=%v okArg=%v okBound=%v\n", recv, shards, iv, okRecv, okArg, okBound)
			}
			if okRecv && okArg {
				folded = true
			}
		}
		c.Check(okBound && folded, fq+"|every-row-read-is-folded-into-its-partition", pr.Pos(loop.Pos()),
			"runCombine does not fold each row of the batch it read, unconditionally, into the combining frame of the partition the partitioner chose for it (a loop over [0, n) whose body first calls combiners[shards[i]].Combine(frame.Slice(i, i+1))): rows are dropped before they reach a combiner, or are combined under another partition's keys")
		return true
	})
	c.Floor("batch loops in runCombine", n, 1)
}

// C12-R8: the local executor stores a task's output before it calls the task
// done, and records the error of a task it calls failed.
//
// (*localExecutor).Reader serves a task from l.buffers[task] and answers
// "no data" otherwise.  In (*localExecutor).Run the write of TaskOk to the
// task's state is therefore preceded, in its own block, by the store
// l.buffers[task] = <the buffer bufferOutput returned>; and in the block that
// writes TaskErr or TaskLost the task's err field is assigned the error that
// decided the branch.  (Both statements survived deletion in the mutation
// sweep: the run "succeeds" and every later read of the result fails, or the
// evaluation fails with a nil cause.)
func c12r8(c *RC) {
	pr := c.P
	fn := c.MustFn("exec.(*localExecutor).Run")
	if fn == nil {
		return
	}
	fq := fn.QName()
	// the buffer returned by bufferOutput
	buf, errv := "", ""
	inspectNoLit(fn.Body, func(nd ast.Node) bool {
		if as, ok := nd.(*ast.AssignStmt); ok && len(as.Lhs) == 2 && len(as.Rhs) == 1 {
			if k, ok := ast.Unparen(as.Rhs[0]).(*ast.CallExpr); ok && fn.Pkg.CalleeName(k) == "exec.bufferOutput" {
				buf, errv = expr(as.Lhs[0]), expr(as.Lhs[1])
			}
		}
		return true
	})
	if buf == "" {
		c.Undecide("%s: no call of bufferOutput", fq)
		return
	}
	task := ""
	if fn.Type.Params != nil && len(fn.Type.Params.List) > 0 && len(fn.Type.Params.List[0].Names) > 0 {
		task = fn.Type.Params.List[0].Names[0].Name
	}
	nOK, nFail := 0, 0
	okStored, failRecorded := true, true
	ast.Inspect(fn.Body, func(nd ast.Node) bool {
		blk, ok := nd.(*ast.BlockStmt)
		if !ok {
			return true
		}
		for i, st := range blk.List {
			as, ok := st.(*ast.AssignStmt)
			if !ok || len(as.Lhs) != 1 || len(as.Rhs) != 1 {
				continue
			}
			se, ok := as.Lhs[0].(*ast.SelectorExpr)
			if !ok || pr.fieldQName(fn.Pkg.FieldOf(se)) != "exec.Task.state" {
				continue
			}
			v, isC := constInt(fn.Pkg, as.Rhs[0])
			if !isC {
				continue
			}
			okV, _ := pr.constVal("exec", "TaskOk")
			if v == okV {
				nOK++
				stored := false
				for _, prev := range blk.List[:i] {
					if pa, ok := prev.(*ast.AssignStmt); ok && len(pa.Lhs) == 1 && len(pa.Rhs) == 1 {
						if ix, ok := pa.Lhs[0].(*ast.IndexExpr); ok {
							if bse, ok := ix.X.(*ast.SelectorExpr); ok && pr.fieldQName(fn.Pkg.FieldOf(bse)) == "exec.localExecutor.buffers" && expr(ix.Index) == task && expr(pa.Rhs[0]) == buf {
								stored = true
							}
						}
					}
				}
				if !stored {
					okStored = false
				}
			} else if v > okV {
				nFail++
				// the error is recorded in the block that contains the enclosing if/else chain
				recorded := false
				for _, anc := range pathTo(fn.Body, as) {
					b2, ok := anc.(*ast.BlockStmt)
					if !ok {
						continue
					}
					for _, st2 := range b2.List {
						if ea, ok := st2.(*ast.AssignStmt); ok && len(ea.Lhs) == 1 && len(ea.Rhs) == 1 {
							if ese, ok := ea.Lhs[0].(*ast.SelectorExpr); ok && pr.fieldQName(fn.Pkg.FieldOf(ese)) == "exec.Task.err" && expr(ea.Rhs[0]) == errv {
								// same branch of the err test: the innermost block that contains both
								if b2.Pos() <= as.Pos() && as.End() <= b2.End() && b2 != fn.Body {
									recorded = true
								}
							}
						}
					}
				}
				if !recorded {
					failRecorded = false
				}
			}
		}
		return true
	})
	c.Check(nOK > 0 && okStored, fq+"|output-stored-before-ok", pr.Pos(fn.Body.Pos()),
		"the local executor marks a task OK on a path where its output buffer was not stored under the task first: the run succeeds, and every reader of the task (a dependent task, a scan of the result) is told there is no data")
	c.Check(nFail > 0 && failRecorded, fq+"|failure-cause-recorded", pr.Pos(fn.Body.Pos()),
		"the local executor marks a task failed or lost without recording the error that decided it: the evaluation reports a failure with a nil cause (or a lost task is retried with no trace of why)")
}

// C05-R10: every dependency of a task contributes its reader(s) to the task's
// input vector.
//
// The executors build a task's inputs in a loop over task.Deps, appending to a
// []sliceio.Reader that is then handed to Task.Do in dependency order.  On
// every path through one iteration that does not leave the function, an
// append to that vector is reached: both arms of every branch on the way
// append (or return), no `continue`/`break` skips it.  (A loop in the body
// that contains an append counts as appending — the combine-key branch reads
// one buffer per distinct location, which no static count bounds; that part
// is not decided.)  A dependency that contributes nothing shifts every later
// input by one position and drops its rows: Cogroup joins the wrong inputs,
// a shuffle consumer loses a producer's partition.
func c05r10(c *RC) {
	pr := c.P
	n := 0
	for _, fn := range pr.FuncsIn("exec") {
		if fn.Body == nil || fn.Parent != nil {
			continue
		}
		fq := fn.QName()
		inspectNoLit(fn.Body, func(nd ast.Node) bool {
			rs, ok := nd.(*ast.RangeStmt)
			if !ok {
				return true
			}
			t := fn.Pkg.Info.TypeOf(rs.X)
			if t == nil {
				return true
			}
			sl, ok := t.Underlying().(*types.Slice)
			if !ok || short(namedQName(sl.Elem())) != "exec.TaskDep" {
				return true
			}
			// the reader vector appended to in this loop
			target := ""
			inspectNoLit(rs.Body, func(m ast.Node) bool {
				as, ok := m.(*ast.AssignStmt)
				if !ok || len(as.Lhs) != 1 || len(as.Rhs) != 1 {
					return true
				}
				k, ok := ast.Unparen(as.Rhs[0]).(*ast.CallExpr)
				if !ok || expr(k.Fun) != "append" || len(k.Args) < 2 || nospace(k.Args[0]) != nospace(as.Lhs[0]) {
					return true
				}
				if tt := fn.Pkg.Info.TypeOf(as.Lhs[0]); tt != nil {
					if ts, ok := tt.Underlying().(*types.Slice); ok && short(namedQName(ts.Elem())) == "sliceio.Reader" {
						target = nospace(as.Lhs[0])
					}
				}
				return true
			})
			if target == "" {
				return true
			}
			n++
			isAppend := func(st ast.Stmt) bool {
				as, ok := st.(*ast.AssignStmt)
				if !ok || len(as.Lhs) != 1 || len(as.Rhs) != 1 || nospace(as.Lhs[0]) != target {
					return false
				}
				k, ok := ast.Unparen(as.Rhs[0]).(*ast.CallExpr)
				return ok && expr(k.Fun) == "append" && len(k.Args) >= 2 && nospace(k.Args[0]) == target
			}
			var must func(list []ast.Stmt) bool
			must = func(list []ast.Stmt) bool {
				for _, st := range list {
					switch x := st.(type) {
					case *ast.AssignStmt:
						if isAppend(x) {
							return true
						}
					case *ast.ReturnStmt:
						return true
					case *ast.BranchStmt:
						return false
					case *ast.BlockStmt:
						if must(x.List) {
							return true
						}
					case *ast.LabeledStmt:
						if must([]ast.Stmt{x.Stmt}) {
							return true
						}
					case *ast.IfStmt:
						thenOK := must(x.Body.List)
						elseOK := false
						switch e := x.Else.(type) {
						case *ast.BlockStmt:
							elseOK = must(e.List)
						case *ast.IfStmt:
							elseOK = must([]ast.Stmt{e})
						}
						if thenOK && elseOK {
							return true
						}
						// an arm that neither appends nor leaves, followed by nothing that
						// appends, is found by falling through to the statements after it
						if !thenOK && blockSkips(x.Body) {
							return false
						}
					case *ast.ForStmt:
						found := false
						inspectNoLit(x.Body, func(m ast.Node) bool {
							if s2, ok := m.(ast.Stmt); ok && isAppend(s2) {
								found = true
							}
							return true
						})
						if found {
							return true
						}
					case *ast.RangeStmt:
						found := false
						inspectNoLit(x.Body, func(m ast.Node) bool {
							if s2, ok := m.(ast.Stmt); ok && isAppend(s2) {
								found = true
							}
							return true
						})
						if found {
							return true
						}
					}
				}
				return false
			}
			c.Check(must(rs.Body.List), fq+"|every-dependency-contributes-a-reader:"+target, pr.Pos(rs.Pos()),
				strings.TrimPrefix(fq, "exec.")+" can finish an iteration of its loop over the task's dependencies without appending a reader for that dependency to "+target+": the dependency's rows are dropped and every later input moves up one position — a Cogroup joins the wrong inputs, a shuffle consumer loses a producer's partition")
			return true
		})
	}
	c.Floor("input-wiring loops over a task's dependencies", n, 2)
	// every slot of a dependency's reader queue is filled: in the loops over
	// [0, dep.NumTask()) that build a multi-reader, each iteration that stays in
	// the function assigns <reader>.q[j]
	m := 0
	for _, fn := range pr.FuncsIn("exec") {
		if fn.Body == nil || fn.Parent != nil {
			continue
		}
		fq := fn.QName()
		inspectNoLit(fn.Body, func(nd ast.Node) bool {
			fs, ok := nd.(*ast.ForStmt)
			if !ok || fs.Cond == nil || fs.Init == nil {
				return true
			}
			init, ok := fs.Init.(*ast.AssignStmt)
			if !ok || len(init.Lhs) != 1 {
				return true
			}
			iv := expr(init.Lhs[0])
			be, ok := fs.Cond.(*ast.BinaryExpr)
			if !ok || be.Op != token.LSS || expr(be.X) != iv {
				return true
			}
			k, ok := ast.Unparen(be.Y).(*ast.CallExpr)
			if !ok || fn.Pkg.CalleeName(k) != "exec.TaskDep.NumTask" {
				return true
			}
			// does the body fill a queue slot at all?
			isSlot := func(st ast.Stmt) bool {
				as, ok := st.(*ast.AssignStmt)
				if !ok || len(as.Lhs) != 1 {
					return false
				}
				ix, ok := as.Lhs[0].(*ast.IndexExpr)
				if !ok || expr(ix.Index) != iv {
					return false
				}
				se, ok := ix.X.(*ast.SelectorExpr)
				return ok && pr.fieldQName(fn.Pkg.FieldOf(se)) == "exec.multiReader.q"
			}
			any := false
			inspectNoLit(fs.Body, func(mm ast.Node) bool {
				if st, ok := mm.(ast.Stmt); ok && isSlot(st) {
					any = true
				}
				return true
			})
			if !any {
				return true
			}
			m++
			c.Check(mustReach(fs.Body.List, isSlot), fq+"|every-queue-slot-is-filled", pr.Pos(fs.Pos()),
				strings.TrimPrefix(fq, "exec.")+" can finish an iteration of its loop over a dependency's tasks without storing a reader in that task's slot of the multi-reader queue: the slot stays nil and the first read of the dependency crashes the task (or, with Expand, a nil reader is handed to the operator)")
			return true
		})
	}
	c.Floor("loops that fill a dependency's reader queue", m, 2)
}

// blockSkips: the block ends in continue or break (it leaves the iteration
// without reaching what follows).
func blockSkips(b *ast.BlockStmt) bool {
	if b == nil || len(b.List) == 0 {
		return false
	}
	br, ok := b.List[len(b.List)-1].(*ast.BranchStmt)
	return ok && (br.Tok == token.CONTINUE || br.Tok == token.BREAK)
}

// mustReach: on every path through the statement list that does not leave the
// function, a statement satisfying pred is reached (branches: both arms;
// loops are not credited).
func mustReach(list []ast.Stmt, pred func(ast.Stmt) bool) bool {
	for _, st := range list {
		if pred(st) {
			return true
		}
		switch x := st.(type) {
		case *ast.ReturnStmt:
			return true
		case *ast.BranchStmt:
			return false
		case *ast.BlockStmt:
			if mustReach(x.List, pred) {
				return true
			}
		case *ast.IfStmt:
			thenOK := mustReach(x.Body.List, pred)
			elseOK := false
			switch e := x.Else.(type) {
			case *ast.BlockStmt:
				elseOK = mustReach(e.List, pred)
			case *ast.IfStmt:
				elseOK = mustReach([]ast.Stmt{e}, pred)
			}
			if thenOK && elseOK {
				return true
			}
		}
	}
	return false
}

// C03-R10: an evaluation succeeds only behind a fresh traversal of every root,
// and every waiter reports back.
//
// In Eval: (a) the return that may carry a nil error (`return state.Err()`)
// is excluded when state.Done() is false, and in the same iteration of the
// evaluation loop it is preceded by a loop over the roots that
// unconditionally Enqueues each of them — otherwise "done" is the verdict of
// an empty or stale traversal and Eval reports success with work outstanding;
// (b) every other return hands back an error variable that a preceding guard
// excludes from being nil; (c) the goroutine started per runnable task sends
// exactly one message, on the error channel or on the done channel, on every
// path — a waiter that ends silently leaves Eval waiting for ever.
func c03r10(c *RC) {
	pr := c.P
	fn := c.MustFn("exec.Eval")
	if fn == nil {
		return
	}
	fq := fn.QName()
	nret := 0
	inspectNoLit(fn.Body, func(nd ast.Node) bool {
		ret, ok := nd.(*ast.ReturnStmt)
		if !ok || len(ret.Results) != 1 {
			return true
		}
		nret++
		if k, ok := ast.Unparen(ret.Results[0]).(*ast.CallExpr); ok && fn.Pkg.CalleeName(k) == "exec.(*state).Err" {
			doneFalse := func(e ast.Expr) (bool, bool) {
				if kk, ok := ast.Unparen(e).(*ast.CallExpr); ok && fn.Pkg.CalleeName(kk) == "exec.(*state).Done" {
					return false, true
				}
				return false, false
			}
			behindDone := excludedBy(guardsAt(fn, ret), doneFalse)
			// the traversal of the roots earlier in the same loop body
			traversed := false
			for _, anc := range pathTo(fn.Body, ret) {
				fs, ok := anc.(*ast.ForStmt)
				if !ok {
					continue
				}
				for _, st := range fs.Body.List {
					if st.Pos() > ret.Pos() {
						break
					}
					rs, ok := st.(*ast.RangeStmt)
					if !ok || rs.Value == nil {
						continue
					}
					if t := fn.Pkg.Info.TypeOf(rs.X); t == nil || !strings.HasSuffix(typeString(t), "Task") || !strings.HasPrefix(typeString(t), "[]*") {
						continue
					}
					for _, bs := range rs.Body.List {
						if es, ok := bs.(*ast.ExprStmt); ok {
							if ek, ok := es.X.(*ast.CallExpr); ok && fn.Pkg.CalleeName(ek) == "exec.(*state).Enqueue" && len(ek.Args) == 1 && expr(ek.Args[0]) == expr(rs.Value) {
								traversed = true
							}
						}
					}
				}
			}
			c.Check(behindDone && traversed, fq+"|success-only-behind-a-traversal-that-found-everything-done", pr.Pos(ret.Pos()),
				"Eval returns the traversal's verdict (possibly success) on a path where state.Done() is not known to be true, or without having Enqueued every root first in that round: the evaluation reports success while tasks its roots need are outstanding, lost or were never looked at")
			return true
		}
		// any other return: an error variable known non-nil
		id, ok := ast.Unparen(ret.Results[0]).(*ast.Ident)
		nonNil := false
		if ok {
			isNil := func(e ast.Expr) (bool, bool) {
				if x, nn, ok := nilTest(e); ok && x == id.Name {
					return !nn, true
				}
				return false, false
			}
			nonNil = excludedBy(guardsAt(fn, ret), isNil)
		}
		c.Check(nonNil, fq+"|other-returns-carry-an-error", pr.Pos(ret.Pos()),
			"Eval returns "+expr(ret.Results[0])+" on a path where it may be nil: a waiter's report of failure ends the evaluation as a success")
		return true
	})
	c.Floor("returns of Eval", nret, 2)
	// (c) the waiter
	nw := 0
	inspectNoLit(fn.Body, func(nd ast.Node) bool {
		g, ok := nd.(*ast.GoStmt)
		if !ok {
			return true
		}
		lit, ok := g.Call.Fun.(*ast.FuncLit)
		if !ok {
			return true
		}
		nw++
		isSend := func(st ast.Stmt) bool { _, ok := st.(*ast.SendStmt); return ok }
		sends := 0
		inspectNoLit(lit.Body, func(m ast.Node) bool {
			if _, ok := m.(*ast.SendStmt); ok {
				sends++
			}
			return true
		})
		// the tail of the literal: the statements after the last statement that contains no send
		c.Check(mustReach(lit.Body.List, isSend) && sends == 2, fq+"|every-waiter-reports-back", pr.Pos(lit.Pos()),
			"the goroutine Eval starts for a runnable task does not send exactly one message (error or done) on every path: an evaluation whose waiter ends silently waits for ever")
		return true
	})
	c.Floor("waiter goroutines in Eval", nw, 1)
}

// C12-R9: a discarded task stays parked until the worker has let go of it.
//
// (*bigmachineExecutor).Discard parks an OK task in TaskRunning and hands it
// to (*sliceMachine).Discard, which owns it until it sets TaskLost.  The
// worker's copy (its own task state and the stored partitions) is released by
// the "Worker.Discard" RPC.  If the task is set lost *before* that RPC, an
// evaluation woken by the broadcast can resubmit the task and have its
// "Worker.Run" reach the worker first: the worker still holds the task as OK,
// answers success without recomputing, and the late Worker.Discard then
// deletes the output — the driver believes in a result that no longer
// exists, and every consumer is lost until it fails for good.  Decided on the
// owned path of (*sliceMachine).Discard (the statements after the early
// return for tasks the machine does not own): the Worker.Discard call comes
// before any write of the task's state, and a write of TaskLost follows it on
// every path (also when the RPC fails).
func c12r9(c *RC) {
	pr := c.P
	fn := c.MustFn("exec.(*sliceMachine).Discard")
	if fn == nil {
		return
	}
	fq := fn.QName()
	isRPC := func(st ast.Stmt) bool {
		found := false
		inspectNoLit(st, func(m ast.Node) bool {
			if k, ok := m.(*ast.CallExpr); ok && strings.HasSuffix(fn.Pkg.CalleeName(k), "RetryCall") && len(k.Args) >= 2 {
				if tv, ok := fn.Pkg.Info.Types[k.Args[1]]; ok && tv.Value != nil && constant.StringVal(tv.Value) == "Worker.Discard" {
					found = true
				}
			}
			return true
		})
		return found
	}
	isSetLost := func(st ast.Stmt) bool {
		es, ok := st.(*ast.ExprStmt)
		if !ok {
			if d, ok := st.(*ast.DeferStmt); ok {
				return fn.Pkg.CalleeName(d.Call) == "exec.(*Task).Set"
			}
			return false
		}
		k, ok := es.X.(*ast.CallExpr)
		return ok && fn.Pkg.CalleeName(k) == "exec.(*Task).Set"
	}
	// the owned path: top-level statements after the last early-return if
	start := 0
	for i, st := range fn.Body.List {
		if ifs, ok := st.(*ast.IfStmt); ok && blockTerminates(fn.Pkg, ifs.Body) {
			start = i + 1
		}
	}
	rpcAt, setBefore, setAfter, deferredSet := -1, false, false, false
	for i, st := range fn.Body.List[start:] {
		switch {
		case isRPC(st) && rpcAt < 0:
			rpcAt = i
		case isSetLost(st):
			if _, isDefer := st.(*ast.DeferStmt); isDefer {
				deferredSet = true
			} else if rpcAt < 0 {
				setBefore = true
			} else {
				setAfter = true
			}
		}
	}
	c.Check(rpcAt >= 0 && !setBefore && (setAfter || deferredSet), fq+"|worker-released-before-the-task-is-lost", pr.Pos(fn.Body.Pos()),
		"(*sliceMachine).Discard marks the task lost before (or without) the Worker.Discard call on the path where the machine owns it: an evaluation woken by that broadcast can resubmit the task while the worker still holds it as OK — Worker.Run returns success without recomputing, the late Worker.Discard deletes the output, and the driver keeps a task that is OK with no data behind it (its consumers are lost until they fail with \"too many tries\")")
}

// C16-R11: an invocation's arguments are rewritten for transport in a copy.
//
// addInvocation replaces *Result arguments by invocationRefs in the invocation
// it stores for transport.  The invocation arrives by value, but its Args
// slice shares a backing array with the task's invocation and with the slice
// the user handed to Session.Run: writing X.Args[i] in place changes the
// caller's own data (a second Run with the same slice fails the typecheck,
// concurrent runs race on it).  Decided: in every function of exec that
// assigns an element of the Args of a by-value execInvocation parameter, an
// earlier top-level statement re-points that Args at a fresh slice (make, or
// append to a nil slice).  (*worker).Compile is not concerned: it rewrites the
// invocation it decoded itself.
func c16r11(c *RC) {
	pr := c.P
	n := 0
	for _, fn := range pr.FuncsIn("exec") {
		if fn.Body == nil || fn.Parent != nil || fn.Type.Params == nil {
			continue
		}
		// by-value execInvocation parameters
		params := map[string]bool{}
		for _, f := range fn.Type.Params.List {
			for _, nm := range f.Names {
				if o := fn.Pkg.Info.Defs[nm]; o != nil && short(namedQName(o.Type())) == "exec.execInvocation" {
					params[nm.Name] = true
				}
			}
		}
		if len(params) == 0 {
			continue
		}
		fq := fn.QName()
		inspectNoLit(fn.Body, func(nd ast.Node) bool {
			as, ok := nd.(*ast.AssignStmt)
			if !ok {
				return true
			}
			for _, l := range as.Lhs {
				ix, ok := l.(*ast.IndexExpr)
				if !ok {
					continue
				}
				se, ok := ix.X.(*ast.SelectorExpr)
				if !ok || se.Sel.Name != "Args" {
					continue
				}
				id, ok := se.X.(*ast.Ident)
				if !ok || !params[id.Name] {
					continue
				}
				n++
				fresh := false
				for _, st := range fn.Body.List {
					if st.Pos() >= as.Pos() {
						break
					}
					ra, ok := st.(*ast.AssignStmt)
					if !ok || len(ra.Lhs) != 1 || len(ra.Rhs) != 1 || nospace(ra.Lhs[0]) != nospace(se) {
						continue
					}
					rhs := ast.Unparen(ra.Rhs[0])
					if rid, ok := rhs.(*ast.Ident); ok {
						if d, ok := newLinEnv(pr, fn).defs[fn.Pkg.Info.Uses[rid]]; ok {
							rhs = ast.Unparen(d)
						}
					}
					if k, ok := rhs.(*ast.CallExpr); ok {
						switch expr(k.Fun) {
						case "make":
							fresh = true
						case "append":
							if len(k.Args) >= 1 {
								if tv, ok := fn.Pkg.Info.Types[k.Args[0]]; ok && (tv.IsNil() || strings.HasSuffix(expr(k.Args[0]), "(nil)")) {
									fresh = true
								}
							}
						}
					}
				}
				c.Check(fresh, fq+"|arguments-rewritten-in-a-copy", pr.Pos(as.Pos()),
					strings.TrimPrefix(fq, "exec.")+" writes "+expr(l)+" in place: the by-value invocation's Args shares its backing array with the task's invocation and with the slice the caller passed to Session.Run, so the caller's own arguments turn into invocationRefs — a second Run with the same slice fails the typecheck, and concurrent runs race on the array")
			}
			return true
		})
	}
	c.Floor("in-place writes of a by-value invocation's Args", n, 1)
}
