package main

// C10-R10: no integer division on the sort/merge path can divide by zero.
//
// The sorting reader sizes its runs from measurements (bytes written per run,
// rows read) and from configuration; the merging readers index batches by
// quotients.  A divisor that can be zero makes the reader panic instead of
// emitting its input — for *some* input (a run that encodes to fewer bytes
// than it has rows, a tiny spill target), which is exactly the kind of input
// no test samples.  For every integer `/` and `%` in package sortio and in the
// cogroup reader the divisor must be
//   - a non-zero constant, or
//   - a variable that, on every path from its last assignment to the
//     division, was assigned a positive bound (a constant >= 1 or the
//     configured batch size) or passed the edge of a test that excludes zero
//     (conditions are evaluated over integer ranges, so `x < 1`, `x == 0`,
//     `0 >= x`, `!(x > 0)` all count, whichever way they are spelled), or
//   - listed in the exception table below, one symbol and one reason each.
//
// Decided: the shape.  Not decided: overflow, or what the quotient is used for.

import (
	"go/ast"
	"go/token"
	"go/types"
)

// The one exception, by role: a variable whose every assignment is the row
// count of sliceio.ReadFull.
const c10readFullCount = "the divisor is the row count of a sliceio.ReadFull into the non-empty fill frame on the path where it reported neither an error nor end-of-stream: ReadFull returns short only together with one of them, and the frame's length is the canary size or the clamped target (C10-R7)"

func c10isReadFullCount(fn *Func, xo types.Object) bool {
	n, other := 0, 0
	inspectNoLit(fn.Body, func(nd ast.Node) bool {
		switch a := nd.(type) {
		case *ast.AssignStmt:
			for i, l := range a.Lhs {
				lid, ok := l.(*ast.Ident)
				if !ok {
					continue
				}
				o := fn.Pkg.Info.Defs[lid]
				if o == nil {
					o = fn.Pkg.Info.Uses[lid]
				}
				if o != xo {
					continue
				}
				if i == 0 && len(a.Rhs) == 1 {
					if k, ok := ast.Unparen(a.Rhs[0]).(*ast.CallExpr); ok && fn.Pkg.CalleeName(k) == "sliceio.ReadFull" {
						n++
						continue
					}
				}
				other++
			}
		case *ast.IncDecStmt:
			if lid, ok := a.X.(*ast.Ident); ok && fn.Pkg.Info.Uses[lid] == xo {
				other++
			}
		}
		return true
	})
	return n > 0 && other == 0
}

func c10r10(c *RC) {
	pr := c.P
	var fns []*Func
	fns = append(fns, pr.FuncsIn("sortio")...)
	for _, fn := range pr.FuncsIn("") {
		if fn.QName() == ".(*cogroupReader).Read" {
			fns = append(fns, fn)
		}
	}
	n := 0
	for _, fn := range fns {
		if fn.Body == nil {
			continue
		}
		fq := fn.QName()
		var divs []*ast.BinaryExpr
		inspectNoLit(fn.Body, func(nd ast.Node) bool {
			be, ok := nd.(*ast.BinaryExpr)
			if !ok || (be.Op != token.QUO && be.Op != token.REM) {
				return true
			}
			if t := fn.Pkg.Info.TypeOf(be); t != nil {
				if b, ok := t.Underlying().(*types.Basic); ok && b.Info()&types.IsInteger != 0 {
					divs = append(divs, be)
				}
			}
			return true
		})
		for _, be := range divs {
			n++
			d := ast.Unparen(be.Y)
			if v, isC := constInt(fn.Pkg, d); isC {
				c.Check(v != 0, fq+"|divisor:"+expr(d), pr.Pos(be.Pos()), "division by the constant zero")
				continue
			}
			id, ok := d.(*ast.Ident)
			if !ok {
				c.Check(false, fq+"|divisor:"+canon(fn, d), pr.Pos(be.Pos()),
					"the divisor "+expr(d)+" is neither a constant nor a variable whose last assignment or a dominating test excludes zero: for some input this division panics and the reader emits nothing")
				continue
			}
			x := id.Name
			xo := fn.Pkg.Info.Uses[id]
			if c10isReadFullCount(fn, xo) {
				c.Except(fq+"|divisor:count-of-ReadFull", c10readFullCount)
				c.Check(true, fq+"|divisor:count-of-ReadFull", pr.Pos(be.Pos()), "")
				continue
			}
			fl := pr.Flow(fn)
			loc, okL := fl.LocOf(be)
			if !okL {
				c.Undecide("%s: division %s not in the flow graph", fq, expr(be))
				continue
			}
			le := newLinEnv(pr, fn)
			le.defs = map[types.Object]ast.Expr{} // compare the variable itself, not what it was defined as
			xterm := (lin{le.atom(id): 1}).String()
			// value of a branch condition when x == 0 (other atoms unknown)
			zeroValue := func(cond ast.Expr) (bool, bool) {
				return evalCond3(cond, func(e ast.Expr) (bool, bool) {
					b, ok := ast.Unparen(e).(*ast.BinaryExpr)
					if !ok {
						return false, false
					}
					switch b.Op {
					case token.EQL, token.NEQ, token.LSS, token.LEQ, token.GTR, token.GEQ:
					default:
						return false, false
					}
					df := le.norm(b.X, 0)
					df.addScaled(le.norm(b.Y, 0), -1)
					for _, sgn := range []int{1, -1} {
						rest := lin{}
						rest.addScaled(df, 1)
						rest.addScaled(lin{le.atom(id): 1}, -sgn)
						nz := nonZero(rest)
						if len(nz) > 1 || (len(nz) == 1 && nz[0] != "") {
							continue
						}
						return truthInRange(b.Op, "==", sgn, int64(rest[""]))
					}
					return false, false
				})
			}
			_ = xterm
			bad := false
			var trail []string
			fl.Walk(fl.Entry(), "", nil, Visitor{NoFacts: true,
				Enter: func(from, to *cfg2Block, st string, s *Step) (string, bool) {
					cond := fl.edgeCond(from)
					if cond == nil || len(from.Succs) != 2 {
						return st, false
					}
					if v0, known := zeroValue(cond); known {
						// the edge not taken when x == 0 excludes zero
						if to == from.Succs[c18edge(!v0)] && to != from.Succs[c18edge(v0)] {
							return "nonzero", false
						}
					}
					return st, false
				},
				Node: func(nd ast.Node, st string, s *Step) (string, bool) {
					if s.Block == loc.B && s.Idx == loc.I {
						if st != "nonzero" {
							bad = true
							trail = s.Trail()
						}
						return st, true
					}
					switch a := nd.(type) {
					case *ast.AssignStmt:
						for i, l := range a.Lhs {
							lid, ok := l.(*ast.Ident)
							if !ok {
								continue
							}
							o := fn.Pkg.Info.Defs[lid]
							if o == nil {
								o = fn.Pkg.Info.Uses[lid]
							}
							if o != xo {
								continue
							}
							if a.Tok == token.ASSIGN || a.Tok == token.DEFINE {
								if len(a.Lhs) == len(a.Rhs) && positiveBound(pr, fn, a.Rhs[i]) {
									return "nonzero", false
								}
							}
							return "", false
						}
					case *ast.IncDecStmt:
						if lid, ok := a.X.(*ast.Ident); ok && fn.Pkg.Info.Uses[lid] == xo {
							return "", false
						}
					}
					return st, false
				}})
			c.Check(!bad, fq+"|divisor-of:"+canon(fn, be.X), pr.Pos(be.Pos()),
				"the divisor "+x+" of "+expr(be)+" can be zero on a path to the division (no assignment of a positive bound and no test excluding zero since its last assignment): for such an input — e.g. a run that encodes to fewer bytes than it has rows — the reader panics with a division by zero instead of emitting its input", trail...)
		}
	}
	c.Floor("integer divisions on the sort/merge path", n, 3)
}
