package main

import (
	"fmt"
	"go/ast"
	"go/constant"
	"go/token"
	"go/types"
	"regexp"
	"sort"
	"strings"
)

func init() {
	registerProperty(&Property{
		ID:          "C09",
		Explanation: "Decides structural necessary conditions of the combining buffers: (R1) the load factor is a constant in (0,1) and the growth threshold is derived from it (so an empty slot always exists and probing terminates), constant table sizes are powers of two, growth doubles, mask = size-1, and the insert-or-combine loop and the rehash loop probe identically (same seeded start, same step, try from 1); (R2) a hit is decided by symmetric not-less on the same two rows; (R3) frames are sorted immediately before they are spilled or handed to the merge; (R4) Compact clears the hit count of every slot it visits and resets the length; (R5) the spill directory is removed on every exit of Reader and by Discard; (R6) errors of spilling, combining and writing are reported on every path; (R7) both arms of the probe mark the slot occupied, the rehash carries hit counts and rows over, and the new value is stored in the slot that matched. Not decided: the folded values, ascending order of the output, behaviour under every collision pattern (value-level).",
		Rules: []Rule{
			{ID: "C09-R1", Doc: "probing terminates and the two probe loops agree", Run: c09r1},
			{ID: "C09-R2", Doc: "equality is symmetric not-less", Run: c09r2},
			{ID: "C09-R3", Doc: "sorted before spilled / merged", Run: c09r3},
			{ID: "C09-R4", Doc: "compaction resets", Run: c09r4},
			{ID: "C09-R5", Doc: "spill files removed on read-back and discard", Run: c09r5},
			{ID: "C09-R6", Doc: "combine errors propagate", Run: c09r6},
			{ID: "C09-R7", Doc: "slot bookkeeping in both probe arms and in rehash", Run: c09r7},
			{ID: "C09-R8", Doc: "every combiner created or taken is read back, discarded or handed on, on every path", Run: c09r8},
			{ID: "C09-R9", Doc: "rows taken out of a combining frame (Compact) are handed on, on every path", Run: c09r9},
			{ID: "C09-R10", Doc: "polarity of the table's tests and the rows they address (conditions evaluated, indices as linear forms)", Run: c09r10},
			{ID: "C17-R7", Doc: "no compound nil/end-of-stream test is constant (shared)", Run: c17r7},
			{ID: "C10-R4", Doc: "the reducing merge used to read a spilled combiner back repairs its heap after every cursor move (shared)", Run: c10r4},
			{ID: "C10-R8", Doc: "a merge heap is heapified after it has been filled (shared)", Run: c10r8},
			{ID: "C10-R9", Doc: "a merge cursor moves only past a row that was taken (shared)", Run: c10r9},
			{ID: "C11-R10", Doc: "comparison and hashing cover every key column, so keys equal for the hash are equal for the order (shared)", Run: c11r10},
			{ID: "C11-R1", Doc: "spilled runs are encoded from views at non-zero offsets: codecs are handed exactly the view's rows (shared)", Run: c11r1},
			{ID: "C10-R11", Doc: "frames on which a reader compares or hashes keys take their key prefix from the reader's own type, never from the caller's destination frame (shared)", Run: c10r11},
			{ID: "C09-R11", Doc: "no error is swallowed by a redeclaration that shadows a named error result", Run: c09r11},
			{ID: "C09-R12", Doc: "the worker's combining path folds every row read, once, into the partition the partitioner chose", Run: c09r12},
			{ID: "C10-R6", Doc: "reducing merge: combined value stored before refill (shared)", Run: c10r6},
		},
	})
}

var reIdent = regexp.MustCompile(`\b[a-zA-Z_][a-zA-Z0-9_]*\b`)

// probeShape extracts the start and step expressions of the probe loop in fn.
func probeShape(fn *Func) (start, step, tryInit, tryPost string, loop *ast.ForStmt) {
	defer func() {
		start, step = unrecv(fn, start), unrecv(fn, step)
	}()
	ast.Inspect(fn.Body, func(n ast.Node) bool {
		f, ok := n.(*ast.ForStmt)
		if !ok || f.Cond != nil || f.Init == nil || f.Post == nil {
			return true
		}
		init, ok := f.Init.(*ast.AssignStmt)
		if !ok || len(init.Lhs) != 1 {
			return true
		}
		tv := expr(init.Lhs[0])
		tryInit = expr(init.Rhs[0])
		tryPost = replaceWord(nodeText(f.Post), tv, "TRY")
		loop = f
		// step: idx = (idx + try) & mask inside the loop
		ast.Inspect(f.Body, func(m ast.Node) bool {
			if a, ok := m.(*ast.AssignStmt); ok && len(a.Lhs) == 1 && a.Tok == token.ASSIGN {
				r := expr(a.Rhs[0])
				if strings.Contains(r, tv) && strings.Contains(r, expr(a.Lhs[0])) {
					step = replaceWord(replaceWord(r, tv, "TRY"), expr(a.Lhs[0]), "IDX")
					// normalise `(a + b) & m` so that operand order does not matter
					if be, ok := ast.Unparen(a.Rhs[0]).(*ast.BinaryExpr); ok && be.Op == token.AND {
						sum, m := be.X, be.Y
						if _, isSum := ast.Unparen(sum).(*ast.BinaryExpr); !isSum {
							sum, m = m, sum
						}
						if sb, ok := ast.Unparen(sum).(*ast.BinaryExpr); ok && sb.Op == token.ADD {
							ops := []string{replaceWord(replaceWord(expr(sb.X), tv, "TRY"), expr(a.Lhs[0]), "IDX"), replaceWord(replaceWord(expr(sb.Y), tv, "TRY"), expr(a.Lhs[0]), "IDX")}
							sort.Strings(ops)
							step = "(" + ops[0] + " + " + ops[1] + ") & " + expr(m)
						}
					}
				}
			}
			return true
		})
		return false
	})
	if loop == nil {
		return
	}
	// start: the assignment to the index variable immediately preceding the loop
	var prev ast.Stmt
	ast.Inspect(fn.Body, func(n ast.Node) bool {
		bl, ok := n.(*ast.BlockStmt)
		if !ok {
			return true
		}
		for i, st := range bl.List {
			if st == ast.Stmt(loop) && i > 0 {
				prev = bl.List[i-1]
			}
		}
		return true
	})
	if a, ok := prev.(*ast.AssignStmt); ok && len(a.Rhs) == 1 {
		s := expr(a.Rhs[0])
		// normalise the frame and row operands of HashWithSeed(<row>, seed)
		if call := findCall(a.Rhs[0], "HashWithSeed"); call != nil && len(call.Args) == 2 {
			sel := call.Fun.(*ast.SelectorExpr)
			s = strings.Replace(s, expr(sel.X)+".HashWithSeed("+expr(call.Args[0])+",", "FRAME.HashWithSeed(ROW,", 1)
		}
		start = s
	}
	return
}

func nodeText(n ast.Node) string {
	switch x := n.(type) {
	case *ast.IncDecStmt:
		return expr(x.X) + x.Tok.String()
	case *ast.AssignStmt:
		return expr(x.Lhs[0]) + x.Tok.String() + expr(x.Rhs[0])
	case ast.Expr:
		return expr(x)
	}
	return fmt.Sprintf("%T", n)
}

func findCall(e ast.Node, method string) *ast.CallExpr {
	var out *ast.CallExpr
	ast.Inspect(e, func(n ast.Node) bool {
		if c, ok := n.(*ast.CallExpr); ok {
			if s, ok := c.Fun.(*ast.SelectorExpr); ok && s.Sel.Name == method && out == nil {
				out = c
			}
		}
		return true
	})
	return out
}

func c09r1(c *RC) {
	pr := c.P
	pk := pr.Pkgs["exec"]
	if pk == nil {
		c.Undecide("no exec")
		return
	}
	// load factor
	if lf, ok := pk.Types.Scope().Lookup("combiningFrameLoadFactor").(*types.Const); ok {
		f, _ := constant.Float64Val(lf.Val())
		c.Check(f > 0 && f < 1, "exec.combiningFrameLoadFactor|in-(0,1)", pr.Pos(lf.Pos()), fmt.Sprintf("load factor %v is not strictly between 0 and 1: with a full table the probe loop never finds an empty slot and spins forever", f))
	} else {
		c.Fail("exec.combiningFrameLoadFactor|in-(0,1)", "exec/combiner.go", "the load factor constant is gone")
	}
	mk := c.MustFn("exec.(*combiningFrame).make")
	if mk != nil {
		var thr, mask, capA string
		ast.Inspect(mk.Body, func(n ast.Node) bool {
			if a, ok := n.(*ast.AssignStmt); ok && len(a.Lhs) == 1 {
				switch unrecv(mk, expr(a.Lhs[0])) {
				case "c.threshold":
					thr = strings.ReplaceAll(expr(a.Rhs[0]), " ", "")
				case "c.mask":
					mask = strings.ReplaceAll(expr(a.Rhs[0]), " ", "")
				case "c.cap":
					capA = strings.ReplaceAll(expr(a.Rhs[0]), " ", "")
				}
			}
			return true
		})
		size := "ndata"
		if len(mk.Type.Params.List) > 0 && len(mk.Type.Params.List[0].Names) > 0 {
			size = mk.Type.Params.List[0].Names[0].Name
		}
		c.Check(thr == "int(combiningFrameLoadFactor*float64("+size+"))" || thr == "int(float64("+size+")*combiningFrameLoadFactor)", "exec.(*combiningFrame).make|threshold-from-load-factor", pr.Pos(mk.Body.Pos()),
			"the growth threshold is "+thr+", not loadFactor*size: the table may fill completely before it grows")
		c.Check(mask == size+"-1", "exec.(*combiningFrame).make|mask=size-1", pr.Pos(mk.Body.Pos()), "mask is "+mask+", want "+size+"-1")
		c.Check(capA == size, "exec.(*combiningFrame).make|cap=size", pr.Pos(mk.Body.Pos()), "cap is "+capA)
		// power-of-two guard: `size & (size-1)` compared with 0, whatever the spelling
		pow := false
		leMk := newLinEnv(pr, mk)
		ast.Inspect(mk.Body, func(n ast.Node) bool {
			ifs, ok := n.(*ast.IfStmt)
			if !ok {
				return true
			}
			be, ok := ast.Unparen(ifs.Cond).(*ast.BinaryExpr)
			if !ok || be.Op != token.NEQ {
				return true
			}
			var and ast.Expr
			if v, isC := constInt(mk.Pkg, be.Y); isC && v == 0 {
				and = be.X
			} else if v, isC := constInt(mk.Pkg, be.X); isC && v == 0 {
				and = be.Y
			}
			ab, ok := ast.Unparen(and).(*ast.BinaryExpr)
			if and == nil || !ok || ab.Op != token.AND {
				return true
			}
			a, b := leMk.norm(ab.X, 0).String(), leMk.norm(ab.Y, 0).String()
			full, less := (lin{"$p0": 1}).String(), (lin{"$p0": 1, "": -1}).String()
			if (a == full && b == less) || (a == less && b == full) {
				for _, call := range callsIn(ifs.Body) {
					if !mk.Pkg.mayReturn(call) {
						pow = true
					}
				}
			}
			return true
		})
		c.Check(pow, "exec.(*combiningFrame).make|rejects-non-power-of-two", pr.Pos(mk.Body.Pos()), "make no longer panics on a size that is not a power of two: with such a size the mask skips slots and the quadratic probe does not visit every slot")
	}
	// constant sizes handed to makeCombiningFrame
	nconst := 0
	for _, fn := range pr.FuncsIn("exec") {
		if fn.Body == nil {
			continue
		}
		for _, call := range directCalls(fn.Body) {
			if fn.Pkg.CalleeName(call) != "exec.makeCombiningFrame" || len(call.Args) != 4 {
				continue
			}
			if v, ok := constInt(fn.Pkg, call.Args[2]); ok {
				nconst++
				c.Check(v > 0 && v&(v-1) == 0, fmt.Sprintf("%s|constant-table-size-%d", fn.QName(), v), pr.Pos(call.Pos()), fmt.Sprintf("makeCombiningFrame is given the constant size %d, which is not a power of two", v))
			}
			if v, ok := constInt(fn.Pkg, call.Args[3]); ok {
				c.Check(v >= 1, fmt.Sprintf("%s|constant-scratch-size-%d", fn.QName(), v), pr.Pos(call.Pos()), "scratch size must be at least 1")
			}
		}
	}
	c.Floor("constant combining-frame sizes", nconst, 1)
	// growth doubles
	added := c.MustFn("exec.(*combiningFrame).added")
	comb := c.MustFn("exec.(*combiningFrame).combine")
	if added == nil || comb == nil {
		return
	}
	dbl := false
	var grow *ast.CallExpr
	ast.Inspect(added.Body, func(n ast.Node) bool {
		if a, ok := n.(*ast.AssignStmt); ok && len(a.Rhs) == 1 {
			t := unrecv(added, strings.ReplaceAll(expr(a.Rhs[0]), " ", ""))
			if t == "c.cap*2" || t == "2*c.cap" || t == "c.cap<<1" {
				dbl = true
			}
		}
		if call, ok := n.(*ast.CallExpr); ok && added.Pkg.CalleeName(call) == "exec.(*combiningFrame).make" {
			grow = call
		}
		return true
	})
	c.Check(dbl && grow != nil, "exec.(*combiningFrame).added|doubles", pr.Pos(added.Body.Pos()), "the table no longer grows by doubling its capacity (a power of two must stay a power of two)")
	// growth is triggered by len > threshold (evaluated, not matched as text)
	trig, _ := c09LenThresholdGuard(added, newLinEnv(pr, added))
	c.Check(trig, "exec.(*combiningFrame).added|grows-above-threshold", pr.Pos(added.Body.Pos()), "added no longer returns early only while len <= threshold: the table is allowed to fill up")
	s1, st1, ti1, tp1, l1 := probeShape(comb)
	s2, st2, ti2, tp2, l2 := probeShape(added)
	if l1 == nil || l2 == nil {
		c.Fail("exec.combiningFrame|probe-loops", pr.Pos(comb.Body.Pos()), "cannot find both probe loops")
		return
	}
	c.Check(s1 == s2 && s1 != "" && strings.Contains(s1, "hashSeed") && strings.Contains(s1, "& c.mask"), "exec.combiningFrame|probe-start-agrees", pr.Pos(l2.Pos()),
		fmt.Sprintf("insert probes from %q but rehash from %q: keys are stranded where lookups cannot find them, so a key gets two rows", s1, s2))
	c.Check(st1 == st2 && st1 != "", "exec.combiningFrame|probe-step-agrees", pr.Pos(l2.Pos()),
		fmt.Sprintf("insert steps with %q but rehash with %q", st1, st2))
	c.Check(st1 == "(IDX + TRY) & c.mask" || st1 == "(TRY + IDX) & c.mask", "exec.combiningFrame|probe-step-triangular", pr.Pos(l1.Pos()), "the probe step is "+st1+"; triangular probing (idx+try)&mask is what visits every slot of a power-of-two table")
	c.Check(ti1 == "1" && ti2 == "1" && tp1 == "TRY++" && tp2 == "TRY++", "exec.combiningFrame|try-from-1", pr.Pos(l1.Pos()), fmt.Sprintf("try starts at %s/%s and advances by %s/%s", ti1, ti2, tp1, tp2))
}

func c09r2(c *RC) {
	pr := c.P
	comb := c.MustFn("exec.(*combiningFrame).combine")
	if comb == nil {
		return
	}
	chain, idx := c09ProbeChain(comb)
	var hit *ast.IfStmt
	if chain != nil {
		hit, _ = chain.Else.(*ast.IfStmt)
	}
	// the loop variable over the new rows
	iv := ""
	for _, st := range comb.Body.List {
		if f, ok := st.(*ast.ForStmt); ok && f.Init != nil {
			if in, ok := f.Init.(*ast.AssignStmt); ok && len(in.Lhs) == 1 {
				iv = expr(in.Lhs[0])
			}
		}
	}
	if hit == nil || idx == "" || iv == "" {
		c.Fail("exec.(*combiningFrame).combine|hit-is-symmetric-not-less", pr.Pos(comb.Body.Pos()), "the probe loop has no key-equality arm")
		return
	}
	ok, why := c09KeysEqualArm(comb, newLinEnv(pr, comb), hit.Cond, lin{idx: 1}, lin{"$recv.cap": 1, iv: 1})
	c.Check(ok, "exec.(*combiningFrame).combine|hit-is-symmetric-not-less", pr.Pos(hit.Pos()),
		"the slot-hit test is not true exactly when neither of the two rows (the slot's, and data row cap+i) is less than the other ("+why+"): distinct keys are folded together, or equal keys get separate rows")
}

func c09r3(c *RC) {
	pr := c.P
	type spec struct{ fn, sink string }
	for _, sp := range []spec{{"exec.(*combiner).spill", "sliceio.Spiller.Spill"}, {"exec.(*combiner).Reader", "sliceio.FrameReader"}} {
		fn := c.MustFn(sp.fn)
		if fn == nil {
			continue
		}
		fl := pr.Flow(fn)
		n := 0
		for _, call := range callsIn(fn.Body) {
			if fn.Pkg.CalleeName(call) != sp.sink || len(call.Args) != 1 {
				continue
			}
			n++
			target := expr(call.Args[0])
			bad := false
			var trail []string
			fl.Walk(fl.Entry(), "", nil, Visitor{NoFacts: true,
				Node: func(nd ast.Node, x string, s *Step) (string, bool) {
					if _, isDefer := nd.(*ast.DeferStmt); isDefer {
						return x, false
					}
					if a, ok := nd.(*ast.AssignStmt); ok {
						for _, l := range a.Lhs {
							if expr(l) == target {
								x = ""
							}
						}
					}
					for _, k := range callsIn(nd) {
						kn := fn.Pkg.CalleeName(k)
						if k == call {
							if x != "sorted" {
								bad = true
								trail = s.Trail()
							}
						} else if kn == "sort.Sort" && len(k.Args) == 1 && expr(k.Args[0]) == target {
							x = "sorted"
						}
					}
					return x, false
				}})
			c.Check(!bad, sp.fn+"|sorted-before-"+shortCallee(sp.sink), pr.Pos(call.Pos()),
				fmt.Sprintf("%s receives %s without sort.Sort(%s) on the path: the merge over spilled runs assumes every run is sorted, so keys are emitted more than once", shortCallee(sp.sink), target, target), trail...)
		}
		c.Floor("sort sinks in "+sp.fn, n, 1)
	}
	// the merge of runs is the reducing merge with the combiner's own function
	if fn := pr.Fn("exec.(*combiner).Reader"); fn != nil {
		ok := false
		for _, call := range callsIn(fn.Body) {
			if fn.Pkg.CalleeName(call) == "sortio.Reduce" && len(call.Args) == 4 && strings.HasSuffix(expr(call.Args[3]), ".combiner") {
				ok = true
			}
		}
		c.Check(ok, "exec.(*combiner).Reader|reduces-with-own-combiner", pr.Pos(fn.Body.Pos()), "the runs are no longer merged by sortio.Reduce with the combiner's function: equal keys of different runs stay separate rows")
	}
}

func c09r4(c *RC) {
	pr := c.P
	fn := c.MustFn("exec.(*combiningFrame).Compact")
	if fn == nil {
		return
	}
	fq := fn.QName()
	var rng *ast.RangeStmt
	ast.Inspect(fn.Body, func(n ast.Node) bool {
		if r, ok := n.(*ast.RangeStmt); ok && strings.HasSuffix(expr(r.X), ".hits") {
			rng = r
		}
		return true
	})
	if rng == nil {
		c.Fail(fq+"|visits-slots", pr.Pos(fn.Body.Pos()), "Compact no longer ranges over the hit counts")
		return
	}
	idx := expr(rng.Key)
	// in the loop body, after the `if n == 0 { continue }` guard: hits[i] = 0, swap(i, j), j++
	var zero, swap, inc bool
	for _, st := range rng.Body.List {
		switch a := st.(type) {
		case *ast.AssignStmt:
			if len(a.Lhs) == 1 && strings.HasSuffix(expr(a.Lhs[0]), ".hits["+idx+"]") {
				if v, ok := constInt(fn.Pkg, a.Rhs[0]); ok && v == 0 {
					zero = true
				}
			}
		case *ast.ExprStmt:
			if call, ok := a.X.(*ast.CallExpr); ok && fn.Pkg.CalleeName(call) == "frame.Frame.Swap" && len(call.Args) == 2 && (expr(call.Args[0]) == idx || expr(call.Args[1]) == idx) {
				swap = true
			}
		case *ast.IncDecStmt:
			if a.Tok == token.INC {
				inc = true
			}
		}
	}
	c.Check(zero, fq+"|clears-hit-count", pr.Pos(rng.Pos()), "Compact does not reset the hit count of the slots it moves: after compaction stale slots look occupied, so later keys are compared against garbage rows or never inserted")
	c.Check(swap && inc, fq+"|moves-rows-to-front", pr.Pos(rng.Pos()), "Compact no longer swaps each occupied slot to the next front position")
	// len = 0 before return; returns data.Slice(0, j)
	fl := pr.Flow(fn)
	var ret *ast.ReturnStmt
	ast.Inspect(fn.Body, func(n ast.Node) bool {
		if r, ok := n.(*ast.ReturnStmt); ok {
			ret = r
		}
		return true
	})
	if ret != nil {
		loc, _ := fl.LocOf(ret)
		dom, wit := fl.Dominated(loc, func(n ast.Node, s *Step) bool {
			a, ok := n.(*ast.AssignStmt)
			if !ok || len(a.Lhs) != 1 || !strings.HasSuffix(expr(a.Lhs[0]), ".len") {
				return false
			}
			v, isC := constInt(fn.Pkg, a.Rhs[0])
			return isC && v == 0
		})
		c.Check(dom, fq+"|resets-len", pr.Pos(ret.Pos()), "Compact returns without resetting len to 0: the frame keeps counting the compacted keys and grows or spills at the wrong time", wit...)
	}
}

func c09r5(c *RC) {
	pr := c.P
	fn := c.MustFn("exec.(*combiner).Reader")
	if fn != nil {
		fl := pr.Flow(fn)
		fq := fn.QName()
		nex := 0
		fl.Walk(fl.Entry(), "0", nil, Visitor{NoFacts: true,
			Node: func(n ast.Node, x string, s *Step) (string, bool) {
				if d, ok := n.(*ast.DeferStmt); ok {
					var calls []*ast.CallExpr
					if lit, ok := d.Call.Fun.(*ast.FuncLit); ok {
						calls = callsIn(lit.Body)
					} else {
						calls = []*ast.CallExpr{d.Call}
					}
					for _, k := range calls {
						if fn.Pkg.CalleeName(k) == "sliceio.Spiller.Cleanup" {
							return "1", false
						}
					}
					return x, false
				}
				for _, k := range callsIn(n) {
					if fn.Pkg.CalleeName(k) == "sliceio.Spiller.Cleanup" {
						return "1", false
					}
				}
				return x, false
			},
			Exit: func(kind ExitKind, ret *ast.ReturnStmt, x string, s *Step) {
				if kind == ExitPanic {
					return
				}
				nex++
				c.Check(x == "1", fq+"|exit:"+exitKey(fl, s, ret)+"|Cleanup", fl.exitPos(s, ret), "combiner.Reader returns without removing the spill directory: temporary spill files are left behind", s.Trail()...)
			}})
		if nex == 0 {
			c.Undecide("%s: no exits", fq)
		}
		// the spilled runs are opened before the directory is removed: ClosingReaders is called (files stay readable through open descriptors)
		has := false
		for _, k := range callsIn(fn.Body) {
			if fn.Pkg.CalleeName(k) == "sliceio.Spiller.ClosingReaders" {
				has = true
			}
		}
		c.Check(has, fq+"|opens-runs", pr.Pos(fn.Body.Pos()), "combiner.Reader no longer opens the spilled runs")
	}
	if d := c.MustFn("exec.(*combiner).Discard"); d != nil {
		has := false
		for _, k := range callsIn(d.Body) {
			if d.Pkg.CalleeName(k) == "sliceio.Spiller.Cleanup" {
				has = true
			}
		}
		c.Check(has, d.QName()+"|Cleanup", pr.Pos(d.Body.Pos()), "Discard no longer removes the spill directory")
	}
}

func c09r6(c *RC) {
	pr := c.P
	var fns []*Func
	fns = append(fns, pr.FuncsInFile("exec/combiner.go")...)
	for _, q := range []string{"exec.(*localExecutor).depReaders", "exec.(*worker).runCombine", "exec.(*worker).writeCombiner", "exec.(*worker).CommitCombiner"} {
		if f := pr.Fn(q); f != nil {
			fns = append(fns, f)
			var addLits func(f *Func)
			addLits = func(f *Func) {
				for _, l := range f.Lits {
					fns = append(fns, l)
					addLits(l)
				}
			}
			addLits(f)
		}
	}
	n := errSites(c, fns, func(fn *Func, call *ast.CallExpr, cn string) bool {
		switch cn {
		case "exec.(*combiner).spill", "exec.(*combiner).Combine", "exec.(*combiner).Reader", "exec.(*combiner).WriteTo",
			"sliceio.Spiller.Spill", "sliceio.Spiller.ClosingReaders", "sliceio.NewSpiller", "exec.newCombiner",
			"sliceio.(*Encoder).Write", "sliceio.Reader.Read", "exec.(*multiReader).Read":
			return true
		}
		return false
	}, ErrFlowOpts{SentinelOK: []string{"sliceio.EOF"}}, map[string]string{})
	c.Floor("combine/spill error sites", n, 8)
}

func c09r7(c *RC) {
	pr := c.P
	comb := c.MustFn("exec.(*combiningFrame).combine")
	added := c.MustFn("exec.(*combiningFrame).added")
	if comb == nil || added == nil {
		return
	}
	_, _, _, _, loop := probeShape(comb)
	if loop == nil {
		c.Fail(comb.QName()+"|probe-loop", pr.Pos(comb.Body.Pos()), "probe loop not found")
		return
	}
	// the if / else-if / else chain in the loop body
	var chain *ast.IfStmt
	for _, st := range loop.Body.List {
		if ifs, ok := st.(*ast.IfStmt); ok {
			chain = ifs
		}
	}
	if chain == nil {
		c.Fail(comb.QName()+"|probe-arms", pr.Pos(loop.Pos()), "the probe loop body is no longer an if/else-if/else chain")
		return
	}
	emptyCond := unrecv(comb, strings.ReplaceAll(expr(chain.Cond), " ", ""))
	_, idxVar := c09ProbeChain(comb)
	if idxVar != "" {
		if ok, _ := thenBranchIffZero(newLinEnv(pr, comb), chain.Cond, "$recv.hits["+idxVar+"]"); !ok {
			idxVar = ""
		}
	}
	c.Check(idxVar != "", comb.QName()+"|empty-slot-test", pr.Pos(chain.Pos()), "the first probe arm is no longer taken exactly when c.hits[idx] is zero (got "+emptyCond+")")
	if idxVar == "" {
		return
	}
	hasInc := func(list []ast.Stmt) bool {
		for _, st := range list {
			if inc, ok := st.(*ast.IncDecStmt); ok && inc.Tok == token.INC && unrecv(comb, strings.ReplaceAll(expr(inc.X), " ", "")) == "c.hits["+idxVar+"]" {
				return true
			}
		}
		return false
	}
	hasBreak := func(list []ast.Stmt) bool {
		for _, st := range list {
			if b, ok := st.(*ast.BranchStmt); ok && b.Tok == token.BREAK {
				return true
			}
		}
		return false
	}
	// insert arm
	insOK := hasInc(chain.Body.List) && hasBreak(chain.Body.List)
	movesRow, callsAdded := false, false
	for _, call := range callsIn(chain.Body) {
		cn := comb.Pkg.CalleeName(call)
		if (cn == "frame.Frame.Swap" || cn == "frame.Copy") && strings.Contains(expr(call), idxVar) {
			movesRow = true
		}
		if cn == "exec.(*combiningFrame).added" {
			callsAdded = true
		}
	}
	c.Check(insOK && movesRow && callsAdded, comb.QName()+"|insert-arm", pr.Pos(chain.Body.Pos()),
		fmt.Sprintf("the insert arm must mark the slot occupied (hits++=%v), move the row into it (%v), account for it (added()=%v) and stop probing: otherwise the next equal key does not find it and gets a second row", hasInc(chain.Body.List), movesRow, callsAdded))
	// combine arm
	hit, ok := chain.Else.(*ast.IfStmt)
	if !ok {
		c.Fail(comb.QName()+"|combine-arm", pr.Pos(chain.Pos()), "no combine arm")
		return
	}
	setsSlot := false
	for _, call := range callsIn(hit.Body) {
		if strings.HasSuffix(comb.Pkg.CalleeName(call), "reflect.Value.Set") {
			if sel, ok := call.Fun.(*ast.SelectorExpr); ok {
				if ic, ok := sel.X.(*ast.CallExpr); ok && comb.Pkg.CalleeName(ic) == "frame.Frame.Index" && len(ic.Args) == 2 && expr(ic.Args[1]) == idxVar && strings.HasSuffix(expr(ic.Fun), "data.Index") {
					setsSlot = true
				}
			}
		}
	}
	c.Check(setsSlot && hasInc(hit.Body.List) && hasBreak(hit.Body.List), comb.QName()+"|combine-arm", pr.Pos(hit.Body.Pos()),
		"the combine arm must store the combined value into the value column of the matching slot (data.Index(vcol, idx).Set), count the hit and stop probing")
	// the combiner is called with (slot value, incoming value)
	argsOK := false
	ast.Inspect(hit.Body, func(n ast.Node) bool {
		if a, ok := n.(*ast.AssignStmt); ok && len(a.Lhs) == 1 && strings.HasSuffix(expr(a.Lhs[0]), "scratchCall[0]") {
			if call, ok := a.Rhs[0].(*ast.CallExpr); ok && len(call.Args) == 2 && expr(call.Args[1]) == idxVar {
				argsOK = true
			}
		}
		return true
	})
	c.Check(argsOK, comb.QName()+"|combiner-sees-slot-value", pr.Pos(hit.Body.Pos()), "the combiner's first operand is no longer the current value of the matching slot")
	// rehash arm
	_, _, _, _, l2 := probeShape(added)
	if l2 == nil {
		return
	}
	var ch2 *ast.IfStmt
	for _, st := range l2.Body.List {
		if ifs, ok := st.(*ast.IfStmt); ok {
			ch2 = ifs
		}
	}
	if ch2 == nil {
		c.Fail(added.QName()+"|rehash-arm", pr.Pos(l2.Pos()), "rehash loop body is not an if/else")
		return
	}
	carriesHits, copiesRow := false, false
	// names of the old data/scratch/hits returned by c.make(...)
	oldData, oldScratch, oldHits := "", "", ""
	ast.Inspect(added.Body, func(n ast.Node) bool {
		if a, ok := n.(*ast.AssignStmt); ok && len(a.Lhs) == 3 && len(a.Rhs) == 1 {
			if k, ok := a.Rhs[0].(*ast.CallExpr); ok && added.Pkg.CalleeName(k) == "exec.(*combiningFrame).make" {
				oldData, oldScratch, oldHits = expr(a.Lhs[0]), expr(a.Lhs[1]), expr(a.Lhs[2])
			}
		}
		return true
	})
	for _, st := range ch2.Body.List {
		if a, ok := st.(*ast.AssignStmt); ok && len(a.Lhs) == 1 && strings.HasPrefix(unrecv(added, strings.ReplaceAll(expr(a.Lhs[0]), " ", "")), "c.hits[") {
			// the right-hand side reads the old table's hit count: an index into the
			// third result of the make call (the old hits)
			if ix, ok := a.Rhs[0].(*ast.IndexExpr); ok && expr(ix.X) == oldHits && oldHits != "" {
				carriesHits = true
			}
		}
	}
	for _, call := range callsIn(ch2.Body) {
		if added.Pkg.CalleeName(call) == "frame.Copy" && len(call.Args) == 2 && strings.Contains(unrecv(added, expr(call.Args[0])), "c.data") && oldData != "" && strings.HasPrefix(expr(call.Args[1]), oldData+".") {
			copiesRow = true
		}
	}
	c.Check(carriesHits && copiesRow && hasBreak(ch2.Body.List), added.QName()+"|rehash-arm", pr.Pos(ch2.Pos()),
		fmt.Sprintf("rehash must carry the hit count (%v) and the row (%v) of every old slot into the new table and stop probing", carriesHits, copiesRow))
	// the scratch area is carried over too (rows being combined live there)
	scr := false
	for _, call := range callsIn(added.Body) {
		if added.Pkg.CalleeName(call) == "frame.Copy" && len(call.Args) == 2 && unrecv(added, expr(call.Args[0])) == "c.scratch" && expr(call.Args[1]) == oldScratch && oldScratch != "" {
			scr = true
		}
	}
	c.Check(scr, added.QName()+"|scratch-carried-over", pr.Pos(added.Body.Pos()), "growth does not copy the scratch rows into the new frame: the remaining rows of the batch being combined are lost")
}

func replaceWord(s, word, with string) string {
	return regexp.MustCompile(`\b`+regexp.QuoteMeta(word)+`\b`).ReplaceAllLiteralString(s, with)
}

// unrecv rewrites "<recv>." prefixes of an expression string to "c." so that
// templates written for receiver c hold under any receiver name.
func unrecv(fn *Func, t string) string {
	r := recvOf(fn)
	if r == "" || r == "c" {
		return t
	}
	return replaceWord(t, r, "c")
}
