package main

import (
	"fmt"
	"go/ast"
	"go/token"
	"go/types"
	"sort"
	"strings"
)

func init() {
	registerProperty(&Property{
		ID:          "C07",
		Explanation: "Decides structural necessary conditions of the row-stream codec: (R1) the encoder's and the decoder's sequences of gob operations agree in operand type, loop structure and codec predicate (length int; per column flag bool then codec|gob value; checksum uint32), and a flag without a local codec is an error; (R2) the CRC is reset at the start of each batch on both sides, is the object the byte stream is teed into, the encoder's sum is the last thing encoded, the decoder takes its sum after the last column and before decoding the stored sum, compares them and only the equal branch reaches the nil return; (R3) the destination is zeroed before any gob/codec decode; (R4) every decode error is stored in the sticky field and returned with zero rows, the sticky error is tested first, and decode never manufactures the end-of-stream sentinel (a stream cut inside a batch must be an error); (R5) a batch larger than the destination is buffered and the buffer is drained before the next batch is decoded. Not decided: gob's bit-level fidelity, custom codecs' correctness, which damage CRC-32 detects.",
		Rules: []Rule{
			{ID: "C07-R1", Doc: "writer/reader wire agreement", Run: c07r1},
			{ID: "C07-R2", Doc: "checksum discipline", Run: c07r2},
			{ID: "C07-R3", Doc: "zero before decode", Run: c07r3},
			{ID: "C07-R4", Doc: "decode errors are sticky, zero-row, never end-of-stream", Run: c07r4},
			{ID: "C07-R5", Doc: "buffered remainder drained before next batch", Run: c07r5},
			{ID: "C07-R6", Doc: "every batch is decoded into a frame of exactly the decoded length, which is validated", Run: c07r6},
			{ID: "C11-R1", Doc: "the frame hands codecs and gob exactly the view's rows (offset-translated bounds) (shared)", Run: c11r1},
			{ID: "C11-R6", Doc: "the scratch frame sized with Ensure(n) has exactly n rows (shared)", Run: c11r6},
			{ID: "C11-R9", Doc: "a column is bound over the whole capacity the frame records, so the column value the encoder writes has the frame's length (shared)", Run: c11r9},
		},
	})
}

type wireOp struct {
	kind   string // scalar:<type> | codec-col | gob-col
	inLoop bool
	pos    token.Pos
	call   *ast.CallExpr
}

func (w wireOp) String() string {
	l := ""
	if w.inLoop {
		l = " (per column)"
	}
	return w.kind + l
}

// wireOps extracts the ordered gob/codec operations of fn.  enc selects
// encoder method names.
func wireOps(pr *Prog, fn *Func, enc bool) []wireOp {
	var ops []wireOp
	var loops []ast.Node
	ast.Inspect(fn.Body, func(n ast.Node) bool {
		switch n.(type) {
		case *ast.ForStmt, *ast.RangeStmt:
			loops = append(loops, n)
		}
		return true
	})
	inLoop := func(p token.Pos) bool {
		for _, l := range loops {
			var body *ast.BlockStmt
			switch x := l.(type) {
			case *ast.ForStmt:
				body = x.Body
				// the column loop: has an Init/Post (for col := 0; ...; col++) or is a range
				if x.Init == nil && x.Post == nil {
					continue
				}
			case *ast.RangeStmt:
				body = x.Body
			}
			if body.Pos() <= p && p < body.End() {
				return true
			}
		}
		return false
	}
	for _, call := range callsIn(fn.Body) {
		cn := fn.Pkg.CalleeName(call)
		var op wireOp
		op.pos = call.Pos()
		op.call = call
		switch {
		case enc && cn == "encoding/gob.(*Encoder).Encode" && len(call.Args) == 1:
			tv := fn.Pkg.Info.Types[call.Args[0]]
			op.kind = "scalar:" + typeString(tv.Type)
		case !enc && cn == "encoding/gob.(*Decoder).Decode" && len(call.Args) == 1:
			tv := fn.Pkg.Info.Types[call.Args[0]]
			t := tv.Type
			if p, ok := t.(*types.Pointer); ok {
				t = p.Elem()
			}
			op.kind = "scalar:" + typeString(t)
		case enc && cn == "encoding/gob.(*Encoder).EncodeValue":
			op.kind = "gob-col"
		case !enc && cn == "encoding/gob.(*Decoder).DecodeValue":
			op.kind = "gob-col"
		case enc && cn == "frame.Frame.Encode":
			op.kind = "codec-col"
		case !enc && cn == "frame.Frame.Decode":
			op.kind = "codec-col"
		default:
			continue
		}
		op.inLoop = inLoop(call.Pos())
		ops = append(ops, op)
	}
	// the two column encodings are alternatives of one branch: their source
	// order is immaterial
	for i := 0; i+1 < len(ops); i++ {
		if ops[i].kind == "gob-col" && ops[i+1].kind == "codec-col" {
			ops[i], ops[i+1] = ops[i+1], ops[i]
		}
	}
	return ops
}

func c07r1(c *RC) {
	pr := c.P
	w := c.MustFn("sliceio.(*Encoder).Write")
	r := c.MustFn("sliceio.(*decodingReader).Read")
	d := c.MustFn("sliceio.(*decodingReader).decode")
	if w == nil || r == nil || d == nil {
		return
	}
	eops := wireOps(pr, w, true)
	var dops []wireOp
	// Read contributes the batch length (its first scalar op), decode the rest
	rops := wireOps(pr, r, false)
	for _, o := range rops {
		if strings.HasPrefix(o.kind, "scalar:") {
			dops = append(dops, wireOp{kind: o.kind, inLoop: false, pos: o.pos})
		}
	}
	dops = append(dops, wireOps(pr, d, false)...)
	var es, ds []string
	for _, o := range eops {
		es = append(es, o.String())
	}
	for _, o := range dops {
		ds = append(ds, o.String())
	}
	c.Check(strings.Join(es, " ; ") == strings.Join(ds, " ; "), "sliceio.Encoder.Write~decodingReader|wire-sequence", pr.Pos(w.Body.Pos()),
		"the encoder writes ["+strings.Join(es, " ; ")+"] but the decoder reads ["+strings.Join(ds, " ; ")+"]: the two sides no longer agree on the batch layout")
	want := "scalar:int ; scalar:bool (per column) ; codec-col (per column) ; gob-col (per column) ; scalar:uint32"
	c.Check(strings.Join(es, " ; ") == want, "sliceio.(*Encoder).Write|batch-layout", pr.Pos(w.Body.Pos()),
		"the batch layout is no longer length, per column (flag, data), checksum: "+strings.Join(es, " ; "))
	c.Note("encoder: %s", strings.Join(es, " ; "))
	c.Note("decoder: %s", strings.Join(ds, " ; "))

	// codec predicate on the encoder side: flag value is f.HasCodec(col), the
	// codec branch is taken iff the flag is true
	checkBranch := func(fn *Func, ops []wireOp, flagType string) {
		fl := pr.Flow(fn)
		fq := fn.QName()
		// the flag variable: operand of the bool scalar op
		var flag string
		for _, o := range ops {
			if o.kind == "scalar:bool" && o.call != nil {
				a := ast.Unparen(o.call.Args[0])
				if u, ok := a.(*ast.UnaryExpr); ok && u.Op == token.AND {
					a = u.X
				}
				flag = fl.Key(a)
			}
		}
		if flag == "" {
			c.Fail(fq+"|codec-flag", pr.Pos(fn.Body.Pos()), "cannot find the per-column codec flag")
			return
		}
		for _, o := range ops {
			if o.call == nil || (o.kind != "codec-col" && o.kind != "gob-col") {
				continue
			}
			loc, ok := fl.LocOf(o.call)
			if !ok {
				c.Undecide("%s: %s not in CFG", fq, o.kind)
				continue
			}
			want := "true"
			if o.kind == "gob-col" {
				want = "false"
			}
			good := true
			var trail []string
			fl.Walk(fl.Entry(), "", nil, Visitor{NoFacts: true,
				Enter: func(from, to *cfg2Block, x string, s *Step) (string, bool) {
					cond := ast.Unparen(fl.edgeCond(from))
					neg := false
					if u, ok := cond.(*ast.UnaryExpr); ok && u.Op == token.NOT {
						cond, neg = ast.Unparen(u.X), true
					}
					if id, ok := cond.(*ast.Ident); ok && fl.Key(id) == flag {
						outcome := (from.Succs[0] == to) != neg
						return fmt.Sprint(outcome), false
					}
					return x, false
				},
				Node: func(n ast.Node, x string, s *Step) (string, bool) {
					if s.Block == loc.B && s.Idx == loc.I {
						if x != want {
							good = false
							trail = s.Trail()
						}
						return x, true
					}
					// the flag is rewritten: assignment or &flag handed to a call
					rew := false
					inspectNoLit(n, func(m ast.Node) bool {
						switch a := m.(type) {
						case *ast.AssignStmt:
							for _, l := range a.Lhs {
								if id, ok := l.(*ast.Ident); ok && fl.Key(id) == flag {
									rew = true
								}
							}
						case *ast.ValueSpec:
							for _, id := range a.Names {
								if fl.Key(id) == flag {
									rew = true
								}
							}
						case *ast.UnaryExpr:
							if id, ok := a.X.(*ast.Ident); ok && a.Op == token.AND && fl.Key(id) == flag {
								rew = true
							}
						}
						return true
					})
					if rew {
						return "", false
					}
					return x, false
				}})
			c.Check(good, fq+"|"+o.kind+"-iff-flag="+want, pr.Pos(o.call.Pos()),
				fmt.Sprintf("the %s path is reachable with the codec flag not known to be %s: a column is written with one encoding and flagged (or read) as the other", o.kind, want), trail...)
		}
	}
	checkBranch(w, eops, "enc")
	checkBranch(d, wireOps(pr, d, false), "dec")
	// after a column's flag message exactly one value message follows on every
	// path that goes on to the next column or to the checksum (error returns
	// aside): the two sides stay in step for every batch, the empty one included
	oneValue := func(fn *Func, ops []wireOp) {
		fl := pr.Flow(fn)
		fq := fn.QName()
		var flagOp *wireOp
		isValue := map[*ast.CallExpr]bool{}
		isMarker := map[*ast.CallExpr]bool{}
		for i := range ops {
			o := &ops[i]
			switch {
			case o.kind == "scalar:bool":
				flagOp = o
				isMarker[o.call] = true
			case o.kind == "codec-col" || o.kind == "gob-col":
				isValue[o.call] = true
			case strings.HasPrefix(o.kind, "scalar:"):
				isMarker[o.call] = true
			}
		}
		if flagOp == nil {
			c.Undecide("%s: no per-column flag message found", fq)
			return
		}
		loc, ok := fl.LocOf(flagOp.call)
		if !ok {
			c.Undecide("%s: flag message not in the flow graph", fq)
			return
		}
		skipped := false
		var trail []string
		fl.Walk(Loc{loc.B, loc.I + 1}, "", nil, Visitor{NoFacts: true,
			Node: func(n ast.Node, x string, s *Step) (string, bool) {
				hit, mark := false, false
				for _, k := range callsIn(n) {
					if isValue[k] {
						hit = true
					}
					if isMarker[k] {
						mark = true
					}
				}
				if hit {
					return x, true
				}
				if mark {
					skipped = true
					trail = s.Trail()
					return x, true
				}
				return x, false
			}})
		c.Check(!skipped, fq+"|one-value-message-per-column", pr.Pos(flagOp.call.Pos()),
			"after a column's codec flag, the next column's flag or the batch checksum can be reached without a value message for the column having been written/read: for such a batch (e.g. an empty one) the other side, which always transfers one, consumes the following message instead and the stream goes out of step", trail...)
	}
	oneValue(w, eops)
	oneValue(d, wireOps(pr, d, false))
	// encoder: the flag is f.HasCodec(col)
	okFlag := false
	ast.Inspect(w.Body, func(n ast.Node) bool {
		if a, ok := n.(*ast.AssignStmt); ok && len(a.Rhs) == 1 {
			if call, ok := a.Rhs[0].(*ast.CallExpr); ok && w.Pkg.CalleeName(call) == "frame.Frame.HasCodec" {
				okFlag = true
			}
		}
		return true
	})
	c.Check(okFlag, w.QName()+"|flag-is-HasCodec", pr.Pos(w.Body.Pos()), "the encoder's per-column flag is no longer the frame's HasCodec(col)")
	// decoder: flag && !f.HasCodec(col) => error return
	fl := pr.Flow(d)
	guard := false
	ast.Inspect(d.Body, func(n ast.Node) bool {
		ifs, ok := n.(*ast.IfStmt)
		if !ok {
			return true
		}
		txt := strings.ReplaceAll(expr(ifs.Cond), " ", "")
		if strings.Contains(txt, "!") && strings.Contains(txt, "HasCodec(") && strings.Contains(txt, "&&") {
			for _, st := range ifs.Body.List {
				if r, ok := st.(*ast.ReturnStmt); ok && len(r.Results) == 1 {
					if tv := d.Pkg.Info.Types[r.Results[0]]; !tv.IsNil() {
						guard = true
					}
				}
			}
		}
		return true
	})
	_ = fl
	c.Check(guard, d.QName()+"|flag-without-codec-is-error", pr.Pos(d.Body.Pos()), "a column flagged as codec-encoded is no longer rejected when the receiving frame has no codec for it")
}

func c07r2(c *RC) {
	pr := c.P
	// constructors: the crc teed into the stream is the one stored
	for _, spec := range []struct{ fn, tee, typ string }{
		{"sliceio.NewEncodingWriter", "io.MultiWriter", "sliceio.Encoder"},
		{"sliceio.NewDecodingReader", "io.TeeReader", "sliceio.decodingReader"},
	} {
		fn := c.MustFn(spec.fn)
		if fn == nil {
			continue
		}
		var teeArg string
		for _, call := range callsIn(fn.Body) {
			if fn.Pkg.CalleeName(call) == spec.tee {
				args := append([]ast.Expr{}, call.Args...)
				// the checksum may be one of several writers fed through io.MultiWriter
				for _, a := range call.Args {
					if mw, ok := ast.Unparen(a).(*ast.CallExpr); ok && fn.Pkg.CalleeName(mw) == "io.MultiWriter" {
						args = append(args, mw.Args...)
					}
				}
				for _, a := range args {
					tv := fn.Pkg.Info.Types[a]
					if tv.Type != nil && strings.Contains(typeString(tv.Type), "hash.Hash32") {
						teeArg = expr(a)
					}
				}
			}
		}
		stored := ""
		ast.Inspect(fn.Body, func(n ast.Node) bool {
			if lit, ok := n.(*ast.CompositeLit); ok {
				if tv := fn.Pkg.Info.Types[lit]; tv.Type != nil && typeString(tv.Type) == spec.typ {
					for _, e := range lit.Elts {
						if kv, ok := e.(*ast.KeyValueExpr); ok && expr(kv.Key) == "crc" {
							stored = expr(kv.Value)
						}
					}
				}
			}
			return true
		})
		c.Check(teeArg != "" && teeArg == stored, spec.fn+"|tee-crc-is-stored-crc", pr.Pos(fn.Body.Pos()),
			fmt.Sprintf("the checksum object fed by the byte stream (%q via %s) is not the one stored in the struct (%q): Sum32 is computed over nothing", teeArg, spec.tee, stored))
	}
	// encoder: Reset dominates the first Encode; last op encodes Sum32 and is the returned value
	if w := c.MustFn("sliceio.(*Encoder).Write"); w != nil {
		fl := pr.Flow(w)
		fq := w.QName()
		ops := wireOps(pr, w, true)
		if len(ops) == 0 {
			c.Undecide("%s: no encode ops", fq)
		} else {
			first := ops[0]
			loc, _ := fl.LocOf(first.call)
			dom, wit := fl.Dominated(loc, func(n ast.Node, s *Step) bool {
				return nodeHas(n, func(m ast.Node) bool {
					call, ok := m.(*ast.CallExpr)
					return ok && w.Pkg.CalleeName(call) == "hash.Hash.Reset"
				})
			})
			c.Check(dom, fq+"|crc-reset-first", pr.Pos(first.call.Pos()), "the batch's first value is encoded without the CRC having been reset: the checksum covers bytes of earlier batches and never matches the reader's", wit...)
			last := ops[len(ops)-1]
			isSum := false
			if len(last.call.Args) == 1 {
				if call, ok := last.call.Args[0].(*ast.CallExpr); ok && w.Pkg.CalleeName(call) == "hash.Hash32.Sum32" {
					isSum = true
				}
			}
			c.Check(isSum && !last.inLoop, fq+"|sum-encoded-last", pr.Pos(last.call.Pos()), "the last value encoded in a batch is not the CRC's Sum32()")
		}
	}
	// decoder Read: Reset precedes the length decode in each iteration
	if r := c.MustFn("sliceio.(*decodingReader).Read"); r != nil {
		fl := pr.Flow(r)
		fq := r.QName()
		var lenDecode *ast.CallExpr
		for _, o := range wireOps(pr, r, false) {
			if o.kind == "scalar:int" {
				lenDecode = o.call
			}
		}
		if lenDecode == nil {
			c.Fail(fq+"|decodes-batch-length", pr.Pos(r.Body.Pos()), "Read no longer decodes the batch length")
		} else {
			loc, _ := fl.LocOf(lenDecode)
			bad := false
			var trail []string
			fl.Walk(fl.Entry(), "", nil, Visitor{
				Node: func(n ast.Node, x string, s *Step) (string, bool) {
					for _, call := range callsIn(n) {
						cn := r.Pkg.CalleeName(call)
						switch {
						case call == lenDecode:
							if x != "reset" {
								bad = true
								trail = s.Trail()
							}
							x = ""
						case cn == "hash.Hash.Reset":
							x = "reset"
						case cn == "sliceio.(*decodingReader).decode" || strings.HasPrefix(cn, "encoding/gob.(*Decoder)"):
							x = ""
						}
					}
					_ = loc
					return x, false
				}})
			c.Check(!bad, fq+"|crc-reset-before-each-batch", pr.Pos(lenDecode.Pos()), "a batch length is decoded without the CRC having been reset since the previous batch: every batch after the first fails (or passes) its checksum by accident", trail...)
		}
	}
	// decode: sum taken after the last column and before the stored checksum; compared; only equal reaches nil
	d := c.MustFn("sliceio.(*decodingReader).decode")
	if d == nil {
		return
	}
	fl := pr.Flow(d)
	fq := d.QName()
	var sumDecode *ast.CallExpr
	var decodedVar string
	for _, o := range wireOps(pr, d, false) {
		if o.kind == "scalar:uint32" {
			sumDecode = o.call
			if u, ok := ast.Unparen(o.call.Args[0]).(*ast.UnaryExpr); ok {
				decodedVar = expr(u.X)
			}
		}
	}
	if sumDecode == nil {
		c.Fail(fq+"|decodes-checksum", pr.Pos(d.Body.Pos()), "decode no longer reads the stored checksum")
		return
	}
	var sumVar string
	inspectNoLit(d.Body, func(n ast.Node) bool {
		if a, ok := n.(*ast.AssignStmt); ok && len(a.Rhs) == 1 && len(a.Lhs) == 1 {
			if call, ok := a.Rhs[0].(*ast.CallExpr); ok && d.Pkg.CalleeName(call) == "hash.Hash32.Sum32" {
				sumVar = expr(a.Lhs[0])
			}
		}
		return true
	})
	if sumVar == "" {
		c.Fail(fq+"|takes-local-sum", pr.Pos(d.Body.Pos()), "decode no longer takes the locally computed checksum into a variable")
		return
	}
	bad := false
	var trail []string
	badNil := false
	var trailNil []string
	fl.Walk(fl.Entry(), "", nil, Visitor{
		Enter: func(from, to *cfg2Block, x string, s *Step) (string, bool) {
			cond := fl.edgeCond(from)
			be, ok := ast.Unparen(cond).(*ast.BinaryExpr)
			if !ok {
				return x, false
			}
			l, r := expr(be.X), expr(be.Y)
			if (l == sumVar && r == decodedVar) || (l == decodedVar && r == sumVar) {
				if be.Op == token.NEQ && from.Succs[1] == to || be.Op == token.EQL && from.Succs[0] == to {
					return x + "+verified", false
				}
			}
			return x, false
		},
		Node: func(n ast.Node, x string, s *Step) (string, bool) {
			for _, call := range callsIn(n) {
				cn := d.Pkg.CalleeName(call)
				switch {
				case call == sumDecode:
					if !strings.HasPrefix(x, "summed") {
						bad = true
						trail = s.Trail()
					}
				case cn == "hash.Hash32.Sum32":
					x = "summed"
				case strings.HasPrefix(cn, "encoding/gob.(*Decoder)") || cn == "frame.Frame.Decode":
					x = ""
				}
			}
			if a, ok := n.(*ast.AssignStmt); ok {
				for _, l := range a.Lhs {
					if expr(l) == sumVar && !strings.Contains(expr(a.Rhs[0]), "Sum32") {
						x = ""
					}
				}
			}
			return x, false
		},
		Exit: func(kind ExitKind, ret *ast.ReturnStmt, x string, s *Step) {
			if kind == ExitPanic || ret == nil || len(ret.Results) != 1 {
				return
			}
			if tv := d.Pkg.Info.Types[ret.Results[0]]; tv.IsNil() {
				if !strings.HasSuffix(x, "+verified") {
					badNil = true
					trailNil = s.Trail()
				}
			}
		},
	})
	c.Check(!bad, fq+"|sum-before-stored-checksum", pr.Pos(sumDecode.Pos()),
		"the stored checksum is decoded on a path where the local Sum32() was not taken after the last column: the sum then includes the checksum's own bytes (or misses a column) and never matches", trail...)
	c.Check(!badNil, fq+"|nil-only-if-checksums-equal", pr.Pos(d.Body.Pos()),
		"decode returns nil on a path that did not pass the comparison of the computed and the stored checksum: corrupted batches are delivered as data", trailNil...)
}

func c07r3(c *RC) {
	pr := c.P
	d := c.MustFn("sliceio.(*decodingReader).decode")
	if d == nil {
		return
	}
	fq := d.QName()
	fl := pr.Flow(d)
	dest := "f"
	if len(d.Type.Params.List) > 0 && len(d.Type.Params.List[0].Names) > 0 {
		dest = d.Type.Params.List[0].Names[0].Name
	}
	n := 0
	for _, o := range wireOps(pr, d, false) {
		if o.kind != "gob-col" && o.kind != "codec-col" {
			continue
		}
		n++
		loc, _ := fl.LocOf(o.call)
		dom, wit := fl.Dominated(loc, func(nd ast.Node, s *Step) bool {
			return nodeHas(nd, func(m ast.Node) bool {
				call, ok := m.(*ast.CallExpr)
				if !ok || d.Pkg.CalleeName(call) != "frame.Frame.Zero" {
					return false
				}
				sel, _ := call.Fun.(*ast.SelectorExpr)
				return sel != nil && expr(sel.X) == dest
			})
		})
		c.Check(dom, fq+"|zero-before-"+o.kind, pr.Pos(o.call.Pos()),
			"a column is decoded into the destination without the destination having been zeroed first: gob leaves zero-valued fields untouched, so stale rows of an earlier batch are delivered as data", wit...)
	}
	c.Floor("column decode sites", n, 2)
}

func c07r4(c *RC) {
	pr := c.P
	r := c.MustFn("sliceio.(*decodingReader).Read")
	d := c.MustFn("sliceio.(*decodingReader).decode")
	if r == nil || d == nil {
		return
	}
	rq := r.QName()
	// sticky field = the field tested first
	sticky := ""
	if len(r.Body.List) > 0 {
		if ifs, ok := r.Body.List[0].(*ast.IfStmt); ok {
			if tx, nonNil, ok := nilTest(ifs.Cond); ok && nonNil {
				for _, st := range ifs.Body.List {
					if ret, ok := st.(*ast.ReturnStmt); ok && len(ret.Results) == 2 && expr(ret.Results[1]) == tx {
						if v, ok := constInt(r.Pkg, ret.Results[0]); ok && v == 0 {
							sticky = tx
						}
					}
				}
			}
		}
	}
	c.Check(sticky != "" && strings.Contains(sticky, "."), rq+"|sticky-error-first", pr.Pos(r.Body.Pos()), "Read no longer starts by returning (0, sticky error): rows could follow an error")
	// every decode call's error goes to the sticky field
	n := 0
	for _, call := range callsIn(r.Body) {
		cn := r.Pkg.CalleeName(call)
		if cn != "encoding/gob.(*Decoder).Decode" && cn != "sliceio.(*decodingReader).decode" {
			continue
		}
		n++
		stored := false
		par := parentOf(r.Body, call)
		if a, ok := par.(*ast.AssignStmt); ok && len(a.Lhs) == 1 && expr(a.Lhs[0]) == sticky {
			stored = true
		}
		c.Check(stored, fmt.Sprintf("%s|%s#%d-stored-sticky", rq, shortCallee(cn), n), pr.Pos(call.Pos()),
			"the error of a decode step is not stored in the reader's sticky error field: after a corrupted batch a later Read continues decoding mid-stream")
	}
	c.Floor("decode calls in Read", n, 3)
	// returns with an error carry zero rows
	ast.Inspect(r.Body, func(nd ast.Node) bool {
		if _, ok := nd.(*ast.FuncLit); ok {
			return false
		}
		ret, ok := nd.(*ast.ReturnStmt)
		if !ok || len(ret.Results) != 2 {
			return true
		}
		if tv := r.Pkg.Info.Types[ret.Results[1]]; tv.IsNil() {
			return true
		}
		v, isC := constInt(r.Pkg, ret.Results[0])
		c.Check(isC && v == 0, rq+"|error-returns-zero-rows", pr.Pos(ret.Pos()),
			"Read returns an error together with a row count that is not the constant 0 ("+expr(ret.Results[0])+"): rows of a batch that failed its checks are delivered")
		return true
	})
	// io.EOF -> EOF only for the batch-length decode in Read; decode never returns the sentinel
	dq := d.QName()
	bad := false
	var where token.Pos
	ast.Inspect(d.Body, func(nd ast.Node) bool {
		ret, ok := nd.(*ast.ReturnStmt)
		if !ok {
			return true
		}
		for _, res := range ret.Results {
			var id *ast.Ident
			switch x := ast.Unparen(res).(type) {
			case *ast.Ident:
				id = x
			case *ast.SelectorExpr:
				id = x.Sel
			}
			if id == nil {
				continue
			}
			if v, ok := d.Pkg.Info.Uses[id].(*types.Var); ok && v.Pkg() != nil && v.Pkg().Path() == modulePath+"/sliceio" && v.Name() == "EOF" {
				bad = true
				where = ret.Pos()
			}
		}
		return true
	})
	pos := pr.Pos(d.Body.Pos())
	if bad {
		pos = pr.Pos(where)
	}
	c.Check(!bad, dq+"|never-returns-EOF-sentinel", pos,
		"decode returns the end-of-stream sentinel from inside a batch: a stream truncated after the batch header (at a gob message boundary) ends cleanly instead of failing, and the rows of the cut batch are silently lost")
	// also: no assignment of EOF to the sticky field other than under err == io.EOF right after the length decode
	nEOF := 0
	ast.Inspect(r.Body, func(nd ast.Node) bool {
		a, ok := nd.(*ast.AssignStmt)
		if !ok || len(a.Lhs) != 1 || len(a.Rhs) != 1 {
			return true
		}
		if expr(a.Lhs[0]) == sticky && expr(a.Rhs[0]) == "EOF" {
			nEOF++
		}
		return true
	})
	// the one legitimate conversion
	fl := pr.Flow(r)
	okConv := nEOF <= 1
	if nEOF == 1 {
		// must be dominated by sticky == io.EOF and come before any decode() call in the iteration
		loc, found := fl.Find(func(nd ast.Node) bool {
			a, ok := nd.(*ast.AssignStmt)
			return ok && len(a.Lhs) == 1 && expr(a.Lhs[0]) == sticky && expr(a.Rhs[0]) == "EOF"
		})
		if found {
			fl.Walk(fl.Entry(), "", nil, Visitor{
				Node: func(nd ast.Node, x string, s *Step) (string, bool) {
					if s.Block == loc.B && s.Idx == loc.I {
						if x != "len" {
							okConv = false
						}
						isEOF := false
						for _, f := range s.Facts {
							if stripAt(f.key) == sticky && f.eq && f.val == "io.EOF" {
								isEOF = true
							}
						}
						if !isEOF {
							okConv = false
						}
						return x, true
					}
					for _, call := range callsIn(nd) {
						cn := r.Pkg.CalleeName(call)
						if cn == "encoding/gob.(*Decoder).Decode" {
							x = "len"
						} else if cn == "sliceio.(*decodingReader).decode" {
							x = "body"
						}
					}
					return x, false
				}})
		}
	}
	c.Check(okConv, rq+"|EOF-only-at-batch-boundary", pr.Pos(r.Body.Pos()), "io.EOF is converted to the end-of-stream sentinel elsewhere than directly after the batch-length decode")
	// gob reports io.EOF for the length message also when the stream ends right
	// after a damaged message header: the conversion to the clean sentinel must
	// additionally sit on the edge of a test that the decode consumed no input
	// (a consumed-bytes counter of the reader compared with its value saved
	// before the decode)
	if nEOF == 1 {
		var conv *ast.AssignStmt
		ast.Inspect(r.Body, func(nd ast.Node) bool {
			if a, ok := nd.(*ast.AssignStmt); ok && len(a.Lhs) == 1 && len(a.Rhs) == 1 && expr(a.Lhs[0]) == sticky && expr(a.Rhs[0]) == "EOF" {
				conv = a
			}
			return true
		})
		nothingRead := false
		for _, anc := range pathTo(r.Body, conv) {
			ifs, ok := anc.(*ast.IfStmt)
			if !ok {
				continue
			}
			// locals saved from a reader field before the decode
			saved := map[string]string{}
			ast.Inspect(r.Body, func(m ast.Node) bool {
				if a, ok := m.(*ast.AssignStmt); ok && a.Tok == token.DEFINE && len(a.Lhs) == 1 && len(a.Rhs) == 1 && a.Pos() < ifs.Pos() {
					t := strings.TrimPrefix(canon(r, a.Rhs[0]), "*")
					if strings.HasPrefix(t, "$recv.") {
						saved[expr(a.Lhs[0])] = t
					}
				}
				return true
			})
			inThen := ifs.Body.Pos() <= conv.Pos() && conv.End() <= ifs.Body.End()
			vEq, known := evalCond(ifs.Cond, func(e ast.Expr) (bool, bool) {
				be, ok := ast.Unparen(e).(*ast.BinaryExpr)
				if !ok || (be.Op != token.EQL && be.Op != token.NEQ) {
					return false, false
				}
				l, rr := strings.TrimPrefix(canon(r, be.X), "*"), strings.TrimPrefix(canon(r, be.Y), "*")
				if saved[expr(be.Y)] == l && l != "" || saved[expr(be.X)] == rr && rr != "" {
					return be.Op == token.EQL, true
				}
				return false, false
			})
			if known && vEq == inThen {
				nothingRead = true
			}
		}
		c.Check(nothingRead, rq+"|clean-end-only-if-nothing-was-consumed", pr.Pos(conv.Pos()),
			"io.EOF from the batch-length decode becomes the clean end-of-stream without a test that the decode consumed no input: gob also returns io.EOF when the stream ends right after a damaged message header, so a single flipped bit in a length prefix ends the stream early with no error and the remaining rows are silently lost")
	}
	// decode never panics on what it finds in the stream
	var pan []string
	for _, k := range callsIn(d.Body) {
		if !d.Pkg.mayReturn(k) {
			pan = append(pan, pr.Pos(k.Pos()))
		}
	}
	c.Check(len(pan) == 0, dq+"|stream-content-never-panics", pr.Pos(d.Body.Pos()),
		"decode panics on a condition that depends on the bytes of the stream ("+strings.Join(pan, ", ")+"): a damaged stream crashes the reader instead of failing with an error")
}

func c07r5(c *RC) {
	pr := c.P
	r := c.MustFn("sliceio.(*decodingReader).Read")
	if r == nil {
		return
	}
	rq := r.QName()
	// the loop that decodes a batch runs only while the buffer is empty
	var loop *ast.ForStmt
	ast.Inspect(r.Body, func(n ast.Node) bool {
		if f, ok := n.(*ast.ForStmt); ok && loop == nil {
			has := false
			for _, call := range callsIn(f.Body) {
				if r.Pkg.CalleeName(call) == "encoding/gob.(*Decoder).Decode" {
					has = true
				}
			}
			if has {
				loop = f
			}
		}
		return true
	})
	if loop == nil {
		c.Fail(rq+"|decode-loop", pr.Pos(r.Body.Pos()), "cannot find the loop that decodes batches")
		return
	}
	condTxt := strings.ReplaceAll(expr(loop.Cond), " ", "")
	bufLen := ""
	if be, ok := ast.Unparen(loop.Cond).(*ast.BinaryExpr); ok && be.Op == token.EQL && expr(be.Y) == "0" {
		if call, ok := be.X.(*ast.CallExpr); ok && r.Pkg.CalleeName(call) == "frame.Frame.Len" {
			if sel, ok := call.Fun.(*ast.SelectorExpr); ok {
				bufLen = expr(sel.X)
			}
		}
	}
	c.Check(bufLen != "", rq+"|no-new-batch-while-buffered", pr.Pos(loop.Pos()),
		"the next batch is decoded under the condition "+condTxt+" rather than only while the buffered remainder is empty: buffered rows are overwritten or reordered")
	if bufLen == "" {
		return
	}
	// after the loop: n = frame.Copy(f, buf); buf = buf.Slice(n, buf.Len()); return n, nil
	var copyVar string
	okAdvance := false
	okRet := false
	for _, st := range r.Body.List {
		if st.Pos() < loop.End() {
			continue
		}
		switch a := st.(type) {
		case *ast.AssignStmt:
			if len(a.Rhs) == 1 {
				if call, ok := a.Rhs[0].(*ast.CallExpr); ok {
					cn := r.Pkg.CalleeName(call)
					if cn == "frame.Copy" && len(call.Args) == 2 && expr(call.Args[1]) == bufLen {
						copyVar = expr(a.Lhs[0])
					}
					if cn == "frame.Frame.Slice" && expr(a.Lhs[0]) == bufLen && len(call.Args) == 2 {
						if expr(call.Args[0]) == copyVar && copyVar != "" && strings.ReplaceAll(expr(call.Args[1]), " ", "") == bufLen+".Len()" {
							okAdvance = true
						}
					}
				}
			}
		case *ast.ReturnStmt:
			if len(a.Results) == 2 && expr(a.Results[0]) == copyVar && expr(a.Results[1]) == "nil" {
				okRet = true
			}
		}
	}
	c.Check(copyVar != "" && okAdvance && okRet, rq+"|remainder-advanced-by-copied", pr.Pos(loop.End()),
		"after copying from the buffered batch the buffer is not advanced by exactly the number of rows copied and returned: rows are repeated or skipped when a batch is larger than the destination")
	// the buffering branch decodes into the scratch buffer that becomes buf, sized n
	okBuf := false
	ast.Inspect(loop.Body, func(n ast.Node) bool {
		if a, ok := n.(*ast.AssignStmt); ok && len(a.Lhs) == 1 && expr(a.Lhs[0]) == bufLen {
			okBuf = true
		}
		return true
	})
	c.Check(okBuf, rq+"|oversized-batch-buffered", pr.Pos(loop.Pos()), "a batch larger than the destination is no longer kept in the reader's buffer")
}

// c07r6: the frame handed to decode has exactly the batch length n just
// decoded (a longer, reused buffer would deliver rows that were never
// written), and n is rejected when negative before it sizes anything.
func c07r6(c *RC) {
	pr := c.P
	r := c.MustFn("sliceio.(*decodingReader).Read")
	if r == nil {
		return
	}
	rq := r.QName()
	fl := pr.Flow(r)
	var lenDecode *ast.CallExpr
	nVar := ""
	for _, o := range wireOps(pr, r, false) {
		if o.kind == "scalar:int" {
			lenDecode = o.call
			if u, ok := ast.Unparen(o.call.Args[0]).(*ast.UnaryExpr); ok {
				nVar = expr(u.X)
			}
		}
	}
	if lenDecode == nil || nVar == "" {
		c.Undecide("%s: batch length decode not found", rq)
		return
	}
	sizedByN := func(e ast.Expr) bool {
		call, ok := ast.Unparen(e).(*ast.CallExpr)
		if !ok {
			return false
		}
		switch r.Pkg.CalleeName(call) {
		case "frame.Make":
			return len(call.Args) == 3 && expr(call.Args[1]) == nVar
		case "frame.Frame.Ensure":
			return len(call.Args) == 1 && expr(call.Args[0]) == nVar
		case "frame.Frame.Slice":
			return len(call.Args) == 2 && expr(call.Args[0]) == "0" && expr(call.Args[1]) == nVar
		}
		return false
	}
	ndec := 0
	bad := false
	var trail []string
	var badExpr string
	negChecked := true
	var negTrail []string
	// state: "|"-joined sorted set of sized expressions, prefixed by "N" when n was range-checked
	fl.Walk(fl.Entry(), "", nil, Visitor{
		Enter: func(from, to *cfg2Block, x string, s *Step) (string, bool) {
			be, ok := ast.Unparen(fl.edgeCond(from)).(*ast.BinaryExpr)
			if !ok {
				return x, false
			}
			nonneg := false
			op := be.Op
			l, r := expr(be.X), expr(be.Y)
			if l == "0" && r == nVar { // mirrored spelling
				l, r = r, l
				op = map[token.Token]token.Token{token.LSS: token.GTR, token.GTR: token.LSS, token.LEQ: token.GEQ, token.GEQ: token.LEQ}[op]
			}
			if l == nVar && r == "0" {
				nonneg = op == token.LSS && from.Succs[1] == to || op == token.GEQ && from.Succs[0] == to
			}
			if nonneg && !strings.Contains(x, "#nonneg") {
				if x == "" {
					return "#nonneg", false
				}
				return "#nonneg|" + x, false
			}
			return x, false
		},
		Node: func(n ast.Node, x string, s *Step) (string, bool) {
			set := map[string]bool{}
			for _, e := range strings.Split(x, "|") {
				if e != "" {
					set[e] = true
				}
			}
			enc := func() string {
				var l []string
				for k := range set {
					l = append(l, k)
				}
				sort.Strings(l)
				return strings.Join(l, "|")
			}
			for _, call := range callsIn(n) {
				if call == lenDecode {
					set = map[string]bool{}
				}
				if r.Pkg.CalleeName(call) == "sliceio.(*decodingReader).decode" && len(call.Args) == 1 {
					ndec++
					a := call.Args[0]
					if !(sizedByN(a) || set[expr(a)]) {
						bad = true
						badExpr = expr(a)
						trail = s.Trail()
					}
					// n must be known non-negative here: facts carry the failed `n < 0` test
					if !set["#nonneg"] {
						negChecked = false
						negTrail = s.Trail()
					}
				}
			}
			if a, ok := n.(*ast.AssignStmt); ok && len(a.Lhs) == len(a.Rhs) {
				for i, l := range a.Lhs {
					le := expr(l)
					if le == nVar {
						set = map[string]bool{}
						continue
					}
					if sizedByN(a.Rhs[i]) || set[expr(a.Rhs[i])] {
						set[le] = true
					} else {
						delete(set, le)
					}
				}
			}
			return enc(), false
		}})
	c.Floor("decode calls", ndec, 2)
	c.Check(!bad, rq+"|decode-target-has-batch-length", pr.Pos(lenDecode.Pos()),
		fmt.Sprintf("decode is handed %s, which on some path was not (re)sized to the decoded batch length %s: a reused, longer buffer delivers rows that were never written", badExpr, nVar), trail...)
	// decoding straight into the caller's frame happens only when the batch fits
	// the frame's *length* (the rows of the view), not merely its capacity
	{
		fP := ""
		if r.Type.Params != nil {
			last := r.Type.Params.List[len(r.Type.Params.List)-1]
			if len(last.Names) > 0 {
				fP = last.Names[len(last.Names)-1].Name
			}
		}
		le := newLinEnv(pr, r)
		direct, okDirect := 0, true
		ast.Inspect(r.Body, func(n ast.Node) bool {
			ifs, ok := n.(*ast.IfStmt)
			if !ok {
				return true
			}
			// does the then-branch decode into a slice of the destination parameter?
			into := false
			for _, k := range callsIn(ifs.Body) {
				if r.Pkg.CalleeName(k) == "sliceio.(*decodingReader).decode" && len(k.Args) == 1 {
					if s, ok := ast.Unparen(k.Args[0]).(*ast.CallExpr); ok && r.Pkg.CalleeName(s) == "frame.Frame.Slice" && strings.HasPrefix(expr(s.Fun), fP+".") {
						into = true
					}
				}
			}
			if !into || fP == "" {
				return true
			}
			direct++
			for _, sign := range []int{-1, 0, 1} { // n - f.Len()
				v, known := evalCond(ifs.Cond, func(e ast.Expr) (bool, bool) {
					be, ok := ast.Unparen(e).(*ast.BinaryExpr)
					if !ok {
						return false, false
					}
					d := lin{}
					d.addScaled(le.norm(be.X, 0), 1)
					d.addScaled(le.norm(be.Y, 0), -1)
					want := lin{nVar: 1, canonText(r, fP+".Len()"): -1}
					neg := lin{nVar: -1, canonText(r, fP+".Len()"): 1}
					s := sign
					switch d.String() {
					case want.String():
					case neg.String():
						s = -sign
					default:
						return false, false
					}
					switch be.Op {
					case token.LSS:
						return s < 0, true
					case token.LEQ:
						return s <= 0, true
					case token.GTR:
						return s > 0, true
					case token.GEQ:
						return s >= 0, true
					}
					return false, false
				})
				if !known || (sign > 0 && v) {
					okDirect = false
				}
			}
			return true
		})
		c.Check(direct > 0 && okDirect, rq+"|direct-decode-fits-the-view", pr.Pos(lenDecode.Pos()),
			"a batch is decoded straight into the caller's frame under a condition that does not establish batch length <= frame length (e.g. it tests the capacity): rows behind the view are zeroed and overwritten, and Read returns more rows than the view has")
	}
	c.Check(negChecked, rq+"|batch-length-validated", pr.Pos(lenDecode.Pos()),
		"the decoded batch length sizes a frame without having been tested for < 0: a damaged length makes the reader panic in frame.Slice/Make instead of failing with an error", negTrail...)
}
