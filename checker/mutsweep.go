package main

// Mutation sweep (development aid, not part of any registered check).
//
// Generates small syntactic mutants of the functions in the anchored packages
// — delete a statement, negate an if condition, flip a comparison operator —
// type-checks each in memory and runs every property's rules on it.  The
// mutants that no rule notices are listed, grouped by function: they show
// where the rules look at nothing.  Each survivor is then read by hand (most
// are equivalent or irrelevant to the properties: logging, statistics, status
// text); the relevant ones become rules.  Run:
//
//	bsvet -mutation-sweep -chunk i/n all
//
// The sweep says nothing about /repo; it measures the checker.

import (
	"encoding/json"
	"fmt"
	"go/ast"
	"go/token"
	"os"
	"sort"
	"strings"
)

type mutant struct {
	file       string
	start, end int // byte offsets replaced
	repl       string
	fn         string
	line       int
	what       string
}

var mutSweepPkgs = []string{"", "exec", "frame", "sliceio", "sortio", "internal/slicecache", "internal/zero", "metrics", "typecheck", "slicefunc", "slicetype"}

func genMutants(pr *Prog) []mutant {
	var out []mutant
	for _, rel := range mutSweepPkgs {
		for _, fn := range pr.FuncsIn(rel) {
			if fn.Body == nil || fn.Parent != nil {
				continue
			}
			file := pr.Fset.Position(fn.Body.Pos()).Filename
			if strings.HasSuffix(file, "_test.go") || strings.Contains(file, "/gen") || strings.HasSuffix(file, "_gen.go") {
				continue
			}
			src := pr.Src[file]
			if src == nil {
				continue
			}
			off := func(p token.Pos) int { return pr.Fset.Position(p).Offset }
			line := func(p token.Pos) int { return pr.Fset.Position(p).Line }
			text := func(n ast.Node) string {
				t := string(src[off(n.Pos()):off(n.End())])
				if i := strings.IndexByte(t, '\n'); i >= 0 {
					t = t[:i] + " …"
				}
				if len(t) > 70 {
					t = t[:70] + "…"
				}
				return t
			}
			q := fn.QName()
			ast.Inspect(fn.Body, func(n ast.Node) bool {
				switch x := n.(type) {
				case *ast.BlockStmt:
					for _, st := range x.List {
						switch s := st.(type) {
						case *ast.ExprStmt, *ast.IncDecStmt, *ast.SendStmt, *ast.DeferStmt, *ast.GoStmt:
							out = append(out, mutant{file, off(s.Pos()), off(s.End()), "", q, line(s.Pos()), "delete: " + text(s)})
						case *ast.AssignStmt:
							if s.Tok != token.DEFINE {
								out = append(out, mutant{file, off(s.Pos()), off(s.End()), "", q, line(s.Pos()), "delete: " + text(s)})
							}
						case *ast.BranchStmt:
							if s.Tok == token.CONTINUE || s.Tok == token.BREAK {
								out = append(out, mutant{file, off(s.Pos()), off(s.End()), "", q, line(s.Pos()), "delete: " + text(s)})
							}
						}
					}
				case *ast.CaseClause:
					for _, st := range x.Body {
						switch s := st.(type) {
						case *ast.ExprStmt, *ast.IncDecStmt, *ast.SendStmt:
							out = append(out, mutant{file, off(s.Pos()), off(s.End()), "", q, line(s.Pos()), "delete: " + text(s)})
						case *ast.AssignStmt:
							if s.Tok != token.DEFINE {
								out = append(out, mutant{file, off(s.Pos()), off(s.End()), "", q, line(s.Pos()), "delete: " + text(s)})
							}
						}
					}
				case *ast.IfStmt:
					c := x.Cond
					out = append(out, mutant{file, off(c.Pos()), off(c.End()), "!(" + string(src[off(c.Pos()):off(c.End())]) + ")", q, line(c.Pos()), "negate: if " + text(c)})
				case *ast.BinaryExpr:
					var r string
					switch x.Op {
					case token.LSS:
						r = "<="
					case token.LEQ:
						r = "<"
					case token.GTR:
						r = ">="
					case token.GEQ:
						r = ">"
					case token.EQL:
						r = "!="
					case token.NEQ:
						r = "=="
					case token.LAND:
						r = "||"
					case token.LOR:
						r = "&&"
					case token.ADD:
						r = "-"
					case token.SUB:
						r = "+"
					}
					if r != "" {
						o := off(x.OpPos)
						out = append(out, mutant{file, o, o + len(x.Op.String()), r, q, line(x.OpPos), "operator " + x.Op.String() + "→" + r + ": " + text(x)})
					}
				}
				return true
			})
		}
	}
	sort.SliceStable(out, func(i, j int) bool {
		if out[i].file != out[j].file {
			return out[i].file < out[j].file
		}
		return out[i].start < out[j].start
	})
	return out
}

func runMutationSweep(deps *Deps, base *Prog, ids []string, kf *KnownFile, chunk string, only string) {
	muts := genMutants(base)
	if os.Getenv("BSVET_MUT_LIST") == "1" {
		for _, m := range muts {
			rel := strings.TrimPrefix(m.file, deps.Root+"/")
			b, _ := json.Marshal(map[string]interface{}{"file": rel, "start": m.start, "end": m.end, "repl": m.repl, "fn": m.fn, "line": m.line, "what": m.what})
			fmt.Println(string(b))
		}
		return
	}
	lo, hi := 0, len(muts)
	if chunk != "" {
		var i, n int
		fmt.Sscanf(chunk, "%d/%d", &i, &n)
		if n > 0 {
			lo = len(muts) * i / n
			hi = len(muts) * (i + 1) / n
		}
	}
	baseFind := map[string]map[string]bool{}
	for _, id := range ids {
		baseFind[id] = findingSet(runProperty(base, properties[id], kf))
	}
	killed, survived, invalid := 0, 0, 0
	// optional: only the mutants listed (one per line: "<file>\t<fn>\t<what>") in $BSVET_MUT_FILE
	var only2 map[string]bool
	if f := os.Getenv("BSVET_MUT_FILE"); f != "" {
		only2 = map[string]bool{}
		if b, err := os.ReadFile(f); err == nil {
			for _, l := range strings.Split(string(b), "\n") {
				if l != "" {
					only2[l] = true
				}
			}
		}
	}
	for mi := lo; mi < hi; mi++ {
		m := muts[mi]
		if only2 != nil && !only2[strings.TrimPrefix(m.file, deps.Root+"/")+"\t"+m.fn+"\t"+m.what] {
			continue
		}
		if only != "" && !strings.Contains(m.fn, only) && !strings.Contains(m.file, only) {
			continue
		}
		src := base.Src[m.file]
		ns := append(append(append([]byte{}, src[:m.start]...), m.repl...), src[m.end:]...)
		flowCache = map[*Func]*Flow{}
		vp, err := deps.check(map[string][]byte{m.file: ns})
		if err != nil || len(vp.extraTypeErrs()) > 0 {
			invalid++
			continue
		}
		var by []string
		for _, id := range ids {
			res := runProperty(vp, properties[id], kf)
			hit := len(res.Undecided) > 0
			for k := range findingSet(res) {
				if !baseFind[id][k] {
					hit = true
				}
			}
			if hit {
				by = append(by, id)
			}
		}
		rel := strings.TrimPrefix(m.file, deps.Root+"/")
		if len(by) > 0 {
			killed++
			fmt.Printf("KILLED   %s:%d %s | %s | by %s\n", rel, m.line, m.fn, m.what, strings.Join(by, ","))
		} else {
			survived++
			fmt.Printf("SURVIVED %s:%d %s | %s\n", rel, m.line, m.fn, m.what)
		}
	}
	flowCache = map[*Func]*Flow{}
	fmt.Fprintf(os.Stderr, "mutation sweep %s: %d mutants in range, %d killed, %d survived, %d did not type-check\n", chunk, hi-lo, killed, survived, invalid)
}
