package main

import (
	"fmt"
	"go/ast"
	"go/token"
	"go/types"
	"strings"
)

func init() {
	registerProperty(&Property{
		ID:          "C08",
		Explanation: "Decides structural necessary conditions of graph agreement: (R1) the compile path (compile, pipeline, the namer, partitioner and CompileEnv methods, and the accessor methods of the module's Slice implementations) contains no source of process-local nondeterminism — no goroutine, select, clock, randomness, pid or pointer formatting, and no map iteration feeding an order-sensitive sink; (R2) task names are built only from data that travels with the invocation (invocation index, operator names, the namer's counter, shard index, task count), never from the process-local File/Line/Index of a slice name; (R3) pipeline advances to the dependency only after all four cuts were tested negative (reused Result, more than one dependency, shuffle, Materialize); (R4) wiring rules shared with C05 (consumer p reads partition p; Task literals carry their partitioning); (R5) the invocation stored for transport has its compile environment frozen before it is stored, and cache presence is consulted and recorded only while the environment is writable; (R7) the worker indexes the compiled tasks by their full name over the transitive closure of the roots. Not decided: name uniqueness and acyclicity for all programs, cross-process equality of Func indices (C16).",
		Rules: []Rule{
			{ID: "C08-R1", Doc: "compile path is deterministic by construction", Run: c08r1},
			{ID: "C08-R2", Doc: "names come only from transported data", Run: c08r2},
			{ID: "C08-R3", Doc: "pipeline cuts", Run: c08r3},
			{ID: "C05-R4", Doc: "compile wires consumer p to partition p (shared)", Run: c05r4},
			{ID: "C05-R5", Doc: "Task literals carry their partitioning (shared)", Run: c05r5},
			{ID: "C08-R5", Doc: "the frozen environment is the one that travels", Run: c08r5},
			{ID: "C08-R7", Doc: "worker looks tasks up by name over the closure of the roots", Run: c08r7},
			{ID: "C08-R9", Doc: "the shape methods of a Slice read only construction-time data", Run: c08r9},
			{ID: "C08-R10", Doc: "a composed pragma answers \"some element asks for it\" (Materialize, Exclusive are disjunctions over the list)", Run: c08r10},
			{ID: "C16-R9", Doc: "the frozen compile environment arrives frozen: GobDecode assigns no travelling field (shared)", Run: c16r9},
			{ID: "C16-R5", Doc: "a worker receives the invocations behind Result arguments dependencies-first, so it can build the graph at all (shared)", Run: c16r5},
			{ID: "C05-R7", Doc: "memoised compilations are keyed by every partitioning field (shared)", Run: c05r7},
			{ID: "C12-R3", Doc: "reuse compiles to the old tasks or re-shuffles of them; reused results are recognised through wrappers (shared)", Run: c12r3},
		},
	})
}

var nondetPkgs = map[string]bool{"time": true, "math/rand": true, "crypto/rand": true}

// nondetUses lists sources of process-local nondeterminism in fn's body.
func nondetUses(pr *Prog, fn *Func) []string {
	var out []string
	ast.Inspect(fn.Body, func(n ast.Node) bool {
		switch x := n.(type) {
		case *ast.GoStmt:
			out = append(out, "starts a goroutine at "+pr.Pos(x.Pos()))
		case *ast.SelectStmt:
			out = append(out, "selects at "+pr.Pos(x.Pos()))
		case *ast.CallExpr:
			if o := fn.Pkg.Callee(x); o != nil && o.Pkg() != nil {
				p := o.Pkg().Path()
				if nondetPkgs[p] {
					out = append(out, "calls "+p+"."+o.Name()+" at "+pr.Pos(x.Pos()))
				}
				if p == "os" && (o.Name() == "Getpid" || o.Name() == "Hostname" || o.Name() == "Getenv") {
					out = append(out, "calls os."+o.Name()+" at "+pr.Pos(x.Pos()))
				}
				if p == "runtime" && (o.Name() == "Caller" || o.Name() == "Callers" || o.Name() == "NumCPU" || o.Name() == "GOMAXPROCS") {
					out = append(out, "calls runtime."+o.Name()+" at "+pr.Pos(x.Pos()))
				}
			}
			for _, a := range x.Args {
				if bl, ok := a.(*ast.BasicLit); ok && bl.Kind == token.STRING && strings.Contains(bl.Value, "%p") {
					out = append(out, "formats a pointer (%p) at "+pr.Pos(x.Pos()))
				}
			}
		case *ast.RangeStmt:
			tv := fn.Pkg.Info.Types[x.X]
			if tv.Type == nil {
				return true
			}
			if _, isMap := tv.Type.Underlying().(*types.Map); !isMap {
				return true
			}
			// order-insensitive bodies: only map stores, deletes, counters
			sensitive := ""
			for _, st := range x.Body.List {
				switch s := st.(type) {
				case *ast.AssignStmt:
					for _, l := range s.Lhs {
						if ix, ok := l.(*ast.IndexExpr); ok {
							if t := fn.Pkg.Info.Types[ix.X]; t.Type != nil {
								if _, isM := t.Type.Underlying().(*types.Map); isM {
									continue
								}
							}
						}
						sensitive = "assigns " + expr(l)
					}
					for _, r := range s.Rhs {
						if call, ok := r.(*ast.CallExpr); ok && expr(call.Fun) == "append" {
							sensitive = "appends in map order"
						}
					}
				case *ast.ExprStmt:
					if call, ok := s.X.(*ast.CallExpr); ok && expr(call.Fun) == "delete" {
						continue
					}
					sensitive = "calls " + expr(s.X)
				case *ast.IncDecStmt:
				default:
					sensitive = fmt.Sprintf("%T in the loop body", st)
				}
			}
			if sensitive != "" {
				out = append(out, "iterates a map feeding an order-sensitive sink ("+sensitive+") at "+pr.Pos(x.Pos()))
			}
		}
		return true
	})
	return out
}

func c08r1(c *RC) {
	pr := c.P
	var fns []*Func
	for _, q := range []string{"exec.compile", "exec.(*compiler).compile", "exec.pipeline", "exec.taskNamer.New",
		"exec.partitioner.IsShuffle", "exec.partitioner.Partitioner", "exec.partitioner.NumPartition",
		"exec.makeCompileEnv", "exec.CompileEnv.MarkCached", "exec.CompileEnv.IsCached", "exec.(*CompileEnv).Freeze", "exec.CompileEnv.IsWritable",
		"exec.makeExecInvocation"} {
		if f := c.MustFn(q); f != nil {
			fns = append(fns, f)
			fns = append(fns, f.Lits...)
		}
	}
	// accessor methods of Slice implementations in the root package and exec.Result
	iface := pr.lookupIface("", "Slice")
	if iface == nil {
		c.Undecide("bigslice.Slice not found")
		return
	}
	nacc := 0
	for _, m := range []string{"Name", "NumShard", "ShardType", "NumDep", "Dep", "Combiner", "Prefix", "NumOut", "Out"} {
		for _, f := range pr.implementers(iface, m) {
			if f.Pkg.Rel == "" || f.Pkg.Rel == "exec" {
				fns = append(fns, f)
				nacc++
			}
		}
	}
	c.Floor("Slice accessor methods on the compile path", nacc, 30)
	for _, fn := range fns {
		bad := nondetUses(pr, fn)
		c.Check(len(bad) == 0, fn.QName()+"|deterministic", pr.Pos(fn.Body.Pos()),
			"the compile path "+strings.Join(bad, "; ")+": the driver and a worker (or two compilations) can derive different task graphs or names from the same invocation")
	}
	// the worker's Compile may iterate maps only into maps (named, namedStats)
	if w := c.MustFn("exec.(*worker).Compile"); w != nil {
		for _, f := range append([]*Func{w}, w.Lits...) {
			var bad []string
			for _, b := range nondetUses(pr, f) {
				if strings.HasPrefix(b, "iterates a map") {
					bad = append(bad, b)
				}
			}
			c.Check(len(bad) == 0, f.QName()+"|map-iteration-order-free", pr.Pos(f.Body.Pos()), "worker.Compile "+strings.Join(bad, "; "))
		}
	}
}

func c08r2(c *RC) {
	pr := c.P
	fn := c.MustFn("exec.(*compiler).compile")
	if fn == nil {
		return
	}
	fq := fn.QName()
	nameT := pr.lookupType("", "Name")
	// no use of Name().File/Line/Index on the compile path
	for _, f := range []*Func{fn, pr.Fn("exec.pipeline"), pr.Fn("exec.compile"), pr.Fn("exec.taskNamer.New")} {
		if f == nil {
			continue
		}
		var bad []string
		ast.Inspect(f.Body, func(n ast.Node) bool {
			sel, ok := n.(*ast.SelectorExpr)
			if !ok {
				return true
			}
			tv := f.Pkg.Info.Types[sel.X]
			if tv.Type != nil && nameT != nil && types.Identical(tv.Type, nameT) && sel.Sel.Name != "Op" && sel.Sel.Name != "String" {
				bad = append(bad, expr(sel)+" at "+pr.Pos(sel.Pos()))
			}
			if tv.Type != nil && nameT != nil && types.Identical(tv.Type, nameT) && sel.Sel.Name == "String" {
				// Name.String() embeds file:line; only allowed outside task names (pprof label)
				par := parentOf(f.Body, sel)
				_ = par
			}
			return true
		})
		c.Check(len(bad) == 0, f.QName()+"|no-process-local-name-parts", pr.Pos(f.Body.Pos()),
			"the compile path reads "+strings.Join(bad, ", ")+": file, line and per-process index of a slice name differ between the driver and a worker binary's view, so task names would not agree")
	}
	// TaskName literals: fields from transported data
	tnst, _ := pr.lookupType("exec", "TaskName").Underlying().(*types.Struct)
	n := 0
	ast.Inspect(fn.Body, func(nd ast.Node) bool {
		lit, ok := nd.(*ast.CompositeLit)
		if !ok {
			return true
		}
		tv := fn.Pkg.Info.Types[lit]
		if tv.Type == nil || typeString(tv.Type) != "exec.TaskName" {
			return true
		}
		n++
		f := map[string]string{}
		for i, e := range lit.Elts {
			if kv, ok := e.(*ast.KeyValueExpr); ok {
				f[expr(kv.Key)] = expr(kv.Value)
			} else if tnst != nil && i < tnst.NumFields() {
				f[tnst.Field(i).Name()] = expr(e)
			}
		}
		var bad []string
		if f["InvIndex"] != recvOf(fn)+".inv.Index" {
			bad = append(bad, "InvIndex="+f["InvIndex"])
		}
		// Op must be a variable assigned from c.namer.New(...)
		opOK := false
		inspectNoLit(fn.Body, func(m ast.Node) bool {
			if a, ok := m.(*ast.AssignStmt); ok && len(a.Lhs) == 1 && expr(a.Lhs[0]) == f["Op"] && len(a.Rhs) == 1 {
				if call, ok := a.Rhs[0].(*ast.CallExpr); ok && fn.Pkg.CalleeName(call) == "exec.taskNamer.New" {
					opOK = true
				}
			}
			return true
		})
		if !opOK {
			bad = append(bad, "Op="+f["Op"]+" is not minted by the namer")
		}
		if !strings.HasPrefix(f["NumShard"], "len(") {
			bad = append(bad, "NumShard="+f["NumShard"])
		}
		// Shard is the loop index of the enclosing range over the task list
		shardOK := false
		if loop, ok := enclosingLoop(fn.Body, lit).(*ast.RangeStmt); ok && expr(loop.Key) == f["Shard"] {
			shardOK = true
		}
		if !shardOK {
			bad = append(bad, "Shard="+f["Shard"]+" is not the index of the enclosing loop over the tasks")
		}
		c.Check(len(bad) == 0, fmt.Sprintf("%s|TaskName-literal#%d", fq, n), pr.Pos(lit.Pos()), "a task name is not built from transported data only: "+strings.Join(bad, "; "))
		return true
	})
	c.Floor("TaskName literals in compile", n, 2)
	// arguments of namer.New: built from inv index and Name().Op only
	nn := 0
	inspectNoLit(fn.Body, func(nd ast.Node) bool {
		call, ok := nd.(*ast.CallExpr)
		if !ok || fn.Pkg.CalleeName(call) != "exec.taskNamer.New" {
			return true
		}
		nn++
		var bad []string
		ast.Inspect(call.Args[0], func(m ast.Node) bool {
			if k, ok := m.(*ast.CallExpr); ok {
				cn := fn.Pkg.CalleeName(k)
				switch cn {
				case "fmt.Sprintf", "strings.Join", "exec.taskNamer.New":
				default:
					if !strings.HasSuffix(cn, ".Name") {
						bad = append(bad, "calls "+cn)
					}
				}
			}
			return true
		})
		c.Check(len(bad) == 0, fmt.Sprintf("%s|namer-argument#%d", fq, nn), pr.Pos(call.Pos()), "the operator name handed to the namer "+strings.Join(bad, "; "))
		// every op name carries the index of the invocation being compiled:
		// names of different invocations never coincide, and names are what
		// the workers' stores key output files by (their paths do not include
		// TaskName.InvIndex)
		recv := recvOf(fn)
		invIdx := recv + ".inv.Index"
		carries := false
		isInvFmt := func(k *ast.CallExpr) bool {
			if fn.Pkg.CalleeName(k) != "fmt.Sprintf" || len(k.Args) < 2 {
				return false
			}
			lit, ok := k.Args[0].(*ast.BasicLit)
			if !ok || !strings.HasPrefix(strings.Trim(lit.Value, "\"`"), "inv%d") {
				return false
			}
			return strings.ReplaceAll(expr(k.Args[1]), " ", "") == invIdx
		}
		switch a := ast.Unparen(call.Args[0]).(type) {
		case *ast.CallExpr:
			switch fn.Pkg.CalleeName(a) {
			case "fmt.Sprintf":
				carries = isInvFmt(a)
			case "strings.Join":
				// the joined list starts with Sprintf("inv%d", c.inv.Index)
				if len(a.Args) == 2 {
					list := expr(a.Args[0])
					first := true
					inspectNoLit(fn.Body, func(m ast.Node) bool {
						as, ok := m.(*ast.AssignStmt)
						if !ok || len(as.Lhs) != 1 || len(as.Rhs) != 1 || expr(as.Lhs[0]) != list {
							return true
						}
						if k, ok := as.Rhs[0].(*ast.CallExpr); ok && expr(k.Fun) == "append" && len(k.Args) == 2 && expr(k.Args[0]) == list {
							if first {
								if e, ok := k.Args[1].(*ast.CallExpr); ok && isInvFmt(e) {
									carries = true
								}
								first = false
							}
						}
						return true
					})
				}
			}
		}
		c.Check(carries, fmt.Sprintf("%s|op-name#%d-carries-the-invocation-index", fq, nn), pr.Pos(call.Pos()),
			"an operator name is minted without the index of the invocation being compiled: the tasks of two invocations (e.g. two Funcs that re-shuffle the same Result, possibly with different partition counts) get the same op name, the workers' stores — whose paths ignore TaskName.InvIndex — write their output to the same files, and each reads the other's partitions: rows are lost and duplicated with no error")
		return true
	})
	c.Floor("namer.New calls", nn, 2)
	// the ops list is filled from inv index and slices[i].Name().Op in pipeline order
	okOps := false
	ast.Inspect(fn.Body, func(nd ast.Node) bool {
		if a, ok := nd.(*ast.AssignStmt); ok && len(a.Lhs) == 1 && len(a.Rhs) == 1 {
			if k, ok := a.Rhs[0].(*ast.CallExpr); ok && expr(k.Fun) == "append" && len(k.Args) == 2 && expr(k.Args[0]) == expr(a.Lhs[0]) && strings.HasSuffix(expr(k.Args[1]), ".Name().Op") {
				okOps = true
			}
		}
		return true
	})
	c.Check(okOps, fq+"|ops-from-operator-names", pr.Pos(fn.Body.Pos()), "the pipelined operator names no longer come from Name().Op")
	// taskNamer.New is a pure counter
	if nm := c.MustFn("exec.taskNamer.New"); nm != nil {
		bad := impureUses(nm.Pkg, nm.Decl, nm.Body, nil, map[string]bool{"fmt.Sprintf": true})
		c.Check(len(bad) == 0, nm.QName()+"|pure-counter", pr.Pos(nm.Body.Pos()), "the namer "+strings.Join(bad, "; "))
	}
}

func c08r3(c *RC) {
	pr := c.P
	fn := c.MustFn("exec.pipeline")
	if fn == nil {
		return
	}
	fq := fn.QName()
	fl := pr.Flow(fn)
	// the advance: slice = dep.Slice
	var adv *ast.AssignStmt
	sliceP := "slice"
	if fn.Type.Params != nil && len(fn.Type.Params.List) > 0 && len(fn.Type.Params.List[0].Names) > 0 {
		sliceP = fn.Type.Params.List[0].Names[0].Name
	}
	slicesR := "slices"
	if fn.Type.Results != nil && len(fn.Type.Results.List) > 0 && len(fn.Type.Results.List[0].Names) > 0 {
		slicesR = fn.Type.Results.List[0].Names[0].Name
	}
	inspectNoLit(fn.Body, func(n ast.Node) bool {
		if a, ok := n.(*ast.AssignStmt); ok && len(a.Lhs) == 1 && a.Tok == token.ASSIGN && expr(a.Lhs[0]) == sliceP && strings.HasSuffix(expr(a.Rhs[0]), ".Slice") {
			adv = a
		}
		return true
	})
	if adv == nil {
		c.Fail(fq+"|advances", pr.Pos(fn.Body.Pos()), "pipeline no longer advances to the dependency's slice")
		return
	}
	// which ok-variable is the *Result assertion, which the Pragma assertion
	resOK, pragOK := "", ""
	inspectNoLit(fn.Body, func(n ast.Node) bool {
		if a, ok := n.(*ast.AssignStmt); ok && len(a.Lhs) == 2 && len(a.Rhs) == 1 {
			if ta, ok := a.Rhs[0].(*ast.TypeAssertExpr); ok && strings.HasSuffix(expr(ta.Type), "Result") {
				resOK = fl.Key(a.Lhs[1])
			}
			if ta, ok := a.Rhs[0].(*ast.TypeAssertExpr); ok && strings.HasSuffix(expr(ta.Type), "Pragma") {
				pragOK = fl.Key(a.Lhs[1])
			}
		}
		return true
	})
	env := newC11env(pr, fn)
	loc, _ := fl.LocOf(adv)
	missing := map[string]bool{}
	var trail []string
	guardOf := func(cond ast.Expr, outcome bool) string {
		cond = ast.Unparen(cond)
		t := strings.ReplaceAll(expr(cond), " ", "")
		if be, ok := cond.(*ast.BinaryExpr); ok && (be.Op == token.NEQ || be.Op == token.EQL) {
			t = strings.ReplaceAll(expr(env.resolve(be.X, 0))+be.Op.String()+expr(env.resolve(be.Y, 0)), " ", "")
		}
		switch {
		case fl.Key(cond) == resOK && resOK != "" && !outcome:
			return "R"
		case fl.Key(cond) == pragOK && pragOK != "" && !outcome:
			return "M" // not a Pragma at all: nothing to materialize
		case (t == sliceP+".NumDep()!=1" && !outcome) || (t == sliceP+".NumDep()==1" && outcome):
			return "N"
		case strings.HasSuffix(t, ".Shuffle") && !strings.Contains(t, "!") && !outcome:
			return "S"
		case strings.Contains(t, "Materialize()") && !outcome:
			return "M"
		}
		return ""
	}
	fl.Walk(fl.Entry(), "", nil, Visitor{NoFacts: true,
		Enter: func(from, to *cfg2Block, x string, s *Step) (string, bool) {
			cond := fl.edgeCond(from)
			if cond == nil {
				return x, false
			}
			g := guardOf(cond, from.Succs[0] == to)
			if g != "" && !strings.Contains(x, g) {
				return x + g, false
			}
			return x, false
		},
		Node: func(n ast.Node, x string, s *Step) (string, bool) {
			if s.Block == loc.B && s.Idx == loc.I {
				for _, g := range []string{"R", "N", "S", "M"} {
					if !strings.Contains(x, g) {
						missing[g] = true
						trail = s.Trail()
					}
				}
				return "", false // next iteration starts with no guard passed
			}
			return x, false
		}})
	names := map[string]string{"R": "the slice is a reused Result", "N": "the slice has other than exactly one dependency", "S": "the dependency is a shuffle", "M": "the dependency carries the Materialize pragma"}
	for _, g := range []string{"R", "N", "S", "M"} {
		c.Check(!missing[g], fq+"|cut:"+g, pr.Pos(adv.Pos()),
			"pipeline advances to the dependency on a path that did not test whether "+names[g]+": operators are pipelined across a boundary that must start a new task", trail...)
	}
	// every cut returns the slices collected so far (named result) — the return of the Result cut happens before the slice is appended
	okOrder := true
	var app *ast.AssignStmt
	inspectNoLit(fn.Body, func(n ast.Node) bool {
		if a, ok := n.(*ast.AssignStmt); ok && len(a.Lhs) == 1 && expr(a.Lhs[0]) == slicesR && strings.HasPrefix(expr(a.Rhs[0]), "append("+slicesR+", "+sliceP+")") {
			app = a
		}
		return true
	})
	if app == nil {
		okOrder = false
	} else {
		al, _ := fl.LocOf(app)
		// the append must be dominated by the Result guard (a Result is never part of a pipeline)
		dom := true
		fl.Walk(fl.Entry(), "", nil, Visitor{NoFacts: true,
			Enter: func(from, to *cfg2Block, x string, s *Step) (string, bool) {
				if cond := fl.edgeCond(from); cond != nil && guardOf(cond, from.Succs[0] == to) == "R" {
					return "R", false
				}
				return x, false
			},
			Node: func(n ast.Node, x string, s *Step) (string, bool) {
				if s.Block == al.B && s.Idx == al.I {
					if x != "R" {
						dom = false
					}
					return "", false
				}
				return x, false
			}})
		okOrder = dom
	}
	c.Check(okOrder, fq+"|result-never-pipelined", pr.Pos(fn.Body.Pos()), "a slice is appended to the pipeline before it was tested not to be a reused Result: the Result's tasks would be recompiled instead of reused")
}

func c08r5(c *RC) {
	pr := c.P
	// stores into bigmachineExecutor.invocations
	n := 0
	for _, fn := range pr.FuncsIn("exec") {
		if fn.Body == nil {
			continue
		}
		fl := pr.Flow(fn)
		for _, b := range fl.G.Blocks {
			if !b.Live {
				continue
			}
			for i, nd := range b.Nodes {
				a, ok := nd.(*ast.AssignStmt)
				if !ok || len(a.Lhs) != 1 || len(a.Rhs) != 1 {
					continue
				}
				ix, ok := a.Lhs[0].(*ast.IndexExpr)
				if !ok {
					continue
				}
				sel, ok := ix.X.(*ast.SelectorExpr)
				if !ok || pr.fieldQName(fn.Pkg.FieldOf(sel)) != "exec.bigmachineExecutor.invocations" {
					continue
				}
				n++
				stored := expr(a.Rhs[0])
				dom, wit := fl.Dominated(Loc{b, i}, func(m ast.Node, s *Step) bool {
					return nodeHas(m, func(q ast.Node) bool {
						call, ok := q.(*ast.CallExpr)
						if !ok || fn.Pkg.CalleeName(call) != "exec.(*CompileEnv).Freeze" {
							return false
						}
						s2, _ := call.Fun.(*ast.SelectorExpr)
						return s2 != nil && expr(s2.X) == stored+".Env"
					})
				})
				c.Check(dom, fmt.Sprintf("%s|transported-invocation-frozen#%d", fn.QName(), n), pr.Pos(a.Pos()),
					fmt.Sprintf("the invocation %s is stored for transport to workers without %s.Env.Freeze() before the store: the copy carried by the tasks is still writable (Session.run freezes only its own local copy, after compile has copied the invocation into every task), so a worker re-decides which shards are cached from its own view of the file system and compiles a different graph", stored, stored), wit...)
			}
		}
	}
	c.Floor("stores of invocations for transport", n, 1)
	// shardCache.IsCached / MarkCached only under Env.IsWritable()
	fn := c.MustFn("exec.(*compiler).compile")
	if fn == nil {
		return
	}
	fl := pr.Flow(fn)
	m := 0
	for _, call := range callsIn(fn.Body) {
		cn := fn.Pkg.CalleeName(call)
		if cn != "internal/slicecache.ShardCache.IsCached" && cn != "exec.CompileEnv.MarkCached" {
			continue
		}
		m++
		loc, _ := fl.LocOf(call)
		okW := true
		var trail []string
		fl.Walk(fl.Entry(), "", nil, Visitor{NoFacts: true,
			Enter: func(from, to *cfg2Block, x string, s *Step) (string, bool) {
				if cond := fl.edgeCond(from); cond != nil {
					t := strings.ReplaceAll(expr(cond), " ", "")
					if strings.HasSuffix(t, "Env.IsWritable()") && !strings.HasPrefix(t, "!") {
						if from.Succs[0] == to {
							return "w", false
						}
						return "", false
					}
				}
				return x, false
			},
			Node: func(n2 ast.Node, x string, s *Step) (string, bool) {
				if s.Block == loc.B && s.Idx == loc.I {
					if x != "w" {
						okW = false
						trail = s.Trail()
					}
					return x, true
				}
				return x, false
			}})
		c.Check(okW, fmt.Sprintf("%s|%s-only-while-writable", fn.QName(), shortCallee(cn)), pr.Pos(call.Pos()),
			shortCallee(cn)+" is reached without Env.IsWritable() having been found true: a process working from a frozen (transported) environment consults its own cache files and diverges from the driver's graph", trail...)
	}
	c.Floor("cache presence sites in compile", m, 2)
	// the decision actually used for the graph comes from the environment
	used := false
	for _, call := range callsIn(fn.Body) {
		if fn.Pkg.CalleeName(call) == "exec.CompileEnv.IsCached" {
			used = true
		}
	}
	c.Check(used, fn.QName()+"|graph-uses-environment-decision", pr.Pos(fn.Body.Pos()), "compile no longer decides cached shards from the (transported) environment")
	// MarkCached refuses a frozen environment
	if mk := c.MustFn("exec.CompileEnv.MarkCached"); mk != nil {
		guard := false
		if len(mk.Body.List) > 0 {
			if ifs, ok := mk.Body.List[0].(*ast.IfStmt); ok && strings.Contains(expr(ifs.Cond), "Writable") {
				for _, k := range callsIn(ifs.Body) {
					if !mk.Pkg.mayReturn(k) {
						guard = true
					}
				}
			}
		}
		c.Check(guard, mk.QName()+"|panics-when-frozen", pr.Pos(mk.Body.Pos()), "MarkCached no longer refuses to modify a frozen environment")
	}
	// Freeze clears Writable through a pointer receiver
	if fz := c.MustFn("exec.(*CompileEnv).Freeze"); fz != nil {
		ok := false
		ast.Inspect(fz.Body, func(n ast.Node) bool {
			if a, isA := n.(*ast.AssignStmt); isA && len(a.Lhs) == 1 && strings.HasSuffix(expr(a.Lhs[0]), ".Writable") && expr(a.Rhs[0]) == "false" {
				ok = true
			}
			return true
		})
		c.Check(ok, fz.QName()+"|clears-Writable", pr.Pos(fz.Body.Pos()), "Freeze no longer clears Writable")
	} else {
		// a value receiver would freeze a copy
	}
	// Session.run freezes after compile (driver side)
	if run := c.MustFn("exec.(*Session).run"); run != nil {
		hasFreeze := false
		for _, f := range append([]*Func{run}, run.Lits...) {
			for _, k := range callsIn(f.Body) {
				if f.Pkg.CalleeName(k) == "exec.(*CompileEnv).Freeze" {
					hasFreeze = true
				}
			}
		}
		c.Note("Session.run freezes its local invocation: %v (informational; the transport store is what is checked)", hasFreeze)
	}
}

func c08r7(c *RC) {
	pr := c.P
	w := c.MustFn("exec.(*worker).Compile")
	if w == nil {
		return
	}
	var lit *Func
	for _, l := range w.Lits {
		for _, k := range callsIn(l.Body) {
			if l.Pkg.CalleeName(k) == "exec.compile" {
				lit = l
			}
		}
	}
	if lit == nil {
		c.Fail(w.QName()+"|compiles", pr.Pos(w.Body.Pos()), "worker.Compile no longer calls compile")
		return
	}
	fq := lit.QName()
	byName, closure := false, false
	ast.Inspect(lit.Body, func(n ast.Node) bool {
		switch a := n.(type) {
		case *ast.AssignStmt:
			if len(a.Lhs) == 1 {
				if ix, ok := a.Lhs[0].(*ast.IndexExpr); ok {
					if tv := lit.Pkg.Info.Types[ix.X]; tv.Type != nil && typeString(tv.Type) == "map[exec.TaskName]*exec.Task" {
						if strings.HasSuffix(expr(ix.Index), ".Name") && expr(ix.Index) == expr(a.Rhs[0])+".Name" {
							byName = true
						}
					}
				}
			}
		case *ast.CallExpr:
			if lit.Pkg.CalleeName(a) == "exec.(*Task).all" {
				closure = true
			}
		}
		return true
	})
	c.Check(byName, fq+"|indexed-by-full-name", pr.Pos(lit.Body.Pos()), "the worker no longer indexes each compiled task by its own full TaskName: run requests name a task the worker resolves to another computation")
	c.Check(closure, fq+"|over-closure-of-roots", pr.Pos(lit.Body.Pos()), "the worker no longer collects the transitive closure of the compiled roots: dependency tasks named by run requests are not found")
	// compile is called with the decoded invocation and the worker's machine-combiner flag
	okArgs := false
	for _, k := range callsIn(lit.Body) {
		if lit.Pkg.CalleeName(k) == "exec.compile" && len(k.Args) == 3 && expr(k.Args[0]) == c08decodedInv(w) && strings.HasSuffix(expr(k.Args[2]), ".MachineCombiners") {
			okArgs = true
		}
	}
	c.Check(okArgs, fq+"|same-compile-inputs", pr.Pos(lit.Body.Pos()), "the worker compiles with inputs other than the transported invocation and the session's machine-combiner setting")
	// driver: the worker struct carries the session's setting
	if st := c.MustFn("exec.(*bigmachineExecutor).Start"); st != nil {
		ok := false
		ast.Inspect(st.Body, func(n ast.Node) bool {
			if kv, isKV := n.(*ast.KeyValueExpr); isKV && expr(kv.Key) == "MachineCombiners" && strings.HasSuffix(expr(kv.Value), ".machineCombiners") {
				ok = true
			}
			return true
		})
		c.Check(ok, st.QName()+"|worker-gets-session-machine-combiners", pr.Pos(st.Body.Pos()), "the worker service is not configured with the session's machine-combiner option: driver and workers compile different combine keys")
	}
}

// c08decodedInv: the variable of worker.Compile into which the invocation is
// gob-decoded.
func c08decodedInv(w *Func) string {
	name := "inv"
	ast.Inspect(w.Body, func(n ast.Node) bool {
		if k, ok := n.(*ast.CallExpr); ok && w.Pkg.CalleeName(k) == "encoding/gob.(*Decoder).Decode" && len(k.Args) == 1 {
			if u, ok := k.Args[0].(*ast.UnaryExpr); ok {
				name = expr(u.X)
			}
		}
		return true
	})
	return name
}
