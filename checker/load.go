package main

// Loading of /repo.
//
// Dependencies (everything outside the module) are loaded once with
// go/packages (LoadAllSyntax, i.e. type-checked from source).  The module's own
// packages are then parsed and type-checked by this program against those
// dependency packages, in import order.  That second step is what makes
// in-memory variants (the self-test corpus of the thorough tier) cheap, and the
// unchanged tree goes through exactly the same code path.
//
// go/types keeps going after an error, so packages that do not compile against
// the pinned dependency versions (exec, internal/slicecache, ...) still yield a
// typed syntax tree.  The set of type errors is compared with a frozen
// baseline keyed by (package, message); anything else is "not a tree I can
// analyse" (exit 2).

import (
	"fmt"
	"go/ast"
	"go/parser"
	"go/token"
	"go/types"
	"os"
	"path/filepath"
	"regexp"
	"sort"
	"strings"

	"golang.org/x/tools/go/packages"
)

const modulePath = "github.com/grailbio/bigslice"

// Pkg is one type-checked package of the module.
type Pkg struct {
	Path  string // import path
	Rel   string // path relative to the module root ("" for the root package)
	Name  string
	Dir   string
	Files []*ast.File
	Names []string // file names, parallel to Files
	Types *types.Package
	Info  *types.Info
	Errs  []types.Error
}

// Deps is the result of the expensive, once-per-process load.
type Deps struct {
	Root    string
	GoArch  string
	Fset    *token.FileSet
	ext     map[string]*types.Package // out-of-module packages by import path
	modPkgs []*modPkgMeta             // module packages in dependency order
	NExt    int
}

type modPkgMeta struct {
	path    string
	dir     string
	name    string
	files   []string // absolute paths of compiled go files
	imports []string
}

// Prog is a type-checked view of the module (base tree or a variant).
type Prog struct {
	Deps     *Deps
	Fset     *token.FileSet
	Pkgs     map[string]*Pkg // by Rel
	Order    []*Pkg
	Src      map[string][]byte // file contents by absolute path
	idx      *index
	TypeErrs []TypeErr
}

type TypeErr struct {
	Pkg string
	Msg string
	Pos string
}

func loadDeps(root, goarch string) (*Deps, error) {
	env := append(os.Environ(), "GOWORK=off", "GOFLAGS=-mod=mod", "GOPROXY=off", "GOSUMDB=off", "GOTOOLCHAIN=local")
	if goarch != "" {
		env = append(env, "GOARCH="+goarch, "CGO_ENABLED=0")
	}
	fset := token.NewFileSet()
	cfg := &packages.Config{
		Mode:  packages.LoadAllSyntax,
		Dir:   root,
		Env:   env,
		Fset:  fset,
		Tests: false,
	}
	pkgs, err := packages.Load(cfg, "./...")
	if err != nil {
		return nil, err
	}
	if len(pkgs) == 0 {
		return nil, fmt.Errorf("no packages loaded from %s", root)
	}
	d := &Deps{Root: root, GoArch: goarch, Fset: fset, ext: map[string]*types.Package{}}
	var mods []*packages.Package
	seen := map[*packages.Package]bool{}
	var visit func(p *packages.Package)
	visit = func(p *packages.Package) {
		if seen[p] {
			return
		}
		seen[p] = true
		var imps []string
		for k := range p.Imports {
			imps = append(imps, k)
		}
		sort.Strings(imps)
		for _, k := range imps {
			visit(p.Imports[k])
		}
		if p.PkgPath == modulePath || strings.HasPrefix(p.PkgPath, modulePath+"/") {
			mods = append(mods, p) // post-order = dependency order
		} else {
			if p.Types == nil {
				return
			}
			d.ext[p.PkgPath] = p.Types
			d.NExt++
		}
	}
	sort.Slice(pkgs, func(i, j int) bool { return pkgs[i].PkgPath < pkgs[j].PkgPath })
	for _, p := range pkgs {
		visit(p)
	}
	for _, p := range mods {
		m := &modPkgMeta{path: p.PkgPath, name: p.Name}
		for _, f := range p.CompiledGoFiles {
			if strings.HasSuffix(f, ".go") {
				m.files = append(m.files, f)
			}
		}
		if len(m.files) == 0 {
			continue
		}
		sort.Strings(m.files)
		m.dir = filepath.Dir(m.files[0])
		for k := range p.Imports {
			m.imports = append(m.imports, k)
		}
		d.modPkgs = append(d.modPkgs, m)
	}
	if len(d.modPkgs) < 20 {
		return nil, fmt.Errorf("only %d module packages found under %s", len(d.modPkgs), root)
	}
	return d, nil
}

type progImporter struct {
	d    *Deps
	mods map[string]*types.Package
}

func (pi *progImporter) Import(path string) (*types.Package, error) {
	if path == "unsafe" {
		return types.Unsafe, nil
	}
	if p, ok := pi.mods[path]; ok {
		return p, nil
	}
	if p, ok := pi.d.ext[path]; ok {
		return p, nil
	}
	return nil, fmt.Errorf("package %q not loaded", path)
}

// check builds a Prog from the dependency set, reading module sources from
// disk except for the files present in overlay (absolute path -> contents).
func (d *Deps) check(overlay map[string][]byte) (*Prog, error) {
	fset := token.NewFileSet()
	pr := &Prog{Deps: d, Fset: fset, Pkgs: map[string]*Pkg{}, Src: map[string][]byte{}}
	imp := &progImporter{d: d, mods: map[string]*types.Package{}}
	arch := d.GoArch
	if arch == "" {
		arch = "amd64"
	}
	for _, m := range d.modPkgs {
		pk := &Pkg{Path: m.path, Name: m.name, Dir: m.dir}
		pk.Rel = strings.TrimPrefix(strings.TrimPrefix(m.path, modulePath), "/")
		for _, fn := range m.files {
			src, ok := overlay[fn]
			if !ok {
				b, err := os.ReadFile(fn)
				if err != nil {
					return nil, err
				}
				src = b
			}
			pr.Src[fn] = src
			f, err := parser.ParseFile(fset, fn, src, parser.ParseComments|parser.SkipObjectResolution)
			if err != nil {
				return nil, fmt.Errorf("parse %s: %v", fn, err)
			}
			pk.Files = append(pk.Files, f)
			pk.Names = append(pk.Names, fn)
		}
		pk.Info = &types.Info{
			Types:      map[ast.Expr]types.TypeAndValue{},
			Defs:       map[*ast.Ident]types.Object{},
			Uses:       map[*ast.Ident]types.Object{},
			Implicits:  map[ast.Node]types.Object{},
			Selections: map[*ast.SelectorExpr]*types.Selection{},
			Scopes:     map[ast.Node]*types.Scope{},
			Instances:  map[*ast.Ident]types.Instance{},
		}
		conf := types.Config{
			Importer: imp,
			// no language-version restriction: the module says go 1.12 but uses
			// later features (unsafe.Add, generics); version errors are dependency
			// drift, not defects, and a variant must not become unanalysable
			// merely because it uses newer syntax
			GoVersion: "",
			Sizes:     types.SizesFor("gc", arch),
			Error: func(err error) {
				if te, ok := err.(types.Error); ok {
					pk.Errs = append(pk.Errs, te)
				}
			},
		}
		tp, _ := conf.Check(m.path, fset, pk.Files, pk.Info)
		pk.Types = tp
		imp.mods[m.path] = tp
		pr.Pkgs[pk.Rel] = pk
		pr.Order = append(pr.Order, pk)
		for _, e := range pk.Errs {
			if e.Soft {
				continue
			}
			pr.TypeErrs = append(pr.TypeErrs, TypeErr{Pkg: pk.Rel, Msg: normErr(e.Msg), Pos: fset.Position(e.Pos).String()})
		}
	}
	pr.idx = buildIndex(pr)
	return pr, nil
}

var reErrPos = regexp.MustCompile(`\s+`)

func normErr(m string) string {
	m = reErrPos.ReplaceAllString(m, " ")
	return strings.TrimSpace(m)
}

// typeErrBaseline is the frozen multiset of type errors of the pinned tree
// (dependency drift, not defects): package -> message -> count.
var typeErrBaseline = map[string]map[string]int{}

func init() {
	add := func(pkg, msg string, n int) {
		if typeErrBaseline[pkg] == nil {
			typeErrBaseline[pkg] = map[string]int{}
		}
		typeErrBaseline[pkg][msg] += n
	}
	add("frame", "unsafe.Add requires go1.17 or later", 2)
	add("internal/slicecache", "undefined: errors.CleanUpCtx", 1)
	add("analysis/typecheck", "pass.ReportRangef undefined (type *analysis.Pass has no field or method ReportRangef)", 3)
	add("exec", "undefined: retry.MaxRetries", 1)
	add("exec", "undefined: errors.CleanUp", 1)
	add("exec", "undefined: limitbuf.LogIfTruncatingMaxMultiple", 1)
	add("exec", "too many arguments in call to limitbuf.NewLogger have (number, unknown type) want (int)", 1)
	add("exec", "type instantiation requires go1.18 or later", 1)
	add("exec", "invalid operation: config.Constructor[*Session] (config.Constructor is not a generic type)", 1)
	add("cmd/bigslice", "cannot use (func(depth int, v ...interface{}) literal) (value of type func(depth int, v ...interface{})) as func(...interface{}) value in assignment", 1)
	add("cmd/urls", "not enough arguments in call to s3file.NewDefaultProvider have () want (session.Options)", 1)
}

// extraTypeErrs returns the type errors that are not covered by the baseline.
func (pr *Prog) extraTypeErrs() []TypeErr {
	budget := map[string]map[string]int{}
	for p, m := range typeErrBaseline {
		budget[p] = map[string]int{}
		for k, v := range m {
			budget[p][k] = v
		}
	}
	var extra []TypeErr
	for _, e := range pr.TypeErrs {
		if budget[e.Pkg][e.Msg] > 0 {
			budget[e.Pkg][e.Msg]--
			continue
		}
		extra = append(extra, e)
	}
	return extra
}
