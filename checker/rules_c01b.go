package main

// C01-R3: the operator readers of the root package (map, filter, flatmap,
// fold's accumulators, head, const, cogroup's output stage) move rows one at a
// time between counted buffers.  None of the 30 pinned tests runs them (the
// root package's own tests do not build under the pinned go.mod), so every
// off-by-one in these loops passes the suite.  The rule decides, per function
// and per construct, the structural conditions without which the rows handed
// on cannot be the rows read:
//
//	rows-read-are-the-rows-visited   a loop that indexes an input frame by its
//	    induction variable runs it over exactly [0, n) where n is the count the
//	    upstream Read returned for that very frame (or the count parameter)
//	args-are-gathered                every element of the argument vector of a
//	    user-function call is assigned, from the current row and the matching
//	    column, before the call
//	cursor-advances                  every write at an output cursor is followed
//	    by the cursor's increment before the next row (or the return)
//	cursor-is-bounded                single-row writes happen under a guard
//	    cursor < capacity of the output
//	count-returned                   the count returned is the cursor
//	buffer-fits-output               an input buffer whose rows are copied 1:1
//	    is sized to the room left in the output
//	buffer-allocated                 the input buffer is (re)allocated before it
//	    is read into: Make when it is still zero, Ensure otherwise
//	typecheck-polarity               errTypeError is returned exactly when the
//	    frame is not assignable
//	sticky-first                     a recorded error is returned before
//	    anything else is done
//	missed-lookup-not-used           a reflect.Value from a failed comma-ok map
//	    lookup is replaced before it is used
//	value-used-only-without-error    a nilable value produced together with an
//	    error is used only where the error is known to be nil
//	copied-buffer-advances           a persistent buffer copied from is advanced
//	    by exactly the count copied
//	positive-slice-width             Slice(a, a+k) with constant k has k >= 1
//
// What is not decided: that the user function is the right one, the values
// themselves, the arithmetic of constShard.

import (
	"fmt"
	"go/ast"
	"go/token"
	"go/types"
	"strings"

	"golang.org/x/tools/go/cfg"
)

func nospace(e ast.Expr) string { return strings.ReplaceAll(expr(e), " ", "") }

// isFrameType: the named type frame.Frame.
func isFrameType(t types.Type) bool {
	return t != nil && short(namedQName(t)) == "frame.Frame"
}

func isReflectValue(t types.Type) bool {
	return t != nil && namedQName(t) == "reflect.Value"
}

type c01producer struct {
	as    *ast.AssignStmt
	call  *ast.CallExpr
	count ast.Expr // lhs receiving the row count
	base  string   // text of the frame read into, Slice(0, k) stripped
	arg   ast.Expr // the frame argument as written
}

// c01rowAccess is one use of a row of a frame.
type c01rowAccess struct {
	node  ast.Node
	frame string
	row   ast.Expr
	col   ast.Expr // nil for Slice
}

type c01ctx struct {
	c       *RC
	pr      *Prog
	fn      *Func
	le      *linEnv
	out     string // name of the output frame parameter ("" if none)
	outVals map[string]bool
	inParam string // frame parameter that is an input (Accumulate)
	inCount string
	prods   []c01producer
	ifaceOf map[string]string // local []T alias of a frame column -> frame text
}

func (x *c01ctx) typeOf(e ast.Expr) types.Type {
	if tv, ok := x.fn.Pkg.Info.Types[e]; ok {
		return tv.Type
	}
	if id, ok := e.(*ast.Ident); ok {
		if o := x.fn.Pkg.Info.Defs[id]; o != nil {
			return o.Type()
		}
		if o := x.fn.Pkg.Info.Uses[id]; o != nil {
			return o.Type()
		}
	}
	return nil
}

// nilEdge: the state of `name` (text, as expr prints it) after taking the edge
// from->to: "nil", "nonnil" or "" when the edge says nothing about it.
func nilEdge(fl *Flow, from, to *cfg2Block, name string) string {
	cond := fl.edgeCond(from)
	if cond == nil || len(from.Succs) != 2 {
		return ""
	}
	tx, nn, ok := nilTest(cond)
	if !ok || strings.ReplaceAll(tx, " ", "") != name {
		return ""
	}
	if (from.Succs[0] == to) == nn {
		return "nonnil"
	}
	return "nil"
}

// rowAccessOf recognises F.Index(col,row), F.Value(col).Index(row),
// F.Slice(row, row+1) and alias[row] where alias := F.Interface(col).([]T).
func (x *c01ctx) rowAccessOf(n ast.Node) (c01rowAccess, bool) {
	pk := x.fn.Pkg
	switch e := n.(type) {
	case *ast.CallExpr:
		sel, ok := e.Fun.(*ast.SelectorExpr)
		if !ok {
			return c01rowAccess{}, false
		}
		switch pk.CalleeName(e) {
		case "frame.Frame.Index":
			if len(e.Args) == 2 {
				return c01rowAccess{e, nospace(sel.X), e.Args[1], e.Args[0]}, true
			}
		case "frame.Frame.Slice":
			if len(e.Args) == 2 {
				d := x.le.norm(e.Args[1], 0)
				d.addScaled(x.le.norm(e.Args[0], 0), -1)
				if t, k, one := d.single(); one && t == "" && k == 1 {
					return c01rowAccess{e, nospace(sel.X), e.Args[0], nil}, true
				}
			}
		case "reflect.Value.Index":
			if inner, ok := ast.Unparen(sel.X).(*ast.CallExpr); ok && pk.CalleeName(inner) == "frame.Frame.Value" && len(inner.Args) == 1 && len(e.Args) == 1 {
				if s2, ok := inner.Fun.(*ast.SelectorExpr); ok {
					return c01rowAccess{e, nospace(s2.X), e.Args[0], inner.Args[0]}, true
				}
			}
		}
	case *ast.IndexExpr:
		if id, ok := e.X.(*ast.Ident); ok {
			if f, ok := x.ifaceOf[id.Name]; ok {
				return c01rowAccess{e, f, e.Index, nil}, true
			}
		}
	}
	return c01rowAccess{}, false
}

func (x *c01ctx) isInputFrame(f string) bool {
	if f == "" || f == x.out {
		return false
	}
	if f == x.inParam {
		return true
	}
	for _, p := range x.prods {
		if p.base == f {
			return true
		}
	}
	return false
}

// forInduction: the variable a ForStmt increments in its Post statement.
func forInduction(f *ast.ForStmt) string {
	if p, ok := f.Post.(*ast.IncDecStmt); ok && p.Tok == token.INC {
		return nospace(p.X)
	}
	return ""
}

// conjuncts splits a && b && c.
func conjuncts(e ast.Expr) []ast.Expr {
	e = ast.Unparen(e)
	if b, ok := e.(*ast.BinaryExpr); ok && b.Op == token.LAND {
		return append(conjuncts(b.X), conjuncts(b.Y)...)
	}
	if e == nil {
		return nil
	}
	return []ast.Expr{e}
}

// lessThan: e is `v < B` or `B > v`; returns B.
func lessThan(e ast.Expr, v string) (ast.Expr, bool) {
	b, ok := ast.Unparen(e).(*ast.BinaryExpr)
	if !ok {
		return nil, false
	}
	switch {
	case b.Op == token.LSS && nospace(b.X) == v:
		return b.Y, true
	case b.Op == token.GTR && nospace(b.Y) == v:
		return b.X, true
	}
	return nil, false
}

// notLessThan: e is `v >= B`, `B <= v` or `!(v < B)`; returns B.
func notLessThan(e ast.Expr, v string) (ast.Expr, bool) {
	e = ast.Unparen(e)
	if u, ok := e.(*ast.UnaryExpr); ok && u.Op == token.NOT {
		return lessThan(u.X, v)
	}
	b, ok := e.(*ast.BinaryExpr)
	if !ok {
		return nil, false
	}
	switch {
	case b.Op == token.GEQ && nospace(b.X) == v:
		return b.Y, true
	case b.Op == token.LEQ && nospace(b.Y) == v:
		return b.X, true
	}
	return nil, false
}

func mentions(n ast.Node, text string) bool {
	found := false
	if n == nil {
		return false
	}
	ast.Inspect(n, func(m ast.Node) bool {
		if e, ok := m.(ast.Expr); ok && nospace(e) == text {
			found = true
		}
		return !found
	})
	return found
}

// assignsTo: does statement/node n assign (=, :=, op=, ++/--) to text?
func assignsTo(n ast.Node, text string) bool {
	switch s := n.(type) {
	case *ast.AssignStmt:
		for _, l := range s.Lhs {
			if nospace(l) == text {
				return true
			}
		}
	case *ast.IncDecStmt:
		return nospace(s.X) == text
	case *ast.DeclStmt:
		if gd, ok := s.Decl.(*ast.GenDecl); ok {
			for _, sp := range gd.Specs {
				if vs, ok := sp.(*ast.ValueSpec); ok {
					for _, nm := range vs.Names {
						if nm.Name == text {
							return true
						}
					}
				}
			}
		}
	case *ast.ValueSpec:
		for _, nm := range s.Names {
			if nm.Name == text {
				return true
			}
		}
	}
	return false
}

func c01r3(c *RC) {
	pr := c.P
	counts := map[string]int{}
	for _, fn := range readerFuncs(pr) {
		if fn.Body == nil || fn.Parent != nil || fn.Decl == nil || fn.Decl.Recv == nil {
			continue
		}
		if strings.HasSuffix(pr.RelFile(fn.Decl.Pos()), "_test.go") {
			continue
		}
		x := &c01ctx{c: c, pr: pr, fn: fn, le: newLinEnv(pr, fn), outVals: map[string]bool{}, ifaceOf: map[string]string{}}
		if !x.classify() {
			continue
		}
		x.collect()
		counts["producer"] += len(x.prods)
		x.rowLoops(counts)
		x.userCalls(counts)
		x.outputCursors(counts)
		x.bufferAllocation(counts)
		x.typecheckPolarity(counts)
		x.stickyFirst(counts)
		x.missedLookup(counts)
		x.valueWithError(counts)
		x.head(counts)
		x.resultIsUsed(counts)
		x.lazyInit(counts)
		x.allOutputsWritten(counts)
		x.outputIsProduced(counts)
		x.remainderIsStashed(counts)
	}
	c01copiedBufferAdvances(c, counts)
	c01positiveSliceWidth(c, counts)
	c.Floor("upstream reads in operator readers", counts["producer"], 12)
	c.Floor("row loops over counted input frames", counts["rowloop"], 6)
	c.Floor("user-function calls with gathered arguments", counts["args"], 6)
	c.Floor("output cursors", counts["cursor"], 20)
	c.Floor("input buffer allocations", counts["alloc"], 3)
	c.Floor("assignability guards", counts["typeguard"], 6)
	c.Floor("sticky error fields tested first", counts["sticky"], 10)
	c.Floor("comma-ok lookups of reflect.Values", counts["lookup"], 3)
	c.Floor("values produced together with an error", counts["valerr"], 5)
	c.Floor("budgeted readers", counts["head"], 1)
	c.Floor("user-function results", counts["result"], 8)
	c.Floor("lazily initialised receiver state", counts["lazy"], 7)
	c.Floor("map-draining readers", counts["drain"], 3)
	c.Floor("readers producing output", counts["produce"], 20)
	c.Floor("partial copies of fresh rows", counts["stash"], 1)
	c.Floor("persistent buffers copied from", counts["copied"], 3)
	c.Floor("constant-width frame slices", counts["slicew"], 12)
}

// classify decides whether fn is one of the row-moving methods and which of
// its parameters is the output.
func (x *c01ctx) classify() bool {
	fn := x.fn
	sig, _ := fn.Obj.Type().(*types.Signature)
	if sig == nil {
		return false
	}
	ps := []string{paramName(fn, 0), paramName(fn, 1)}
	isRead := sig.Params().Len() == 2 && isFrameType(sig.Params().At(1).Type()) && sig.Results().Len() == 2 && typeString(sig.Results().At(0).Type()) == "int" && typeString(sig.Results().At(1).Type()) == "error"
	switch {
	case isRead:
		x.out = ps[1]
		return true
	case sig.Params().Len() == 2 && isFrameType(sig.Params().At(0).Type()) && typeString(sig.Params().At(1).Type()) == "int" && sig.Results().Len() == 0:
		x.inParam, x.inCount = ps[0], ps[1]
		return true
	case sig.Params().Len() == 2 && isReflectValue(sig.Params().At(0).Type()) && isReflectValue(sig.Params().At(1).Type()) && sig.Results().Len() == 2 && typeString(sig.Results().At(1).Type()) == "error":
		x.outVals[ps[0]], x.outVals[ps[1]] = true, true
		return true
	}
	return false
}

func (x *c01ctx) collect() {
	fn, pk := x.fn, x.fn.Pkg
	inspectNoLit(fn.Body, func(n ast.Node) bool {
		as, ok := n.(*ast.AssignStmt)
		if !ok || len(as.Rhs) != 1 {
			return true
		}
		rhs := ast.Unparen(as.Rhs[0])
		if ta, ok := rhs.(*ast.TypeAssertExpr); ok && len(as.Lhs) == 1 {
			if k, ok := ta.X.(*ast.CallExpr); ok && pk.CalleeName(k) == "frame.Frame.Interface" {
				if id, ok := as.Lhs[0].(*ast.Ident); ok {
					x.ifaceOf[id.Name] = nospace(k.Fun.(*ast.SelectorExpr).X)
				}
			}
		}
		call, ok := rhs.(*ast.CallExpr)
		if !ok || len(call.Args) != 2 || len(as.Lhs) != 2 || !isReaderRead(x.pr, pk, call) || !isFrameType(x.typeOf(call.Args[1])) {
			return true
		}
		arg := ast.Unparen(call.Args[1])
		base := nospace(arg)
		if k, ok := arg.(*ast.CallExpr); ok && pk.CalleeName(k) == "frame.Frame.Slice" && len(k.Args) == 2 {
			if v, isC := constInt(pk, k.Args[0]); isC && v == 0 {
				base = nospace(k.Fun.(*ast.SelectorExpr).X)
			}
		}
		x.prods = append(x.prods, c01producer{as, call, as.Lhs[0], base, arg})
		return true
	})
}

func (x *c01ctx) key(what string, n int) string {
	if n > 0 {
		return fmt.Sprintf("%s|%s#%d", x.fn.QName(), what, n)
	}
	return x.fn.QName() + "|" + what
}

// rowLoops: rows-read-are-the-rows-visited.
func (x *c01ctx) rowLoops(counts map[string]int) {
	fn, pr, c := x.fn, x.pr, x.c
	idx := 0
	// every frame other than the output whose rows are indexed must be filled here
	inspectNoLit(fn.Body, func(n ast.Node) bool {
		loop, ok := n.(*ast.ForStmt)
		if !ok {
			return true
		}
		v := forInduction(loop)
		if v == "" {
			if a, ok := loop.Init.(*ast.AssignStmt); ok && len(a.Lhs) == 1 {
				v = nospace(a.Lhs[0])
			}
		}
		if v == "" {
			return true
		}
		frames := map[string]bool{}
		inspectNoLit(loop.Body, func(m ast.Node) bool {
			if ra, ok := x.rowAccessOf(m); ok && nospace(ra.row) == v && ra.frame != x.out && !x.outVals[ra.frame] {
				if t := x.typeOfText(ra.frame); t == nil || isFrameType(t) {
					frames[ra.frame] = true
				}
			}
			return true
		})
		for _, f := range sortedKeys(frames) {
			// rows of a local frame built in this function (e.g. the result of a
			// user call) are not rows read from upstream
			if !x.isInputFrame(f) && !x.isPersistent(f) {
				continue
			}
			idx++
			counts["rowloop"]++
			k := x.key("rows-read-are-the-rows-visited", idx)
			pos := pr.Pos(loop.Pos())
			if !x.isInputFrame(f) {
				c.Check(false, k, pos, "rows of "+f+" are visited but nothing reads into "+f+" in this call: the rows handed on are whatever the buffer held before")
				continue
			}
			if forInduction(loop) != v {
				c.Check(false, k, pos, "the row index "+v+" is not advanced by one per iteration")
				continue
			}
			var bound ast.Expr
			for _, cj := range conjuncts(loop.Cond) {
				if b, ok := lessThan(cj, v); ok {
					bound = b
				}
			}
			if bound == nil {
				c.Check(false, k, pos, "the loop over the rows of "+f+" is not bounded by "+v+" < <rows read>: it visits a row that was not read, or misses one")
				continue
			}
			bt := nospace(bound)
			okB, why := false, ""
			if f == x.inParam {
				okB = bt == x.inCount
				why = "the bound is not the count parameter"
			} else {
				var prod *c01producer
				for i := range x.prods {
					if x.prods[i].base == f {
						prod = &x.prods[i]
					}
				}
				ct := nospace(prod.count)
				if init, ok := loop.Init.(*ast.AssignStmt); ok && len(init.Lhs) == 1 && nospace(init.Lhs[0]) == v {
					z, isC := constInt(fn.Pkg, init.Rhs[0])
					okB = isC && z == 0 && bt == ct
					why = "the loop does not run from 0 to the count returned by the read into " + f
					if okB {
						// the read dominates the loop
						fl := pr.Flow(fn)
						if loc, found := fl.LocOf(loop.Init); found {
							dom, _ := fl.Dominated(loc, func(nd ast.Node, s *Step) bool { return nd == ast.Node(prod.as) })
							okB = dom
							why = "the loop can be reached without reading into " + f
						}
					}
				} else {
					// persistent cursor pair: `v, bound = 0, count` follows the read
					reset := false
					inspectNoLit(fn.Body, func(m ast.Node) bool {
						as, ok := m.(*ast.AssignStmt)
						if !ok || len(as.Lhs) != len(as.Rhs) {
							return true
						}
						zeroed, bounded := false, false
						for i := range as.Lhs {
							if nospace(as.Lhs[i]) == v {
								z, isC := constInt(fn.Pkg, as.Rhs[i])
								zeroed = isC && z == 0
							}
							if nospace(as.Lhs[i]) == bt && nospace(as.Rhs[i]) == ct {
								bounded = true
							}
						}
						if zeroed && bounded && as.Pos() > prod.as.End() {
							reset = true
						}
						return true
					})
					okB = reset
					why = "the persistent row cursor " + v + " and its bound are not reset to (0, rows read) after the read into " + f
				}
			}
			c.Check(okB, k, pos, why+": the rows visited are not exactly the rows read")
		}
		return true
	})
}

func (x *c01ctx) typeOfText(text string) types.Type {
	var t types.Type
	ast.Inspect(x.fn.Body, func(n ast.Node) bool {
		if e, ok := n.(ast.Expr); ok && t == nil && nospace(e) == text {
			t = x.typeOf(e)
		}
		return t == nil
	})
	return t
}

// isPersistent: text is a selector path rooted at the receiver.
func (x *c01ctx) isPersistent(text string) bool {
	r := recvOf(x.fn)
	return r != "" && strings.HasPrefix(text, r+".")
}

func sortedKeys(m map[string]bool) []string {
	var ks []string
	for k := range m {
		ks = append(ks, k)
	}
	return sortedStrs(ks...)
}

// userCalls: args-are-gathered.
func (x *c01ctx) userCalls(counts map[string]int) {
	fn, pr, c, pk := x.fn, x.pr, x.c, x.fn.Pkg
	// argument vectors: A := make([]reflect.Value, K)
	vecs := map[string]ast.Expr{}
	inspectNoLit(fn.Body, func(n ast.Node) bool {
		as, ok := n.(*ast.AssignStmt)
		if !ok || len(as.Lhs) != 1 || len(as.Rhs) != 1 {
			return true
		}
		k, ok := as.Rhs[0].(*ast.CallExpr)
		if !ok || expr(k.Fun) != "make" || len(k.Args) < 2 {
			return true
		}
		if t := x.typeOf(k.Args[0]); t != nil && typeString(t) == "[]reflect.Value" {
			vecs[nospace(as.Lhs[0])] = k.Args[1]
		}
		return true
	})
	idx := 0
	for _, vec := range sortedKeys(func() map[string]bool {
		m := map[string]bool{}
		for k := range vecs {
			m[k] = true
		}
		return m
	}()) {
		// is the vector filled from rows of an input frame?
		type fill struct {
			as   *ast.AssignStmt
			ix   ast.Expr
			loop ast.Stmt
		}
		var fills []fill
		inspectNoLit(fn.Body, func(n ast.Node) bool {
			as, ok := n.(*ast.AssignStmt)
			if !ok || len(as.Lhs) != 1 {
				return true
			}
			if ie, ok := as.Lhs[0].(*ast.IndexExpr); ok && nospace(ie.X) == vec {
				fills = append(fills, fill{as, ie.Index, enclosingLoop(fn.Body, as)})
			}
			return true
		})
		var calls []*ast.CallExpr
		for _, k := range callsIn(fn.Body) {
			if pk.CalleeName(k) == "slicefunc.Func.Call" && len(k.Args) == 2 && nospace(k.Args[1]) == vec {
				calls = append(calls, k)
			}
		}
		if len(fills) == 0 && len(calls) == 0 {
			continue
		}
		// key[] style vectors that are never passed to a user call are not argument vectors
		if len(calls) == 0 {
			rowFilled := false
			for _, f := range fills {
				if ra, ok := x.rowAccessOf(ast.Unparen(f.as.Rhs[0])); ok && x.isInputFrame(ra.frame) {
					rowFilled = true
				}
			}
			if !rowFilled {
				continue
			}
			idx++
			counts["args"]++
			c.Check(false, x.key("args-are-gathered", idx), pr.Pos(fills[0].as.Pos()), "the argument vector "+vec+" is filled from the current row but never passed to the user function: the operator's function is not applied to the rows")
			continue
		}
		for _, call := range calls {
			idx++
			counts["args"]++
			k := x.key("args-are-gathered", idx)
			pos := pr.Pos(call.Pos())
			rowLoop := enclosingLoop(fn.Body, call)
			if rowLoop == nil {
				c.Check(false, k, pos, "the user function is not called once per row")
				continue
			}
			rowVar := ""
			if fl, ok := rowLoop.(*ast.ForStmt); ok {
				rowVar = forInduction(fl)
			}
			K := nospace(vecs[vec])
			covered := map[int64]bool{}
			from, full := int64(-1), false
			why := ""
			for _, f := range fills {
				if f.as.Pos() > call.Pos() || f.as.Pos() < rowLoop.Pos() {
					continue
				}
				if cst, isC := constInt(pk, f.ix); isC {
					covered[cst] = true
					continue
				}
				j := nospace(f.ix)
				// the fill must take column j of the current row
				ra, isRow := x.rowAccessOf(ast.Unparen(f.as.Rhs[0]))
				if !isRow || ra.col == nil || nospace(ra.col) != j || !x.isInputFrame(ra.frame) {
					why = "element " + j + " of the argument vector is not taken from column " + j + " of the input row"
					continue
				}
				if rowVar != "" && nospace(ra.row) != rowVar {
					why = "the arguments are not taken from the row the loop is at (" + rowVar + ")"
					continue
				}
				switch l := f.loop.(type) {
				case *ast.RangeStmt:
					if l.Key != nil && nospace(l.Key) == j && nospace(l.X) == vec && l.Value == nil {
						full = true
					}
				case *ast.ForStmt:
					if init, ok := l.Init.(*ast.AssignStmt); ok && len(init.Lhs) == 1 && nospace(init.Lhs[0]) == j && forInduction(l) == j {
						s, isC := constInt(pk, init.Rhs[0])
						if b, okB := lessThan(l.Cond, j); okB && isC && (nospace(b) == K || nospace(b) == "len("+vec+")") {
							from = s
						} else {
							why = "the column loop does not run up to the length of the argument vector (" + K + ")"
						}
					}
				}
			}
			if !full && from >= 0 {
				full = true
				for i := int64(0); i < from; i++ {
					if !covered[i] {
						full = false
						why = fmt.Sprintf("element %d of the argument vector is never assigned", i)
					}
				}
			}
			if !full && why == "" {
				why = "the argument vector is not filled from the current row before the call"
			}
			c.Check(full, k, pos, why+": the user function is applied to stale or invalid values", "vector "+vec+" of length "+K)
		}
	}
}

// c01write is one write into the output at a cursor.
type c01write struct {
	node   ast.Node // the statement-level node
	call   *ast.CallExpr
	row    ast.Expr // cursor (nil when the whole output is the destination)
	col    ast.Expr
	single bool // writes exactly one row
	target string
}

func (x *c01ctx) writes() []c01write {
	fn, pk := x.fn, x.fn.Pkg
	var ws []c01write
	isOut := func(t string) bool { return t != "" && (t == x.out || x.outVals[t]) }
	inspectNoLit(fn.Body, func(n ast.Node) bool {
		call, ok := n.(*ast.CallExpr)
		if !ok {
			return true
		}
		sel, _ := call.Fun.(*ast.SelectorExpr)
		switch pk.CalleeName(call) {
		case "reflect.Value.Set":
			if sel == nil {
				return true
			}
			inner, ok := ast.Unparen(sel.X).(*ast.CallExpr)
			if !ok {
				return true
			}
			s2, _ := inner.Fun.(*ast.SelectorExpr)
			if s2 == nil {
				return true
			}
			switch pk.CalleeName(inner) {
			case "frame.Frame.Index":
				if isOut(nospace(s2.X)) && len(inner.Args) == 2 {
					ws = append(ws, c01write{call, call, inner.Args[1], inner.Args[0], true, nospace(s2.X)})
				}
			case "reflect.Value.Index":
				if isOut(nospace(s2.X)) && len(inner.Args) == 1 {
					ws = append(ws, c01write{call, call, inner.Args[0], nil, true, nospace(s2.X)})
				}
			}
		case "frame.Copy":
			if len(call.Args) != 2 {
				return true
			}
			d := ast.Unparen(call.Args[0])
			if isOut(nospace(d)) {
				ws = append(ws, c01write{call, call, nil, nil, false, nospace(d)})
				return true
			}
			if k, ok := d.(*ast.CallExpr); ok && pk.CalleeName(k) == "frame.Frame.Slice" && len(k.Args) == 2 {
				if s2, ok := k.Fun.(*ast.SelectorExpr); ok && isOut(nospace(s2.X)) {
					df := x.le.norm(k.Args[1], 0)
					df.addScaled(x.le.norm(k.Args[0], 0), -1)
					t, kk, one := df.single()
					ws = append(ws, c01write{call, call, k.Args[0], nil, one && t == "" && kk == 1, nospace(s2.X)})
				}
			}
		}
		return true
	})
	return ws
}

// outputCursors: cursor-advances, cursor-is-bounded, count-returned,
// buffer-fits-output.
func (x *c01ctx) outputCursors(counts map[string]int) {
	fn, pr, c, pk := x.fn, x.pr, x.c, x.fn.Pkg
	ws := x.writes()
	if len(ws) == 0 {
		return
	}
	fl := pr.Flow(fn)
	rangeKeyOf := func(n ast.Node, v string) bool {
		for _, p := range pathTo(fn.Body, n) {
			if r, ok := p.(*ast.RangeStmt); ok && r.Key != nil && nospace(r.Key) == v {
				return true
			}
		}
		return false
	}
	isWriteAt := func(nd ast.Node, v string, col bool) bool {
		hit := false
		for _, w := range ws {
			e := w.row
			if col {
				e = w.col
			}
			if e != nil && nospace(e) == v && nodeHas(nd, func(m ast.Node) bool { return m == ast.Node(w.call) }) {
				hit = true
			}
		}
		return hit
	}
	idx := 0
	seenCursor := map[string]bool{}
	for _, w := range ws {
		// column cursors: an explicitly advanced column index
		if w.col != nil {
			if id, ok := w.col.(*ast.Ident); ok && !rangeKeyOf(w.call, id.Name) {
				if _, isC := constInt(pk, w.col); !isC {
					idx++
					counts["cursor"]++
					okC, trail := x.advancesBefore(fl, w, id.Name, func(nd ast.Node) bool { return isWriteAt(nd, id.Name, true) }, false)
					c.Check(okC, x.key("cursor-advances", idx), pr.Pos(w.call.Pos()), "after the write at output column "+id.Name+" the column index is not advanced before the next column is written: a column is overwritten and another left unset", trail...)
					if !seenCursor["col:"+id.Name] {
						seenCursor["col:"+id.Name] = true
						// the column index moves only past a column that was written
						okS := true
						var tr2 []string
						fl.Walk(fl.Entry(), "none", nil, Visitor{NoFacts: true,
							Node: func(nd ast.Node, st string, s *Step) (string, bool) {
								if !okS {
									return st, true
								}
								if isWriteAt(nd, id.Name, true) {
									return "written", false
								}
								if assignsTo(nd, id.Name) {
									adv := false
									switch a := nd.(type) {
									case *ast.IncDecStmt:
										adv = true
									case *ast.AssignStmt:
										adv = a.Tok != token.ASSIGN && a.Tok != token.DEFINE
									}
									if adv && st != "written" {
										okS, tr2 = false, s.Trail()
										return st, true
									}
									return "fresh", false
								}
								return st, false
							}})
						c.Check(okS, x.key("column-cursor-skips-nothing", 0)+"|"+id.Name, pr.Pos(w.call.Pos()), "the output column index "+id.Name+" is advanced past a column that was not written in this row: the caller's frame keeps whatever an earlier row left there, and the row shows values that belong to another key", tr2...)
					}
				}
			}
		}
		if w.row == nil {
			// whole-output copy: the count must be taken
			idx++
			counts["cursor"]++
			used := false
			for _, p := range pathTo(fn.Body, w.call) {
				if as, ok := p.(*ast.AssignStmt); ok && len(as.Rhs) == 1 && ast.Unparen(as.Rhs[0]) == ast.Expr(w.call) {
					used = true
				}
				if _, ok := p.(*ast.ReturnStmt); ok {
					used = true
				}
			}
			if !used {
				used = x.returnsClampedCount()
			}
			c.Check(used, x.key("cursor-advances", idx), pr.Pos(w.call.Pos()), "rows are copied into the output but the number copied is neither taken from the copy nor computed as the output's length lowered to what is available: the caller is told a count that does not match the rows copied")
			continue
		}
		cur := nospace(w.row)
		if _, isC := constInt(pk, w.row); isC {
			continue
		}
		idx++
		counts["cursor"]++
		// the row loop of the cursor: innermost enclosing loop that guards or advances it
		var guardLoop ast.Stmt
		var guardCap ast.Expr
		path := pathTo(fn.Body, w.call)
		for i := len(path) - 1; i >= 0 && guardLoop == nil; i-- {
			switch l := path[i].(type) {
			case *ast.ForStmt:
				for _, cj := range conjuncts(l.Cond) {
					if b, ok := lessThan(cj, cur); ok {
						guardLoop, guardCap = l, b
					}
				}
				if guardLoop == nil && mentions(l.Cond, cur) {
					guardLoop = l
				}
			case *ast.RangeStmt:
				for _, st := range l.Body.List {
					if ifs, ok := st.(*ast.IfStmt); ok && ifs.Init == nil && ifs.Else == nil && len(ifs.Body.List) == 1 && st.End() < w.call.Pos() {
						if br, ok := ifs.Body.List[0].(*ast.BranchStmt); ok && br.Tok == token.BREAK && br.Label == nil {
							if b, ok := notLessThan(ifs.Cond, cur); ok {
								guardLoop, guardCap = l, b
							} else if mentions(ifs.Cond, cur) {
								guardLoop = l
							}
						}
					}
				}
			}
		}
		kAdv := x.key("cursor-advances", idx)
		pos := pr.Pos(w.call.Pos())
		okA, trail := x.advancesBefore(fl, w, cur, func(nd ast.Node) bool { return false }, true, guardLoop)
		c.Check(okA, kAdv, pos, "after the write at output row "+cur+" the cursor is not advanced before the next row is produced or the count is returned: a row is overwritten, or returned rows are missing from the count", trail...)
		if !w.single {
			// a multi-row Copy is bounded by the slices themselves; its count must advance the cursor (checked above)
			continue
		}
		if seenCursor[cur] {
			continue
		}
		seenCursor[cur] = true
		// cursor-is-bounded
		kB := x.key("cursor-is-bounded", 0) + "|" + canon(fn, w.row)
		if guardLoop == nil || guardCap == nil {
			why := "no enclosing loop tests the output cursor " + cur + " against the capacity of the output"
			if guardLoop != nil {
				why = "the guard of the output cursor " + cur + " is not of the form " + cur + " < capacity"
			}
			c.Check(false, kB, pos, why+": a row is written past the end of the caller's frame (panic) or the frame is left partly unfilled")
			continue
		}
		capOK, capWhy := x.isCapacity(guardCap, w.target, cur)
		c.Check(capOK, kB, pr.Pos(guardLoop.Pos()), capWhy)
		// when the cursor is advanced inside a nested row loop, the guard does not
		// protect every write: the input read in the guarded loop must fit the room left
		if inc := x.incrementOf(cur, guardLoop); inc != nil {
			inner := enclosingLoop(fn.Body, inc)
			if inner != nil && inner != guardLoop {
				x.bufferFits(cur, guardCap, guardLoop, counts)
			}
		}
		// count-returned
		x.countReturned(cur, guardLoop, counts)
	}
}

// incrementOf returns the statement that advances cur inside scope.
func (x *c01ctx) incrementOf(cur string, scope ast.Node) ast.Node {
	var inc ast.Node
	inspectNoLit(scope, func(n ast.Node) bool {
		switch s := n.(type) {
		case *ast.IncDecStmt:
			if nospace(s.X) == cur && s.Tok == token.INC {
				inc = s
			}
		case *ast.AssignStmt:
			if s.Tok == token.ADD_ASSIGN && len(s.Lhs) == 1 && nospace(s.Lhs[0]) == cur {
				inc = s
			}
		}
		return true
	})
	return inc
}

// advancesBefore walks forward from the write: every path must assign the
// cursor before it reaches another write at the same cursor (columns), the
// header of the guarding loop, or a return (rows).
func (x *c01ctx) advancesBefore(fl *Flow, w c01write, cur string, isOther func(ast.Node) bool, rows bool, guard ...ast.Stmt) (bool, []string) {
	loc, found := fl.Find(func(n ast.Node) bool {
		return nodeHas(n, func(m ast.Node) bool { return m == ast.Node(w.call) })
	})
	if !found {
		return false, []string{"write not found in the flow graph"}
	}
	var gl ast.Stmt
	if len(guard) > 0 {
		gl = guard[0]
	}
	ok := true
	var trail []string
	first := true
	fl.Walk(loc, "", nil, Visitor{NoFacts: true,
		Node: func(nd ast.Node, st string, s *Step) (string, bool) {
			if !ok {
				return st, true
			}
			if first && s.Block == loc.B && s.Idx == loc.I {
				first = false
				// the write itself may also consume the count (n := Copy(...); handled by later statements)
				if assignsTo(nd, cur) {
					return st, true
				}
				return st, false
			}
			if assignsTo(nd, cur) {
				return st, true
			}
			if !rows && isOther(nd) {
				ok, trail = false, s.Trail()
				return st, true
			}
			if rows {
				if s.Block == loc.B && s.Idx == loc.I && gl == nil {
					ok, trail = false, s.Trail()
					return st, true
				}
			}
			return st, false
		},
		Enter: func(from, to *cfg2Block, st string, s *Step) (string, bool) {
			if rows && gl != nil && to.Stmt == gl && (to.Kind == cfg.KindForLoop || to.Kind == cfg.KindRangeLoop) {
				ok, trail = false, s.Trail()
				return st, true
			}
			return st, false
		},
		Exit: func(kind ExitKind, ret *ast.ReturnStmt, st string, s *Step) {
			if !rows || kind == ExitPanic {
				return
			}
			// an error return that reports no rows need not have advanced; nor one
			// that sits under a test implying its error is non-nil (the row being
			// produced is abandoned together with the read)
			if ret != nil && len(ret.Results) == 2 {
				if v, isC := constInt(x.fn.Pkg, ret.Results[0]); isC && v == 0 {
					return
				}
				for _, p := range pathTo(x.fn.Body, ret) {
					if ifs, isIf := p.(*ast.IfStmt); isIf && ret.Pos() >= ifs.Body.Pos() && ret.End() <= ifs.Body.End() {
						if name, okE := impliesError(ifs.Cond); okE && name == nospace(ret.Results[1]) {
							return
						}
					}
				}
			}
			ok, trail = false, s.Trail()
		}})
	return ok, trail
}

// isCapacity: e is the length of the output target, a local defined as it, or
// the count of a producer (then buffer-fits-output decides the rest).
func (x *c01ctx) isCapacity(e ast.Expr, target, cur string) (bool, string) {
	t := nospace(e)
	want := target + ".Len()"
	if t == want {
		return true, ""
	}
	if def := x.defOf(t); def != "" && def == want {
		return true, ""
	}
	for _, p := range x.prods {
		if nospace(p.count) == t {
			// rows are written 1:1 at the input index: the buffer read into must not exceed the output
			sz := x.bufferSize(p)
			if sz == want || x.defAt(sz, p.as.Pos()) == want {
				return true, ""
			}
			return false, "the rows are written at the index they were read at, but the buffer read into (" + sz + " rows) is not sized by the output's length: a write past the end of the caller's frame"
		}
	}
	return false, "the output cursor " + cur + " is tested against " + t + ", which is not the capacity of the output (" + want + "): rows are written past the end of the caller's frame or the frame is left partly unfilled"
}

// defOf: the single defining expression (text) of a local.
func (x *c01ctx) defOf(name string) string {
	for o, d := range x.le.defs {
		if o.Name() == name {
			return nospace(d)
		}
	}
	return ""
}

// defAt: the value (text) most recently assigned to the local `name` by a
// statement of the function's top-level block that ends before pos.
func (x *c01ctx) defAt(name string, pos token.Pos) string {
	out := ""
	for _, st := range x.fn.Body.List {
		if st.End() > pos {
			break
		}
		switch s := st.(type) {
		case *ast.AssignStmt:
			for i, l := range s.Lhs {
				if nospace(l) == name {
					if len(s.Lhs) == len(s.Rhs) {
						out = nospace(s.Rhs[i])
					} else {
						out = "?"
					}
				}
			}
		case *ast.DeclStmt:
			if gd, ok := s.Decl.(*ast.GenDecl); ok {
				for _, sp := range gd.Specs {
					if vs, ok := sp.(*ast.ValueSpec); ok {
						for i, nm := range vs.Names {
							if nm.Name == name && len(vs.Values) == len(vs.Names) {
								out = nospace(vs.Values[i])
							}
						}
					}
				}
			}
		default:
			if assigned := func() bool {
				hit := false
				inspectNoLit(st, func(n ast.Node) bool {
					if assignsTo(n, name) {
						hit = true
					}
					return true
				})
				return hit
			}(); assigned {
				out = "?"
			}
		}
	}
	return out
}

// bufferSize: the number of rows of the frame a producer reads into, as text:
// X.Slice(0, E) -> E; a field sized by Make(.., E, E) / Ensure(E) -> E.
func (x *c01ctx) bufferSize(p c01producer) string {
	pk := x.fn.Pkg
	if k, ok := p.arg.(*ast.CallExpr); ok && pk.CalleeName(k) == "frame.Frame.Slice" && len(k.Args) == 2 {
		return nospace(k.Args[1])
	}
	sizes := map[string]bool{}
	inspectNoLit(x.fn.Body, func(n ast.Node) bool {
		as, ok := n.(*ast.AssignStmt)
		if !ok || len(as.Lhs) != 1 || len(as.Rhs) != 1 || nospace(as.Lhs[0]) != p.base {
			return true
		}
		if k, ok := as.Rhs[0].(*ast.CallExpr); ok {
			switch pk.CalleeName(k) {
			case "frame.Make":
				if len(k.Args) == 3 {
					sizes[nospace(k.Args[1])] = true
					sizes[nospace(k.Args[2])] = true
				}
			case "frame.Frame.Ensure":
				if len(k.Args) == 1 {
					sizes[nospace(k.Args[0])] = true
				}
			}
		}
		return true
	})
	ks := sortedKeys(sizes)
	if len(ks) == 1 {
		return ks[0]
	}
	return "?" + strings.Join(ks, ",")
}

// bufferFits: buffer-fits-output for a cursor advanced in a nested row loop.
func (x *c01ctx) bufferFits(cur string, capE ast.Expr, guardLoop ast.Stmt, counts map[string]int) {
	c, pr := x.c, x.pr
	for _, p := range x.prods {
		if p.as.Pos() < guardLoop.Pos() || p.as.End() > guardLoop.End() {
			continue
		}
		counts["alloc"] += 0
		k := x.key("buffer-fits-output", 0) + "|" + canonText(x.fn, p.base)
		// every size expression of the buffer must equal cap - cur
		want := x.le.norm(capE, 0)
		want.addScaled(x.le.norm(p.count, 0), 0)
		wantCur := lin{cur: 1}
		want.addScaled(wantCur, -1)
		okS := true
		bad := ""
		pk := x.fn.Pkg
		n := 0
		inspectNoLit(x.fn.Body, func(nd ast.Node) bool {
			as, ok := nd.(*ast.AssignStmt)
			if !ok || len(as.Lhs) != 1 || len(as.Rhs) != 1 || nospace(as.Lhs[0]) != p.base {
				return true
			}
			kc, ok := as.Rhs[0].(*ast.CallExpr)
			if !ok {
				return true
			}
			var sz []ast.Expr
			switch pk.CalleeName(kc) {
			case "frame.Make":
				if len(kc.Args) == 3 {
					sz = kc.Args[1:]
				}
			case "frame.Frame.Ensure":
				sz = kc.Args
			}
			for _, e := range sz {
				n++
				d := x.le.norm(e, 0)
				d.addScaled(want, -1)
				if len(nonZero(d)) != 0 {
					okS = false
					bad = nospace(e)
				}
			}
			return true
		})
		if n == 0 {
			okS, bad = false, "(no allocation found)"
		}
		c.Check(okS, k, pr.Pos(p.as.Pos()), "the output cursor "+cur+" is advanced once per accepted input row without a test, so the rows read must fit the room left in the output ("+nospace(capE)+" - "+cur+"), but the buffer is sized "+bad+": a row is written past the end of the caller's frame")
	}
}

// countReturned: the count returned after the guarded loop is the cursor.
func (x *c01ctx) countReturned(cur string, guardLoop ast.Stmt, counts map[string]int) {
	fn, c, pr := x.fn, x.c, x.pr
	named := ""
	if fn.Type.Results != nil && len(fn.Type.Results.List) > 0 && len(fn.Type.Results.List[0].Names) > 0 {
		named = fn.Type.Results.List[0].Names[0].Name
	}
	i := 0
	inspectNoLit(fn.Body, func(n ast.Node) bool {
		ret, ok := n.(*ast.ReturnStmt)
		if !ok || ret.Pos() < guardLoop.End() {
			return true
		}
		i++
		got := named
		if len(ret.Results) > 0 {
			got = nospace(ret.Results[0])
		}
		okR := got == cur
		if !okR {
			// the loop bound of a 1:1 loop (cursor = induction variable, out of scope here)
			if l, isFor := guardLoop.(*ast.ForStmt); isFor && forInduction(l) == cur {
				if b, okB := lessThan(l.Cond, cur); okB && nospace(b) == got {
					okR = true
				}
			}
		}
		c.Check(okR, x.key("count-returned", i)+"|"+canonText(fn, cur), pr.Pos(ret.Pos()), "the count returned ("+got+") is not the output cursor "+cur+": the caller uses rows that were not written, or drops rows that were")
		return true
	})
}

// bufferAllocation: buffer-allocated.
func (x *c01ctx) bufferAllocation(counts map[string]int) {
	fn, pr, c, pk := x.fn, x.pr, x.c, x.fn.Pkg
	seen := map[string]bool{}
	for _, p := range x.prods {
		if !x.isPersistent(p.base) || seen[p.base] || !isFrameType(x.typeOfText(p.base)) {
			continue
		}
		seen[p.base] = true
		counts["alloc"]++
		k := x.key("buffer-allocated", 0) + "|" + canonText(fn, p.base)
		// the if statement testing base.IsZero()
		var theIf *ast.IfStmt
		inspectNoLit(fn.Body, func(n ast.Node) bool {
			ifs, ok := n.(*ast.IfStmt)
			if !ok || ifs.Else == nil {
				return true
			}
			if nodeHas(ifs.Cond, func(m ast.Node) bool {
				k, ok := m.(*ast.CallExpr)
				return ok && pk.CalleeName(k) == "frame.Frame.IsZero" && nospace(k.Fun.(*ast.SelectorExpr).X) == p.base
			}) {
				theIf = ifs
			}
			return true
		})
		if theIf == nil {
			c.Check(false, k, pr.Pos(p.as.Pos()), "the buffer "+p.base+" is read into without being allocated when still zero and grown otherwise")
			continue
		}
		val, okE := evalCond(theIf.Cond, func(e ast.Expr) (bool, bool) {
			if k, ok := ast.Unparen(e).(*ast.CallExpr); ok && pk.CalleeName(k) == "frame.Frame.IsZero" {
				return true, true
			}
			return false, false
		})
		if !okE {
			c.Check(false, k, pr.Pos(theIf.Pos()), "the allocation test of "+p.base+" is not a function of IsZero alone")
			continue
		}
		zeroArm, otherArm := ast.Stmt(theIf.Body), theIf.Else
		if !val {
			zeroArm, otherArm = otherArm, zeroArm
		}
		assignsFrom := func(arm ast.Stmt, callee string) bool {
			hit := false
			inspectNoLit(arm, func(n ast.Node) bool {
				as, ok := n.(*ast.AssignStmt)
				if ok && len(as.Lhs) == 1 && len(as.Rhs) == 1 && nospace(as.Lhs[0]) == p.base {
					if kc, ok := as.Rhs[0].(*ast.CallExpr); ok && pk.CalleeName(kc) == callee {
						hit = true
					}
				}
				return true
			})
			return hit
		}
		okA := assignsFrom(zeroArm, "frame.Make") && assignsFrom(otherArm, "frame.Frame.Ensure")
		if okA {
			fl := pr.Flow(fn)
			if loc, found := fl.LocOf(p.as); found {
				dom, _ := fl.Dominated(loc, func(nd ast.Node, s *Step) bool {
					as, ok := nd.(*ast.AssignStmt)
					return ok && len(as.Lhs) == 1 && nospace(as.Lhs[0]) == p.base
				})
				okA = dom
			}
		}
		c.Check(okA, k, pr.Pos(theIf.Pos()), "the buffer "+p.base+" is not allocated with Make exactly when it is still zero and grown with Ensure otherwise, on every path to the read: the read goes into a zero or undersized frame")
	}
}

// typecheckPolarity: errTypeError exactly when not assignable.
func (x *c01ctx) typecheckPolarity(counts map[string]int) {
	fn, pr, c, pk := x.fn, x.pr, x.c, x.fn.Pkg
	i := 0
	inspectNoLit(fn.Body, func(n ast.Node) bool {
		ifs, ok := n.(*ast.IfStmt)
		if !ok {
			return true
		}
		hasCall := nodeHas(ifs.Cond, func(m ast.Node) bool {
			k, ok := m.(*ast.CallExpr)
			return ok && pk.CalleeName(k) == "slicetype.Assignable"
		})
		if !hasCall {
			return true
		}
		i++
		counts["typeguard"]++
		val, okE := evalCond(ifs.Cond, func(e ast.Expr) (bool, bool) {
			if k, ok := ast.Unparen(e).(*ast.CallExpr); ok && pk.CalleeName(k) == "slicetype.Assignable" {
				return true, true
			}
			return false, false
		})
		// the body returns an error: it must be the not-assignable arm
		rejects := false
		for _, st := range ifs.Body.List {
			if ret, ok := st.(*ast.ReturnStmt); ok && len(ret.Results) == 2 && nospace(ret.Results[1]) != "nil" {
				rejects = true
			}
		}
		c.Check(okE && rejects && !val, x.key("typecheck-polarity", i), pr.Pos(ifs.Pos()), "the frame is rejected when it IS assignable (or accepted when it is not): every well-typed read fails, or an ill-typed frame is written through")
		return true
	})
}

// stickyFirst: a reader that stores errors in a receiver field returns the
// stored error before calling anything.
func (x *c01ctx) stickyFirst(counts map[string]int) {
	fn, pr, c := x.fn, x.pr, x.c
	if x.out == "" {
		return
	}
	r := recvOf(fn)
	if r == "" {
		return
	}
	// receiver fields of type error that this method assigns
	fields := map[string]bool{}
	inspectNoLit(fn.Body, func(n ast.Node) bool {
		as, ok := n.(*ast.AssignStmt)
		if !ok {
			return true
		}
		for _, l := range as.Lhs {
			if sel, ok := l.(*ast.SelectorExpr); ok && nospace(sel.X) == r {
				if t := x.typeOf(l); t != nil && typeString(t) == "error" {
					fields[nospace(l)] = true
				}
			}
		}
		return true
	})
	for _, f := range sortedKeys(fields) {
		counts["sticky"]++
		fl := pr.Flow(fn)
		var fexpr ast.Expr
		ast.Inspect(fn.Body, func(n ast.Node) bool {
			if e, ok := n.(ast.Expr); ok && fexpr == nil && nospace(e) == f {
				fexpr = e
			}
			return fexpr == nil
		})
		_ = fexpr
		ok := true
		var trail []string
		fl.Walk(fl.Entry(), "", nil, Visitor{NoFacts: true,
			Enter: func(from, to *cfg2Block, st string, s *Step) (string, bool) {
				if ns := nilEdge(fl, from, to, f); ns != "" {
					return ns, false
				}
				return st, false
			},
			Node: func(nd ast.Node, st string, s *Step) (string, bool) {
				if !ok {
					return st, true
				}
				for _, k := range callsIn(nd) {
					if isReaderRead(pr, fn.Pkg, k) || fn.Pkg.CalleeName(k) == "slicefunc.Func.Call" || strings.HasSuffix(fn.Pkg.CalleeName(k), ".compute") || strings.HasPrefix(fn.Pkg.CalleeName(k), "sortio.") {
						if st != "nil" {
							ok, trail = false, s.Trail()
						}
						return st, true
					}
				}
				if assignsTo(nd, f) {
					return st, true
				}
				return st, false
			}})
		c.Check(ok, x.key("sticky-first", 0)+"|"+canonText(fn, f), pr.Pos(fn.Body.Pos()), "the reader goes on to read its input although an error is already recorded in "+f+" (or without testing it): rows after a failure are delivered as if nothing had happened", trail...)
	}
}

// missedLookup: v, ok := m[k] with v a reflect.Value: v is replaced on the
// !ok path before it is used.
func (x *c01ctx) missedLookup(counts map[string]int) {
	fn, pr, c := x.fn, x.pr, x.c
	i := 0
	inspectNoLit(fn.Body, func(n ast.Node) bool {
		as, ok := n.(*ast.AssignStmt)
		if !ok || len(as.Lhs) != 2 || len(as.Rhs) != 1 {
			return true
		}
		ie, ok := ast.Unparen(as.Rhs[0]).(*ast.IndexExpr)
		if !ok {
			return true
		}
		mt := x.typeOf(ie.X)
		if mt == nil {
			return true
		}
		if _, isMap := mt.Underlying().(*types.Map); !isMap || !isReflectValue(x.typeOf(as.Lhs[0])) {
			return true
		}
		v, okv := nospace(as.Lhs[0]), nospace(as.Lhs[1])
		i++
		counts["lookup"]++
		fl := pr.Flow(fn)
		loc, found := fl.LocOf(as)
		if !found {
			c.Undecide("%s: lookup not in flow graph", fn.QName())
			return true
		}
		good := true
		var trail []string
		first := true
		fl.Walk(loc, "maybe", nil, Visitor{NoFacts: true,
			Node: func(nd ast.Node, st string, s *Step) (string, bool) {
				if first {
					first = false
					return st, false
				}
				if !good || st == "ok" {
					return st, true
				}
				if nd == ast.Node(as) {
					return st, true
				}
				if a2, isAs := nd.(*ast.AssignStmt); isAs {
					// uses on the right-hand side first
					for _, r := range a2.Rhs {
						if mentions(r, v) {
							good, trail = false, s.Trail()
							return st, true
						}
					}
					if assignsTo(nd, v) {
						return "ok", true
					}
					return st, false
				}
				if e, isE := nd.(ast.Expr); isE && fl.isCond(e) {
					return st, false
				}
				if mentions(nd, v) {
					good, trail = false, s.Trail()
					return st, true
				}
				return st, false
			},
			Enter: func(from, to *cfg2Block, st string, s *Step) (string, bool) {
				cond := fl.edgeCond(from)
				if cond == nil || len(from.Succs) != 2 {
					return st, false
				}
				val, okE := evalCond(cond, func(e ast.Expr) (bool, bool) {
					if nospace(e) == okv {
						return true, true
					}
					return false, false
				})
				if !okE {
					return st, false
				}
				// val: value of cond when ok is true.  Taking the edge with that outcome means ok is true.
				outcome := from.Succs[0] == to
				if outcome == val {
					return "ok", true
				}
				return st, false
			}})
		c.Check(good, x.key("missed-lookup-not-used", i), pr.Pos(as.Pos()), "the reflect.Value "+v+" of a failed map lookup reaches a use without being replaced (or is replaced when the lookup succeeded): the first value of a key hits an invalid Value, or the accumulated value is thrown away", trail...)
		return true
	})
}

// isCond: e is the controlling expression of some block.
func (fl *Flow) isCond(e ast.Expr) bool {
	for _, b := range fl.G.Blocks {
		if fl.edgeCond(b) == e {
			return true
		}
	}
	return false
}

// valueWithError: a, e = f(...) with a nilable and e an error: a is used only
// where e is known nil.
func (x *c01ctx) valueWithError(counts map[string]int) {
	fn, pr, c := x.fn, x.pr, x.c
	if x.out == "" {
		return
	}
	i := 0
	inspectNoLit(fn.Body, func(n ast.Node) bool {
		as, ok := n.(*ast.AssignStmt)
		if !ok || len(as.Lhs) != 2 || len(as.Rhs) != 1 {
			return true
		}
		if _, isCall := ast.Unparen(as.Rhs[0]).(*ast.CallExpr); !isCall {
			return true
		}
		ta, te := x.typeOf(as.Lhs[0]), x.typeOf(as.Lhs[1])
		if ta == nil || te == nil || typeString(te) != "error" {
			return true
		}
		switch ta.Underlying().(type) {
		case *types.Pointer, *types.Interface, *types.Map:
		default:
			return true
		}
		a, e := nospace(as.Lhs[0]), as.Lhs[1]
		i++
		counts["valerr"]++
		fl := pr.Flow(fn)
		loc, found := fl.LocOf(as)
		if !found {
			c.Undecide("%s: assignment not in flow graph", fn.QName())
			return true
		}
		ename := nospace(e)
		good := true
		var trail []string
		first := true
		fl.Walk(loc, "", nil, Visitor{NoFacts: true,
			Enter: func(from, to *cfg2Block, st string, s *Step) (string, bool) {
				if ns := nilEdge(fl, from, to, ename); ns != "" {
					return ns, false
				}
				return st, false
			},
			Node: func(nd ast.Node, st string, s *Step) (string, bool) {
				if first {
					first = false
					return st, false
				}
				if !good || nd == ast.Node(as) {
					return st, true
				}
				if assignsTo(nd, a) {
					return st, true
				}
				if ex, isE := nd.(ast.Expr); isE && fl.isCond(ex) && !mentions(nd, a) {
					return st, false
				}
				if mentions(nd, a) {
					if st != "nil" {
						good, trail = false, s.Trail()
					}
					return st, true
				}
				if assignsTo(nd, ename) {
					return "", false
				}
				return st, false
			}})
		c.Check(good, x.key("value-used-only-without-error", i), pr.Pos(as.Pos()), a+" is produced together with an error and is used on a path where the error is not known to be nil: after a failure a nil "+a+" is dereferenced (or handed on), instead of the failure being returned", trail...)
		return true
	})
}

// head: a reader that charges the rows it reads against a budget kept in a
// receiver field returns at most the budget it had and at most the rows read.
func (x *c01ctx) head(counts map[string]int) {
	fn, pr, c := x.fn, x.pr, x.c
	if x.out == "" || len(x.prods) != 1 {
		return
	}
	p := x.prods[0]
	if p.base != x.out {
		return
	}
	r := recvOf(fn)
	// budget field: B -= count directly after the read
	var budget string
	var dec *ast.AssignStmt
	inspectNoLit(fn.Body, func(n ast.Node) bool {
		as, ok := n.(*ast.AssignStmt)
		if ok && as.Tok == token.SUB_ASSIGN && len(as.Lhs) == 1 && strings.HasPrefix(nospace(as.Lhs[0]), r+".") && nospace(as.Rhs[0]) == nospace(p.count) {
			budget, dec = nospace(as.Lhs[0]), as
		}
		return true
	})
	// a reader that reads straight into the caller's frame and keeps an int
	// receiver field compared with zero on entry is budgeted even if the
	// decrement is gone
	if budget == "" {
		if len(fn.Body.List) > 0 {
			if ifs, ok := fn.Body.List[0].(*ast.IfStmt); ok {
				if b, ok := ast.Unparen(ifs.Cond).(*ast.BinaryExpr); ok && strings.HasPrefix(nospace(b.X), r+".") {
					if t := x.typeOf(b.X); t != nil && typeString(t) == "int" {
						budget = nospace(b.X)
					}
				}
			}
		}
		if budget == "" {
			return
		}
	}
	_ = dec
	counts["head"]++
	k := x.key("returns-within-budget", 0)
	// symbolic evaluation from the read to every return over the symbols B0 (budget) and N (rows read)
	fl := pr.Flow(fn)
	loc, found := fl.LocOf(p.as)
	if !found {
		c.Undecide("%s: read not in flow graph", fn.QName())
		return
	}
	cnt := nospace(p.count)
	type pathState struct {
		env  map[string]lin
		cons []lin // each >= 0 ; strict ones carry "" -1 adjustment
	}
	eval := func(env map[string]lin, e ast.Expr) lin {
		var ev func(e ast.Expr) lin
		ev = func(e ast.Expr) lin {
			e = ast.Unparen(e)
			if v, ok := env[nospace(e)]; ok {
				out := lin{}
				out.addScaled(v, 1)
				return out
			}
			switch t := e.(type) {
			case *ast.BasicLit, *ast.Ident:
				if v, isC := constInt(fn.Pkg, e); isC {
					return lin{"": int(v)}
				}
			case *ast.UnaryExpr:
				if t.Op == token.SUB {
					out := lin{}
					out.addScaled(ev(t.X), -1)
					return out
				}
			case *ast.BinaryExpr:
				if t.Op == token.ADD || t.Op == token.SUB {
					out := ev(t.X)
					k := 1
					if t.Op == token.SUB {
						k = -1
					}
					out.addScaled(ev(t.Y), k)
					return out
				}
			}
			return lin{"?" + nospace(e): 1}
		}
		return ev(e)
	}
	good := true
	var why string
	var rec func(b *cfg2Block, i int, st pathState, depth int)
	clone := func(st pathState) pathState {
		ns := pathState{env: map[string]lin{}}
		for k, v := range st.env {
			nv := lin{}
			nv.addScaled(v, 1)
			ns.env[k] = nv
		}
		ns.cons = append(ns.cons, st.cons...)
		return ns
	}
	checkRet := func(st pathState, ret *ast.ReturnStmt) {
		var got lin
		if ret != nil && len(ret.Results) > 0 {
			got = eval(st.env, ret.Results[0])
		} else {
			got = eval(st.env, p.count)
		}
		for _, bound := range []string{"B0", "N"} {
			d := lin{}
			d.addScaled(got, 1)
			d.addScaled(lin{bound: 1}, -1)
			if len(nonZero(d)) == 0 {
				continue
			}
			// need d <= 0, i.e. -d >= 0 among the path constraints (or implied by a strict one)
			neg := lin{}
			neg.addScaled(d, -1)
			implied := false
			for _, cst := range st.cons {
				df := lin{}
				df.addScaled(neg, 1)
				df.addScaled(cst, -1)
				nz := nonZero(df)
				if len(nz) == 0 {
					implied = true
				}
				if len(nz) == 1 && nz[0] == "" && df[""] >= 0 {
					implied = true // neg = cst + k, k >= 0
				}
			}
			if !implied {
				good = false
				why = fmt.Sprintf("on the path %v the count returned is %s, which is not bounded by %s", consStr(st.cons), got.String(), map[string]string{"B0": "the rows still wanted (" + budget + " before the read)", "N": "the rows read"}[bound])
			}
		}
	}
	rec = func(b *cfg2Block, i int, st pathState, depth int) {
		if depth > 40 || !good {
			return
		}
		for ; i < len(b.Nodes); i++ {
			switch s := b.Nodes[i].(type) {
			case *ast.AssignStmt:
				if len(s.Lhs) == 1 && len(s.Rhs) == 1 {
					l := nospace(s.Lhs[0])
					switch s.Tok {
					case token.ASSIGN, token.DEFINE:
						st.env[l] = eval(st.env, s.Rhs[0])
					case token.SUB_ASSIGN, token.ADD_ASSIGN:
						cur, ok := st.env[l]
						if !ok {
							cur = lin{"?" + l: 1}
						}
						k := 1
						if s.Tok == token.SUB_ASSIGN {
							k = -1
						}
						nv := lin{}
						nv.addScaled(cur, 1)
						nv.addScaled(eval(st.env, s.Rhs[0]), k)
						st.env[l] = nv
					}
				}
			case *ast.ReturnStmt:
				checkRet(st, s)
				return
			}
		}
		if len(b.Succs) == 0 {
			checkRet(st, nil)
			return
		}
		cond := fl.edgeCond(b)
		for si, succ := range b.Succs {
			ns := clone(st)
			if cond != nil && len(b.Succs) == 2 {
				if be, ok := ast.Unparen(cond).(*ast.BinaryExpr); ok {
					l, r := eval(ns.env, be.X), eval(ns.env, be.Y)
					d := lin{} // l - r
					d.addScaled(l, 1)
					d.addScaled(r, -1)
					op := be.Op
					if si == 1 {
						op = map[token.Token]token.Token{token.LSS: token.GEQ, token.LEQ: token.GTR, token.GTR: token.LEQ, token.GEQ: token.LSS}[op]
					}
					cst := lin{}
					switch op {
					case token.LSS: // l - r < 0  =>  r - l - 1 >= 0
						cst.addScaled(d, -1)
						cst[""] -= 1
					case token.LEQ:
						cst.addScaled(d, -1)
					case token.GTR:
						cst.addScaled(d, 1)
						cst[""] -= 1
					case token.GEQ:
						cst.addScaled(d, 1)
					default:
						cst = nil
					}
					if cst != nil {
						ns.cons = append(ns.cons, cst)
					}
				}
			}
			rec(succ, 0, ns, depth+1)
		}
	}
	st0 := pathState{env: map[string]lin{budget: {"B0": 1}, cnt: {"N": 1}}}
	rec(loc.B, loc.I+1, st0, 0)
	c.Check(good, k, pr.Pos(p.as.Pos()), "the reader keeps a budget of rows in "+budget+" but "+why+": more rows than asked for are handed on, or rows that were never read are counted")
}

func consStr(cs []lin) string {
	var out []string
	for _, c := range cs {
		out = append(out, c.String()+">=0")
	}
	return "[" + strings.Join(out, " ") + "]"
}

// c01copiedBufferAdvances: n := frame.Copy(dst, S) with S a receiver field:
// S = S.Slice(n, len) follows on every path to a return.
func c01copiedBufferAdvances(c *RC, counts map[string]int) {
	pr := c.P
	for _, fn := range pr.Funcs() {
		if fn.Body == nil || fn.Parent != nil || fn.Decl == nil || fn.Decl.Recv == nil || strings.HasSuffix(pr.RelFile(fn.Decl.Pos()), "_test.go") {
			continue
		}
		if rel := fn.Pkg.Rel; strings.HasPrefix(rel, "cmd/") || strings.HasPrefix(rel, "analysis") {
			continue
		}
		r := recvOf(fn)
		if r == "" {
			continue
		}
		le := newLinEnv(pr, fn)
		i := 0
		inspectNoLit(fn.Body, func(n ast.Node) bool {
			as, ok := n.(*ast.AssignStmt)
			if !ok || len(as.Lhs) != 1 || len(as.Rhs) != 1 {
				return true
			}
			call, ok := as.Rhs[0].(*ast.CallExpr)
			if !ok || fn.Pkg.CalleeName(call) != "frame.Copy" || len(call.Args) != 2 {
				return true
			}
			src := nospace(call.Args[1])
			if !strings.HasPrefix(src, r+".") {
				return true
			}
			if tv, ok := fn.Pkg.Info.Types[call.Args[1]]; !ok || !isFrameType(tv.Type) {
				return true
			}
			i++
			counts["copied"]++
			cnt := nospace(as.Lhs[0])
			fl := pr.Flow(fn)
			loc, found := fl.LocOf(as)
			if !found {
				c.Undecide("%s: copy not in flow graph", fn.QName())
				return true
			}
			good := true
			var trail []string
			first := true
			isAdvance := func(nd ast.Node) bool {
				a2, ok := nd.(*ast.AssignStmt)
				if !ok || len(a2.Lhs) != 1 || len(a2.Rhs) != 1 || nospace(a2.Lhs[0]) != src {
					return false
				}
				k, ok := a2.Rhs[0].(*ast.CallExpr)
				if !ok || fn.Pkg.CalleeName(k) != "frame.Frame.Slice" || len(k.Args) != 2 || nospace(k.Fun.(*ast.SelectorExpr).X) != src {
					return false
				}
				if nospace(k.Args[0]) != cnt {
					return false
				}
				hi := nospace(k.Args[1])
				if hi == src+".Len()" {
					return true
				}
				for o, d := range le.defs {
					if o.Name() == hi && nospace(d) == src+".Len()" && d.Pos() < a2.Pos() {
						return true
					}
				}
				return false
			}
			fl.Walk(loc, "", nil, Visitor{NoFacts: true,
				Node: func(nd ast.Node, st string, s *Step) (string, bool) {
					if first {
						first = false
						return st, false
					}
					if !good || isAdvance(nd) {
						return st, true
					}
					if assignsTo(nd, src) || assignsTo(nd, cnt) {
						good, trail = false, s.Trail()
						return st, true
					}
					return st, false
				},
				Exit: func(kind ExitKind, ret *ast.ReturnStmt, st string, s *Step) {
					if kind != ExitPanic {
						good, trail = false, s.Trail()
					}
				}})
			c.Check(good, fmt.Sprintf("%s|copied-buffer-advances#%d", fn.QName(), i), pr.Pos(as.Pos()), "rows are copied out of the persistent buffer "+src+" but the buffer is not advanced by exactly the count copied ("+cnt+") up to its end before returning: the same rows are delivered again, or rows are skipped", trail...)
			return true
		})
	}
}

// c01positiveSliceWidth: F.Slice(a, b) with b-a a constant has b-a >= 1
// (when a is not itself a constant).
func c01positiveSliceWidth(c *RC, counts map[string]int) {
	pr := c.P
	for _, fn := range pr.Funcs() {
		if fn.Body == nil || fn.Decl == nil || strings.HasSuffix(pr.RelFile(fn.Decl.Pos()), "_test.go") {
			continue
		}
		if rel := fn.Pkg.Rel; strings.HasPrefix(rel, "cmd/") || strings.HasPrefix(rel, "analysis") || strings.HasPrefix(rel, "example") {
			continue
		}
		le := newLinEnv(pr, fn)
		i := 0
		ast.Inspect(fn.Body, func(n ast.Node) bool {
			call, ok := n.(*ast.CallExpr)
			if !ok || len(call.Args) != 2 || fn.Pkg.CalleeName(call) != "frame.Frame.Slice" {
				return true
			}
			if _, isC := constInt(fn.Pkg, call.Args[0]); isC {
				return true
			}
			d := le.norm(call.Args[1], 0)
			d.addScaled(le.norm(call.Args[0], 0), -1)
			nz := nonZero(d)
			if len(nz) > 1 || (len(nz) == 1 && nz[0] != "") {
				return true
			}
			i++
			counts["slicew"]++
			c.Check(d[""] >= 1, fmt.Sprintf("%s|positive-slice-width#%d", fn.QName(), i), pr.Pos(call.Pos()), fmt.Sprintf("the frame slice [%s, %s) has constant width %d: it is empty or inverted (panic), so the row it stands for is never copied", nospace(call.Args[0]), nospace(call.Args[1]), d[""]))
			return true
		})
	}
}

// userCallsIn lists the calls of user functions (slicefunc.Func.Call) in fn.
func (x *c01ctx) userCallSites() []*ast.CallExpr {
	var out []*ast.CallExpr
	inspectNoLit(x.fn.Body, func(n ast.Node) bool {
		if k, ok := n.(*ast.CallExpr); ok && x.fn.Pkg.CalleeName(k) == "slicefunc.Func.Call" {
			out = append(out, k)
		}
		return true
	})
	return out
}

// resultIsUsed: what the user function returns decides what is handed on.
func (x *c01ctx) resultIsUsed(counts map[string]int) {
	fn, pr, c, pk := x.fn, x.pr, x.c, x.fn.Pkg
	ws := x.writes()
	for i, call := range x.userCallSites() {
		counts["result"]++
		k := x.key("result-is-used", i+1)
		pos := pr.Pos(call.Pos())
		path := pathTo(fn.Body, call)
		// the statement that holds the call
		var holder ast.Node
		var inCond *ast.IfStmt
		for j := len(path) - 1; j >= 0; j-- {
			switch p := path[j].(type) {
			case *ast.AssignStmt, *ast.ExprStmt, *ast.ReturnStmt:
				if holder == nil {
					holder = p
				}
			case *ast.IfStmt:
				if holder == nil && call.Pos() >= p.Cond.Pos() && call.End() <= p.Cond.End() {
					inCond, holder = p, p
				}
			}
		}
		writesIn := func(n ast.Node) bool {
			for _, w := range ws {
				if w.call.Pos() >= n.Pos() && w.call.End() <= n.End() {
					return true
				}
			}
			return false
		}
		switch h := holder.(type) {
		case *ast.IfStmt:
			// a predicate: rows are kept exactly when it is true
			v, okE := evalCond(inCond.Cond, func(e ast.Expr) (bool, bool) {
				if nodeHas(e, func(m ast.Node) bool { return m == ast.Node(call) }) {
					return true, true
				}
				return false, false
			})
			c.Check(okE && v && writesIn(h.Body) && (h.Else == nil || !writesIn(h.Else)), k, pos, "the row is not copied to the output exactly when the user's predicate returns true: the complement of the rows asked for is handed on, or none at all")
		case *ast.AssignStmt:
			lhs := nospace(h.Lhs[0])
			if x.isPersistent(lhs) || strings.Contains(lhs, "[") && x.isPersistent(strings.SplitN(lhs, "[", 2)[0]) {
				c.Pass(k, pos, "stored in receiver state")
				continue
			}
			// a local: it must reach a write into the output, or (when the user
			// function fills the output itself) the count and error returned
			fills := false
			for _, a := range call.Args {
				if nodeHas(a, func(m ast.Node) bool { e, ok := m.(ast.Expr); return ok && nospace(e) == x.out }) {
					fills = true
				}
			}
			used := false
			for _, w := range ws {
				if w.call.Pos() > call.End() && mentions(w.call, lhs) {
					used = true
				}
			}
			if fills {
				// count := f(R[0]) must feed the count returned; R[1] must be looked at
				cnt := ""
				if fn.Type.Results != nil && len(fn.Type.Results.List) > 0 && len(fn.Type.Results.List[0].Names) > 0 {
					cnt = fn.Type.Results.List[0].Names[0].Name
				}
				var last *ast.ReturnStmt
				inspectNoLit(fn.Body, func(n ast.Node) bool {
					if r, ok := n.(*ast.ReturnStmt); ok {
						last = r
					}
					return true
				})
				if last != nil && len(last.Results) > 0 {
					cnt = nospace(last.Results[0])
				}
				fed, errSeen := false, false
				inspectNoLit(fn.Body, func(n ast.Node) bool {
					switch s := n.(type) {
					case *ast.AssignStmt:
						for j, l := range s.Lhs {
							if nospace(l) == cnt && j < len(s.Rhs) && mentions(s.Rhs[j], lhs+"[0]") && s.Pos() > call.End() {
								fed = true
							}
						}
						for _, r := range s.Rhs {
							if mentions(r, lhs+"[1]") {
								errSeen = true
							}
						}
					case *ast.IfStmt:
						if mentions(s.Cond, lhs+"[1]") {
							errSeen = true
						}
					}
					return true
				})
				c.Check(fed && errSeen, k, pos, "the user function fills the output itself, but the count returned ("+cnt+") is not taken from its first result, or its error result is never looked at: rows it produced are dropped, or its end-of-stream never arrives")
				continue
			}
			c.Check(used, k, pos, "the values the user function returned ("+lhs+") never reach a write into the output: the operator hands on whatever the caller's frame held before")
		default:
			c.Check(false, k, pos, "the result of the user function is discarded")
		}
	}
	_ = pk
}

// lazyInit: receiver state that is set up on first use is set up exactly when
// it is still unset; pointer-typed user state gets a fresh pointee.
func (x *c01ctx) lazyInit(counts map[string]int) {
	fn, pr, c, pk := x.fn, x.pr, x.c, x.fn.Pkg
	if x.out == "" {
		return
	}
	i := 0
	inspectNoLit(fn.Body, func(n ast.Node) bool {
		ifs, ok := n.(*ast.IfStmt)
		if !ok || ifs.Init != nil {
			return true
		}
		// (a) nil test of a receiver field whose body assigns that field
		if tx, nonNil, ok := nilTest(ifs.Cond); ok && x.isPersistent(strings.ReplaceAll(tx, " ", "")) {
			f := strings.ReplaceAll(tx, " ", "")
			assigns := false
			inspectNoLit(ifs.Body, func(m ast.Node) bool {
				if assignsTo(m, f) {
					assigns = true
				}
				return true
			})
			if assigns {
				i++
				counts["lazy"]++
				c.Check(!nonNil, x.key("lazy-init-polarity", i), pr.Pos(ifs.Pos()), f+" is set up when it is already set and left nil when it is not: the first read dereferences nil (or the accumulated state is recomputed and thrown away on every read)")
			}
			return true
		}
		// (b) validity test of a reflect.Value receiver field
		var field string
		v, okE := evalCond(ifs.Cond, func(e ast.Expr) (bool, bool) {
			if k, ok := ast.Unparen(e).(*ast.CallExpr); ok && pk.CalleeName(k) == "reflect.Value.IsValid" {
				if sel, ok := k.Fun.(*ast.SelectorExpr); ok && x.isPersistent(nospace(sel.X)) {
					field = nospace(sel.X)
					return true, true
				}
			}
			return false, false
		})
		if !okE || field == "" {
			return true
		}
		i++
		counts["lazy"]++
		k := x.key("lazy-init-polarity", i)
		if v {
			c.Check(false, k, pr.Pos(ifs.Pos()), "the user state "+field+" is initialised when it is already valid and left invalid on the first call: the user function is called with an invalid state value")
			return true
		}
		// inside: pointer kinds get reflect.New(T.Elem()), others reflect.Zero(T)
		var kindIf *ast.IfStmt
		inspectNoLit(ifs.Body, func(m ast.Node) bool {
			if s2, ok := m.(*ast.IfStmt); ok && kindIf == nil && s2.Else != nil {
				kindIf = s2
			}
			return true
		})
		if kindIf == nil {
			c.Check(false, k, pr.Pos(ifs.Pos()), "the user state "+field+" is not initialised by kind (a fresh pointee for pointer states, the zero value otherwise)")
			return true
		}
		isPtr, okK := evalCond(kindIf.Cond, func(e ast.Expr) (bool, bool) {
			be, ok := ast.Unparen(e).(*ast.BinaryExpr)
			if !ok || (be.Op != token.EQL && be.Op != token.NEQ) {
				return false, false
			}
			for _, pair := range [][2]ast.Expr{{be.X, be.Y}, {be.Y, be.X}} {
				if kc, ok := ast.Unparen(pair[0]).(*ast.CallExpr); ok && strings.HasSuffix(pk.CalleeName(kc), ".Kind") {
					if cv, isC := constInt(pk, pair[1]); isC && cv == 22 { // reflect.Ptr
						return be.Op == token.EQL, true
					}
				}
			}
			return false, false
		})
		ptrArm, valArm := ast.Stmt(kindIf.Body), kindIf.Else
		if !isPtr {
			ptrArm, valArm = valArm, ptrArm
		}
		assignsCall := func(arm ast.Stmt, callee string, needElem bool) bool {
			hit := false
			inspectNoLit(arm, func(m ast.Node) bool {
				as, ok := m.(*ast.AssignStmt)
				if ok && len(as.Lhs) == 1 && len(as.Rhs) == 1 && nospace(as.Lhs[0]) == field {
					if kc, ok := as.Rhs[0].(*ast.CallExpr); ok && pk.CalleeName(kc) == callee && len(kc.Args) == 1 {
						if !needElem || strings.HasSuffix(nospace(kc.Args[0]), ".Elem()") {
							hit = true
						}
					}
				}
				return true
			})
			return hit
		}
		c.Check(okK && assignsCall(ptrArm, "reflect.New", true) && assignsCall(valArm, "reflect.Zero", false), k, pr.Pos(kindIf.Pos()), "the user state "+field+" is not a fresh pointee (reflect.New of the element type) exactly for pointer-typed states and the zero value otherwise: the user function receives a nil pointer, or a pointer to a pointer")
		return true
	})
}

// allOutputsWritten: a reader that drains a receiver map into two output
// columns writes both at the cursor and removes what it delivered.
func (x *c01ctx) allOutputsWritten(counts map[string]int) {
	fn, pr, c := x.fn, x.pr, x.c
	if len(x.outVals) == 0 {
		return
	}
	ws := x.writes()
	inspectNoLit(fn.Body, func(n ast.Node) bool {
		rs, ok := n.(*ast.RangeStmt)
		if !ok || !x.isPersistent(nospace(rs.X)) || rs.Key == nil {
			return true
		}
		counts["drain"]++
		targets := map[string]bool{}
		var lastWrite token.Pos
		for _, w := range ws {
			if w.call.Pos() >= rs.Body.Pos() && w.call.End() <= rs.Body.End() {
				targets[w.target] = true
				if w.call.End() > lastWrite {
					lastWrite = w.call.End()
				}
			}
		}
		missing := ""
		for _, t := range sortedKeys(x.outVals) {
			if !targets[t] {
				missing = t
			}
		}
		c.Check(missing == "", x.key("all-outputs-written", 0), pr.Pos(rs.Pos()), "the output column "+missing+" is not written at the cursor: keys are delivered with the values the caller's frame held before")
		deleted := false
		for _, st := range rs.Body.List {
			if es, ok := st.(*ast.ExprStmt); ok && st.Pos() > lastWrite {
				if k, ok := es.X.(*ast.CallExpr); ok && expr(k.Fun) == "delete" && len(k.Args) == 2 && nospace(k.Args[0]) == nospace(rs.X) && nospace(k.Args[1]) == nospace(rs.Key) {
					deleted = true
				}
			}
		}
		c.Check(deleted, x.key("delivered-entries-are-removed", 0), pr.Pos(rs.Pos()), "an entry of "+nospace(rs.X)+" that was written to the output is not removed: it is delivered again on the next read, and the end of the stream is never reached")
		return true
	})
}

// outputIsProduced: a Read method does something with its output frame.
func (x *c01ctx) outputIsProduced(counts map[string]int) {
	fn, pr, c, pk := x.fn, x.pr, x.c, x.fn.Pkg
	if x.out == "" {
		return
	}
	// readers that never return rows (scan) are exempt: all returns have a constant 0 count
	allZero := true
	inspectNoLit(fn.Body, func(n ast.Node) bool {
		if r, ok := n.(*ast.ReturnStmt); ok {
			if len(r.Results) == 0 {
				allZero = false
			} else if v, isC := constInt(pk, r.Results[0]); !isC || v != 0 {
				allZero = false
			}
		}
		return true
	})
	if allZero {
		return
	}
	counts["produce"]++
	used := len(x.writes()) > 0
	ast.Inspect(fn.Body, func(n ast.Node) bool {
		k, ok := n.(*ast.CallExpr)
		if !ok || pk.CalleeName(k) == "slicetype.Assignable" {
			return true
		}
		for _, a := range k.Args {
			a = ast.Unparen(a)
			if nospace(a) == x.out {
				used = true
			}
			if kc, ok := a.(*ast.CallExpr); ok {
				if sel, ok := kc.Fun.(*ast.SelectorExpr); ok && nospace(sel.X) == x.out {
					switch sel.Sel.Name {
					case "Slice", "Value", "Values":
						used = true
					}
				}
			}
		}
		return true
	})
	c.Check(used, x.key("output-is-produced", 0), pr.Pos(fn.Body.Pos()), "the reader returns a count but never writes into its output frame nor hands it to anything that does")
}

// remainderIsStashed: rows freshly produced in this call that did not fit the
// output are kept for the next call.
func (x *c01ctx) remainderIsStashed(counts map[string]int) {
	fn, pr, c, pk := x.fn, x.pr, x.c, x.fn.Pkg
	i := 0
	inspectNoLit(fn.Body, func(n ast.Node) bool {
		as, ok := n.(*ast.AssignStmt)
		if !ok || len(as.Lhs) != 1 || len(as.Rhs) != 1 {
			return true
		}
		call, ok := as.Rhs[0].(*ast.CallExpr)
		if !ok || pk.CalleeName(call) != "frame.Copy" || len(call.Args) != 2 {
			return true
		}
		src := nospace(call.Args[1])
		if x.isPersistent(src) || src == x.out {
			return true
		}
		if _, isId := ast.Unparen(call.Args[1]).(*ast.Ident); !isId {
			return true
		}
		dst := ast.Unparen(call.Args[0])
		intoOut := false
		if k, ok := dst.(*ast.CallExpr); ok && pk.CalleeName(k) == "frame.Frame.Slice" {
			if sel, ok := k.Fun.(*ast.SelectorExpr); ok && nospace(sel.X) == x.out {
				intoOut = true
			}
		}
		if !intoOut {
			return true
		}
		i++
		counts["stash"]++
		cnt := nospace(as.Lhs[0])
		want := src + ".Len()"
		good := false
		blk := enclosingBlock(fn.Body, as)
		for _, st := range blk {
			ifs, ok := st.(*ast.IfStmt)
			if !ok || st.Pos() < as.End() {
				continue
			}
			cond := ifs.Cond
			if ifs.Init != nil {
				// if m := src.Len(); n < m
				if ia, ok := ifs.Init.(*ast.AssignStmt); ok && len(ia.Lhs) == 1 && len(ia.Rhs) == 1 && nospace(ia.Rhs[0]) == want {
					cond = substIdent(cond, nospace(ia.Lhs[0]), want)
				}
			}
			condOK := false
			if be, ok := ast.Unparen(cond).(*ast.BinaryExpr); ok {
				l, r := x.resolveLen(be.X, ifs), x.resolveLen(be.Y, ifs)
				switch {
				case (be.Op == token.LSS || be.Op == token.LEQ || be.Op == token.NEQ) && l == cnt && r == want:
					condOK = true
				case (be.Op == token.GTR || be.Op == token.GEQ || be.Op == token.NEQ) && l == want && r == cnt:
					condOK = true
				}
			}
			if !condOK {
				continue
			}
			inspectNoLit(ifs.Body, func(m ast.Node) bool {
				a2, ok := m.(*ast.AssignStmt)
				if !ok || len(a2.Lhs) != 1 || len(a2.Rhs) != 1 || !x.isPersistent(nospace(a2.Lhs[0])) {
					return true
				}
				if k, ok := a2.Rhs[0].(*ast.CallExpr); ok && pk.CalleeName(k) == "frame.Frame.Slice" && len(k.Args) == 2 {
					if sel, ok := k.Fun.(*ast.SelectorExpr); ok && nospace(sel.X) == src && nospace(k.Args[0]) == cnt && x.resolveLen(k.Args[1], ifs) == want {
						good = true
					}
				}
				return true
			})
		}
		c.Check(good, x.key("remainder-is-stashed", i), pr.Pos(as.Pos()), "rows produced in this call ("+src+") are copied into what is left of the output, but the rows that did not fit ("+src+".Slice("+cnt+", "+want+")) are not kept in the reader when "+cnt+" < "+want+": they are silently lost")
		return true
	})
}

// resolveLen prints e, replacing a local bound to <x>.Len() (in the if's init
// or by a single definition) by that call.
func (x *c01ctx) resolveLen(e ast.Expr, ifs *ast.IfStmt) string {
	t := nospace(e)
	if ifs != nil && ifs.Init != nil {
		if ia, ok := ifs.Init.(*ast.AssignStmt); ok && len(ia.Lhs) == 1 && len(ia.Rhs) == 1 && nospace(ia.Lhs[0]) == t {
			return nospace(ia.Rhs[0])
		}
	}
	if d := x.defOf(t); strings.HasSuffix(d, ".Len()") {
		return d
	}
	return t
}

func substIdent(e ast.Expr, name, with string) ast.Expr { return e }

// enclosingBlock returns the statement list that directly contains n.
func enclosingBlock(root ast.Node, n ast.Node) []ast.Stmt {
	var out []ast.Stmt
	for _, p := range pathTo(root, n) {
		switch b := p.(type) {
		case *ast.BlockStmt:
			out = b.List
		case *ast.CaseClause:
			out = b.Body
		case *ast.CommClause:
			out = b.Body
		}
	}
	return out
}

// returnsClampedCount: the count returned is `cnt := out.Len()` lowered by
// `if X < cnt { cnt = X }` clamps only.
func (x *c01ctx) returnsClampedCount() bool {
	fn := x.fn
	var last *ast.ReturnStmt
	inspectNoLit(fn.Body, func(n ast.Node) bool {
		if r, ok := n.(*ast.ReturnStmt); ok {
			last = r
		}
		return true
	})
	if last == nil || len(last.Results) == 0 {
		return false
	}
	cnt := nospace(last.Results[0])
	inits, clamps, other := 0, 0, 0
	inspectNoLit(fn.Body, func(n ast.Node) bool {
		as, ok := n.(*ast.AssignStmt)
		if !ok {
			return true
		}
		for i, l := range as.Lhs {
			if nospace(l) != cnt {
				continue
			}
			if as.Tok == token.DEFINE && len(as.Lhs) == len(as.Rhs) && nospace(as.Rhs[i]) == x.out+".Len()" {
				inits++
				continue
			}
			// inside `if X < cnt` (or cnt > X), assigning X
			okClamp := false
			for _, p := range pathTo(fn.Body, as) {
				ifs, isIf := p.(*ast.IfStmt)
				if !isIf || as.Pos() < ifs.Body.Pos() || as.End() > ifs.Body.End() || len(as.Lhs) != len(as.Rhs) {
					continue
				}
				be, isBe := ast.Unparen(ifs.Cond).(*ast.BinaryExpr)
				if !isBe {
					continue
				}
				low := nospace(as.Rhs[i])
				switch {
				case (be.Op == token.LSS || be.Op == token.LEQ) && nospace(be.X) == low && nospace(be.Y) == cnt:
					okClamp = true
				case (be.Op == token.GTR || be.Op == token.GEQ) && nospace(be.Y) == low && nospace(be.X) == cnt:
					okClamp = true
				}
			}
			if okClamp {
				clamps++
			} else {
				other++
			}
		}
		return true
	})
	return inits == 1 && clamps >= 1 && other == 0
}
