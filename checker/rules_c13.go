package main

import (
	"fmt"
	"go/ast"
	"go/token"
	"strings"
)

func init() {
	registerProperty(&Property{
		ID:          "C13",
		Explanation: "Decides structural necessary conditions of cache transparency and completeness: (R1) the write-through reader commits (closes) the cache file only on a path where the upstream read returned end-of-stream, the last frame was written without error and the compressor was closed first; on an upstream error it discards the file; nothing else closes the file; (R2) for a shard the environment marks cached, compile replaces the task's computation by the cache reader of that shard, drops its dependencies and skips the operator, and cache presence is read/recorded only while the environment is writable; (R3) RequireAllCached clears every entry as soon as one shard is missing, Cache and ReadCache call it and CachePartial does not, and reading an uncached shard is an error reader; (R4 = C08-R5) the environment that travels to workers is frozen; (R5) no error of creating, compressing, writing or closing the cache file, or of reading it back, is dropped. Not decided: atomicity of grailbio/base file.File.Close itself, row-level transparency.",
		Rules: []Rule{
			{ID: "C13-R1", Doc: "cache file committed only at clean end-of-stream", Run: c13r1},
			{ID: "C13-R2", Doc: "cached shards read the file and drop their inputs", Run: c13r2},
			{ID: "C13-R3", Doc: "all-or-nothing for Cache/ReadCache", Run: c13r3},
			{ID: "C08-R5", Doc: "the frozen environment is the one that travels (shared)", Run: c08r5},
			{ID: "C13-R5", Doc: "write-through and read-back errors surface", Run: c13r5},
			{ID: "C16-R9", Doc: "the frozen compile environment arrives frozen, so workers do not re-decide cache hits (shared)", Run: c16r9},
			{ID: "C16-R10", Doc: "the recorded cache hits travel whole: the key type of CompileEnv.Cached has only exported fields (shared)", Run: c16r10},
		},
	})
}

func c13r1(c *RC) {
	pr := c.P
	fn := c.MustFn("internal/slicecache.(*writethroughReader).Read")
	if fn == nil {
		return
	}
	fq := fn.QName()
	fl := pr.Flow(fn)
	// the upstream read
	var read *ast.CallExpr
	errKey := ""
	inspectNoLit(fn.Body, func(n ast.Node) bool {
		if a, ok := n.(*ast.AssignStmt); ok && len(a.Rhs) == 1 && len(a.Lhs) == 2 {
			if call, ok := a.Rhs[0].(*ast.CallExpr); ok && isReaderRead(pr, fn.Pkg, call) {
				read = call
				errKey = fl.Key(a.Lhs[1])
			}
		}
		return true
	})
	if read == nil {
		c.Fail(fq+"|reads-upstream", pr.Pos(fn.Body.Pos()), "the write-through reader no longer reads its upstream")
		return
	}
	// uses of <file>.Close (call or method value)
	type use struct {
		n   ast.Node
		loc Loc
	}
	var closes []use
	ast.Inspect(fn.Body, func(n ast.Node) bool {
		sel, ok := n.(*ast.SelectorExpr)
		if !ok || sel.Sel.Name != "Close" {
			return true
		}
		tv := fn.Pkg.Info.Types[sel.X]
		if tv.Type == nil || !strings.HasSuffix(typeString(tv.Type), "file.File") {
			return true
		}
		if loc, ok := fl.LocOf(sel); ok {
			closes = append(closes, use{sel, loc})
		}
		return true
	})
	c.Floor("commit (file.Close) sites in the write-through reader", len(closes), 1)
	// the variable receiving the compressor's Close error
	zerr := ""
	inspectNoLit(fn.Body, func(n ast.Node) bool {
		if a, ok := n.(*ast.AssignStmt); ok && len(a.Rhs) == 1 && len(a.Lhs) == 1 {
			if k, ok := a.Rhs[0].(*ast.CallExpr); ok {
				if sel, ok := k.Fun.(*ast.SelectorExpr); ok && sel.Sel.Name == "Close" && strings.HasSuffix(expr(sel.X), ".zw") {
					zerr = fl.Key(a.Lhs[0])
				}
			}
		}
		return true
	})
	for i, u := range closes {
		key := fq + "|commit-only-at-clean-EOF"
		if i > 0 {
			key += "#" + string(rune('1'+i))
		}
		var problems []string
		var trail []string
		fl.Walk(fl.Entry(), "", nil, Visitor{
			Node: func(n ast.Node, x string, s *Step) (string, bool) {
				if s.Block == u.loc.B && s.Idx == u.loc.I {
					if s.Facts.Eq(errKey) != "sliceio.EOF" {
						problems = append(problems, "the upstream read is not known to have returned end-of-stream")
						trail = s.Trail()
					}
					if !strings.Contains(x, "W") {
						problems = append(problems, "the frame of this read was not written to the file")
						trail = s.Trail()
					}
					if !strings.Contains(x, "Z") {
						problems = append(problems, "the compressor was not closed (its tail is not flushed)")
						trail = s.Trail()
					} else if zerr != "" && s.Facts.Eq(zerr) != "nil" {
						problems = append(problems, "the compressor's Close is not known to have succeeded (its error "+stripAt(zerr)+" was not tested before the commit), so a file whose compressed tail could not be written is committed")
						trail = s.Trail()
					}
					return x, true
				}
				for _, k := range callsIn(n) {
					cn := fn.Pkg.CalleeName(k)
					switch {
					case cn == "sliceio.(*Encoder).Write":
						if !strings.Contains(x, "W") {
							x += "W"
						}
					case cn == "io.Closer.Close" || cn == "io.WriteCloser.Close":
						if sel, ok := k.Fun.(*ast.SelectorExpr); ok && strings.HasSuffix(expr(sel.X), ".zw") && !strings.Contains(x, "Z") {
							x += "Z"
						}
					}
				}
				return x, false
			}})
		c.Check(len(problems) == 0, key, pr.Pos(u.n.Pos()),
			"the cache file is committed on a path where "+strings.Join(uniq(problems), " and ")+": a failed, interrupted or partially consumed computation leaves a file that a later run accepts as a complete shard", trail...)
	}
	// upstream error => Discard
	hasDiscard := false
	var dl Loc
	for _, k := range callsIn(fn.Body) {
		if strings.HasSuffix(fn.Pkg.CalleeName(k), "file.File.Discard") {
			hasDiscard = true
			dl, _ = fl.LocOf(k)
		}
	}
	if !hasDiscard {
		c.Fail(fq+"|upstream-error-discards", pr.Pos(fn.Body.Pos()), "on an upstream error the partially written cache file is no longer discarded")
	} else {
		// every exit on an error path (err non-nil, non-EOF) passes Discard
		bad := false
		var trail []string
		rl, _ := fl.LocOf(read)
		fl.Walk(Loc{rl.B, rl.I + 1}, "", nil, Visitor{
			Node: func(n ast.Node, x string, s *Step) (string, bool) {
				if s.Block == dl.B && s.Idx == dl.I {
					return "d", false
				}
				return x, false
			},
			Exit: func(kind ExitKind, ret *ast.ReturnStmt, x string, s *Step) {
				if kind == ExitPanic {
					return
				}
				if s.Facts.NonNil(errKey) && s.Facts.Ne(errKey, "sliceio.EOF") && x != "d" {
					bad = true
					trail = s.Trail()
				}
			}})
		c.Check(!bad, fq+"|upstream-error-discards", pr.Pos(read.Pos()), "an exit on an upstream read error does not discard the cache file", trail...)
	}
	// no other function of the package closes a file.File opened for writing
	for _, f := range pr.FuncsIn("internal/slicecache") {
		if f.Body == nil || f == fn || f.Root() == fn {
			continue
		}
		if !strings.Contains(f.QName(), "writethrough") {
			continue
		}
		bad := false
		ast.Inspect(f.Body, func(n ast.Node) bool {
			if sel, ok := n.(*ast.SelectorExpr); ok && sel.Sel.Name == "Close" {
				if tv := f.Pkg.Info.Types[sel.X]; tv.Type != nil && strings.HasSuffix(typeString(tv.Type), "file.File") {
					bad = true
				}
			}
			return true
		})
		c.Check(!bad, f.QName()+"|does-not-commit", pr.Pos(f.Body.Pos()), "another function of the write-through reader closes (commits) the cache file")
	}
}

func c13r2(c *RC) {
	pr := c.P
	if cf := pr.Fn("exec.(*compiler).compile"); cf != nil {
		n := loopCaptures(c, cf, "pipeline")
		c.Floor("closures stored by loops of compile", n, 2)
	}
	sliceCapabilityAsserts(c, "internal/slicecache.Cacheable", "Prefixed(Cache(x)) is compiled as if it had no cache: nothing is written, and complete shard files are ignored and recomputed")
	fn := c.MustFn("exec.(*compiler).compile")
	if fn == nil {
		return
	}
	fq := fn.QName()
	var br *ast.IfStmt
	ast.Inspect(fn.Body, func(n ast.Node) bool {
		if ifs, ok := n.(*ast.IfStmt); ok {
			if call, ok := ast.Unparen(ifs.Cond).(*ast.CallExpr); ok && fn.Pkg.CalleeName(call) == "exec.CompileEnv.IsCached" {
				br = ifs
			}
		}
		return true
	})
	if br == nil {
		c.Fail(fq+"|cached-branch", pr.Pos(fn.Body.Pos()), "compile no longer has a branch for shards the environment marks cached")
		return
	}
	call := ast.Unparen(br.Cond).(*ast.CallExpr)
	// the operator index is the control variable of the enclosing `for opIdx := ...`
	opIdx, shardV := "opIdx", "shard"
	for _, p := range pathTo(fn.Body, br) {
		if f, ok := p.(*ast.ForStmt); ok && f.Init != nil {
			if a, ok := f.Init.(*ast.AssignStmt); ok && len(a.Lhs) == 1 {
				opIdx = expr(a.Lhs[0])
			}
		}
		if r, ok := p.(*ast.RangeStmt); ok && r.Key != nil {
			shardV = expr(r.Key)
		}
	}
	okArgs := len(call.Args) == 2 && strings.HasSuffix(expr(call.Args[0]), ".Name") && expr(call.Args[1]) == opIdx
	c.Check(okArgs, fq+"|cached-decision-per-task-and-operator", pr.Pos(br.Pos()), "the cached decision is not looked up by (task name, operator index)")
	var doCache, depsNil, cont bool
	for _, st := range br.Body.List {
		switch a := st.(type) {
		case *ast.AssignStmt:
			if len(a.Lhs) == 1 && strings.HasSuffix(expr(a.Lhs[0]), ".Do") {
				if lit, ok := a.Rhs[0].(*ast.FuncLit); ok {
					for _, k := range callsIn(lit.Body) {
						if fn.Pkg.CalleeName(k) == "internal/slicecache.ShardCache.CacheReader" && len(k.Args) == 1 && expr(k.Args[0]) == shardV {
							doCache = true
						}
					}
					// the cached Do must not read its inputs
					usesReaders := false
					if len(lit.Type.Params.List) == 1 && len(lit.Type.Params.List[0].Names) == 1 {
						p := lit.Type.Params.List[0].Names[0].Name
						ast.Inspect(lit.Body, func(m ast.Node) bool {
							if id, ok := m.(*ast.Ident); ok && id.Name == p {
								usesReaders = true
							}
							return true
						})
					}
					if usesReaders {
						doCache = false
					}
				}
			}
			if len(a.Lhs) == 1 && strings.HasSuffix(expr(a.Lhs[0]), ".Deps") && expr(a.Rhs[0]) == "nil" {
				depsNil = true
			}
		case *ast.BranchStmt:
			if a.Tok == token.CONTINUE {
				cont = true
			}
		}
	}
	c.Check(doCache, fq+"|cached-shard-reads-its-file", pr.Pos(br.Pos()), "for a cached shard the task no longer reads exactly shardCache.CacheReader(shard) (ignoring its inputs)")
	c.Check(depsNil, fq+"|cached-shard-drops-dependencies", pr.Pos(br.Pos()), "a cached shard keeps its dependencies: the upstream computation still runs although its result is read from the cache")
	c.Check(cont, fq+"|cached-shard-skips-operator", pr.Pos(br.Pos()), "after installing the cache reader the operator's own reader is still composed on top")
	// the shard variable used inside the closure is the per-iteration copy
	okShadow := false
	if loop, ok := enclosingLoop(fn.Body, br).(*ast.RangeStmt); ok {
		for _, st := range loop.Body.List {
			if d, ok := st.(*ast.DeclStmt); ok {
				ast.Inspect(d, func(m ast.Node) bool {
					if vs, ok := m.(*ast.ValueSpec); ok {
						for i, nm := range vs.Names {
							if nm.Name == shardV && i < len(vs.Values) && expr(vs.Values[i]) == shardV {
								okShadow = true
							}
						}
					}
					return true
				})
			}
			if a, ok := st.(*ast.AssignStmt); ok && a.Tok == token.DEFINE && expr(a.Lhs[0]) == shardV && expr(a.Rhs[0]) == shardV {
				okShadow = true
			}
		}
	}
	c.Check(okShadow, fq+"|closure-captures-own-shard", pr.Pos(br.Pos()), "the task closures capture the loop's shard variable directly (go 1.12 semantics): every task would read the last shard's cache file")
	// writethrough wraps the computed reader of the same shard
	wt := 0
	for _, l := range fn.Lits {
		for _, k := range callsIn(l.Body) {
			if fn.Pkg.CalleeName(k) == "internal/slicecache.ShardCache.WritethroughReader" && len(k.Args) == 2 && expr(k.Args[0]) == shardV {
				wt++
			}
		}
	}
	c.Check(wt >= 2, fq+"|computed-shards-write-through", pr.Pos(fn.Body.Pos()), "the reader of a computed shard is no longer wrapped by the write-through reader of the same shard")
}

func c13r3(c *RC) {
	pr := c.P
	fn := c.MustFn("internal/slicecache.(*FileShardCache).RequireAllCached")
	if fn != nil {
		fq := fn.QName()
		// for _, b := range flags { if !b { for i := range flags { flags[i] = false }; return } }
		ok := false
		ast.Inspect(fn.Body, func(n ast.Node) bool {
			outer, isR := n.(*ast.RangeStmt)
			if !isR || outer.Value == nil {
				return true
			}
			bv := expr(outer.Value)
			for _, st := range outer.Body.List {
				ifs, isIf := st.(*ast.IfStmt)
				if !isIf || strings.ReplaceAll(expr(ifs.Cond), " ", "") != "!"+bv {
					continue
				}
				clearsAll := false
				for _, s2 := range ifs.Body.List {
					if inner, isR2 := s2.(*ast.RangeStmt); isR2 && expr(inner.X) == expr(outer.X) {
						for _, s3 := range inner.Body.List {
							if a, isA := s3.(*ast.AssignStmt); isA && len(a.Lhs) == 1 && expr(a.Rhs[0]) == "false" {
								if ix, isIx := a.Lhs[0].(*ast.IndexExpr); isIx && expr(ix.X) == expr(outer.X) && expr(ix.Index) == expr(inner.Key) {
									clearsAll = true
								}
							}
						}
					}
				}
				if clearsAll {
					ok = true
				}
			}
			return true
		})
		c.Check(ok, fq+"|one-missing-clears-all", pr.Pos(fn.Body.Pos()), "RequireAllCached no longer marks every shard uncached as soon as one shard file is missing: Cache would read some shards from files and recompute others, mixing two computations")
	}
	// callers
	calls := map[string]bool{}
	for _, f := range pr.FuncsIn("") {
		if f.Body == nil {
			continue
		}
		for _, k := range callsIn(f.Body) {
			if f.Pkg.CalleeName(k) == "internal/slicecache.(*FileShardCache).RequireAllCached" {
				calls[f.QName()] = true
			}
		}
	}
	c.Check(calls[".Cache"], ".Cache|requires-all-shards", "cache.go", "Cache no longer requires all shards to be cached")
	c.Check(calls[".ReadCache"], ".ReadCache|requires-all-shards", "cache.go", "ReadCache no longer requires all shards to be cached")
	c.Check(!calls[".CachePartial"], ".CachePartial|per-shard", "cache.go", "CachePartial requires all shards: present shard files are ignored when any is missing")
	// CacheReader on an uncached shard is an error reader
	if cr := c.MustFn("internal/slicecache.(*FileShardCache).CacheReader"); cr != nil {
		ok := false
		if len(cr.Body.List) > 0 {
			if ifs, isIf := cr.Body.List[0].(*ast.IfStmt); isIf && strings.HasPrefix(strings.ReplaceAll(expr(ifs.Cond), " ", ""), "!") && strings.Contains(expr(ifs.Cond), "shardIsCached") {
				for _, k := range callsIn(ifs.Body) {
					if cr.Pkg.CalleeName(k) == "sliceio.ErrReader" {
						ok = true
					}
				}
			}
		}
		c.Check(ok, cr.QName()+"|uncached-shard-is-an-error", pr.Pos(cr.Body.Pos()), "reading an uncached shard no longer yields an error reader")
	}
	// the constructor treats a failed Stat as a miss and records per shard
	if nf := c.MustFn("internal/slicecache.NewFileShardCache"); nf != nil {
		ok := false
		for _, l := range nf.Lits {
			ast.Inspect(l.Body, func(n ast.Node) bool {
				if a, isA := n.(*ast.AssignStmt); isA && len(a.Lhs) == 1 && len(l.Type.Params.List) == 1 && len(l.Type.Params.List[0].Names) == 1 {
					sh := l.Type.Params.List[0].Names[0].Name
					if _, nn, isT := nilTest(a.Rhs[0]); isT && !nn && strings.Contains(expr(a.Lhs[0]), "shardIsCached["+sh+"]") {
						// the compared value is the error of file.Stat on the shard's path
						ok = true
					}
				}
				return true
			})
		}
		c.Check(ok, nf.QName()+"|presence-is-stat-success", pr.Pos(nf.Body.Pos()), "a shard is no longer considered cached exactly when its file can be stat'ed")
		// every shard is looked up: the per-shard callback never returns an
		// error (which would stop the traversal at the first missing file)
		always := true
		nlit := 0
		for _, l := range nf.Lits {
			if l.Type.Results == nil || len(l.Type.Results.List) != 1 {
				continue
			}
			nlit++
			ast.Inspect(l.Body, func(n ast.Node) bool {
				if r, isR := n.(*ast.ReturnStmt); isR && len(r.Results) == 1 && expr(r.Results[0]) != "nil" {
					always = false
				}
				return true
			})
		}
		c.Check(always && nlit > 0, nf.QName()+"|every-shard-is-looked-up", pr.Pos(nf.Body.Pos()), "the per-shard lookup can return an error to the traversal, which then stops at the first missing shard file: shards whose files exist are left marked uncached and are recomputed instead of read")
	}
	// path is a function of prefix, shard and shard count
	if pf := c.MustFn("internal/slicecache.(*FileShardCache).path"); pf != nil {
		txt := ""
		ast.Inspect(pf.Body, func(n ast.Node) bool {
			if r, isR := n.(*ast.ReturnStmt); isR && len(r.Results) == 1 {
				txt = strings.ReplaceAll(expr(r.Results[0]), " ", "")
			}
			return true
		})
		rvp := recvOf(pf)
		shp := "shard"
		if pf.Type.Params != nil && len(pf.Type.Params.List) == 1 && len(pf.Type.Params.List[0].Names) == 1 {
			shp = pf.Type.Params.List[0].Names[0].Name
		}
		c.Check(strings.Contains(txt, rvp+".prefix") && strings.Contains(txt, ","+shp+",") && strings.Contains(txt, rvp+".numShards"), pf.QName()+"|names-shard-and-count", pr.Pos(pf.Body.Pos()), "the cache file name no longer includes prefix, shard and shard count: files of different shards or shardings collide")
	}
}

func c13r5(c *RC) {
	pr := c.P
	fns := pr.FuncsInFile("internal/slicecache/sliceio.go")
	n := errSites(c, fns, func(fn *Func, call *ast.CallExpr, cn string) bool {
		switch {
		case cn == "sliceio.(*Encoder).Write", cn == "github.com/grailbio/base/file.Create", cn == "github.com/grailbio/base/file.Open",
			cn == "github.com/grailbio/base/compress/zstd.NewWriter", cn == "github.com/grailbio/base/compress/zstd.NewReader":
			return true
		case isReaderRead(pr, fn.Pkg, call):
			return true
		case cn == "io.Closer.Close" || cn == "io.WriteCloser.Close":
			if sel, ok := call.Fun.(*ast.SelectorExpr); ok && strings.HasSuffix(expr(sel.X), ".zw") {
				return true
			}
		}
		return false
	}, ErrFlowOpts{SentinelOK: []string{"sliceio.EOF"}}, nil)
	c.Floor("cache file error sites", n, 5)
}

// sliceCapabilityAsserts checks that every type assertion (or type-switch) in
// package exec that asks a bigslice.Slice for the capability `want` looks
// through wrapper slices (bigslice.Unwrap): Prefixed and friends return a
// wrapper that embeds the Slice interface, which hides the methods and the
// dynamic type of the slice underneath.
func sliceCapabilityAsserts(c *RC, want, consequence string) {
	pr := c.P
	n := 0
	for _, fn := range pr.FuncsIn("exec") {
		if fn.Body == nil || fn.Parent != nil {
			continue
		}
		ord := 0
		ast.Inspect(fn.Body, func(nd ast.Node) bool {
			ta, ok := nd.(*ast.TypeAssertExpr)
			if !ok || ta.Type == nil {
				return true
			}
			xt := fn.Pkg.Info.Types[ta.X]
			tt := fn.Pkg.Info.Types[ta.Type]
			if xt.Type == nil || tt.Type == nil || typeString(xt.Type) != "Slice" || typeString(tt.Type) != want {
				return true
			}
			n++
			ord++
			unwrapped := false
			if k, ok := ast.Unparen(ta.X).(*ast.CallExpr); ok && fn.Pkg.CalleeName(k) == ".Unwrap" {
				unwrapped = true
			}
			c.Check(unwrapped, fmt.Sprintf("%s|%s-seen-through-wrappers#%d", fn.QName(), want, ord), pr.Pos(ta.Pos()),
				"a Slice is asked for "+want+" without bigslice.Unwrap: a wrapper slice (Prefixed) around it hides the capability, so "+consequence)
			return true
		})
	}
	c.Floor("assertions of Slice to "+want, n, 1)
}
