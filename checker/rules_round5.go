package main

// Rules added for the fourth batch of independently seeded changes.
//
//	pairwiseFromZero (C16-R7, C18-R9)  an element-wise comparison of two
//	    parameter sequences starts at their first element
//	c16r8                              GobEncode sends every argument exactly
//	    as it was given (no substitution on the way out)
//	c20r4                              a metric instance is published by a
//	    compare-and-swap whose result decides which instance is returned
//	c08r9                              the shape methods of a Slice read only
//	    construction-time data

import (
	"fmt"
	"go/ast"
	"go/token"
	"go/types"
	"sort"
	"strings"

	"golang.org/x/tools/go/cfg"
)

// seqElem: e is p[ix] or p.Out(ix)/p.In(ix) for a parameter p; returns p and ix.
func seqElem(fn *Func, le *linEnv, e ast.Expr) (string, ast.Expr, bool) {
	e = ast.Unparen(e)
	if id, ok := e.(*ast.Ident); ok && le != nil {
		if d, ok := le.defs[fn.Pkg.Info.Uses[id]]; ok {
			e = ast.Unparen(d)
		}
	}
	isParam := func(x ast.Expr) (string, bool) {
		id, ok := ast.Unparen(x).(*ast.Ident)
		if !ok {
			return "", false
		}
		o, _ := fn.Pkg.Info.Uses[id].(*types.Var)
		if o == nil {
			return "", false
		}
		root := fn.Root()
		if root.Type.Params == nil {
			return "", false
		}
		for _, f := range root.Type.Params.List {
			for _, nm := range f.Names {
				if fn.Pkg.Info.Defs[nm] == types.Object(o) {
					return id.Name, true
				}
			}
		}
		return "", false
	}
	switch x := e.(type) {
	case *ast.IndexExpr:
		if p, ok := isParam(x.X); ok {
			return p, x.Index, true
		}
	case *ast.CallExpr:
		if sel, ok := x.Fun.(*ast.SelectorExpr); ok && len(x.Args) == 1 && (sel.Sel.Name == "Out" || sel.Sel.Name == "In") {
			if p, ok := isParam(sel.X); ok {
				return p, x.Args[0], true
			}
		}
	}
	return "", nil, false
}

// pairwiseFromZero: in fns, every ascending counted loop whose body compares
// an element of one parameter with an element of another, both indexed by the
// loop variable, addresses element 0 in its first iteration.
func pairwiseFromZero(c *RC, fns []*Func, tag string) int {
	pr := c.P
	n := 0
	for _, fn := range fns {
		if fn.Body == nil {
			continue
		}
		le := newLinEnv(pr, fn)
		idx := 0
		inspectNoLit(fn.Body, func(nd ast.Node) bool {
			loop, ok := nd.(*ast.ForStmt)
			if !ok {
				return true
			}
			init, ok := loop.Init.(*ast.AssignStmt)
			if !ok || len(init.Lhs) != 1 || len(init.Rhs) != 1 || forInduction(loop) != nospace(init.Lhs[0]) {
				return true
			}
			v := nospace(init.Lhs[0])
			start := le.norm(init.Rhs[0], 0)
			// comparisons between two different parameters' elements
			type cmp struct {
				pos    token.Pos
				ixs    [2]ast.Expr
				params [2]string
			}
			var cmps []cmp
			inspectNoLit(loop, func(m ast.Node) bool {
				be, ok := m.(*ast.BinaryExpr)
				if !ok || (be.Op != token.EQL && be.Op != token.NEQ) {
					return true
				}
				p1, i1, ok1 := seqElem(fn, le, be.X)
				p2, i2, ok2 := seqElem(fn, le, be.Y)
				// the innermost counted loop decides: each index must mention the variable of
				// this loop or of an enclosing one; report once, at the innermost loop
				if ok1 && ok2 && p1 != p2 && (mentions(i1, v) || mentions(i2, v)) && enclosingLoop(fn.Body, be) == ast.Stmt(loop) {
					cmps = append(cmps, cmp{be.Pos(), [2]ast.Expr{i1, i2}, [2]string{p1, p2}})
				}
				return true
			})
			for _, cm := range cmps {
				idx++
				n++
				okZ := true
				for k := 0; k < 2; k++ {
					// index at the first iteration of every enclosing counted loop:
					// substitute each loop variable by its start value
					l := le.norm(cm.ixs[k], 0)
					for _, p := range pathTo(fn.Body, loop) {
						if outer, ok := p.(*ast.ForStmt); ok {
							if oi, ok := outer.Init.(*ast.AssignStmt); ok && len(oi.Lhs) == 1 && len(oi.Rhs) == 1 && forInduction(outer) == nospace(oi.Lhs[0]) {
								ov := nospace(oi.Lhs[0])
								coef := l[ov]
								delete(l, ov)
								l.addScaled(le.norm(oi.Rhs[0], 0), coef)
							}
						}
					}
					if len(nonZero(l)) != 0 {
						okZ = false
					}
				}
				_ = start
				c.Check(okZ, fmt.Sprintf("%s|%s#%d", fn.QName(), tag, idx), pr.Pos(cm.pos), fmt.Sprintf("the element-wise comparison of %s and %s does not begin at their first element (the loop starts %s at %s): a difference in the first position goes unnoticed", cm.params[0], cm.params[1], v, nospace(init.Rhs[0])))
			}
			return true
		})
	}
	return n
}

func c16r7(c *RC) {
	pr := c.P
	var fns []*Func
	for _, fn := range pr.FuncsIn("") {
		if fn.Decl != nil && !strings.HasSuffix(pr.RelFile(fn.Decl.Pos()), "_test.go") {
			fns = append(fns, fn)
		}
	}
	n := pairwiseFromZero(c, fns, "compares-from-the-first-element")
	c.Floor("element-wise comparisons of parameter sequences (root package)", n, 1)
}

func c18r9(c *RC) {
	pr := c.P
	var fns []*Func
	for _, rel := range []string{"typecheck", "slicetype"} {
		for _, fn := range pr.FuncsIn(rel) {
			if fn.Decl != nil && !strings.HasSuffix(pr.RelFile(fn.Decl.Pos()), "_test.go") {
				fns = append(fns, fn)
			}
		}
	}
	n := pairwiseFromZero(c, fns, "compares-from-the-first-element")
	c.Floor("element-wise comparisons of parameter sequences (typecheck, slicetype)", n, 1)
}

// c16r8: in GobEncode the loop over the invocation's arguments never assigns
// its value variable, and every iteration encodes it exactly once or fails.
func c16r8(c *RC) {
	pr := c.P
	enc := c.MustFn("exec.execInvocation.GobEncode")
	if enc == nil {
		return
	}
	var rng *ast.RangeStmt
	inspectNoLit(enc.Body, func(n ast.Node) bool {
		if r, ok := n.(*ast.RangeStmt); ok && strings.HasSuffix(nospace(r.X), ".Args") && r.Value != nil {
			rng = r
		}
		return true
	})
	if rng == nil {
		c.Undecide("exec.execInvocation.GobEncode: no loop over the invocation's Args")
		return
	}
	arg := nospace(rng.Value)
	assigned := token.NoPos
	inspectNoLit(rng.Body, func(n ast.Node) bool {
		if assignsTo(n, arg) {
			assigned = n.Pos()
		}
		return true
	})
	c.Check(assigned == token.NoPos, "exec.execInvocation.GobEncode|argument-sent-as-given", pr.Pos(rng.Pos()), "the argument being encoded is replaced before it is sent: the worker invokes the Func with a value the driver did not pass (the only sanctioned substitution, Result -> invocationRef, is made before encoding), so the two sides can compute different slices", func() string {
		if assigned != token.NoPos {
			return "assigned at " + pr.Pos(assigned)
		}
		return ""
	}())
	// exactly one Encode(arg | &arg) per iteration, or an error return
	fl := pr.Flow(enc)
	isEnc := func(nd ast.Node) bool {
		for _, k := range callsIn(nd) {
			if enc.Pkg.CalleeName(k) == "encoding/gob.(*Encoder).Encode" && len(k.Args) == 1 {
				a := ast.Unparen(k.Args[0])
				if u, ok := a.(*ast.UnaryExpr); ok && u.Op == token.AND {
					a = u.X
				}
				if nospace(a) == arg {
					return true
				}
			}
		}
		return false
	}
	var start Loc
	found := false
	for _, b := range fl.G.Blocks {
		if b.Live && b.Stmt == ast.Stmt(rng) && b.Kind.String() == "RangeBody" {
			start, found = Loc{b, 0}, true
		}
	}
	if !found {
		c.Undecide("exec.execInvocation.GobEncode: range body not found in the flow graph")
		return
	}
	good := true
	var trail []string
	fl.Walk(start, "0", nil, Visitor{NoFacts: true,
		Node: func(nd ast.Node, st string, s *Step) (string, bool) {
			if isEnc(nd) {
				if st == "1" {
					good, trail = false, s.Trail()
					return st, true
				}
				return "1", false
			}
			return st, false
		},
		Enter: func(from, to *cfg2Block, st string, s *Step) (string, bool) {
			if to.Stmt == ast.Stmt(rng) && to.Kind.String() == "RangeLoop" {
				if st != "1" {
					good, trail = false, s.Trail()
				}
				return st, true
			}
			if to.Stmt == ast.Stmt(rng) && to.Kind.String() == "RangeDone" {
				return st, true
			}
			return st, false
		},
		Exit: func(kind ExitKind, ret *ast.ReturnStmt, st string, s *Step) {
			// error returns are fine
		}})
	c.Check(good, "exec.execInvocation.GobEncode|each-argument-encoded-once", pr.Pos(rng.Pos()), "an iteration over the invocation's arguments ends without encoding the argument, or encodes it twice: the decoder reads the wrong value for every later argument", trail...)
}

// c20r4: compare-and-swap publication.
func c20r4(c *RC) {
	pr := c.P
	n, m := 0, 0
	for _, fn := range pr.Funcs() {
		if fn.Body == nil || fn.Decl == nil || strings.HasSuffix(pr.RelFile(fn.Decl.Pos()), "_test.go") {
			continue
		}
		if rel := fn.Pkg.Rel; strings.HasPrefix(rel, "cmd/") || strings.HasPrefix(rel, "analysis") {
			continue
		}
		var cas []*ast.CallExpr
		ast.Inspect(fn.Body, func(nd ast.Node) bool {
			if k, ok := nd.(*ast.CallExpr); ok && strings.HasPrefix(fn.Pkg.CalleeName(k), "sync/atomic.CompareAndSwap") {
				cas = append(cas, k)
			}
			return true
		})
		for i, k := range cas {
			n++
			// (1) the outcome is consumed
			used := false
			for _, p := range pathTo(fn.Body, k) {
				switch s := p.(type) {
				case *ast.IfStmt:
					if k.Pos() >= s.Cond.Pos() && k.End() <= s.Cond.End() {
						used = true
					}
				case *ast.ForStmt:
					if s.Cond != nil && k.Pos() >= s.Cond.Pos() && k.End() <= s.Cond.End() {
						used = true
					}
				case *ast.AssignStmt, *ast.ReturnStmt, *ast.SwitchStmt, *ast.CaseClause:
					used = true
				}
			}
			c.Check(used, fmt.Sprintf("%s|cas-outcome-consumed#%d", fn.QName(), i+1), pr.Pos(k.Pos()), "the outcome of the compare-and-swap is discarded: when another goroutine wins the race this one carries on as if its own value had been installed, and its updates go to an object nobody else sees")
			// (2) publication of &v: `return v` only where the swap succeeded
			if len(k.Args) != 3 || fn.Parent != nil {
				continue
			}
			var pub string
			var pubObj types.Object
			ast.Inspect(k.Args[2], func(x ast.Node) bool {
				if u, ok := x.(*ast.UnaryExpr); ok && u.Op == token.AND {
					if id, ok := u.X.(*ast.Ident); ok {
						pub, pubObj = id.Name, fn.Pkg.Info.Uses[id]
					}
				}
				return true
			})
			if pub == "" {
				continue
			}
			m++
			fl := pr.Flow(fn)
			good := true
			var trail []string
			fl.Walk(fl.Entry(), "", nil, Visitor{NoFacts: true,
				Enter: func(from, to *cfg2Block, st string, s *Step) (string, bool) {
					cond := fl.edgeCond(from)
					if cond == nil || len(from.Succs) != 2 || !nodeHas(cond, func(x ast.Node) bool { return x == ast.Node(k) }) {
						return st, false
					}
					v, okE := evalCond(cond, func(e ast.Expr) (bool, bool) {
						if ast.Unparen(e) == ast.Expr(k) {
							return true, true
						}
						return false, false
					})
					if okE && (from.Succs[0] == to) == v {
						return "won", false
					}
					return "lost", false
				},
				Node: func(nd ast.Node, st string, s *Step) (string, bool) {
					if nodeHas(nd, func(x ast.Node) bool { return x == ast.Node(k) }) {
						if _, isCond := nd.(ast.Expr); !isCond {
							return "unchecked", false
						}
					}
					return st, false
				},
				Exit: func(kind ExitKind, ret *ast.ReturnStmt, st string, s *Step) {
					if ret == nil || len(ret.Results) != 1 {
						return
					}
					if id, ok := ast.Unparen(ret.Results[0]).(*ast.Ident); !ok || fn.Pkg.Info.Uses[id] != pubObj {
						return
					}
					if st != "won" {
						good, trail = false, s.Trail()
					}
				}})
			c.Check(good, fmt.Sprintf("%s|published-value-returned-only-by-the-winner#%d", fn.QName(), i+1), pr.Pos(k.Pos()), "the freshly made "+pub+" is returned on a path where its compare-and-swap did not succeed: two goroutines that race on the first use each get their own instance, and the increments of the loser are never seen by the scope (the counter reports less than the sum of the increments)", trail...)
		}
	}
	c.Floor("compare-and-swap sites", n, 1)
	c.Floor("compare-and-swap publications", m, 1)
}

// c08r9: the shape of the task graph is read off the Slice methods below; the
// driver and every worker call them at different times and in different
// processes, so they may depend only on what the constructor was given.
var c08shapeMethods = map[string]bool{"Name": true, "NumShard": true, "ShardType": true, "NumDep": true, "Dep": true, "Combiner": true, "NumOut": true, "Out": true, "Prefix": true}

var c08purePkgs = map[string]bool{"": true, "typecheck": true, "slicetype": true, "slicefunc": true, "frame": true, "reflect": true, "fmt": true, "strings": true, "strconv": true, "sort": true, "math": true, "internal/defaultsize": true}

func c08impureCall(pk *Pkg, e ast.Node) string {
	bad := ""
	ast.Inspect(e, func(n ast.Node) bool {
		k, ok := n.(*ast.CallExpr)
		if !ok || bad != "" {
			return bad == ""
		}
		o := pk.Callee(k)
		if o == nil {
			return true // conversion, or call of a function value
		}
		if _, isB := o.(*types.Builtin); isB {
			return true
		}
		if _, isT := o.(*types.TypeName); isT {
			return true
		}
		p := ""
		if o.Pkg() != nil {
			p = short(o.Pkg().Path())
		}
		if !c08purePkgs[p] {
			bad = pk.CalleeName(k)
		}
		return true
	})
	return bad
}

func c08r9(c *RC) {
	pr := c.P
	iface := pr.lookupIface("", "Slice")
	if iface == nil {
		c.Undecide("interface bigslice.Slice not found")
		return
	}
	root := pr.FuncsIn("")
	if len(root) == 0 {
		c.Undecide("root package has no functions")
		return
	}
	pk := root[0].Pkg
	// struct types implementing Slice
	type impl struct {
		named *types.Named
		st    *types.Struct
	}
	var impls []impl
	scope := pk.Types.Scope()
	for _, nm := range scope.Names() {
		tn, ok := scope.Lookup(nm).(*types.TypeName)
		if !ok {
			continue
		}
		named, ok := tn.Type().(*types.Named)
		if !ok {
			continue
		}
		st, ok := named.Underlying().(*types.Struct)
		if !ok {
			continue
		}
		if types.Implements(named, iface) || types.Implements(types.NewPointer(named), iface) {
			impls = append(impls, impl{named, st})
		}
	}
	sort.Slice(impls, func(i, j int) bool { return impls[i].named.Obj().Name() < impls[j].named.Obj().Name() })
	// taint of fields: every value ever stored in S.F
	taint := map[*types.Var]string{}
	note := func(fn *Func, le *linEnv, f *types.Var, rhs ast.Expr) {
		if f == nil || rhs == nil {
			return
		}
		// expand single-definition locals
		var walk func(e ast.Node, depth int) string
		walk = func(e ast.Node, depth int) string {
			if b := c08impureCall(fn.Pkg, e); b != "" {
				return b
			}
			if depth > 6 {
				return ""
			}
			bad := ""
			ast.Inspect(e, func(n ast.Node) bool {
				if id, ok := n.(*ast.Ident); ok && bad == "" {
					if d, ok := le.defs[fn.Pkg.Info.Uses[id]]; ok {
						bad = walk(d, depth+1)
					}
				}
				return bad == ""
			})
			return bad
		}
		if b := walk(rhs, 0); b != "" && taint[f] == "" {
			taint[f] = b + " (" + pr.Pos(rhs.Pos()) + ")"
		}
	}
	isImpl := func(t types.Type) *types.Struct {
		if p, ok := t.(*types.Pointer); ok {
			t = p.Elem()
		}
		for _, im := range impls {
			if types.Identical(t, im.named) {
				return im.st
			}
		}
		return nil
	}
	for _, fn := range root {
		if fn.Body == nil {
			continue
		}
		le := newLinEnv(pr, fn)
		inspectNoLit(fn.Body, func(n ast.Node) bool {
			switch x := n.(type) {
			case *ast.CompositeLit:
				tv, ok := fn.Pkg.Info.Types[x]
				if !ok {
					return true
				}
				st := isImpl(tv.Type)
				if st == nil {
					return true
				}
				for i, el := range x.Elts {
					if kv, ok := el.(*ast.KeyValueExpr); ok {
						if id, ok := kv.Key.(*ast.Ident); ok {
							for j := 0; j < st.NumFields(); j++ {
								if st.Field(j).Name() == id.Name {
									note(fn, le, st.Field(j), kv.Value)
								}
							}
						}
					} else if i < st.NumFields() {
						note(fn, le, st.Field(i), el)
					}
				}
			case *ast.AssignStmt:
				for i, l := range x.Lhs {
					sel, ok := l.(*ast.SelectorExpr)
					if !ok {
						continue
					}
					tv, ok := fn.Pkg.Info.Types[sel.X]
					if !ok || isImpl(tv.Type) == nil {
						continue
					}
					f := fn.Pkg.FieldOf(sel)
					if len(x.Lhs) == len(x.Rhs) {
						note(fn, le, f, x.Rhs[i])
					} else if len(x.Rhs) == 1 {
						note(fn, le, f, x.Rhs[0])
					}
				}
			}
			return true
		})
	}
	n := 0
	for _, fn := range root {
		if fn.Body == nil || fn.Decl == nil || fn.Decl.Recv == nil || fn.Obj == nil || !c08shapeMethods[fn.Decl.Name.Name] {
			continue
		}
		sig := fn.Obj.Type().(*types.Signature)
		if isImpl(sig.Recv().Type()) == nil {
			continue
		}
		n++
		okM := true
		why := ""
		if b := c08impureCall(fn.Pkg, fn.Body); b != "" {
			okM, why = false, "calls "+b
		}
		r := recvOf(fn)
		inspectNoLit(fn.Body, func(nd ast.Node) bool {
			sel, ok := nd.(*ast.SelectorExpr)
			if !ok || r == "" || nospace(sel.X) != r {
				return true
			}
			if f := fn.Pkg.FieldOf(sel); f != nil && taint[f] != "" && okM {
				okM, why = false, "reads the field "+f.Name()+", which is set from "+taint[f]
			}
			return true
		})
		c.Check(okM, fn.QName()+"|shape-from-construction-data", pr.Pos(fn.Decl.Pos()), "a method that determines the shape of the task graph "+why+": its answer depends on the state of the process that asks (cache contents, files, time), so the driver and a worker that compiles later build different graphs for the same invocation")
	}
	c.Floor("shape methods of Slice implementations", n, 60)
}

// c10r9: a merge cursor (sortio.FrameBuffer.Index) moves only past a row that
// was taken.  The merging readers look at the row under the cursor of the
// smallest buffer, hand it on, and advance.  On every path to an increment of
// a FrameBuffer's Index, since the previous increment, some statement must
// have read the row at a FrameBuffer's Index (directly, or through a local
// bound to it) - otherwise a row is consumed without ever reaching the output.
func c10r9(c *RC) {
	pr := c.P
	n := 0
	for _, fn := range readerFuncs(pr) {
		if fn.Body == nil || fn.Parent != nil {
			continue
		}
		isCursor := func(e ast.Expr) bool {
			sel, ok := ast.Unparen(e).(*ast.SelectorExpr)
			return ok && pr.fieldQName(fn.Pkg.FieldOf(sel)) == "sortio.FrameBuffer.Index"
		}
		var incs []*ast.IncDecStmt
		inspectNoLit(fn.Body, func(nd ast.Node) bool {
			if s, ok := nd.(*ast.IncDecStmt); ok && s.Tok == token.INC && isCursor(s.X) {
				incs = append(incs, s)
			}
			return true
		})
		if len(incs) == 0 {
			continue
		}
		// locals bound to a cursor
		le := newLinEnv(pr, fn)
		alias := map[types.Object]bool{}
		for o, d := range le.defs {
			if isCursor(d) {
				alias[o] = true
			}
		}
		rowIsCursor := func(e ast.Expr) bool {
			if isCursor(e) {
				return true
			}
			if id, ok := ast.Unparen(e).(*ast.Ident); ok {
				return alias[fn.Pkg.Info.Uses[id]]
			}
			return false
		}
		takesRow := func(nd ast.Node) bool {
			hit := false
			inspectNoLit(nd, func(m ast.Node) bool {
				k, ok := m.(*ast.CallExpr)
				if !ok {
					return true
				}
				switch fn.Pkg.CalleeName(k) {
				case "frame.Frame.Index":
					if len(k.Args) == 2 && rowIsCursor(k.Args[1]) {
						hit = true
					}
				case "frame.Frame.Slice":
					if len(k.Args) == 2 && rowIsCursor(k.Args[0]) {
						hit = true
					}
				}
				return true
			})
			// a statement whose only effect is to discard the row does not take it
			if es, ok := nd.(*ast.AssignStmt); ok && hit {
				all := true
				for _, l := range es.Lhs {
					if expr(l) != "_" {
						all = false
					}
				}
				if all {
					hit = false
				}
			}
			return hit
		}
		fl := pr.Flow(fn)
		for i, inc := range incs {
			n++
			good := true
			var trail []string
			// the unit of work: the innermost loop around the advance that also takes rows
			var unit ast.Stmt
			path := pathTo(fn.Body, inc)
			for j := len(path) - 1; j >= 0 && unit == nil; j-- {
				var body *ast.BlockStmt
				switch l := path[j].(type) {
				case *ast.ForStmt:
					body = l.Body
				case *ast.RangeStmt:
					body = l.Body
				}
				if body == nil {
					continue
				}
				has := false
				for _, st := range body.List {
					inspectNoLit(st, func(m ast.Node) bool {
						if _, isStmt := m.(ast.Stmt); isStmt && takesRow(m) {
							has = true
						}
						return !has
					})
				}
				if has {
					unit = path[j].(ast.Stmt)
				}
			}
			if unit == nil {
				c.Check(false, fmt.Sprintf("%s|row-taken-before-cursor-moves#%d", fn.QName(), i+1), pr.Pos(inc.Pos()), "the merge cursor "+nospace(inc.X)+" is advanced in a loop that never reads the row under a cursor: rows are consumed without ever reaching the output")
				continue
			}
			fl.Walk(fl.Entry(), "", nil, Visitor{NoFacts: true,
				Enter: func(from, to *cfg2Block, st string, s *Step) (string, bool) {
					if to.Stmt == unit && (to.Kind == cfg.KindForBody || to.Kind == cfg.KindRangeBody) {
						return "", false
					}
					return st, false
				},
				Node: func(nd ast.Node, st string, s *Step) (string, bool) {
					if !good {
						return st, true
					}
					if _, isStmt := nd.(ast.Stmt); isStmt && takesRow(nd) {
						return "taken", false
					}
					if nd == ast.Node(inc) && st != "taken" {
						good, trail = false, s.Trail()
						return st, true
					}
					return st, false
				}})
			c.Check(good, fmt.Sprintf("%s|row-taken-before-cursor-moves#%d", fn.QName(), i+1), pr.Pos(inc.Pos()), "the merge cursor "+nospace(inc.X)+" is advanced on a path where the row under it was not read since the last advance: that row is consumed without ever reaching the output", trail...)
		}
	}
	c.Floor("merge cursor advances", n, 3)
}

// c09r11: no error of the combiner, spiller or sort machinery is swallowed by
// a shadowing redeclaration of a named error result.
func c09r11(c *RC) {
	pr := c.P
	var fns []*Func
	for _, fn := range pr.Funcs() {
		if fn.Decl == nil || strings.HasSuffix(pr.RelFile(fn.Decl.Pos()), "_test.go") {
			continue
		}
		if rel := fn.Pkg.Rel; strings.HasPrefix(rel, "cmd/") || strings.HasPrefix(rel, "analysis") || strings.HasPrefix(rel, "example") {
			continue
		}
		fns = append(fns, fn)
	}
	n := shadowedErrorResult(c, fns, "shadowed-error-leaves-its-scope")
	c.Note("shadowing error definitions examined: %d", n)
}

// c17r9: a pump loop ends exactly at end-of-stream.  An unconditional loop
// that reads from a sliceio.Reader (or ReadFull) and leaves through
// `if <cond on that read's error> { break }` (or a return with a nil error)
// must leave when the error is the end-of-stream sentinel and must not leave
// when it is nil: the other way round, only the first batch is moved (the
// existing tests move one batch per task) or the loop spins at the end.
func c17r9(c *RC) {
	pr := c.P
	n := 0
	for _, fn := range readerFuncs(pr) {
		if fn.Body == nil {
			continue
		}
		idx := 0
		inspectNoLit(fn.Body, func(nd ast.Node) bool {
			loop, ok := nd.(*ast.ForStmt)
			if !ok || loop.Cond != nil || loop.Init != nil || loop.Post != nil {
				return true
			}
			// the read, a direct child of the body
			errName := ""
			for _, st := range loop.Body.List {
				as, ok := st.(*ast.AssignStmt)
				if !ok || len(as.Rhs) != 1 || len(as.Lhs) != 2 {
					continue
				}
				k, ok := ast.Unparen(as.Rhs[0]).(*ast.CallExpr)
				if !ok {
					continue
				}
				if isReaderRead(pr, fn.Pkg, k) || fn.Pkg.CalleeName(k) == "sliceio.ReadFull" {
					errName = expr(as.Lhs[1])
				}
			}
			if errName == "" || errName == "_" {
				return true
			}
			for _, st := range loop.Body.List {
				ifs, ok := st.(*ast.IfStmt)
				if !ok || ifs.Init != nil || len(ifs.Body.List) == 0 {
					continue
				}
				if _, tested := errTestNames(ifs.Cond)[errName]; !tested {
					continue
				}
				leaves := false
				switch last := ifs.Body.List[len(ifs.Body.List)-1].(type) {
				case *ast.BranchStmt:
					leaves = last.Tok == token.BREAK && last.Label == nil
				case *ast.ReturnStmt:
					if len(last.Results) > 0 && expr(last.Results[len(last.Results)-1]) == "nil" {
						leaves = true
					}
				}
				if !leaves {
					continue
				}
				idx++
				n++
				vNil, ok0 := evalCond(ifs.Cond, func(e ast.Expr) (bool, bool) { return errAtom(e, errName, 0) })
				vEOF, ok1 := evalCond(ifs.Cond, func(e ast.Expr) (bool, bool) { return errAtom(e, errName, 1) })
				c.Check(ok0 && ok1 && !vNil && vEOF, fmt.Sprintf("%s|pump-ends-exactly-at-EOF#%d", fn.QName(), idx), pr.Pos(ifs.Pos()), "the loop that moves batches from a reader leaves when the read succeeded (or does not leave at end-of-stream): only the first batch is moved and the rest silently dropped, or the loop never ends")
			}
			return true
		})
	}
	c.Floor("pump loops", n, 8)
}

// oncePerIteration: on every path through one iteration of loop (from the
// start of its body to its post statement / header), isEvent fires exactly
// once.  Paths that leave the function are exempt.
func oncePerIteration(fl *Flow, loop *ast.ForStmt, isEvent func(ast.Node) bool) (bool, []string, string) {
	var start Loc
	found := false
	for _, b := range fl.G.Blocks {
		if b.Live && b.Stmt == ast.Stmt(loop) && b.Kind == cfg.KindForBody {
			start, found = Loc{b, 0}, true
		}
	}
	if !found {
		return false, nil, "loop body not found in the flow graph"
	}
	good := true
	var trail []string
	why := ""
	fl.Walk(start, "0", nil, Visitor{NoFacts: true,
		Node: func(nd ast.Node, st string, s *Step) (string, bool) {
			if !good {
				return st, true
			}
			if isEvent(nd) {
				if st != "0" {
					good, trail, why = false, s.Trail(), "twice"
					return st, true
				}
				return "1", false
			}
			return st, false
		},
		Enter: func(from, to *cfg2Block, st string, s *Step) (string, bool) {
			if to.Stmt == ast.Stmt(loop) && (to.Kind == cfg.KindForPost || to.Kind == cfg.KindForLoop || to.Kind == cfg.KindForDone) {
				if to.Kind != cfg.KindForDone && st != "1" && good {
					good, trail, why = false, s.Trail(), "not at all"
				}
				return st, true
			}
			return st, false
		}})
	return good, trail, why
}

// c05r9: the worker finds the producer of dependency task k at position k of
// the request's location list.  The driver appends one location per
// dependency task, in dependency order; the worker walks the same nesting
// and must consume exactly one position per dependency task, whichever way it
// ends up reading that task (local store, remote machine, combiner).
func c05r9(c *RC) {
	pr := c.P
	n := 0
	for _, fn := range pr.FuncsIn("exec") {
		if fn.Body == nil || fn.Parent != nil {
			continue
		}
		// driver side: appends to taskRunRequest.Locations
		isAppendLoc := func(nd ast.Node) bool {
			as, ok := nd.(*ast.AssignStmt)
			if !ok || len(as.Lhs) != 1 || len(as.Rhs) != 1 {
				return false
			}
			sel, ok := as.Lhs[0].(*ast.SelectorExpr)
			if !ok || pr.fieldQName(fn.Pkg.FieldOf(sel)) != "exec.taskRunRequest.Locations" {
				return false
			}
			k, ok := as.Rhs[0].(*ast.CallExpr)
			return ok && expr(k.Fun) == "append" && len(k.Args) == 2
		}
		// worker side: the variable passed to (*taskRunRequest).location
		idxVar := ""
		for _, k := range callsIn(fn.Body) {
			if fn.Pkg.CalleeName(k) == "exec.(*taskRunRequest).location" && len(k.Args) == 1 {
				idxVar = nospace(k.Args[0])
			}
		}
		isInc := func(nd ast.Node) bool {
			s, ok := nd.(*ast.IncDecStmt)
			return ok && s.Tok == token.INC && idxVar != "" && nospace(s.X) == idxVar
		}
		var loops []*ast.ForStmt
		inspectNoLit(fn.Body, func(nd ast.Node) bool {
			l, ok := nd.(*ast.ForStmt)
			if !ok || l.Cond == nil {
				return true
			}
			// a loop over the tasks of a dependency: bounded by <dep>.NumTask()
			overTasks := nodeHas(l.Cond, func(m ast.Node) bool {
				k, ok := m.(*ast.CallExpr)
				return ok && strings.HasSuffix(fn.Pkg.CalleeName(k), ".NumTask")
			})
			if !overTasks {
				return true
			}
			has := false
			inspectNoLit(l.Body, func(m ast.Node) bool {
				if isAppendLoc(m) || isInc(m) {
					has = true
				}
				return true
			})
			if has || idxVar != "" {
				loops = append(loops, l)
			}
			return true
		})
		if len(loops) == 0 {
			continue
		}
		fl := pr.Flow(fn)
		for i, l := range loops {
			n++
			ev := isAppendLoc
			what := "appends one location"
			if idxVar != "" {
				ev = isInc
				what = "consumes one position of the location list (" + idxVar + "++)"
			}
			good, trail, why := oncePerIteration(fl, l, ev)
			c.Check(good, fmt.Sprintf("%s|one-location-per-dependency-task#%d", fn.QName(), i+1), pr.Pos(l.Pos()), "an iteration over the tasks of a dependency "+what+" "+why+" instead of exactly once: from then on the worker looks for every later dependency task on the machine of its neighbour, and reads another task's partition (or fails to find it)", trail...)
		}
		// the position is read before it is consumed
		if idxVar != "" {
			ord := 0
			for _, k := range callsIn(fn.Body) {
				if fn.Pkg.CalleeName(k) != "exec.(*taskRunRequest).location" {
					continue
				}
				ord++
				st := enclosingStmt(fn.Body, k)
				blk := enclosingBlock(fn.Body, st)
				next := false
				okN := false
				for _, s2 := range blk {
					if next {
						okN = isInc(s2)
						break
					}
					if s2 == st {
						next = true
					}
				}
				n++
				c.Check(okN, fn.QName()+"|position-consumed-right-after-use#"+itoa(ord), pr.Pos(k.Pos()), "the location of a dependency task is looked up at "+idxVar+" but the position is not consumed by the very next statement: the lookup and the count can drift apart")
			}
		}
	}
	c.Floor("loops over dependency tasks that carry locations", n, 5)
}

func enclosingStmt(root ast.Node, n ast.Node) ast.Stmt {
	var best ast.Stmt
	for _, p := range pathTo(root, n) {
		if s, ok := p.(ast.Stmt); ok {
			if _, isBlock := s.(*ast.BlockStmt); !isBlock {
				best = s
			}
		}
	}
	// the innermost simple statement that contains n
	return best
}
