package main

// C14-R8: demand accounting of the machine manager's event loop.
//
// "No more machines are started than demand and the parallelism limit
// justify" rests on three counters kept by (*machineManager).Do: need (procs
// asked for and not yet returned), pending (procs of machines being started)
// and the machines it holds.  The rule decides the shape of that accounting:
// every counter is written exactly where the matching event is consumed, and
// the number handed to startMachines is derived from
//
//	min(need, maxp) - have - pending
//
// (capped by the parallelism limit and by demand, less what is already there
// or already on its way), rounded up to whole machines.  Expressions are
// compared as linear forms, so reordering terms, naming sub-expressions or
// renaming variables does not matter.

import (
	"fmt"
	"go/ast"
	"go/token"
	"go/types"
	"sort"
	"strings"
)

// lin is a linear form: term -> coefficient, the constant under "".
type lin map[string]int

func (l lin) String() string {
	var ks []string
	for k := range l {
		if l[k] != 0 {
			ks = append(ks, k)
		}
	}
	sort.Strings(ks)
	var b strings.Builder
	for _, k := range ks {
		if k == "" {
			fmt.Fprintf(&b, "%+d", l[k])
		} else {
			fmt.Fprintf(&b, "%+d*%s", l[k], k)
		}
	}
	return b.String()
}

func (l lin) addScaled(o lin, k int) {
	for t, c := range o {
		l[t] += c * k
	}
}

func (l lin) single() (string, int, bool) {
	n, term, coef := 0, "", 0
	for t, c := range l {
		if c != 0 {
			n++
			term, coef = t, c
		}
	}
	return term, coef, n == 1
}

// linEnv normalises expressions of one function.
type linEnv struct {
	pr   *Prog
	fn   *Func
	defs map[types.Object]ast.Expr // single-definition block locals
}

// newLinEnv records the locals of fn that are defined exactly once (by := or
// var with one value) and never assigned again; those are expanded.
func newLinEnv(pr *Prog, fn *Func) *linEnv {
	le := &linEnv{pr: pr, fn: fn, defs: map[types.Object]ast.Expr{}}
	writes := map[types.Object]int{}
	def := map[types.Object]ast.Expr{}
	note := func(id *ast.Ident, rhs ast.Expr) {
		o := fn.Pkg.Info.Defs[id]
		if o == nil {
			o = fn.Pkg.Info.Uses[id]
		}
		if o == nil {
			return
		}
		writes[o]++
		def[o] = rhs
	}
	ast.Inspect(fn.Body, func(n ast.Node) bool {
		switch x := n.(type) {
		case *ast.AssignStmt:
			for i, l := range x.Lhs {
				id, ok := l.(*ast.Ident)
				if !ok {
					continue
				}
				var rhs ast.Expr
				if x.Tok == token.DEFINE && len(x.Lhs) == len(x.Rhs) {
					rhs = x.Rhs[i]
				}
				note(id, rhs)
			}
		case *ast.ValueSpec:
			for i, id := range x.Names {
				var rhs ast.Expr
				if len(x.Values) == len(x.Names) {
					rhs = x.Values[i]
				}
				note(id, rhs)
			}
		case *ast.IncDecStmt:
			if id, ok := x.X.(*ast.Ident); ok {
				note(id, nil)
				writes[fn.Pkg.Info.Uses[id]]++
			}
		case *ast.RangeStmt:
			for _, e := range []ast.Expr{x.Key, x.Value} {
				if id, ok := e.(*ast.Ident); ok {
					note(id, nil)
				}
			}
		}
		return true
	})
	for o, n := range writes {
		if n == 1 && def[o] != nil {
			le.defs[o] = def[o]
		}
	}
	return le
}

func (le *linEnv) atom(e ast.Expr) string {
	return canonText(le.fn, strings.ReplaceAll(expr(e), " ", ""))
}

// norm returns the linear form of e; non-arithmetic sub-expressions become
// terms named by their canonical text (receiver and parameters positional,
// expanded single-definition locals substituted).
func (le *linEnv) norm(e ast.Expr, depth int) lin {
	e = ast.Unparen(e)
	out := lin{}
	if depth > 12 {
		out[le.atom(e)] = 1
		return out
	}
	if tv := le.fn.Pkg.Info.Types[e]; tv.Value != nil {
		if v, ok := constIntTV(tv); ok {
			out[""] = v
			return out
		}
	}
	switch x := e.(type) {
	case *ast.UnaryExpr:
		switch x.Op {
		case token.SUB:
			out.addScaled(le.norm(x.X, depth+1), -1)
			return out
		case token.ADD:
			return le.norm(x.X, depth+1)
		}
		out[le.atom(e)] = 1
	case *ast.Ident:
		o := le.fn.Pkg.Info.Uses[x]
		if d, ok := le.defs[o]; ok {
			return le.norm(d, depth+1)
		}
		out[le.atom(x)] = 1
	case *ast.BinaryExpr:
		a, b := le.norm(x.X, depth+1), le.norm(x.Y, depth+1)
		switch x.Op {
		case token.ADD:
			out.addScaled(a, 1)
			out.addScaled(b, 1)
		case token.SUB:
			out.addScaled(a, 1)
			out.addScaled(b, -1)
		case token.MUL:
			// distribute over a sum when the other side is a single term
			if t, c, ok := b.single(); ok {
				for ta, ca := range a {
					out[mulTerm(ta, t)] += ca * c
				}
			} else if t, c, ok := a.single(); ok {
				for tb, cb := range b {
					out[mulTerm(tb, t)] += cb * c
				}
			} else {
				out["("+a.String()+")*("+b.String()+")"] = 1
			}
		default:
			out["("+a.String()+")"+x.Op.String()+"("+b.String()+")"] = 1
		}
	case *ast.CallExpr:
		name := ""
		if id, ok := x.Fun.(*ast.Ident); ok {
			name = id.Name
		}
		if (name == "min" || name == "max") && len(x.Args) >= 2 && le.isMinMax(x, name) {
			var parts []string
			for _, a := range x.Args {
				parts = append(parts, le.norm(a, depth+1).String())
			}
			sort.Strings(parts)
			out[name+"("+strings.Join(parts, ",")+")"] = 1
		} else {
			out[le.atom(x)] = 1
		}
	default:
		out[le.atom(e)] = 1
	}
	return out
}

// isMinMax: the callee named min/max really is the minimum/maximum: the
// builtin, or a two-argument function whose body is the usual comparison.
func (le *linEnv) isMinMax(call *ast.CallExpr, name string) bool {
	id := call.Fun.(*ast.Ident)
	o := le.fn.Pkg.Info.Uses[id]
	if o == nil {
		return false
	}
	if _, ok := o.(*types.Builtin); ok {
		return true
	}
	f, ok := o.(*types.Func)
	if !ok {
		return false
	}
	for _, cand := range []*Func{le.pr.FuncOfObj(f)} {
		if cand == nil || cand.Body == nil || cand.Type.Params == nil {
			continue
		}
		var ps []string
		for _, fld := range cand.Type.Params.List {
			for _, n := range fld.Names {
				ps = append(ps, n.Name)
			}
		}
		if len(ps) != 2 {
			return false
		}
		// if a < b { return a }; return b   (or any mirror of it)
		ok := false
		ast.Inspect(cand.Body, func(n ast.Node) bool {
			ifs, isIf := n.(*ast.IfStmt)
			if !isIf || len(ifs.Body.List) != 1 {
				return true
			}
			be, isBe := ast.Unparen(ifs.Cond).(*ast.BinaryExpr)
			r, isR := ifs.Body.List[0].(*ast.ReturnStmt)
			if !isBe || !isR || len(r.Results) != 1 {
				return true
			}
			l, rr, ret := expr(be.X), expr(be.Y), expr(r.Results[0])
			if !(l == ps[0] && rr == ps[1] || l == ps[1] && rr == ps[0]) {
				return true
			}
			small := ""
			switch be.Op {
			case token.LSS, token.LEQ:
				small = l
			case token.GTR, token.GEQ:
				small = rr
			}
			if small == "" {
				return true
			}
			if name == "min" && ret == small || name == "max" && ret != small {
				ok = true
			}
			return true
		})
		return ok
	}
	return false
}

func mulTerm(a, b string) string {
	if a == "" {
		return b
	}
	if b == "" {
		return a
	}
	fs := append(strings.Split(a, "*"), strings.Split(b, "*")...)
	sort.Strings(fs)
	return strings.Join(fs, "*")
}

func constIntTV(tv types.TypeAndValue) (int, bool) {
	if tv.Value == nil {
		return 0, false
	}
	s := tv.Value.ExactString()
	n, neg := 0, false
	for i, ch := range s {
		if i == 0 && ch == '-' {
			neg = true
			continue
		}
		if ch < '0' || ch > '9' {
			return 0, false
		}
		n = n*10 + int(ch-'0')
		if n > 1<<30 {
			return 0, false
		}
	}
	if neg {
		n = -n
	}
	return n, true
}

func c14r8(c *RC) {
	pr := c.P
	fn := c.MustFn("exec.(*machineManager).Do")
	if fn == nil {
		return
	}
	fq := fn.QName()
	pk := fn.Pkg
	le := newLinEnv(pr, fn)
	// --- the arms of the event loop, by the channel they receive from
	type arm struct {
		cc  *ast.CommClause
		val string // name bound to the received value
	}
	arms := map[string]arm{}
	ast.Inspect(fn.Body, func(n ast.Node) bool {
		cc, ok := n.(*ast.CommClause)
		if !ok || cc.Comm == nil {
			return true
		}
		var rx ast.Expr
		val := ""
		switch s := cc.Comm.(type) {
		case *ast.AssignStmt:
			if len(s.Rhs) == 1 {
				rx = s.Rhs[0]
				val = expr(s.Lhs[0])
			}
		case *ast.ExprStmt:
			rx = s.X
		}
		u, ok := ast.Unparen(rx).(*ast.UnaryExpr)
		if !ok || u.Op != token.ARROW {
			return true
		}
		role := ""
		if sel, ok := u.X.(*ast.SelectorExpr); ok {
			switch pr.fieldQName(pk.FieldOf(sel)) {
			case "exec.machineManager.schedc":
				role = "request"
			case "exec.machineManager.unschedc":
				role = "cancel"
			}
		}
		if tv := pk.Info.Types[u.X]; role == "" && tv.Type != nil {
			switch typeString(tv.Type) {
			case "chan exec.machineDone":
				role = "done"
			case "chan exec.startResult":
				role = "started"
			}
		}
		if role != "" {
			arms[role] = arm{cc, val}
		}
		return true
	})
	for _, r := range []string{"request", "cancel", "done", "started"} {
		if _, ok := arms[r]; !ok {
			c.Undecide("%s: the %s arm of the event loop was not found", fq, r)
			return
		}
	}
	// writes to a local counter, with the arm they sit in
	type write struct {
		st   ast.Stmt
		op   token.Token
		rhs  ast.Expr
		role string
	}
	armOf := func(n ast.Node) string {
		for r, a := range arms {
			if a.cc.Pos() <= n.Pos() && n.End() <= a.cc.End() {
				return r
			}
		}
		return ""
	}
	writesTo := func(o types.Object) []write {
		var ws []write
		ast.Inspect(fn.Body, func(n ast.Node) bool {
			switch x := n.(type) {
			case *ast.AssignStmt:
				for i, l := range x.Lhs {
					if id, ok := l.(*ast.Ident); ok && pk.Info.Uses[id] == o && x.Tok != token.DEFINE {
						var rhs ast.Expr
						if i < len(x.Rhs) {
							rhs = x.Rhs[i]
						}
						ws = append(ws, write{x, x.Tok, rhs, armOf(x)})
					}
				}
			case *ast.IncDecStmt:
				if id, ok := x.X.(*ast.Ident); ok && pk.Info.Uses[id] == o {
					ws = append(ws, write{x, x.Tok, nil, armOf(x)})
				}
			}
			return true
		})
		return ws
	}
	counterIn := func(a arm, tok token.Token, field string) (types.Object, *ast.AssignStmt) {
		var obj types.Object
		var at *ast.AssignStmt
		for _, st := range a.cc.Body {
			ast.Inspect(st, func(n ast.Node) bool {
				as, ok := n.(*ast.AssignStmt)
				if !ok || as.Tok != tok || len(as.Lhs) != 1 {
					return true
				}
				id, ok := as.Lhs[0].(*ast.Ident)
				if !ok {
					return true
				}
				if field != "" {
					sel, ok := ast.Unparen(as.Rhs[0]).(*ast.SelectorExpr)
					if !ok || expr(sel.X) != a.val || pr.fieldQName(pk.FieldOf(sel)) != field {
						return true
					}
				}
				if obj == nil {
					obj, at = pk.Info.Uses[id], as
				}
				return true
			})
		}
		return obj, at
	}
	// --- need
	needObj, needAdd := counterIn(arms["request"], token.ADD_ASSIGN, "exec.scheduleRequest.procs")
	if needObj == nil {
		c.Fail(fq+"|demand-counted-on-request", pr.Pos(arms["request"].cc.Pos()), "the arm that accepts a scheduling request no longer adds the request's procs to the demand counter: the cluster is never grown for it")
		return
	}
	needV := needObj.Name()
	queued := false
	for _, k := range callsIn2(arms["request"].cc.Body) {
		if pk.CalleeName(k) == "container/heap.Push" && len(k.Args) == 2 && expr(k.Args[1]) == arms["request"].val {
			queued = true
		}
	}
	c.Check(queued, fq+"|demand-counted-on-request", pr.Pos(needAdd.Pos()), "the request whose procs are added to the demand counter is not queued in the same arm")
	ws := writesTo(needObj)
	byRole := map[string][]write{}
	for _, w := range ws {
		byRole[w.role] = append(byRole[w.role], w)
	}
	subOf := func(role, field string) bool {
		l := byRole[role]
		if len(l) != 1 || l[0].op != token.SUB_ASSIGN {
			return false
		}
		sel, ok := ast.Unparen(l[0].rhs).(*ast.SelectorExpr)
		return ok && expr(sel.X) == arms[role].val && pr.fieldQName(pk.FieldOf(sel)) == field
	}
	// ... on every path through the done arm (a task that ends on a lost machine
	// also returns its demand)
	if l := byRole["done"]; len(l) == 1 {
		fl0 := pr.Flow(fn)
		cc := arms["done"].cc
		first, okF := Loc{}, false
		var firstPos token.Pos
		for _, b := range fl0.G.Blocks {
			if !b.Live {
				continue
			}
			for i, nd := range b.Nodes {
				if len(cc.Body) > 0 && nd.Pos() >= cc.Body[0].Pos() && nd.Pos() < cc.End() && (!okF || nd.Pos() < firstPos) {
					first, okF, firstPos = Loc{b, i}, true, nd.Pos()
				}
			}
		}
		always := okF
		var tr []string
		if okF {
			fl0.Walk(first, "", nil, Visitor{NoFacts: true,
				Node: func(n ast.Node, x string, s *Step) (string, bool) {
					if n.Pos() < cc.Pos() || n.Pos() >= cc.End() {
						if x != "sub" {
							always = false
							tr = s.Trail()
						}
						return x, true
					}
					if n == ast.Node(l[0].st) {
						return "sub", false
					}
					return x, false
				},
				Exit: func(kind ExitKind, ret *ast.ReturnStmt, x string, s *Step) {
					if kind != ExitPanic && x != "sub" {
						always = false
						tr = s.Trail()
					}
				}})
		}
		c.Check(always, fq+"|demand-released-on-every-done", pr.Pos(l[0].st.Pos()),
			"the done arm can be left without subtracting the returned procs from the demand counter (e.g. for a task that ends on a machine already marked lost): that demand stays counted forever, and the manager later starts machines for work that no longer exists", tr...)
	}
	c.Check(subOf("done", "exec.machineDone.procs"), fq+"|demand-released-on-done", pr.Pos(arms["done"].cc.Pos()),
		"the done arm does not subtract the returned procs from the demand counter exactly once: finished tasks keep counting as demand and machines are started (or kept being replaced) for work that no longer exists")
	c.Check(subOf("cancel", "exec.scheduleRequest.procs"), fq+"|demand-released-on-cancel", pr.Pos(arms["cancel"].cc.Pos()),
		"the cancel arm does not subtract the cancelled request's procs from the demand counter exactly once")
	c.Check(len(ws) == 3 && len(byRole["request"]) == 1, fq+"|demand-written-only-by-its-events", pr.Pos(fn.Body.Pos()),
		fmt.Sprintf("the demand counter %s is written at %d places (expected: += on request, -= on done, -= on cancel)", needV, len(ws)))
	// cancel: only a request that is still queued is subtracted (a served one is
	// subtracted when its task is done)
	if l := byRole["cancel"]; len(l) == 1 {
		fl := pr.Flow(fn)
		loc, ok := fl.LocOf(l[0].st)
		guard := false
		if ok {
			reached := false
			guard = true
			val := arms["cancel"].val
			fl.Walk(fl.Entry(), "", nil, Visitor{
				Node: func(n ast.Node, x string, s *Step) (string, bool) {
					if s.Block == loc.B && s.Idx == loc.I {
						reached = true
						okPath := false
						for _, f := range s.Facts {
							k := stripAt(f.key)
							if (k == val+".index<0" && f.eq && f.val == "false") || (k == val+".index>=0" && f.eq && f.val == "true") {
								okPath = true
							}
						}
						if !okPath {
							guard = false
						}
						return x, true
					}
					return x, false
				}})
			guard = guard && reached
		}
		c.Check(guard, fq+"|cancel-of-served-request-not-subtracted", pr.Pos(l[0].st.Pos()),
			"the cancel arm subtracts a request's procs without having established that it is still queued (index >= 0): a request that was already granted is subtracted twice (again when its task is done), demand goes low and queued work waits for machines that are never started")
	}
	// --- pending
	pendObj, pendSub := counterIn(arms["started"], token.SUB_ASSIGN, "")
	if pendObj == nil {
		c.Fail(fq+"|pending-released-on-start-result", pr.Pos(arms["started"].cc.Pos()), "the arm that receives a batch of started machines no longer subtracts it from the pending counter: started capacity counts twice and the cluster stops short of demand")
		return
	}
	pendV := pendObj.Name()
	rv := arms["started"].val
	machprocs := "$recv.machprocs"
	wantSub := lin{mulTerm(machprocs, "len("+rv+".machines)"): 1, mulTerm(machprocs, rv+".nFailures"): 1}
	gotSub := le.norm(pendSub.Rhs[0], 0)
	c.Check(gotSub.String() == wantSub.String(), fq+"|pending-released-on-start-result", pr.Pos(pendSub.Pos()),
		"the pending counter is reduced by "+gotSub.String()+" when a start batch reports back; the batch was booked as machprocs × (started + failed) = "+wantSub.String()+": the difference stays pending forever (cluster stops short of demand) or goes negative (more machines are started than justified)")
	// the single += and the start it books
	pws := writesTo(pendObj)
	var book *ast.AssignStmt
	for _, w := range pws {
		if w.op == token.ADD_ASSIGN {
			book, _ = w.st.(*ast.AssignStmt)
		}
	}
	c.Check(len(pws) == 2 && book != nil, fq+"|pending-written-only-by-its-events", pr.Pos(fn.Body.Pos()),
		fmt.Sprintf("the pending counter %s is written at %d places (expected: += when machines are requested, -= when the batch reports back)", pendV, len(pws)))
	// --- the start
	var start *ast.CallExpr
	var startLit *Func
	var walk func(f *Func)
	walk = func(f *Func) {
		for _, k := range callsIn(f.Body) {
			if f.Pkg.CalleeName(k) == "exec.startMachines" {
				start, startLit = k, f
			}
		}
		for _, l := range f.Lits {
			walk(l)
		}
	}
	walk(fn)
	if start == nil || book == nil {
		c.Fail(fq+"|starts-machines", pr.Pos(fn.Body.Pos()), "the manager no longer starts machines (startMachines) or no longer books them as pending")
		return
	}
	// count parameter of startMachines: the int after the per-machine procs
	sig, _ := pk.Info.Types[start.Fun].Type.(*types.Signature)
	cntIdx := -1
	if sig != nil {
		for i := 0; i < sig.Params().Len(); i++ {
			if sig.Params().At(i).Name() == "n" || (cntIdx < 0 && i > 0 && typeString(sig.Params().At(i).Type()) == "int" && typeString(sig.Params().At(i-1).Type()) == "int") {
				cntIdx = i
			}
		}
	}
	if cntIdx < 0 || cntIdx >= len(start.Args) {
		c.Undecide("%s: cannot identify the machine-count argument of startMachines", fq)
		return
	}
	cntExpr := start.Args[cntIdx]
	cnt := le.norm(cntExpr, 0)
	// booked = count × machprocs
	booked := le.norm(book.Rhs[0], 0)
	wantBooked := lin{}
	for t, k := range cnt {
		wantBooked[mulTerm(t, machprocs)] = k
	}
	c.Check(booked.String() == wantBooked.String(), fq+"|pending-books-what-is-started", pr.Pos(book.Pos()),
		"the pending counter is increased by "+booked.String()+" but "+cnt.String()+" machines of machprocs procs are started: the books and the starts disagree, so later decisions start too many or too few machines")
	// the batch reports failures = requested - started
	repOK := false
	if startLit != nil {
		startedV := ""
		ast.Inspect(startLit.Body, func(n ast.Node) bool {
			if a, ok := n.(*ast.AssignStmt); ok && len(a.Rhs) == 1 && ast.Unparen(a.Rhs[0]) == ast.Expr(start) {
				startedV = expr(a.Lhs[0])
			}
			return true
		})
		ast.Inspect(startLit.Body, func(n ast.Node) bool {
			cl, ok := n.(*ast.CompositeLit)
			if !ok {
				return true
			}
			if tv := pk.Info.Types[cl]; tv.Type == nil || typeString(tv.Type) != "exec.startResult" {
				return true
			}
			var mach, nf ast.Expr
			for _, el := range cl.Elts {
				if kv, ok := el.(*ast.KeyValueExpr); ok {
					switch expr(kv.Key) {
					case "machines":
						mach = kv.Value
					case "nFailures":
						nf = kv.Value
					}
				}
			}
			if mach != nil && nf != nil && expr(mach) == startedV && startedV != "" {
				got := le.norm(nf, 0)
				want := lin{}
				want.addScaled(cnt, 1)
				want["len("+startedV+")"] -= 1
				if got.String() == want.String() {
					repOK = true
				}
			}
			return true
		})
	}
	c.Check(repOK, fq+"|start-batch-reports-started-plus-failed", pr.Pos(start.Pos()),
		"the result of a start batch no longer carries the machines that came up together with the count of those that did not (requested − started): the pending counter cannot be settled")
	// --- the count: ceil(P / machprocs), possibly capped by a constant
	var P lin
	var findP func(e ast.Expr, depth int) bool
	findP = func(e ast.Expr, depth int) bool {
		e = ast.Unparen(e)
		if depth > 8 {
			return false
		}
		switch x := e.(type) {
		case *ast.Ident:
			if d, ok := le.defs[pk.Info.Uses[x]]; ok {
				return findP(d, depth+1)
			}
		case *ast.CallExpr:
			if id, ok := x.Fun.(*ast.Ident); ok && id.Name == "min" && le.isMinMax(x, "min") {
				for _, a := range x.Args {
					if findP(a, depth+1) {
						return true
					}
				}
			}
		case *ast.BinaryExpr:
			if x.Op == token.QUO && le.norm(x.Y, 0).String() == (lin{machprocs: 1}).String() {
				num := le.norm(x.X, 0)
				// numerator = P + machprocs - 1
				num[machprocs] -= 1
				num[""] += 1
				P = num
				return true
			}
		}
		return false
	}
	if !findP(cntExpr, 0) {
		c.Fail(fq+"|start-count-is-shortfall-rounded-up", pr.Pos(cntExpr.Pos()),
			"the number of machines to start ("+cnt.String()+") is not the proc shortfall divided by the procs per machine, rounded up ((P+machprocs-1)/machprocs, optionally capped by min with a batch limit)")
		return
	}
	c.Pass(fq+"|start-count-is-shortfall-rounded-up", pr.Pos(cntExpr.Pos()), "P = "+P.String())
	// P = min(need, maxp) - have - pending, have = (len(machQ)+len(probation))*machprocs
	var pos, neg []string
	for t, k := range P {
		switch {
		case k == 0:
		case k > 0:
			pos = append(pos, fmt.Sprintf("%d*%s", k, t))
		default:
			neg = append(neg, t)
		}
	}
	capTerm := "min(" + strings.Join(sortedStrs("+1*"+needV, "+1*$recv.maxp"), ",") + ")"
	c.Check(len(pos) == 1 && pos[0] == "1*"+capTerm, fq+"|starts-capped-by-demand-and-parallelism-limit", pr.Pos(cntExpr.Pos()),
		"the proc shortfall that machines are started for is "+P.String()+": its positive part is not min(demand, parallelism limit) = "+capTerm+", so after capacity drops with a backlog queued (or whenever demand exceeds the limit) more machines are started than the limit allows, or fewer than demand needs")
	// queues counted as present capacity
	mq, pq := "", ""
	ast.Inspect(fn.Body, func(n ast.Node) bool {
		if vs, ok := n.(*ast.ValueSpec); ok && vs.Type != nil {
			for _, nm := range vs.Names {
				switch typeString(pk.Info.Defs[nm].Type()) {
				case "exec.machineQ":
					mq = nm.Name
				case "exec.machineFailureQ":
					pq = nm.Name
				}
			}
		}
		return true
	})
	has := func(t string) bool {
		return P[t] == -1
	}
	c.Check(mq != "" && has(mulTerm("len("+mq+")", machprocs)), fq+"|shortfall-less-healthy-machines", pr.Pos(cntExpr.Pos()),
		"the shortfall "+P.String()+" does not subtract the procs of the machines in the machine queue: capacity that is already there is started again")
	c.Check(pq != "" && has(mulTerm("len("+pq+")", machprocs)), fq+"|shortfall-less-probation-machines", pr.Pos(cntExpr.Pos()),
		"the shortfall "+P.String()+" does not subtract the procs of machines on probation: every machine that goes on probation is replaced at once although it still counts against the parallelism limit when it returns")
	c.Check(has(pendV), fq+"|shortfall-less-pending", pr.Pos(cntExpr.Pos()),
		"the shortfall "+P.String()+" does not subtract the procs of machines that are already being started: every pass of the loop starts the same machines again until the first batch reports back")
	// --- the guard: started only when there is a positive shortfall against both bounds
	var guardIf *ast.IfStmt
	for _, p := range pathTo(fn.Body, book) {
		if ifs, ok := p.(*ast.IfStmt); ok {
			guardIf = ifs
		}
	}
	gOK := false
	if guardIf != nil {
		leG := le
		// `have` may be bound by the if's init statement
		if as, ok := guardIf.Init.(*ast.AssignStmt); ok && as.Tok == token.DEFINE && len(as.Lhs) == len(as.Rhs) {
			for i, l := range as.Lhs {
				if id, ok := l.(*ast.Ident); ok {
					if o := pk.Info.Defs[id]; o != nil {
						leG.defs[o] = as.Rhs[i]
					}
				}
			}
		}
		var conj []ast.Expr
		var split func(e ast.Expr)
		split = func(e ast.Expr) {
			e = ast.Unparen(e)
			if be, ok := e.(*ast.BinaryExpr); ok && be.Op == token.LAND {
				split(be.X)
				split(be.Y)
				return
			}
			conj = append(conj, e)
		}
		split(guardIf.Cond)
		have := lin{mulTerm("len("+mq+")", machprocs): 1, mulTerm("len("+pq+")", machprocs): 1, pendV: 1}
		wantN, wantM := lin{}, lin{}
		wantN.addScaled(have, 1)
		wantN[needV] -= 1
		wantM.addScaled(have, 1)
		wantM["$recv.maxp"] -= 1
		seenN, seenM := false, false
		for _, e := range conj {
			be, ok := e.(*ast.BinaryExpr)
			if !ok {
				continue
			}
			d := lin{}
			switch be.Op {
			case token.LSS:
				d.addScaled(leG.norm(be.X, 0), 1)
				d.addScaled(leG.norm(be.Y, 0), -1)
			case token.GTR:
				d.addScaled(leG.norm(be.Y, 0), 1)
				d.addScaled(leG.norm(be.X, 0), -1)
			default:
				continue
			}
			if d.String() == wantN.String() {
				seenN = true
			}
			if d.String() == wantM.String() {
				seenM = true
			}
		}
		gOK = seenN && seenM
	}
	c.Check(gOK, fq+"|starts-only-below-demand-and-limit", pr.Pos(book.Pos()),
		"machines are started (and booked as pending) without the loop having established that present plus pending capacity is below demand and below the parallelism limit: the shortfall can be zero or negative, or the limit is exceeded")
}

func sortedStrs(s ...string) []string {
	sort.Strings(s)
	return s
}

// callsIn2: calls in a statement list (not descending into function literals).
func callsIn2(list []ast.Stmt) []*ast.CallExpr {
	var out []*ast.CallExpr
	for _, st := range list {
		out = append(out, callsIn(st)...)
	}
	return out
}

// C14-R9: the indexed heaps are kept consistent.
//
// The manager removes and repairs queue entries by the position stored in
// each entry (heap.Remove(&q, x.index), heap.Fix(&q, x.index)) and tells a
// still-queued request from a served one by index >= 0.  That needs (a) every
// container/heap implementation over elements with an `index` field to keep
// the field equal to the position: Swap swaps the elements and then assigns
// both indices, Push records the old length before appending, Pop marks the
// removed element -1 and shrinks by one; and (b) a machine's load — the key
// of machQ's order — to be changed only where a heap operation on that
// machine follows on every path on which the machine stays queued.
func c14r9(c *RC) {
	pr := c.P
	pk := pr.Pkgs["exec"]
	if pk == nil {
		c.Undecide("exec not loaded")
		return
	}
	// element types with an int field named index, and the named slice types over them
	type hq struct {
		name string
		elem string
	}
	var heaps []hq
	for _, nm := range pk.Types.Scope().Names() {
		tn, ok := pk.Types.Scope().Lookup(nm).(*types.TypeName)
		if !ok {
			continue
		}
		sl, ok := tn.Type().Underlying().(*types.Slice)
		if !ok {
			continue
		}
		ptr, ok := sl.Elem().(*types.Pointer)
		if !ok {
			continue
		}
		st, ok := ptr.Elem().Underlying().(*types.Struct)
		if !ok {
			continue
		}
		has := false
		for i := 0; i < st.NumFields(); i++ {
			if st.Field(i).Name() == "index" {
				has = true
			}
		}
		if has && pr.Fn("exec.("+"*"+nm+").Push") != nil {
			heaps = append(heaps, hq{nm, typeString(ptr.Elem())})
		}
	}
	c.Floor("indexed heap types", len(heaps), 3)
	for _, h := range heaps {
		// Swap
		if fn := pr.Fn("exec." + h.name + ".Swap"); fn != nil {
			r := recvOf(fn)
			i, j := paramNames(fn)
			swapAt, idxAt := -1, map[string]int{}
			for si, st := range fn.Body.List {
				a, ok := st.(*ast.AssignStmt)
				if !ok {
					continue
				}
				l := strings.ReplaceAll(nodeListStr(a.Lhs), " ", "")
				rr := strings.ReplaceAll(nodeListStr(a.Rhs), " ", "")
				if l == r+"["+i+"],"+r+"["+j+"]" && rr == r+"["+j+"],"+r+"["+i+"]" {
					swapAt = si
				}
				for k, lh := range a.Lhs {
					if k < len(a.Rhs) {
						lt, rt := strings.ReplaceAll(expr(lh), " ", ""), strings.ReplaceAll(expr(a.Rhs[k]), " ", "")
						if lt == r+"["+i+"].index" && rt == i {
							idxAt[i] = si
						}
						if lt == r+"["+j+"].index" && rt == j {
							idxAt[j] = si
						}
					}
				}
			}
			_, okI := idxAt[i]
			_, okJ := idxAt[j]
			c.Check(swapAt >= 0 && okI && okJ && idxAt[i] > swapAt && idxAt[j] > swapAt, fn.QName()+"|positions-follow-the-swap", pr.Pos(fn.Body.Pos()),
				"Swap does not exchange the two elements and then record their new positions in both index fields: heap.Fix/heap.Remove by stored index then repair or remove the wrong entry — a different machine or request than intended leaves the queue")
		} else {
			c.Fail("exec."+h.name+".Swap|exists", "exec/slicemachine.go", "heap type "+h.name+" has no Swap")
		}
		// Push
		if fn := pr.Fn("exec.(*" + h.name + ").Push"); fn != nil {
			r := recvOf(fn)
			le := newLinEnv(pr, fn)
			rec, app := -1, -1
			for si, st := range fn.Body.List {
				a, ok := st.(*ast.AssignStmt)
				if !ok || len(a.Lhs) != 1 || len(a.Rhs) != 1 {
					continue
				}
				if sel, ok := a.Lhs[0].(*ast.SelectorExpr); ok && sel.Sel.Name == "index" {
					if le.norm(a.Rhs[0], 0).String() == (lin{"len(*$recv)": 1}).String() {
						rec = si
					}
				}
				if k, ok := a.Rhs[0].(*ast.CallExpr); ok && expr(k.Fun) == "append" && strings.ReplaceAll(expr(a.Lhs[0]), " ", "") == "*"+r {
					app = si
				}
			}
			c.Check(rec >= 0 && app >= 0, fn.QName()+"|records-position", pr.Pos(fn.Body.Pos()),
				"Push does not record the new element's position (the length before appending) in its index field and append it")
		}
		// Pop
		if fn := pr.Fn("exec.(*" + h.name + ").Pop"); fn != nil {
			mark, shrink := false, false
			le := newLinEnv(pr, fn)
			ast.Inspect(fn.Body, func(n ast.Node) bool {
				a, ok := n.(*ast.AssignStmt)
				if !ok || len(a.Lhs) != 1 || len(a.Rhs) != 1 {
					return true
				}
				if sel, ok := a.Lhs[0].(*ast.SelectorExpr); ok && sel.Sel.Name == "index" {
					if v, isC := constInt(fn.Pkg, a.Rhs[0]); isC && v == -1 {
						mark = true
					}
				}
				if sl, ok := ast.Unparen(a.Rhs[0]).(*ast.SliceExpr); ok && sl.High != nil {
					hi := le.norm(sl.High, 0)
					// len(old) - 1, whatever the spelling
					okHi := false
					for t, k := range hi {
						if strings.HasPrefix(t, "len(") && k == 1 && hi[""] == -1 && len(nonZero(hi)) == 2 {
							okHi = true
						}
					}
					if okHi && (sl.Low == nil || expr(sl.Low) == "0") {
						shrink = true
					}
				}
				return true
			})
			c.Check(mark && shrink, fn.QName()+"|marks-removed-and-shrinks-by-one", pr.Pos(fn.Body.Pos()),
				"Pop does not mark the removed element with index -1 and shrink the queue by exactly its last element: a served request still looks queued (its cancellation is subtracted from demand a second time) or an entry is lost")
		}
	}
	// (b) load changes are followed by a heap operation on that machine
	if fn := pr.Fn("exec.(*machineManager).Do"); fn != nil {
		fl := pr.Flow(fn)
		n := 0
		for _, b := range fl.G.Blocks {
			if !b.Live {
				continue
			}
			for i, nd := range b.Nodes {
				a, ok := nd.(*ast.AssignStmt)
				if !ok || len(a.Lhs) != 1 || (a.Tok != token.ADD_ASSIGN && a.Tok != token.SUB_ASSIGN) {
					continue
				}
				sel, ok := a.Lhs[0].(*ast.SelectorExpr)
				if !ok || pr.fieldQName(fn.Pkg.FieldOf(sel)) != "exec.sliceMachine.taskProcs" {
					continue
				}
				n++
				mach := expr(sel.X)
				// the enclosing select arm bounds the search
				var arm *ast.CommClause
				for _, p := range pathTo(fn.Body, a) {
					if cc, ok := p.(*ast.CommClause); ok {
						arm = cc
					}
				}
				bad := ""
				var trail []string
				fl.Walk(Loc{b, i + 1}, "", nil, Visitor{
					Node: func(m ast.Node, x string, s *Step) (string, bool) {
						if arm != nil && (m.Pos() < arm.Pos() || m.Pos() >= arm.End()) {
							// left the arm without a heap operation: fine only if the machine is known lost
							lost := false
							for _, f := range s.Facts {
								if strings.HasSuffix(stripAt(f.key), ".health") && f.eq && f.val == "machineLost" {
									lost = true
								}
							}
							if !lost {
								bad = "the arm ends"
								trail = s.Trail()
							}
							return x, true
						}
						found := false
						for _, k := range callsIn(m) {
							switch fn.Pkg.CalleeName(k) {
							case "container/heap.Fix", "container/heap.Remove", "container/heap.Push":
								for _, arg := range k.Args[1:] {
									if strings.HasPrefix(expr(arg), mach+".") || expr(arg) == mach {
										found = true
									}
								}
							}
						}
						if found {
							return x, true
						}
						return x, false
					},
					Exit: func(kind ExitKind, ret *ast.ReturnStmt, x string, s *Step) {}})
				c.Check(bad == "", fmt.Sprintf("%s|load-change#%d-followed-by-heap-repair", fn.QName(), n), pr.Pos(a.Pos()),
					"the load of "+mach+" (the key of the machine queue's order) is changed and "+bad+" without a heap.Fix/Remove/Push for that machine: the queue's order is stale, schedule() looks at a machine that is not the least loaded and leaves a request that fits on another machine waiting", trail...)
			}
		}
		c.Floor("load changes in Do", n, 2)
	}
}

func nonZero(l lin) []string {
	var out []string
	for t, k := range l {
		if k != 0 {
			out = append(out, t)
		}
	}
	return out
}

func nodeListStr(es []ast.Expr) string {
	var parts []string
	for _, e := range es {
		parts = append(parts, expr(e))
	}
	return strings.Join(parts, ",")
}

// c15retryBudget (part of C15-R5): every failed attempt is charged to the retry
// budget before the reader waits and tries again: the counter handed to
// retry.Wait is incremented on the path from a failed read to that call, and
// the reader that failed is closed and forgotten so that the next attempt
// re-opens at the delivered offset.
func c15retryBudget(c *RC) {
	pr := c.P
	fn := c.MustFn("exec.(*retryReader).Read")
	if fn == nil {
		return
	}
	fq := fn.QName()
	var wait *ast.CallExpr
	for _, k := range callsIn(fn.Body) {
		if strings.HasSuffix(fn.Pkg.CalleeName(k), "retry.Wait") && len(k.Args) == 3 {
			wait = k
		}
	}
	if wait == nil {
		c.Fail(fq+"|failed-attempts-are-charged", pr.Pos(fn.Body.Pos()), "the retrying reader no longer waits under a retry policy between attempts: a failing stream is retried without bound or delay")
		return
	}
	cnt := canon(fn, wait.Args[2])
	fl := pr.Flow(fn)
	loc, ok := fl.LocOf(wait)
	if !ok {
		c.Undecide("%s: retry.Wait not in the flow graph", fq)
		return
	}
	charged, tr := fl.Dominated(loc, func(n ast.Node, s *Step) bool {
		switch x := n.(type) {
		case *ast.IncDecStmt:
			return x.Tok == token.INC && canon(fn, x.X) == cnt
		case *ast.AssignStmt:
			if len(x.Lhs) == 1 && canon(fn, x.Lhs[0]) == cnt && x.Tok == token.ADD_ASSIGN {
				v, isC := constInt(fn.Pkg, x.Rhs[0])
				return isC && v >= 1
			}
		}
		return false
	})
	// the increment must lie after the failed read in the same iteration: it must not be the
	// reset on success; require an increment (not merely any write)
	c.Check(charged, fq+"|failed-attempts-are-charged", pr.Pos(wait.Pos()),
		"retry.Wait is reached without the attempt counter "+cnt+" having been incremented: the retry budget is never used up, so a stream that keeps failing is retried forever instead of failing with an error once the budget is exhausted", tr...)
	forgets, tr2 := fl.Dominated(loc, func(n ast.Node, s *Step) bool {
		// r.reader = nil (possibly inside `if r.reader != nil {...}`): accept the enclosing if's condition node too
		if a, ok := n.(*ast.AssignStmt); ok && len(a.Lhs) == 1 && canon(fn, a.Lhs[0]) == "$recv.reader" && expr(a.Rhs[0]) == "nil" {
			return true
		}
		if x, nn, ok := func() (string, bool, bool) {
			if e, isE := n.(ast.Expr); isE {
				return nilTest(e)
			}
			return "", false, false
		}(); ok && canonText(fn, x) == "$recv.reader" && nn {
			return true
		}
		return false
	})
	c.Check(forgets, fq+"|failed-stream-is-reopened", pr.Pos(wait.Pos()),
		"the reader that failed is not dropped before the next attempt: the retry reads on from a broken stream instead of re-opening at the delivered offset", tr2...)
}
