package main

// C09-R10: polarity and row indices of the combining frame's tests.
//
// The older C09 rules establish that the hash table's pieces exist (probe
// start/step, arms, growth).  This rule pins down which way each test points
// and which rows it addresses, independently of how the condition is spelled:
// conditions are *evaluated* as boolean functions of their atoms (so `a == 0`,
// `!(a != 0)` and `0 == a` are the same test, and a negated one is not), and
// row indices are compared as linear forms (so `c.cap+i` is `i + c.cap` but
// not `c.cap-i`).

import (
	"fmt"
	"go/ast"
	"go/token"
	"strings"
)

// evalCond evaluates a boolean expression given a valuation of its leaves.
// atom returns (value, known) for a leaf (any expression that is not !, &&,
// || or parentheses).
func evalCond(e ast.Expr, atom func(ast.Expr) (bool, bool)) (bool, bool) {
	e = ast.Unparen(e)
	switch x := e.(type) {
	case *ast.UnaryExpr:
		if x.Op == token.NOT {
			v, ok := evalCond(x.X, atom)
			return !v, ok
		}
	case *ast.BinaryExpr:
		switch x.Op {
		case token.LAND:
			a, ok1 := evalCond(x.X, atom)
			b, ok2 := evalCond(x.Y, atom)
			return a && b, ok1 && ok2
		case token.LOR:
			a, ok1 := evalCond(x.X, atom)
			b, ok2 := evalCond(x.Y, atom)
			return a || b, ok1 && ok2
		}
	}
	return atom(e)
}

// cmpAtom interprets a comparison leaf `L op R` about one integer quantity Q
// (given as a linear form) against a constant: it returns the truth of the
// leaf when Q == k is `isK`.  Supported: Q == k, Q != k, and for k == 0 with a
// non-negative Q also Q > 0, Q >= 1, Q < 1, Q <= 0 (either operand order).
func cmpAtomZero(le *linEnv, e ast.Expr, q string, isZero bool) (bool, bool) {
	be, ok := ast.Unparen(e).(*ast.BinaryExpr)
	if !ok {
		return false, false
	}
	l, r := le.norm(be.X, 0), le.norm(be.Y, 0)
	op := be.Op
	qq := (lin{q: 1}).String()
	var k lin
	switch {
	case l.String() == qq:
		k = r
	case r.String() == qq:
		k = l
		switch op { // mirror
		case token.LSS:
			op = token.GTR
		case token.GTR:
			op = token.LSS
		case token.LEQ:
			op = token.GEQ
		case token.GEQ:
			op = token.LEQ
		}
	default:
		return false, false
	}
	kv, isConst := 0, true
	for t, c := range k {
		if t != "" && c != 0 {
			isConst = false
		}
		if t == "" {
			kv = c
		}
	}
	if !isConst {
		return false, false
	}
	switch {
	case op == token.EQL && kv == 0:
		return isZero, true
	case op == token.NEQ && kv == 0:
		return !isZero, true
	case op == token.GTR && kv == 0, op == token.GEQ && kv == 1:
		return !isZero, true
	case op == token.LSS && kv == 1, op == token.LEQ && kv == 0:
		return isZero, true
	}
	return false, false
}

// thenBranchIff reports whether `if cond` takes its then-branch exactly when
// the quantity q is zero (want=true) / non-zero (want=false).
func thenBranchIffZero(le *linEnv, cond ast.Expr, q string) (bool, string) {
	for _, z := range []bool{true, false} {
		v, ok := evalCond(cond, func(e ast.Expr) (bool, bool) { return cmpAtomZero(le, e, q, z) })
		if !ok {
			return false, "the condition is not a test of " + q + " against zero"
		}
		if v != z {
			return false, fmt.Sprintf("the branch is taken when %s is %s", q, map[bool]string{true: "non-zero", false: "zero"}[z])
		}
	}
	return true, ""
}

// c09KeysEqualArm evaluates cond as a boolean function of data.Less(slot,row)
// and data.Less(row,slot): it must be true exactly when both are false.
func c09KeysEqualArm(fn *Func, le *linEnv, cond ast.Expr, slot, incoming lin) (bool, string) {
	okEq, why := true, ""
	for _, va := range []bool{false, true} {
		for _, vb := range []bool{false, true} {
			v, known := evalCond(cond, func(e ast.Expr) (bool, bool) {
				k, ok := ast.Unparen(e).(*ast.CallExpr)
				if !ok || fn.Pkg.CalleeName(k) != "frame.Frame.Less" || len(k.Args) != 2 || !strings.HasSuffix(expr(k.Fun), ".data.Less") {
					return false, false
				}
				a, b := le.norm(k.Args[0], 0).String(), le.norm(k.Args[1], 0).String()
				switch {
				case a == slot.String() && b == incoming.String():
					return va, true
				case b == slot.String() && a == incoming.String():
					return vb, true
				}
				return false, false
			})
			if !known {
				okEq, why = false, "the condition is not a boolean combination of data.Less(idx, cap+i) and data.Less(cap+i, idx)"
			} else if v != (!va && !vb) {
				okEq, why = false, fmt.Sprintf("it is %v when Less(slot,row)=%v and Less(row,slot)=%v", v, va, vb)
			}
		}
	}
	return okEq, why
}

// c09ProbeChain returns the if/else-if chain of fn's probe loop, the slot
// index variable (the index of the hits access in its first condition) and
// the variable of the enclosing loop over rows.
func c09ProbeChain(fn *Func) (chain *ast.IfStmt, idx string) {
	_, _, _, _, loop := probeShape(fn)
	if loop == nil {
		return nil, ""
	}
	for _, st := range loop.Body.List {
		if ifs, ok := st.(*ast.IfStmt); ok {
			chain = ifs
		}
	}
	if chain == nil {
		return nil, ""
	}
	ast.Inspect(chain.Cond, func(n ast.Node) bool {
		if ix, ok := n.(*ast.IndexExpr); ok && strings.HasSuffix(expr(ix.X), ".hits") {
			idx = expr(ix.Index)
		}
		return true
	})
	return chain, idx
}

// c09LenThresholdGuard: the early return of added() is taken exactly while
// len <= threshold.
func c09LenThresholdGuard(fn *Func, le *linEnv) (bool, string) {
	var guard *ast.IfStmt
	for _, st := range fn.Body.List {
		if ifs, ok := st.(*ast.IfStmt); ok && len(ifs.Body.List) == 1 {
			if _, isRet := ifs.Body.List[0].(*ast.ReturnStmt); isRet {
				guard = ifs
			}
		}
	}
	if guard == nil {
		return false, "no early return"
	}
	okG, whyG := true, ""
	for _, sign := range []int{-1, 0, 1} { // len - threshold
		v, known := evalCond(guard.Cond, func(e ast.Expr) (bool, bool) {
			be, ok := ast.Unparen(e).(*ast.BinaryExpr)
			if !ok {
				return false, false
			}
			d := lin{}
			d.addScaled(le.norm(be.X, 0), 1)
			d.addScaled(le.norm(be.Y, 0), -1)
			want := lin{"$recv.len": 1, "$recv.threshold": -1}
			neg := lin{"$recv.len": -1, "$recv.threshold": 1}
			s := sign
			switch d.String() {
			case want.String():
			case neg.String():
				s = -sign
			default:
				return false, false
			}
			switch be.Op {
			case token.LEQ:
				return s <= 0, true
			case token.LSS:
				return s < 0, true
			case token.GEQ:
				return s >= 0, true
			case token.GTR:
				return s > 0, true
			case token.EQL:
				return s == 0, true
			case token.NEQ:
				return s != 0, true
			}
			return false, false
		})
		if !known {
			okG, whyG = false, "the condition does not compare len with threshold"
		} else if v != (sign <= 0) {
			okG, whyG = false, fmt.Sprintf("it returns early=%v when len-threshold has sign %d", v, sign)
		}
	}
	return okG, whyG
}

// loopUpTo recognises `for i := 0; i < B; i++` (or `B > i`) and returns the
// loop variable and the bound.
func loopUpTo(fn *Func, f *ast.ForStmt) (string, ast.Expr, bool) {
	if f == nil || f.Init == nil || f.Cond == nil || f.Post == nil {
		return "", nil, false
	}
	in, ok1 := f.Init.(*ast.AssignStmt)
	be, ok2 := ast.Unparen(f.Cond).(*ast.BinaryExpr)
	post, ok3 := f.Post.(*ast.IncDecStmt)
	if !ok1 || !ok2 || !ok3 || len(in.Lhs) != 1 || len(in.Rhs) != 1 {
		return "", nil, false
	}
	iv := expr(in.Lhs[0])
	z, isC := constInt(fn.Pkg, in.Rhs[0])
	if !isC || z != 0 || post.Tok != token.INC || expr(post.X) != iv {
		return "", nil, false
	}
	switch {
	case be.Op == token.LSS && expr(be.X) == iv:
		return iv, be.Y, true
	case be.Op == token.GTR && expr(be.Y) == iv:
		return iv, be.X, true
	}
	return "", nil, false
}

func c09r10(c *RC) {
	pr := c.P
	comb := c.MustFn("exec.(*combiningFrame).combine")
	added := c.MustFn("exec.(*combiningFrame).added")
	compact := c.MustFn("exec.(*combiningFrame).Compact")
	if comb == nil || added == nil || compact == nil {
		return
	}
	// ---------------------------------------------------------------- combine
	{
		fn := comb
		fq := fn.QName()
		le := newLinEnv(pr, fn)
		nP := ""
		if fn.Type.Params != nil && len(fn.Type.Params.List) == 1 && len(fn.Type.Params.List[0].Names) == 1 {
			nP = fn.Type.Params.List[0].Names[0].Name
		}
		// outer loop over the n scratch rows
		var outer *ast.ForStmt
		for _, st := range fn.Body.List {
			if f, ok := st.(*ast.ForStmt); ok && f.Cond != nil {
				outer = f
			}
		}
		iv, boundE, okLoop := loopUpTo(fn, outer)
		if okLoop && expr(boundE) != nP {
			okLoop = false
		}
		c.Check(okLoop, fq+"|visits-exactly-the-n-new-rows", pr.Pos(fn.Body.Pos()),
			"combine does not visit scratch rows 0..n-1 exactly once each: a row beyond n (left over from an earlier chunk) is folded in again, or a new row is skipped")
		_, _, _, _, loop := probeShape(fn)
		var chain *ast.IfStmt
		if loop != nil {
			for _, st := range loop.Body.List {
				if ifs, ok := st.(*ast.IfStmt); ok {
					chain = ifs
				}
			}
		}
		if chain == nil || iv == "" {
			c.Undecide("%s: probe chain or loop variable not found", fq)
		} else {
			// the slot index variable: the index of the hits access in the first condition
			idx := ""
			ast.Inspect(chain.Cond, func(n ast.Node) bool {
				if ix, ok := n.(*ast.IndexExpr); ok && strings.HasSuffix(expr(ix.X), ".hits") {
					idx = expr(ix.Index)
				}
				return true
			})
			hitsQ := "$recv.hits[" + idx + "]"
			ok1, why1 := thenBranchIffZero(le, chain.Cond, hitsQ)
			c.Check(ok1, fq+"|insert-arm-iff-slot-empty", pr.Pos(chain.Pos()),
				"the insert arm of the probe is not taken exactly when the slot's hit count is zero ("+why1+"): occupied slots are overwritten (keys lost) or empty ones are treated as matches")
			// incoming row = cap + i
			incoming := lin{"$recv.cap": 1, iv: 1}
			slot := lin{idx: 1}
			moved := false
			for _, k := range callsIn(chain.Body) {
				if cn := fn.Pkg.CalleeName(k); cn == "frame.Frame.Swap" && len(k.Args) == 2 {
					a, b := le.norm(k.Args[0], 0).String(), le.norm(k.Args[1], 0).String()
					if (a == slot.String() && b == incoming.String()) || (b == slot.String() && a == incoming.String()) {
						moved = true
					}
				}
			}
			c.Check(moved, fq+"|insert-moves-scratch-row-i", pr.Pos(chain.Body.Pos()),
				"the insert arm does not exchange slot idx with data row cap+i (where scratch row i lives): another row's key and value are stored under this key's slot")
			// equality arm
			hit, _ := chain.Else.(*ast.IfStmt)
			if hit == nil {
				c.Fail(fq+"|combine-arm-iff-keys-equal", pr.Pos(chain.Pos()), "no combine arm")
			} else {
				okEq, why := c09KeysEqualArm(fn, le, hit.Cond, slot, incoming)
				c.Check(okEq, fq+"|combine-arm-iff-keys-equal", pr.Pos(hit.Pos()),
					"the combine arm is not taken exactly when the slot's key and the incoming row's key are equal (neither is less than the other): "+why+" — different keys are folded together, or equal keys get separate rows")
				// the incoming value is that of scratch row i (or data row cap+i)
				in2 := false
				ast.Inspect(hit.Body, func(n ast.Node) bool {
					a, ok := n.(*ast.AssignStmt)
					if !ok || len(a.Lhs) != 1 || len(a.Rhs) != 1 || !strings.HasSuffix(expr(a.Lhs[0]), "scratchCall[1]") {
						return true
					}
					k, ok := a.Rhs[0].(*ast.CallExpr)
					if !ok || fn.Pkg.CalleeName(k) != "frame.Frame.Index" || len(k.Args) != 2 {
						return true
					}
					row := le.norm(k.Args[1], 0).String()
					if strings.HasSuffix(expr(k.Fun), ".scratch.Index") && row == (lin{iv: 1}).String() {
						in2 = true
					}
					if strings.HasSuffix(expr(k.Fun), ".data.Index") && row == incoming.String() {
						in2 = true
					}
					return true
				})
				c.Check(in2, fq+"|combiner-sees-incoming-value", pr.Pos(hit.Body.Pos()),
					"the combiner's second operand is not the value of the incoming row (scratch row i): a stale value from an earlier row is folded in")
			}
		}
	}
	// ------------------------------------------------------------------ added
	{
		fn := added
		fq := fn.QName()
		le := newLinEnv(pr, fn)
		// len grows by one first
		first := false
		if len(fn.Body.List) > 0 {
			switch s := fn.Body.List[0].(type) {
			case *ast.IncDecStmt:
				first = s.Tok == token.INC && canon(fn, s.X) == "$recv.len"
			case *ast.AssignStmt:
				if len(s.Lhs) == 1 && len(s.Rhs) == 1 && canon(fn, s.Lhs[0]) == "$recv.len" {
					v, isC := constInt(fn.Pkg, s.Rhs[0])
					first = s.Tok == token.ADD_ASSIGN && isC && v == 1
				}
			}
		}
		c.Check(first, fq+"|counts-the-new-key", pr.Pos(fn.Body.Pos()),
			"added does not start by counting the new key (len += 1): the table never reaches its growth threshold, fills up, and the probe for the next new key never finds an empty slot")
		okG, whyG := c09LenThresholdGuard(fn, le)
		c.Check(okG, fq+"|grows-exactly-above-threshold", pr.Pos(fn.Body.Pos()),
			"added does not return early exactly while len <= threshold ("+whyG+"): the table grows on every insert, or is allowed to fill up")
		// rehash: skip empty old slots; destination arm iff empty; copies row i to slot idx with its hit count
		var rng *ast.RangeStmt
		ast.Inspect(fn.Body, func(n ast.Node) bool {
			if r, ok := n.(*ast.RangeStmt); ok {
				rng = r
			}
			return true
		})
		if rng == nil {
			c.Fail(fq+"|rehash-visits-occupied-slots", pr.Pos(fn.Body.Pos()), "no rehash loop over the old table")
		} else {
			old := expr(rng.X)
			i := expr(rng.Key)
			var skip *ast.IfStmt
			for _, st := range rng.Body.List {
				if ifs, ok := st.(*ast.IfStmt); ok && len(ifs.Body.List) == 1 {
					if b, isB := ifs.Body.List[0].(*ast.BranchStmt); isB && b.Tok == token.CONTINUE {
						skip = ifs
					}
				}
			}
			okS, whyS := skip != nil, "no skip of empty slots"
			if skip != nil {
				okS, whyS = thenBranchIffZero(le, skip.Cond, old+"["+i+"]")
			}
			c.Check(okS, fq+"|rehash-visits-occupied-slots", pr.Pos(rng.Pos()),
				"the rehash loop does not skip exactly the empty slots of the old table ("+whyS+"): occupied slots are dropped (their keys vanish from the result) or empty ones are copied as keys")
			_, _, _, _, l2 := probeShape(fn)
			var ch2 *ast.IfStmt
			if l2 != nil {
				for _, st := range l2.Body.List {
					if ifs, ok := st.(*ast.IfStmt); ok {
						ch2 = ifs
					}
				}
			}
			if ch2 == nil {
				c.Undecide("%s: rehash probe chain not found", fq)
			} else {
				idx := ""
				ast.Inspect(ch2.Cond, func(n ast.Node) bool {
					if ix, ok := n.(*ast.IndexExpr); ok && strings.HasSuffix(expr(ix.X), ".hits") {
						idx = expr(ix.Index)
					}
					return true
				})
				ok2, why2 := thenBranchIffZero(le, ch2.Cond, "$recv.hits["+idx+"]")
				c.Check(ok2, fq+"|rehash-places-in-empty-slot", pr.Pos(ch2.Pos()),
					"the rehash does not place a key exactly when the probed slot of the new table is empty ("+why2+")")
				// copies the hit count and the row
				cnt, row := false, false
				for _, st := range ch2.Body.List {
					switch x := st.(type) {
					case *ast.AssignStmt:
						if len(x.Lhs) == 1 && len(x.Rhs) == 1 && canon(fn, x.Lhs[0]) == "$recv.hits["+idx+"]" && expr(x.Rhs[0]) == old+"["+i+"]" {
							cnt = true
						}
					case *ast.ExprStmt:
						k, ok := x.X.(*ast.CallExpr)
						if !ok || fn.Pkg.CalleeName(k) != "frame.Copy" || len(k.Args) != 2 {
							continue
						}
						sl := func(e ast.Expr, lo string) bool {
							s, ok := ast.Unparen(e).(*ast.CallExpr)
							if !ok || fn.Pkg.CalleeName(s) != "frame.Frame.Slice" || len(s.Args) != 2 {
								return false
							}
							return le.norm(s.Args[0], 0).String() == (lin{lo: 1}).String() && le.norm(s.Args[1], 0).String() == (lin{lo: 1, "": 1}).String()
						}
						if sl(k.Args[0], idx) && sl(k.Args[1], i) {
							row = true
						}
					}
				}
				c.Check(cnt && row, fq+"|rehash-moves-row-and-count", pr.Pos(ch2.Body.Pos()),
					"the rehash does not copy exactly old row i into new slot idx (Slice(idx,idx+1) <- Slice(i,i+1)) together with its hit count: keys or their values are lost or duplicated when the table grows")
			}
		}
	}
	// ---------------------------------------------------------------- Compact
	{
		fn := compact
		fq := fn.QName()
		le := newLinEnv(pr, fn)
		var rng *ast.RangeStmt
		ast.Inspect(fn.Body, func(n ast.Node) bool {
			if r, ok := n.(*ast.RangeStmt); ok {
				rng = r
			}
			return true
		})
		if rng == nil {
			c.Fail(fq+"|keeps-occupied-slots", pr.Pos(fn.Body.Pos()), "Compact has no loop over the hit counts")
		} else {
			v := expr(rng.Value)
			var skip *ast.IfStmt
			for _, st := range rng.Body.List {
				if ifs, ok := st.(*ast.IfStmt); ok && len(ifs.Body.List) == 1 {
					if b, isB := ifs.Body.List[0].(*ast.BranchStmt); isB && b.Tok == token.CONTINUE {
						skip = ifs
					}
				}
			}
			okS, whyS := skip != nil, "no skip of empty slots"
			if skip != nil {
				q := v
				if v == "" || v == "_" {
					q = canon(fn, rng.X) + "[" + expr(rng.Key) + "]"
				}
				okS, whyS = thenBranchIffZero(le, skip.Cond, q)
			}
			c.Check(okS, fq+"|keeps-occupied-slots", pr.Pos(rng.Pos()),
				"Compact does not skip exactly the empty slots ("+whyS+"): it returns empty slots as rows and drops the keys")
		}
	}
	// ---------------------------------------------------------------- Combine (chunking)
	if fn := c.MustFn("exec.(*combiningFrame).Combine"); fn != nil {
		fq := fn.QName()
		le := newLinEnv(pr, fn)
		fP := ""
		if fn.Type.Params != nil && len(fn.Type.Params.List) == 1 && len(fn.Type.Params.List[0].Names) == 1 {
			fP = fn.Type.Params.List[0].Names[0].Name
		}
		var loop *ast.ForStmt
		for _, st := range fn.Body.List {
			if f, ok := st.(*ast.ForStmt); ok {
				loop = f
			}
		}
		okC, why := loop != nil, "no chunk loop"
		if loop != nil {
			iv, boundE, okHdr := loopUpTo(fn, loop)
			if !okHdr {
				okC, why = false, "the chunk loop is not `for i := 0; i < chunks; i++`"
			} else {
				// bound = ceil(len(f)/len(scratch)): numerator of the division is f.Len()+scratch.Len()-1
				bound := le.norm(boundE, 0)
				wantNum := lin{"$p0.Len()": 1, "$recv.scratch.Len()": 1, "": -1}
				ceil := false
				for t, k := range bound {
					if k == 1 && strings.HasPrefix(t, "("+wantNum.String()+")/(") && strings.Contains(t, "$recv.scratch.Len()") {
						ceil = true
					}
				}
				if !ceil {
					okC, why = false, "the chunk count "+bound.String()+" is not ceil(f.Len()/scratch.Len())"
				}
				// body: n := Copy(scratch, f.Slice(scratch.Len()*i, f.Len())); combine(n)
				cp, cb := false, false
				nV := ""
				for _, st := range loop.Body.List {
					switch x := st.(type) {
					case *ast.AssignStmt:
						if len(x.Rhs) == 1 {
							if k, ok := x.Rhs[0].(*ast.CallExpr); ok && fn.Pkg.CalleeName(k) == "frame.Copy" && len(k.Args) == 2 && canon(fn, k.Args[0]) == "$recv.scratch" {
								if s, ok := ast.Unparen(k.Args[1]).(*ast.CallExpr); ok && fn.Pkg.CalleeName(s) == "frame.Frame.Slice" && len(s.Args) == 2 && strings.HasPrefix(expr(s.Fun), fP+".") {
									lo := le.norm(s.Args[0], 0).String()
									hi := le.norm(s.Args[1], 0).String()
									if lo == (lin{mulTerm("$recv.scratch.Len()", iv): 1}).String() && hi == (lin{"$p0.Len()": 1}).String() {
										cp = true
										nV = expr(x.Lhs[0])
									}
								}
							}
						}
					case *ast.ExprStmt:
						if k, ok := x.X.(*ast.CallExpr); ok && fn.Pkg.CalleeName(k) == "exec.(*combiningFrame).combine" && len(k.Args) == 1 && expr(k.Args[0]) == nV && nV != "" {
							cb = true
						}
					}
				}
				if okC && !(cp && cb) {
					okC, why = false, "a chunk is not copied from f.Slice(scratch.Len()*i, f.Len()) into the scratch space and combined with the number of rows copied"
				}
			}
		}
		c.Check(okC, fq+"|every-row-is-fed-once", pr.Pos(fn.Body.Pos()),
			"Combine does not feed every row of the frame exactly once through the scratch space ("+why+"): rows at chunk boundaries are skipped or folded twice")
	}
	// ---------------------------------------------------------------- (*combiner).Combine feeds the frame
	if fn := c.MustFn("exec.(*combiner).Combine"); fn != nil {
		fq := fn.QName()
		fl := pr.Flow(fn)
		fP := ""
		if fn.Type.Params != nil {
			last := fn.Type.Params.List[len(fn.Type.Params.List)-1]
			if len(last.Names) > 0 {
				fP = last.Names[len(last.Names)-1].Name
			}
		}
		var feed *ast.CallExpr
		for _, k := range callsIn(fn.Body) {
			if fn.Pkg.CalleeName(k) == "exec.(*combiningFrame).Combine" && len(k.Args) == 1 && expr(k.Args[0]) == fP {
				feed = k
			}
		}
		okFeed := feed != nil
		if feed != nil {
			fl.Walk(fl.Entry(), "", nil, Visitor{NoFacts: true,
				Node: func(n ast.Node, x string, s *Step) (string, bool) {
					if nodeHas(n, func(m ast.Node) bool { return m == ast.Node(feed) }) {
						return "fed", false
					}
					return x, false
				},
				Exit: func(kind ExitKind, ret *ast.ReturnStmt, x string, s *Step) {
					if kind != ExitPanic && x != "fed" {
						okFeed = false
					}
				}})
		}
		c.Check(okFeed, fq+"|feeds-the-frame", pr.Pos(fn.Body.Pos()),
			"(*combiner).Combine can return without having combined the frame it was given into its combining frame: those rows vanish from the result")
	}
	// ---------------------------------------------------------------- make (layout)
	if fn := c.MustFn("exec.(*combiningFrame).make"); fn != nil {
		fq := fn.QName()
		le := newLinEnv(pr, fn)
		total := lin{"$p0": 1, "$p1": 1}
		okData, okScr, okHits := false, false, false
		ast.Inspect(fn.Body, func(n ast.Node) bool {
			a, ok := n.(*ast.AssignStmt)
			if !ok || len(a.Lhs) != 1 || len(a.Rhs) != 1 {
				return true
			}
			k, ok := a.Rhs[0].(*ast.CallExpr)
			if !ok {
				return true
			}
			switch canon(fn, a.Lhs[0]) {
			case "$recv.data":
				if fn.Pkg.CalleeName(k) == "frame.Make" && len(k.Args) == 3 && le.norm(k.Args[1], 0).String() == total.String() && le.norm(k.Args[2], 0).String() == total.String() {
					okData = true
				}
			case "$recv.scratch":
				if fn.Pkg.CalleeName(k) == "frame.Frame.Slice" && len(k.Args) == 2 && canon(fn, k.Fun) == "$recv.data.Slice" && le.norm(k.Args[0], 0).String() == (lin{"$p0": 1}).String() && le.norm(k.Args[1], 0).String() == total.String() {
					okScr = true
				}
			case "$recv.hits":
				if expr(k.Fun) == "make" && len(k.Args) == 2 && le.norm(k.Args[1], 0).String() == (lin{"$p0": 1}).String() {
					okHits = true
				}
			}
			return true
		})
		c.Check(okData && okScr && okHits, fq+"|scratch-lives-behind-the-table", pr.Pos(fn.Body.Pos()),
			"make does not lay the frame out as ndata table rows followed by nscratch scratch rows (data of ndata+nscratch rows, scratch = data.Slice(ndata, ndata+nscratch), ndata hit counts): combine addresses scratch row i as data row cap+i")
	}
}

// nilTest recognises a condition that is a test of one expression against
// nil, however it is spelled (`x != nil`, `nil != x`, `!(x == nil)`, ...).
// It returns the text of the tested expression and whether the condition is
// true when the expression is non-nil.
func nilTest(cond ast.Expr) (x string, trueWhenNonNil bool, ok bool) {
	name := ""
	multiple := false
	ast.Inspect(cond, func(n ast.Node) bool {
		be, isBe := n.(*ast.BinaryExpr)
		if !isBe || (be.Op != token.EQL && be.Op != token.NEQ) {
			return true
		}
		l, r := expr(be.X), expr(be.Y)
		if l == "nil" {
			l, r = r, l
		}
		if r != "nil" {
			return true
		}
		if name != "" && name != l {
			multiple = true
		}
		name = l
		return true
	})
	if name == "" || multiple {
		return "", false, false
	}
	val := func(isNil bool) (bool, bool) {
		return evalCond(cond, func(e ast.Expr) (bool, bool) {
			be, isBe := ast.Unparen(e).(*ast.BinaryExpr)
			if !isBe || (be.Op != token.EQL && be.Op != token.NEQ) {
				return false, false
			}
			l, r := expr(be.X), expr(be.Y)
			if l == "nil" {
				l, r = r, l
			}
			if r != "nil" || l != name {
				return false, false
			}
			return (be.Op == token.EQL) == isNil, true
		})
	}
	vNil, ok1 := val(true)
	vNon, ok2 := val(false)
	if !ok1 || !ok2 || vNil == vNon {
		return "", false, false
	}
	return name, vNon, true
}

// nonNilEdge: the CFG edge from->to is the one taken when the tested
// expression of a nil test is non-nil.  Returns the expression.
func nonNilEdge(fl *Flow, from, to *cfg2Block) (string, bool) {
	cond := fl.edgeCond(from)
	if cond == nil || len(from.Succs) != 2 {
		return "", false
	}
	x, nn, ok := nilTest(cond)
	if !ok {
		return "", false
	}
	if (nn && from.Succs[0] == to) || (!nn && from.Succs[1] == to) {
		return x, true
	}
	return "", false
}

// impliesError: cond can only be true when the named error variable is
// non-nil (e.g. `err != nil`, `err != nil && err != EOF`, `nil != err`).
func impliesError(cond ast.Expr) (string, bool) {
	for name := range errTestNames(cond) {
		vNil, ok0 := evalCond(cond, func(e ast.Expr) (bool, bool) { return errAtom(e, name, 0) })
		vEOF, ok1 := evalCond(cond, func(e ast.Expr) (bool, bool) { return errAtom(e, name, 1) })
		vOth, ok2 := evalCond(cond, func(e ast.Expr) (bool, bool) { return errAtom(e, name, 2) })
		if ok0 && ok1 && ok2 && !vNil && (vEOF || vOth) {
			return name, true
		}
	}
	// conjunction whose first conjunct is such a test (other conjuncts arbitrary)
	if be, ok := ast.Unparen(cond).(*ast.BinaryExpr); ok && be.Op == token.LAND {
		if n, ok := impliesError(be.X); ok {
			return n, true
		}
		return impliesError(be.Y)
	}
	return "", false
}

// constTest recognises a condition that tests one expression (whose text
// satisfies isX) against the constant spelled k, in any spelling (`x == k`,
// `k != x`, `!(x == k)`).  It returns the expression and whether the
// condition is true when x equals k.
func constTest(cond ast.Expr, isX func(string) bool, k string) (x string, trueWhenEqual bool, ok bool) {
	name := ""
	atom := func(eq bool) func(e ast.Expr) (bool, bool) {
		return func(e ast.Expr) (bool, bool) {
			be, isBe := ast.Unparen(e).(*ast.BinaryExpr)
			if !isBe || (be.Op != token.EQL && be.Op != token.NEQ) {
				return false, false
			}
			l, r := expr(be.X), expr(be.Y)
			if l == k {
				l, r = r, l
			}
			if r != k || !isX(l) {
				return false, false
			}
			if name != "" && name != l {
				return false, false
			}
			name = l
			return (be.Op == token.EQL) == eq, true
		}
	}
	vEq, ok1 := evalCond(cond, atom(true))
	vNe, ok2 := evalCond(cond, atom(false))
	if !ok1 || !ok2 || vEq == vNe || name == "" {
		return "", false, false
	}
	return name, vEq, true
}

// equalEdge: the CFG edge from->to is taken exactly when the tested
// expression equals k.
func equalEdge(fl *Flow, from, to *cfg2Block, isX func(string) bool, k string) (string, bool) {
	cond := fl.edgeCond(from)
	if cond == nil || len(from.Succs) != 2 {
		return "", false
	}
	x, whenEq, ok := constTest(cond, isX, k)
	if !ok {
		return "", false
	}
	if (whenEq && from.Succs[0] == to) || (!whenEq && from.Succs[1] == to) {
		return x, true
	}
	return "", false
}

// nonPositiveTest: cond is true exactly when the integer expression spelled x
// is <= 0 (`x <= 0`, `x < 1`, `0 >= x`, `1 > x`, `!(x > 0)`, ...).
func nonPositiveTest(cond ast.Expr, x string) bool {
	for _, v := range []int{-1, 0, 1, 2} {
		val, known := evalCond(cond, func(e ast.Expr) (bool, bool) {
			be, ok := ast.Unparen(e).(*ast.BinaryExpr)
			if !ok {
				return false, false
			}
			l, r := expr(be.X), expr(be.Y)
			op := be.Op
			if r == x {
				l, r = r, l
				op = map[token.Token]token.Token{token.LSS: token.GTR, token.GTR: token.LSS, token.LEQ: token.GEQ, token.GEQ: token.LEQ, token.EQL: token.EQL, token.NEQ: token.NEQ}[op]
			}
			if l != x {
				return false, false
			}
			k := 0
			switch r {
			case "0":
			case "1":
				k = 1
			default:
				return false, false
			}
			switch op {
			case token.LSS:
				return v < k, true
			case token.LEQ:
				return v <= k, true
			case token.GTR:
				return v > k, true
			case token.GEQ:
				return v >= k, true
			case token.EQL:
				return v == k, true
			case token.NEQ:
				return v != k, true
			}
			return false, false
		})
		if !known || val != (v <= 0) {
			return false
		}
	}
	return true
}
