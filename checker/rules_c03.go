package main

import (
	"fmt"
	"go/ast"
	"go/constant"
	"go/token"
	"go/types"
	"sort"
	"strings"
)

func init() {
	registerProperty(&Property{
		ID:          "C03",
		Explanation: "Decides structural necessary conditions of the evaluator: (R1) there is exactly one hand-off site to Executor.Run in the module, reached only with the task lock held, the state found INIT (runner election) and set to WAITING first; (R2) every switch over a TaskState in the evaluator's state machine names every state (or has a default) and the sibling switches of Enqueue and Return agree on the class of each state — OK satisfied/releases, ERR records the evaluation error, LOST/INIT (re)enqueue, WAITING/RUNNING schedule-and-wait; (R3) every write of a terminal state to Task.state happens with the task lock held and is followed by Broadcast before the lock is released; (R4) the consecutive-loss bound is positive, counted only in the LOST arm, reset only in the OK arm, by the runner only, and tripping it sets ERR with a non-nil error and broadcasts; (R5) dependents are released only in the OK arm. Not decided: progress over all histories, minimality of the traversal, the waitlist arithmetic.",
		Rules: []Rule{
			{ID: "C03-R1", Doc: "single hand-off site under lock, INIT->WAITING election", Run: c03r1},
			{ID: "C03-R2", Doc: "state switches are total and agree", Run: c03r2},
			{ID: "C03-R3", Doc: "terminal state writes are locked and broadcast", Run: c03r3},
			{ID: "C03-R4", Doc: "bounded consecutive loss", Run: c03r4},
			{ID: "C03-R5", Doc: "dependents released only by OK", Run: c03r5},
			{ID: "C03-R6", Doc: "evaluator bookkeeping: pending/todo/wait-memo/dependency counts are maintained where the events happen", Run: c03r6},
			{ID: "C03-R7", Doc: "the task's shared wait channel is retired only by Broadcast (cleared after close; made only when absent), so no waiter misses a state change", Run: c03r7},
			{ID: "C03-R8", Doc: "a task is ready only if every dependency is satisfied (the readiness flag is a conjunction over the dependency loop)", Run: c03r8},
			{ID: "C03-R9", Doc: "a task goes back to TaskInit only from TaskLost (the re-election guard excludes every other state)", Run: c03r9},
			{ID: "C03-R10", Doc: "an evaluation succeeds only behind a fresh traversal of every root that found everything done; every waiter reports back", Run: c03r10},
		},
	})
}

// taskStateConsts returns the TaskState constants below maxState, by name -> value.
func taskStateConsts(pr *Prog) map[string]int64 {
	out := map[string]int64{}
	pk := pr.Pkgs["exec"]
	if pk == nil {
		return out
	}
	ts := pr.lookupType("exec", "TaskState")
	var max int64 = -1
	if c, ok := pk.Types.Scope().Lookup("maxState").(*types.Const); ok {
		max, _ = constant.Int64Val(c.Val())
	}
	for _, n := range pk.Types.Scope().Names() {
		c, ok := pk.Types.Scope().Lookup(n).(*types.Const)
		if !ok || ts == nil || !types.Identical(c.Type(), ts) || n == "maxState" {
			continue
		}
		v, _ := constant.Int64Val(c.Val())
		if max >= 0 && v >= max {
			continue
		}
		out[n] = v
	}
	return out
}

func isExecutorRun(pr *Prog, pk *Pkg, call *ast.CallExpr) bool {
	cn := pk.CalleeName(call)
	if cn == "exec.Executor.Run" {
		return true
	}
	iface := pr.lookupIface("exec", "Executor")
	if iface == nil {
		return false
	}
	for _, f := range pr.implementers(iface, "Run") {
		if cn == f.QName() {
			return true
		}
	}
	return false
}

func c03r1(c *RC) {
	pr := c.P
	type site struct {
		fn   *Func
		call *ast.CallExpr
	}
	var sites []site
	for _, fn := range pr.Funcs() {
		if fn.Body == nil || strings.HasPrefix(fn.Pkg.Rel, "cmd/") {
			continue
		}
		for _, call := range directCalls(fn.Body) {
			if isExecutorRun(pr, fn.Pkg, call) {
				sites = append(sites, site{fn, call})
			}
		}
	}
	for i, s := range sites {
		if i >= 1 {
			c.Fail(s.fn.QName()+"|extra-Executor.Run-call", pr.Pos(s.call.Pos()), "a second call site of Executor.Run exists: a task can be handed to the executor outside the evaluator's INIT->WAITING election, i.e. twice at the same time")
		}
	}
	if !c.Floor("Executor.Run hand-off sites", len(sites), 1) {
		return
	}
	s := sites[0]
	fn := s.fn
	fq := fn.QName()
	fl := pr.Flow(fn)
	loc, ok := fl.LocOf(s.call)
	if !ok {
		c.Undecide("%s: hand-off not in CFG", fq)
		return
	}
	taskArg := ""
	if len(s.call.Args) == 1 {
		taskArg = expr(s.call.Args[0])
	}
	isStateField := func(e ast.Expr) bool {
		sel, ok := ast.Unparen(e).(*ast.SelectorExpr)
		return ok && pr.fieldQName(fn.Pkg.FieldOf(sel)) == "exec.Task.state" && expr(sel.X) == taskArg
	}
	// flags: L lock held, R runner var valid(name), I state known INIT, W set WAITING
	type st struct {
		L, I, W bool
		R       string
	}
	enc := func(s st) string { return fmt.Sprintf("%v/%v/%v/%s", s.L, s.I, s.W, s.R) }
	dec := func(x string) st {
		var s st
		p := strings.SplitN(x, "/", 4)
		if len(p) == 4 {
			s.L, s.I, s.W, s.R = p[0] == "true", p[1] == "true", p[2] == "true", p[3]
		}
		return s
	}
	isInitCmp := func(e ast.Expr) bool {
		be, ok := ast.Unparen(e).(*ast.BinaryExpr)
		return ok && be.Op == token.EQL && (isStateField(be.X) && expr(be.Y) == "TaskInit" || isStateField(be.Y) && expr(be.X) == "TaskInit")
	}
	var bad []string
	var trail []string
	fl.Walk(fl.Entry(), enc(st{}), nil, Visitor{NoFacts: true,
		Enter: func(from, to *cfg2Block, x string, sp *Step) (string, bool) {
			cur := dec(x)
			cond := ast.Unparen(fl.edgeCond(from))
			if cond == nil {
				return x, false
			}
			if isInitCmp(cond) && from.Succs[0] == to {
				cur.I = true
			}
			if id, ok := cond.(*ast.Ident); ok && cur.R != "" && id.Name == cur.R && from.Succs[0] == to {
				cur.I = true
			}
			return enc(cur), false
		},
		Node: func(n ast.Node, x string, sp *Step) (string, bool) {
			cur := dec(x)
			if sp.Block == loc.B && sp.Idx == loc.I {
				if !cur.L {
					bad = append(bad, "the task lock is not held")
				}
				if !cur.W {
					bad = append(bad, "the state was not moved INIT->WAITING on this path")
				}
				if len(bad) > 0 && trail == nil {
					trail = sp.Trail()
				}
				return x, true
			}
			inspectNoLit(n, func(m ast.Node) bool {
				switch a := m.(type) {
				case *ast.CallExpr:
					if sel, ok := a.Fun.(*ast.SelectorExpr); ok && expr(sel.X) == taskArg {
						switch sel.Sel.Name {
						case "Lock":
							cur.L = true
						case "Unlock":
							cur.L = false
						}
					}
				case *ast.AssignStmt:
					for i, l := range a.Lhs {
						if isStateField(l) && i < len(a.Rhs) {
							if expr(a.Rhs[i]) == "TaskWaiting" && cur.I {
								cur.W = true
							} else {
								cur.W = false
							}
							cur.I = false
							cur.R = ""
						}
						if id, ok := l.(*ast.Ident); ok && i < len(a.Rhs) && isInitCmp(a.Rhs[i]) {
							cur.R = id.Name
						}
					}
				}
				return true
			})
			return enc(cur), false
		}})
	sort.Strings(bad)
	c.Check(len(bad) == 0, fq+"|hand-off-under-election", pr.Pos(s.call.Pos()),
		"Executor.Run is handed a task on a path where "+strings.Join(uniq(bad), " and ")+": two evaluations sharing the task can both run it", trail...)
	// the hand-off is asynchronous (the executor manages parallelism) and Eval keeps going
	par := parentOf(fn.Body, s.call)
	_, isGo := par.(*ast.GoStmt)
	c.Check(isGo, fq+"|hand-off-is-asynchronous", pr.Pos(s.call.Pos()), "Executor.Run is called synchronously while the task lock is held: the executor's own state changes (which take the task lock) deadlock")
}

func uniq(s []string) []string {
	var out []string
	seen := map[string]bool{}
	for _, x := range s {
		if !seen[x] {
			seen[x] = true
			out = append(out, x)
		}
	}
	return out
}

// stateSwitches returns the switch statements in fn whose tag has type TaskState.
func stateSwitches(pr *Prog, fn *Func) []*ast.SwitchStmt {
	ts := pr.lookupType("exec", "TaskState")
	var out []*ast.SwitchStmt
	ast.Inspect(fn.Body, func(n ast.Node) bool {
		sw, ok := n.(*ast.SwitchStmt)
		if !ok || sw.Tag == nil {
			return true
		}
		if tv, ok := fn.Pkg.Info.Types[sw.Tag]; ok && ts != nil && tv.Type != nil && types.Identical(tv.Type, ts) {
			out = append(out, sw)
		}
		return true
	})
	return out
}

// classify a case body of the evaluator's state switches.
func c03class(fn *Func, body []ast.Stmt) string {
	var calls []string
	setsErr := false
	for _, st := range body {
		ast.Inspect(st, func(n ast.Node) bool {
			switch a := n.(type) {
			case *ast.CallExpr:
				cn := fn.Pkg.CalleeName(a)
				if strings.HasPrefix(cn, "exec.(*state).") {
					calls = append(calls, strings.TrimPrefix(cn, "exec.(*state)."))
				}
			case *ast.AssignStmt:
				for _, l := range a.Lhs {
					if sel, ok := l.(*ast.SelectorExpr); ok && sel.Sel.Name == "err" {
						if f := fn.Pkg.FieldOf(sel); f != nil && strings.HasSuffix(fieldOwnerOf(f), "state") {
							setsErr = true
						}
					}
				}
			}
			return true
		})
	}
	has := func(s string) bool {
		for _, c := range calls {
			if c == s {
				return true
			}
		}
		return false
	}
	switch {
	case setsErr:
		return "error"
	case has("done"):
		return "release"
	case has("Enqueue") || has("clear"):
		return "enqueue"
	case has("schedule"):
		return "wait"
	case len(calls) == 0:
		return "satisfied"
	}
	return "other:" + strings.Join(calls, ",")
}

func fieldOwnerOf(v *types.Var) string {
	if v.Pkg() == nil {
		return ""
	}
	sc := v.Pkg().Scope()
	for _, n := range sc.Names() {
		if tn, ok := sc.Lookup(n).(*types.TypeName); ok {
			if st, ok := tn.Type().Underlying().(*types.Struct); ok {
				for i := 0; i < st.NumFields(); i++ {
					if st.Field(i) == v {
						return tn.Name()
					}
				}
			}
		}
	}
	return ""
}

func c03r2(c *RC) {
	pr := c.P
	consts := taskStateConsts(pr)
	if len(consts) < 6 {
		c.Undecide("found only %d TaskState constants", len(consts))
		return
	}
	classes := map[string]map[string]string{} // func -> state -> class
	nsw := 0
	for _, name := range []string{"exec.(*state).Enqueue", "exec.(*state).Return"} {
		fn := c.MustFn(name)
		if fn == nil {
			continue
		}
		sws := stateSwitches(pr, fn)
		if len(sws) == 0 {
			c.Fail(name+"|state-switch", pr.Pos(fn.Body.Pos()), "no switch over the task state found")
			continue
		}
		sw := sws[0]
		nsw++
		cls := map[string]string{}
		def := ""
		hasDef := false
		for _, cs := range sw.Body.List {
			cc := cs.(*ast.CaseClause)
			k := c03class(fn, cc.Body)
			if cc.List == nil {
				hasDef = true
				def = k
				continue
			}
			for _, e := range cc.List {
				cls[expr(e)] = k
			}
		}
		var missing []string
		for s := range consts {
			if _, ok := cls[s]; !ok {
				if hasDef {
					cls[s] = def
				} else {
					missing = append(missing, s)
				}
			}
		}
		sort.Strings(missing)
		c.Check(len(missing) == 0, name+"|switch-total", pr.Pos(sw.Pos()), "the state switch names neither "+strings.Join(missing, ", ")+" nor a default: tasks in those states are silently treated as satisfied")
		classes[name] = cls
	}
	c.Floor("state switches in the evaluator", nsw, 2)
	enq, ret := classes["exec.(*state).Enqueue"], classes["exec.(*state).Return"]
	if enq == nil || ret == nil {
		return
	}
	want := []struct{ st, e, r, why string }{
		{"TaskOk", "satisfied", "release", "a successfully completed task counts as satisfied and releases its dependents"},
		{"TaskErr", "error", "error", "a task in ERROR must make the evaluation fail; treated as satisfied it lets Eval return nil (or release dependents) although a root or dependency failed"},
		{"TaskLost", "enqueue", "enqueue", "a lost task must be traversed and rescheduled"},
		{"TaskInit", "enqueue", "", "a task not yet run must be traversed and scheduled once its dependencies are satisfied"},
		{"TaskWaiting", "wait", "wait", "a task running elsewhere is waited for"},
		{"TaskRunning", "wait", "wait", "a task running elsewhere is waited for"},
	}
	posE := pr.Pos(pr.Fn("exec.(*state).Enqueue").Body.Pos())
	posR := pr.Pos(pr.Fn("exec.(*state).Return").Body.Pos())
	for _, w := range want {
		c.Check(enq[w.st] == w.e, "exec.(*state).Enqueue|class:"+w.st, posE,
			fmt.Sprintf("Enqueue handles %s as %q, expected %q: %s", w.st, enq[w.st], w.e, w.why))
		if w.r != "" {
			got := ret[w.st]
			okc := got == w.r
			if w.st == "TaskInit" {
				okc = true
			}
			c.Check(okc, "exec.(*state).Return|class:"+w.st, posR,
				fmt.Sprintf("Return handles %s as %q, expected %q: %s", w.st, got, w.r, w.why))
		}
	}
}

func c03r3(c *RC) {
	pr := c.P
	consts := taskStateConsts(pr)
	okV, hasOk := consts["TaskOk"]
	if !hasOk {
		c.Undecide("TaskOk not found")
		return
	}
	n := 0
	for _, fn := range pr.FuncsIn("exec") {
		if fn.Body == nil {
			continue
		}
		fl := pr.Flow(fn)
		for _, b := range fl.G.Blocks {
			if !b.Live {
				continue
			}
			for i, nd := range b.Nodes {
				a, ok := nd.(*ast.AssignStmt)
				if !ok {
					continue
				}
				for k, l := range a.Lhs {
					sel, ok := ast.Unparen(l).(*ast.SelectorExpr)
					if !ok || pr.fieldQName(fn.Pkg.FieldOf(sel)) != "exec.Task.state" || k >= len(a.Rhs) {
						continue
					}
					terminal := true
					if v, isC := constInt(fn.Pkg, a.Rhs[k]); isC && v < okV {
						terminal = false
					}
					if !terminal {
						continue
					}
					n++
					task := expr(sel.X)
					key := fmt.Sprintf("%s|terminal-write:%s=%s", fn.QName(), expr(l), expr(a.Rhs[k]))
					// (a) lock held at the write
					held := c03lockHeldAt(fl, fn, Loc{b, i}, task, c03handedOver(c, fn, task))
					// (b) Broadcast before Unlock / exit
					okB := true
					var trail []string
					fl.Walk(Loc{b, i + 1}, "", nil, Visitor{NoFacts: true,
						Node: func(m ast.Node, x string, s *Step) (string, bool) {
							stop := false
							res := x
							inspectNoLit(m, func(q ast.Node) bool {
								call, ok := q.(*ast.CallExpr)
								if !ok {
									return true
								}
								if s2, ok := call.Fun.(*ast.SelectorExpr); ok && expr(s2.X) == task {
									switch s2.Sel.Name {
									case "Broadcast":
										stop = true
									case "Unlock":
										if !stop {
											okB = false
											trail = s.Trail()
											stop = true
										}
									}
								}
								return true
							})
							// defer task.Unlock() does not end the critical section here
							if _, isDefer := m.(*ast.DeferStmt); isDefer {
								return res, false
							}
							return res, stop
						},
						Exit: func(kind ExitKind, ret *ast.ReturnStmt, x string, s *Step) {
							if kind == ExitPanic {
								return
							}
							okB = false
							trail = s.Trail()
						}})
					c.Check(held, key+"|locked", pr.Pos(a.Pos()), "a terminal state is written to Task.state without the task lock held (no Lock()/Wait() on every path to the write): waiters can miss the change")
					c.Check(okB, key+"|broadcast", pr.Pos(a.Pos()), "a terminal state is written to Task.state and the lock is released (or the function returns) without Broadcast(): evaluators waiting on the task are never woken — Eval idles with work outstanding", trail...)
				}
			}
		}
	}
	c.Floor("terminal writes of Task.state", n, 4)
}

// c03lockHeldAt: on every path from entry to loc, the last lock event on task
// is Lock() or Wait() (which returns with the lock held).  A function literal
// that is the waiter goroutine is entered with the lock held if its first use
// of the task is Wait.
func c03lockHeldAt(fl *Flow, fn *Func, loc Loc, task string, initHeld bool) bool {
	held := true
	reached := false
	init := ""
	if initHeld {
		init = "held"
	}
	fl.Walk(fl.Entry(), init, nil, Visitor{NoFacts: true,
		Node: func(n ast.Node, x string, s *Step) (string, bool) {
			if s.Block == loc.B && s.Idx == loc.I {
				reached = true
				if x != "held" {
					held = false
				}
				return x, true
			}
			if _, isDefer := n.(*ast.DeferStmt); isDefer {
				return x, false
			}
			inspectNoLit(n, func(q ast.Node) bool {
				call, ok := q.(*ast.CallExpr)
				if !ok {
					return true
				}
				if s2, ok := call.Fun.(*ast.SelectorExpr); ok && expr(s2.X) == task {
					switch s2.Sel.Name {
					case "Lock", "Wait":
						x = "held"
					case "Unlock":
						x = ""
					}
				}
				return true
			})
			return x, false
		}})
	return held && reached
}

func c03r4(c *RC) {
	pr := c.P
	pk := pr.Pkgs["exec"]
	if pk == nil {
		c.Undecide("no exec")
		return
	}
	mc, ok := pk.Types.Scope().Lookup("maxConsecutiveLost").(*types.Const)
	if !ok {
		c.Fail("exec.maxConsecutiveLost|exists", "exec/eval.go", "the bound on consecutive losses no longer exists: a task that is lost forever is retried forever")
		return
	}
	v, _ := constant.Int64Val(mc.Val())
	c.Check(v > 0, "exec.maxConsecutiveLost|positive", pr.Pos(mc.Pos()), fmt.Sprintf("maxConsecutiveLost = %d", v))
	// find the function (literal) that increments Task.consecutiveLost
	var host *Func
	for _, fn := range pr.FuncsIn("exec") {
		if fn.Body == nil {
			continue
		}
		ast.Inspect(fn.Body, func(n ast.Node) bool {
			if _, ok := n.(*ast.FuncLit); ok && n != ast.Node(fn.Lit) {
				return false
			}
			if inc, ok := n.(*ast.IncDecStmt); ok {
				if sel, ok := inc.X.(*ast.SelectorExpr); ok && pr.fieldQName(fn.Pkg.FieldOf(sel)) == "exec.Task.consecutiveLost" {
					host = fn
				}
			}
			return true
		})
	}
	if host == nil {
		c.Fail("exec.Eval|counts-losses", pr.Pos(mc.Pos()), "nothing increments Task.consecutiveLost: the bound never trips")
		return
	}
	hq := host.QName()
	// all writes of consecutiveLost in the package
	for _, fn := range pr.FuncsIn("exec") {
		if fn.Body == nil {
			continue
		}
		sws := stateSwitches(pr, fn)
		armOf := func(p token.Pos) string {
			for _, sw := range sws {
				for _, cs := range sw.Body.List {
					cc := cs.(*ast.CaseClause)
					if cc.Pos() <= p && p < cc.End() {
						var names []string
						for _, e := range cc.List {
							names = append(names, expr(e))
						}
						if cc.List == nil {
							return "default"
						}
						return strings.Join(names, ",")
					}
				}
			}
			return ""
		}
		ast.Inspect(fn.Body, func(n ast.Node) bool {
			if lit, ok := n.(*ast.FuncLit); ok && lit != fn.Lit {
				return false
			}
			switch a := n.(type) {
			case *ast.IncDecStmt:
				if sel, ok := a.X.(*ast.SelectorExpr); ok && pr.fieldQName(fn.Pkg.FieldOf(sel)) == "exec.Task.consecutiveLost" {
					arm := armOf(a.Pos())
					c.Check(a.Tok == token.INC && arm == "TaskLost", fn.QName()+"|loss-counted-in-LOST-arm", pr.Pos(a.Pos()),
						fmt.Sprintf("consecutiveLost is changed by %s in the %q arm; it must be incremented only when the task ended LOST", a.Tok, arm))
				}
			case *ast.AssignStmt:
				for i, l := range a.Lhs {
					if sel, ok := l.(*ast.SelectorExpr); ok && pr.fieldQName(fn.Pkg.FieldOf(sel)) == "exec.Task.consecutiveLost" {
						arm := armOf(a.Pos())
						v, isC := constInt(fn.Pkg, a.Rhs[i])
						c.Check(isC && v == 0 && a.Tok == token.ASSIGN && arm == "TaskOk", fn.QName()+"|loss-count-reset-in-OK-arm", pr.Pos(a.Pos()),
							fmt.Sprintf("consecutiveLost is assigned %s in the %q arm; it must only be reset to 0 when the task ended OK", expr(a.Rhs[i]), arm))
					}
				}
			}
			return true
		})
	}
	// a success ends the run of consecutive losses
	nReset := 0
	for _, o := range c.Obls {
		if strings.HasSuffix(o.Key, "|loss-count-reset-in-OK-arm") && o.OK {
			nReset++
		}
	}
	c.Check(nReset > 0, hq+"|success-ends-the-run-of-losses", pr.Pos(host.Body.Pos()),
		"nothing resets Task.consecutiveLost when the task completes: the bound counts every loss the task ever suffers instead of losses in a row, so a task that is lost, recomputed successfully and lost again (reused results, discards, repeated machine failures) is declared failed on its fifth loss although every retry succeeded")
	// the comparison and the tripping branch
	var trip *ast.IfStmt
	ast.Inspect(host.Body, func(n ast.Node) bool {
		ifs, ok := n.(*ast.IfStmt)
		if !ok {
			return true
		}
		be, ok := ast.Unparen(ifs.Cond).(*ast.BinaryExpr)
		if !ok {
			return true
		}
		op := be.Op
		cnt, bound := be.X, be.Y
		if strings.HasSuffix(expr(be.Y), ".consecutiveLost") {
			cnt, bound = be.Y, be.X
			op = map[token.Token]token.Token{token.LSS: token.GTR, token.GTR: token.LSS, token.LEQ: token.GEQ, token.GEQ: token.LEQ, token.EQL: token.EQL, token.NEQ: token.NEQ}[op]
		}
		if strings.HasSuffix(expr(cnt), ".consecutiveLost") && expr(bound) == "maxConsecutiveLost" {
			trip = ifs
			c.Check(op == token.GEQ || op == token.EQL, hq+"|trips-at-bound", pr.Pos(ifs.Pos()), "the loss counter is compared with "+op.String()+" maxConsecutiveLost: the task is retried more often than the bound allows")
		}
		return true
	})
	if trip != nil {
		// the loss being handled is counted before the comparison
		hfl := pr.Flow(host)
		if tl, ok := hfl.LocOf(trip.Cond); ok {
			dom, tr := hfl.Dominated(tl, func(n ast.Node, s *Step) bool {
				inc, ok := n.(*ast.IncDecStmt)
				if !ok || inc.Tok != token.INC {
					return false
				}
				sel, ok := inc.X.(*ast.SelectorExpr)
				return ok && pr.fieldQName(host.Pkg.FieldOf(sel)) == "exec.Task.consecutiveLost"
			})
			c.Check(dom, hq+"|loss-counted-before-the-bound-is-tested", pr.Pos(trip.Pos()),
				"the loss counter is compared with the bound before the current loss has been counted: the task is resubmitted once more than the bound allows (the error is reported on the sixth consecutive loss)", tr...)
		} else {
			c.Undecide("%s: the bound test is not in the flow graph", hq)
		}
	}
	if trip == nil {
		c.Fail(hq+"|trips-at-bound", pr.Pos(host.Body.Pos()), "the loss counter is never compared with maxConsecutiveLost")
		return
	}
	var setsErrState, setsErr, bcast bool
	for _, st := range trip.Body.List {
		ast.Inspect(st, func(n ast.Node) bool {
			switch a := n.(type) {
			case *ast.AssignStmt:
				for i, l := range a.Lhs {
					if sel, ok := l.(*ast.SelectorExpr); ok {
						switch pr.fieldQName(host.Pkg.FieldOf(sel)) {
						case "exec.Task.state":
							setsErrState = expr(a.Rhs[i]) == "TaskErr"
						case "exec.Task.err":
							if tv := host.Pkg.Info.Types[a.Rhs[i]]; !tv.IsNil() {
								setsErr = true
							}
						}
					}
				}
			case *ast.CallExpr:
				if strings.HasSuffix(host.Pkg.CalleeName(a), "(*Task).Broadcast") {
					bcast = true
				}
			}
			return true
		})
	}
	c.Check(setsErrState && setsErr && bcast, hq+"|tripping-sets-ERR-with-error-and-wakes", pr.Pos(trip.Pos()),
		fmt.Sprintf("when the bound trips the task must enter ERR with a non-nil error and waiters must be woken (state=%v err=%v broadcast=%v)", setsErrState, setsErr, bcast))
	// only the runner bookkeeps: the switch sits under `if runner`
	fl := pr.Flow(host)
	loc, ok2 := fl.LocOf(trip.Cond)
	runnerOnly := false
	if ok2 {
		runnerOnly = true
		fl.Walk(fl.Entry(), "", nil, Visitor{NoFacts: true,
			Enter: func(from, to *cfg2Block, x string, s *Step) (string, bool) {
				if id, ok := ast.Unparen(fl.edgeCond(from)).(*ast.Ident); ok && id.Name == c03runnerVar(host) && from.Succs[0] == to {
					return "runner", false
				}
				return x, false
			},
			Node: func(n ast.Node, x string, s *Step) (string, bool) {
				if s.Block == loc.B && s.Idx == loc.I {
					if x != "runner" {
						runnerOnly = false
					}
					return x, true
				}
				return x, false
			}})
	}
	c.Check(runnerOnly, hq+"|only-runner-counts", pr.Pos(trip.Pos()), "the loss counter is updated by evaluations that did not run the task: a shared task's losses are double-counted and it fails after fewer than the documented attempts")
}

func c03r5(c *RC) {
	pr := c.P
	n := 0
	for _, fn := range pr.FuncsIn("exec") {
		if fn.Body == nil {
			continue
		}
		sws := stateSwitches(pr, fn)
		for _, call := range directCalls(fn.Body) {
			if fn.Pkg.CalleeName(call) != "exec.(*state).done" {
				continue
			}
			n++
			arm := ""
			for _, sw := range sws {
				for _, cs := range sw.Body.List {
					cc := cs.(*ast.CaseClause)
					if cc.Pos() <= call.Pos() && call.Pos() < cc.End() {
						var names []string
						for _, e := range cc.List {
							names = append(names, expr(e))
						}
						arm = strings.Join(names, ",")
						if cc.List == nil {
							arm = "default"
						}
					}
				}
			}
			c.Check(arm == "TaskOk", fn.QName()+"|done-only-in-OK-arm", pr.Pos(call.Pos()),
				fmt.Sprintf("dependents are released (state.done) in the %q arm: tasks start although a dependency has not completed successfully", arm))
		}
	}
	c.Floor("calls of state.done", n, 1)
	// Only an OK task counts as satisfied: every other arm of Enqueue's state
	// switch adds the task to the number its phase is still waiting for (the
	// function's result, which callers compare with 0 to decide readiness).
	if enq := c.MustFn("exec.(*state).Enqueue"); enq != nil {
		res := ""
		if enq.Type.Results != nil && len(enq.Type.Results.List) == 1 && len(enq.Type.Results.List[0].Names) == 1 {
			res = enq.Type.Results.List[0].Names[0].Name
		}
		sws := stateSwitches(pr, enq)
		if res == "" || len(sws) == 0 {
			c.Undecide("%s: no named count result or no state switch", enq.QName())
		} else {
			fl := pr.Flow(enq)
			for _, cs := range sws[0].Body.List {
				cc := cs.(*ast.CaseClause)
				var names []string
				for _, e := range cc.List {
					names = append(names, expr(e))
				}
				arm := strings.Join(names, ",")
				if cc.List == nil {
					arm = "default"
				}
				if arm == "TaskOk" {
					// must not count
					cnt := false
					for _, st := range cc.Body {
						ast.Inspect(st, func(n ast.Node) bool {
							if inc, ok := n.(*ast.IncDecStmt); ok && expr(inc.X) == res {
								cnt = true
							}
							return true
						})
					}
					c.Check(!cnt, enq.QName()+"|arm:TaskOk|counts-as-satisfied", pr.Pos(cc.Pos()), "a completed task is counted as unsatisfied: its dependents never become ready")
					continue
				}
				// every path through the arm passes an increment of the result
				counted := len(cc.Body) > 0
				if counted {
					first, ok := Loc{}, false
					var firstPos token.Pos
					for _, b := range fl.G.Blocks {
						if !b.Live {
							continue
						}
						for i, nd := range b.Nodes {
							if nd.Pos() >= cc.Body[0].Pos() && nd.Pos() < cc.End() && (!ok || nd.Pos() < firstPos) {
								first, ok, firstPos = Loc{b, i}, true, nd.Pos()
							}
						}
					}
					if !ok {
						c.Undecide("%s: arm %s not in the flow graph", enq.QName(), arm)
						continue
					}
					end := cc.End()
					fl.Walk(first, "", nil, Visitor{NoFacts: true,
						Node: func(n ast.Node, x string, st *Step) (string, bool) {
							if n.Pos() < cc.Pos() || n.Pos() >= end {
								// left the arm
								if x != "inc" {
									counted = false
								}
								return x, true
							}
							if inc, ok := n.(*ast.IncDecStmt); ok && inc.Tok == token.INC && expr(inc.X) == res {
								return "inc", false
							}
							return x, false
						},
						Exit: func(kind ExitKind, ret *ast.ReturnStmt, x string, st *Step) {
							if kind != ExitPanic && x != "inc" {
								counted = false
							}
						}})
				}
				c.Check(counted, enq.QName()+"|arm:"+arm+"|counts-as-unsatisfied", pr.Pos(cc.Pos()),
					"a task in state "+arm+" is not counted among the tasks its phase is waiting for: the phase reports 0 waiting, so dependents are started (or the evaluation reports success) although this task has not completed successfully")
			}
		}
	}
	// In the INIT/LOST arm the dependencies walked, the edges recorded and the
	// bookkeeping cleared are those of the member whose state was switched on
	// (not of the phase head the function was called with).
	if enq := pr.Fn("exec.(*state).Enqueue"); enq != nil {
		for _, sw := range stateSwitches(pr, enq) {
			member := ""
			if k, ok := ast.Unparen(sw.Tag).(*ast.CallExpr); ok {
				if sel, ok := k.Fun.(*ast.SelectorExpr); ok {
					if id, ok := sel.X.(*ast.Ident); ok {
						member = id.Name
					}
				}
			}
			var memberObj types.Object
			ast.Inspect(sw.Tag, func(n ast.Node) bool {
				if id, ok := n.(*ast.Ident); ok && id.Name == member && memberObj == nil {
					memberObj = enq.Pkg.Info.Uses[id]
				}
				return true
			})
			if memberObj == nil {
				c.Undecide("%s: cannot identify the task whose state is switched on", enq.QName())
				continue
			}
			for _, cs := range sw.Body.List {
				cc := cs.(*ast.CaseClause)
				isInit := false
				for _, e := range cc.List {
					if expr(e) == "TaskInit" || expr(e) == "TaskLost" {
						isInit = true
					}
				}
				if !isInit {
					continue
				}
				var foreign []string
				for _, st := range cc.Body {
					ast.Inspect(st, func(n ast.Node) bool {
						id, ok := n.(*ast.Ident)
						if !ok {
							return true
						}
						o := enq.Pkg.Info.Uses[id]
						if o == nil || o == memberObj {
							return true
						}
						if v, isVar := o.(*types.Var); isVar && typeString(v.Type()) == "*exec.Task" && v.Pos() < sw.Pos() {
							// another *Task variable declared outside the switch (the parameter, an outer loop variable)
							foreign = append(foreign, id.Name+" at "+pr.Pos(id.Pos()))
						}
						return true
					})
				}
				c.Check(len(foreign) == 0, enq.QName()+"|arm:TaskInit,TaskLost|examines-the-member-itself", pr.Pos(cc.Pos()),
					"the arm that decides whether a task is ready refers to another task than the one whose state it switched on ("+strings.Join(foreign, ", ")+"): readiness, recorded edges or cleared bookkeeping are those of the phase head, so members are handed out while their own dependency is INIT or LOST")
			}
		}
	}
	// Released dependents are re-examined, not started: a task whose last
	// awaited dependency completed goes back through Enqueue (which looks at
	// the current state of every dependency — one that completed earlier may
	// have been lost since), never straight onto the todo list.
	nRel := 0
	for _, fn := range pr.FuncsIn("exec") {
		if fn.Body == nil {
			continue
		}
		ast.Inspect(fn.Body, func(nd ast.Node) bool {
			rng, ok := nd.(*ast.RangeStmt)
			if !ok {
				return true
			}
			k, ok := ast.Unparen(rng.X).(*ast.CallExpr)
			if !ok || fn.Pkg.CalleeName(k) != "exec.(*state).done" {
				return true
			}
			nRel++
			v := expr(rng.Value)
			enq, other := false, ""
			for _, call := range callsIn(rng.Body) {
				uses := false
				for _, a := range call.Args {
					if expr(a) == v {
						uses = true
					}
				}
				if !uses {
					continue
				}
				if fn.Pkg.CalleeName(call) == "exec.(*state).Enqueue" {
					enq = true
				} else {
					other = fn.Pkg.CalleeName(call)
				}
			}
			c.Check(enq && other == "", fn.QName()+"|released-dependents-are-re-examined", pr.Pos(rng.Pos()),
				"the tasks released by state.done are passed to "+other+" instead of (only) Enqueue: they are started without their dependencies being looked at again, so a dependency that completed earlier and was lost in the meantime is not recomputed — the task is handed out with a lost dependency")
			return true
		})
	}
	c.Floor("loops over released dependents", nRel, 1)
	// who may put a task on the todo list: Enqueue, for the task whose state it
	// just examined; Return, for the returned task itself (default arm)
	nSched := 0
	for _, fn := range pr.FuncsIn("exec") {
		if fn.Body == nil {
			continue
		}
		for _, call := range callsIn(fn.Body) {
			if fn.Pkg.CalleeName(call) != "exec.(*state).schedule" || len(call.Args) != 1 {
				continue
			}
			nSched++
			arg := expr(call.Args[0])
			key := fmt.Sprintf("%s|todo-entry#%d", fn.QName(), nSched)
			switch fn.QName() {
			case "exec.(*state).Enqueue":
				// the argument is the variable of the loop over the phase whose
				// state is switched on
				okArg := false
				for _, sw := range stateSwitches(pr, fn) {
					if sw.Pos() <= call.Pos() && call.End() <= sw.End() {
						if k, ok := ast.Unparen(sw.Tag).(*ast.CallExpr); ok {
							if sel, ok := k.Fun.(*ast.SelectorExpr); ok && expr(sel.X) == arg {
								okArg = true
							}
						}
					}
				}
				c.Check(okArg, key, pr.Pos(call.Pos()), "Enqueue schedules "+arg+", which is not the task whose state it has just examined")
			case "exec.(*state).Return":
				p0 := ""
				if fn.Type.Params != nil && len(fn.Type.Params.List) == 1 && len(fn.Type.Params.List[0].Names) == 1 {
					p0 = fn.Type.Params.List[0].Names[0].Name
				}
				// not shadowed: the call is not inside a range/func that rebinds the name
				shadow := false
				for _, anc := range pathTo(fn.Body, call) {
					if r, ok := anc.(*ast.RangeStmt); ok && (expr(r.Key) == p0 || expr(r.Value) == p0) {
						shadow = true
					}
				}
				c.Check(arg == p0 && !shadow, key, pr.Pos(call.Pos()), "Return puts a task other than the returned one on the todo list without examining it (only Enqueue may decide that a task is ready)")
			default:
				c.Fail(key, pr.Pos(call.Pos()), fn.QName()+" puts a task on the evaluator's todo list; only Enqueue (after examining the task and its dependencies) and Return (for the returned task) may")
			}
		}
	}
	c.Floor("todo-list entry sites", nSched, 3)
	// Done(): evaluation finishes only when nothing is pending/todo or an error was recorded
	if fn := c.MustFn("exec.(*state).Done"); fn != nil {
		txt := ""
		ast.Inspect(fn.Body, func(n ast.Node) bool {
			if r, ok := n.(*ast.ReturnStmt); ok && len(r.Results) == 1 {
				txt = strings.ReplaceAll(expr(r.Results[0]), " ", "")
			}
			return true
		})
		var res ast.Expr
		ast.Inspect(fn.Body, func(n ast.Node) bool {
			if r, ok := n.(*ast.ReturnStmt); ok && len(r.Results) == 1 {
				res = r.Results[0]
			}
			return true
		})
		le := newLinEnv(pr, fn)
		ok := res != nil
		if res != nil {
			for _, e := range []bool{false, true} {
				for _, t := range []bool{false, true} {
					for _, p := range []bool{false, true} {
						v, known := evalCond(res, func(x ast.Expr) (bool, bool) {
							if tx, nn, okN := nilTest(x); okN && canonText(fn, tx) == "$recv.err" {
								return nn == e, true
							}
							if z, okZ := cmpAtomZero(le, x, "len($recv.todo)", t); okZ {
								return z, true
							}
							if z, okZ := cmpAtomZero(le, x, "len($recv.pending)", p); okZ {
								return z, true
							}
							return false, false
						})
						if !known || v != (e || (t && p)) {
							ok = false
						}
					}
				}
			}
		}
		c.Check(ok, "exec.(*state).Done|done-iff-error-or-nothing-outstanding", pr.Pos(fn.Body.Pos()), "state.Done() is "+txt+"; it must be err != nil || (no todo && no pending): Eval would return success with tasks outstanding")
	}
}

// c03handedOver: fn is a function literal started with `go` from a point in its
// parent where the lock of the task passed to it is held, and the literal is
// the one that unlocks: the lock is handed over to the goroutine.
func c03handedOver(c *RC, fn *Func, task string) bool {
	if fn.Lit == nil || fn.Parent == nil || fn.Parent.Body == nil {
		return false
	}
	pr := c.P
	parent := fn.Parent
	var gs *ast.GoStmt
	ast.Inspect(parent.Body, func(n ast.Node) bool {
		if g, ok := n.(*ast.GoStmt); ok && g.Call.Fun == ast.Expr(fn.Lit) {
			gs = g
		}
		return true
	})
	if gs == nil {
		return false
	}
	// map the literal's parameter to the argument
	arg := task
	i := 0
	for _, f := range fn.Type.Params.List {
		for _, nm := range f.Names {
			if nm.Name == task && i < len(gs.Call.Args) {
				arg = expr(gs.Call.Args[i])
			}
			i++
		}
	}
	pfl := pr.Flow(parent)
	loc, ok := pfl.LocOf(gs)
	if !ok {
		return false
	}
	if !c03lockHeldAt(pfl, parent, loc, arg, false) {
		return false
	}
	// the literal must release the lock itself
	unlocks := false
	for _, call := range directCalls(fn.Body) {
		if s, ok := call.Fun.(*ast.SelectorExpr); ok && expr(s.X) == task && s.Sel.Name == "Unlock" {
			unlocks = true
		}
	}
	if unlocks {
		c.Except(fn.QName(), "goroutine entered with the task lock held: the lock is handed over by the spawning loop body, and this goroutine is the one that unlocks")
	}
	return unlocks
}

// c03runnerVar: the boolean (declared in the function enclosing the waiter
// literal) that records whether this evaluation moved the task INIT->WAITING,
// i.e. the variable assigned from `<task>.state == TaskInit`.
func c03runnerVar(host *Func) string {
	name := "runner"
	for f := host; f != nil && f.Body != nil; f = f.Parent {
		ast.Inspect(f.Body, func(n ast.Node) bool {
			if a, ok := n.(*ast.AssignStmt); ok && len(a.Lhs) == 1 && len(a.Rhs) == 1 {
				if be, ok := ast.Unparen(a.Rhs[0]).(*ast.BinaryExpr); ok && be.Op == token.EQL && (strings.HasSuffix(expr(be.X), ".state") && expr(be.Y) == "TaskInit" || strings.HasSuffix(expr(be.Y), ".state") && expr(be.X) == "TaskInit") {
					name = expr(a.Lhs[0])
				}
			}
			return true
		})
	}
	return name
}
