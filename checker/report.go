package main

import (
	"encoding/json"
	"fmt"
	"os"
	"path/filepath"
	"sort"
	"strings"
)

// Finding is one violated obligation.
type Finding struct {
	Rule   string   `json:"rule"`
	Key    string   `json:"key"` // stable construct key (no line numbers)
	Pos    string   `json:"pos"`
	Msg    string   `json:"msg"`
	Detail []string `json:"detail,omitempty"`
	Known  string   `json:"known,omitempty"`
}

// Obl is one obligation examined (for the evidence file).
type Obl struct {
	Rule string `json:"rule"`
	Key  string `json:"key"`
	Pos  string `json:"pos,omitempty"`
	OK   bool   `json:"ok"`
	Note string `json:"note,omitempty"`
}

// RC is the context a rule runs in.
type RC struct {
	P         *Prog
	Rule      string
	Obls      []Obl
	Findings  []Finding
	Undecided []string
	Notes     []string
	Excepted  []string
	byKey     map[string]int
}

// Check records an obligation; a failed one becomes a finding.
// Obligations are keyed by construct: several paths reaching the same
// construct count as one obligation, which fails if any path fails.
func (c *RC) Check(ok bool, key, pos, msg string, detail ...string) bool {
	if c.byKey == nil {
		c.byKey = map[string]int{}
	}
	if i, seen := c.byKey[key]; seen {
		if !ok && c.Obls[i].OK {
			c.Obls[i].OK = false
			c.Obls[i].Pos = pos
			c.Findings = append(c.Findings, Finding{Rule: c.Rule, Key: key, Pos: pos, Msg: msg, Detail: detail})
		}
		return ok
	}
	c.byKey[key] = len(c.Obls)
	c.Obls = append(c.Obls, Obl{Rule: c.Rule, Key: key, Pos: pos, OK: ok})
	if !ok {
		c.Findings = append(c.Findings, Finding{Rule: c.Rule, Key: key, Pos: pos, Msg: msg, Detail: detail})
	}
	return ok
}

// Pass records a discharged obligation with a note.
func (c *RC) Pass(key, pos, note string) {
	if c.byKey == nil {
		c.byKey = map[string]int{}
	}
	if _, seen := c.byKey[key]; seen {
		return
	}
	c.byKey[key] = len(c.Obls)
	c.Obls = append(c.Obls, Obl{Rule: c.Rule, Key: key, Pos: pos, OK: true, Note: note})
}

func (c *RC) Fail(key, pos, msg string, detail ...string) {
	c.Check(false, key, pos, msg, detail...)
}

// Undecide marks the rule as unable to decide (missing anchor, below floor).
func (c *RC) Undecide(format string, a ...interface{}) {
	c.Undecided = append(c.Undecided, fmt.Sprintf(format, a...))
}

func (c *RC) Note(format string, a ...interface{}) {
	c.Notes = append(c.Notes, fmt.Sprintf(format, a...))
}

// Except records an applied exception (one symbol, one reason).
func (c *RC) Except(symbol, reason string) {
	c.Excepted = append(c.Excepted, symbol+": "+reason)
}

// Floor fails the rule as undecided if fewer instances than confirmed by hand
// were found.
func (c *RC) Floor(what string, got, want int) bool {
	if got < want {
		c.Undecide("%s: found %d instance(s), expected at least %d (an obligation site vanished)", what, got, want)
		return false
	}
	return true
}

// MustFn fetches a function by qualified name or marks the rule undecided.
func (c *RC) MustFn(qname string) *Func {
	f := c.P.Fn(qname)
	if f == nil {
		c.Undecide("anchor function %s not found", qname)
	}
	return f
}

// Rule is a registered rule.
type Rule struct {
	ID  string
	Doc string
	Run func(c *RC)
}

// Property groups the rules deciding one property.
type Property struct {
	ID          string
	Explanation string // what is decided and what is not
	Assumptions []string
	Rules       []Rule
}

var properties = map[string]*Property{}

func registerProperty(p *Property) { properties[p.ID] = p }

// ---------------------------------------------------------------------------
// known findings

type KnownFinding struct {
	Property string `json:"property"`
	Rule     string `json:"rule"`
	Key      string `json:"key"`
	What     string `json:"what"`
}

type KnownFile struct {
	Findings []KnownFinding `json:"findings"`
	Fixed    []string       `json:"fixed"`
}

func loadKnown(path string) (*KnownFile, error) {
	kf := &KnownFile{}
	b, err := os.ReadFile(path)
	if err != nil {
		if os.IsNotExist(err) {
			return kf, nil
		}
		return nil, err
	}
	if err := json.Unmarshal(b, kf); err != nil {
		return nil, err
	}
	return kf, nil
}

// ---------------------------------------------------------------------------
// running a property

type PropResult struct {
	ID         string
	Rules      []*RC
	Violations []Finding
	Known      []Finding
	Undecided  []string
	Crashed    []string
}

func runProperty(pr *Prog, p *Property, kf *KnownFile) *PropResult {
	res := &PropResult{ID: p.ID}
	for _, r := range p.Rules {
		rc := &RC{P: pr, Rule: r.ID}
		func() {
			defer func() {
				if e := recover(); e != nil {
					res.Crashed = append(res.Crashed, fmt.Sprintf("%s: panic: %v", r.ID, e))
					rc.Undecide("rule panicked: %v", e)
				}
			}()
			r.Run(rc)
		}()
		if len(rc.Obls) == 0 && len(rc.Undecided) == 0 {
			rc.Undecide("rule examined no obligation (vacuous)")
		}
		res.Rules = append(res.Rules, rc)
		for _, u := range rc.Undecided {
			res.Undecided = append(res.Undecided, r.ID+": "+u)
		}
		for _, f := range rc.Findings {
			matched := false
			for _, k := range kf.Findings {
				if k.Rule == f.Rule && k.Key == f.Key {
					f.Known = k.What
					matched = true
					break
				}
			}
			if matched {
				res.Known = append(res.Known, f)
			} else {
				res.Violations = append(res.Violations, f)
			}
		}
	}
	return res
}

// ---------------------------------------------------------------------------
// evidence

type evidence struct {
	PropertyID  string                 `json:"property_id"`
	Tier        string                 `json:"tier"`
	Seed        int                    `json:"seed"`
	Level       string                 `json:"level"`
	Coverage    map[string]interface{} `json:"coverage"`
	Assumptions []string               `json:"assumptions"`
	WallS       float64                `json:"wall_s"`
	Violations  int                    `json:"violations"`
}

func writeEvidence(dir string, p *Property, res *PropResult, pr *Prog, tier string, seed int, wall float64, extra map[string]interface{}) error {
	nObl, nOK := 0, 0
	distinct := map[string]bool{}
	var samples []interface{}
	perRule := []map[string]interface{}{}
	funcs := map[string]bool{}
	for _, rc := range res.Rules {
		ok := 0
		for _, o := range rc.Obls {
			nObl++
			if o.OK {
				nOK++
				ok++
			}
			distinct[o.Rule+"|"+o.Key] = true
			if i := strings.Index(o.Key, "|"); i > 0 {
				funcs[o.Key[:i]] = true
			}
		}
		m := map[string]interface{}{
			"rule":        rc.Rule,
			"obligations": len(rc.Obls),
			"discharged":  ok,
		}
		if len(rc.Undecided) > 0 {
			m["undecided"] = rc.Undecided
		}
		if len(rc.Notes) > 0 {
			m["notes"] = rc.Notes
		}
		if len(rc.Excepted) > 0 {
			m["exceptions_applied"] = rc.Excepted
		}
		perRule = append(perRule, m)
		// up to three samples per rule
		for i, o := range rc.Obls {
			if i >= 3 {
				break
			}
			samples = append(samples, o)
		}
	}
	for _, f := range append(append([]Finding{}, res.Violations...), res.Known...) {
		samples = append(samples, f)
	}
	var fl []string
	for f := range funcs {
		fl = append(fl, f)
	}
	sort.Strings(fl)
	var rulesDoc []string
	for _, r := range p.Rules {
		rulesDoc = append(rulesDoc, r.ID+": "+r.Doc)
	}
	npk := len(pr.Order)
	cov := map[string]interface{}{
		"explanation":         p.Explanation,
		"obligations":         nObl,
		"discharged":          nOK,
		"evaluations":         nObl,
		"distinct_nontrivial": len(distinct),
		"rule":                "each obligation is one (rule, construct) pair resolved through the type-checked syntax of /repo; distinct = distinct (rule, construct key) pairs; non-trivial = the rule found its anchor and evaluated a path, table or expression for it. Rules: " + strings.Join(rulesDoc, " || "),
		"samples":             samples,
		"per_rule":            perRule,
		"constructs_analysed": fl,
		"module_packages":     npk,
		"dependency_packages": pr.Deps.NExt,
		"type_error_baseline": len(pr.TypeErrs),
		"known_findings":      res.Known,
		"undecided":           res.Undecided,
		"exhaustive":          false,
		"checker_cmd":         "bsvet " + p.ID,
	}
	for k, v := range extra {
		cov[k] = v
	}
	ev := evidence{
		PropertyID: p.ID, Tier: tier, Seed: seed, Level: "other",
		Coverage: cov,
		Assumptions: append([]string{
			"go/types and go/cfg (x/tools v0.29.0) represent the program faithfully; callees are resolved statically, interface calls by the module's class hierarchy",
			"the 14 baseline type errors (dependency drift) lie outside every inspected expression",
			"only structural necessary conditions are decided; the behaviour itself (values, schedules) is not",
		}, p.Assumptions...),
		WallS:      wall,
		Violations: len(res.Violations) + len(res.Undecided),
	}
	b, err := json.MarshalIndent(ev, "", " ")
	if err != nil {
		return err
	}
	if err := os.MkdirAll(dir, 0o755); err != nil {
		return err
	}
	return os.WriteFile(filepath.Join(dir, p.ID+".json"), b, 0o644)
}
