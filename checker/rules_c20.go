package main

import (
	"go/ast"
	"go/types"
	"strconv"
	"strings"
)

func init() {
	registerProperty(&Property{
		ID:          "C20",
		Explanation: "Decides structural necessary conditions of metric scoping and transport (narrow): (R1) Scope.GobEncode and GobDecode both walk the metric registry in index order — encode fills position i from metric i, decode stores element i into metric i — and decode rejects a length mismatch before storing anything; (R2) every instance type a metric can create is gob-registered, has only exported fields (gob drops the others silently), and merging adds the other instance's value atomically; Merge folds each registered metric of the source into the destination's instance and Reset copies or clears every metric; (R3) the local executor clears the task's scope before running it and runs user code under a context scoped to the task; the worker runs user code under the task's scope and copies it into the reply on every exit; the driver adopts the reply's scope only on the success arm, before the task becomes OK; Result.Scope merges every task of the graph exactly once. Not decided: the arithmetic of merging beyond its shape, end-to-end totals.",
		Rules: []Rule{
			{ID: "C20-R1", Doc: "scope transport walks the registry in index order on both sides", Run: c20r1},
			{ID: "C20-R2", Doc: "instance types registered, exported, additive merge; Merge/Reset cover every metric", Run: c20r2},
			{ID: "C20-R3", Doc: "scope plumbing in executors and Result", Run: c20r3},
			{ID: "C20-R4", Doc: "a metric instance is published by a compare-and-swap whose outcome decides which instance is used", Run: c20r4},
			{ID: "C20-R5", Doc: "a result's counters are the sum over every task behind it: the merge in (*Result).Scope is unconditional", Run: c20r5},
		},
	})
}

// canon renders e with the receiver of fn (and of its enclosing functions)
// written "$recv" and parameter i written "$p<i>" (closure parameters
// "$l<i>"), so that templates do not depend on how those are spelled.
func canon(fn *Func, e ast.Node) string {
	var t string
	if x, ok := e.(ast.Expr); ok {
		t = strings.ReplaceAll(expr(x), " ", "")
	}
	return canonText(fn, t)
}

func canonText(fn *Func, t string) string {
	for f := fn; f != nil; f = f.Parent {
		pre := "$l"
		if f.Decl != nil {
			pre = "$p"
			if r := recvOf(f); r != "" && r != "_" {
				t = replaceWord(t, r, "$recv")
			}
		}
		if f.Type == nil || f.Type.Params == nil {
			continue
		}
		i := 0
		for _, fld := range f.Type.Params.List {
			for _, nm := range fld.Names {
				if nm.Name != "_" {
					t = replaceWord(t, nm.Name, pre+itoa(i))
				}
				i++
			}
			if len(fld.Names) == 0 {
				i++
			}
		}
	}
	return t
}

func itoa(i int) string { return strconv.Itoa(i) }

// varOfType returns the name of the (first) parameter or local of fn whose
// type prints as ts.
func varOfType(fn *Func, ts string) string {
	for f := fn; f != nil; f = f.Parent {
		if f.Type == nil || f.Type.Params == nil {
			continue
		}
		for _, fld := range f.Type.Params.List {
			for _, nm := range fld.Names {
				if o := f.Pkg.Info.Defs[nm]; o != nil && typeString(o.Type()) == ts {
					return nm.Name
				}
			}
		}
	}
	name := ""
	ast.Inspect(fn.Body, func(n ast.Node) bool {
		id, ok := n.(*ast.Ident)
		if !ok || name != "" {
			return name == ""
		}
		if o := fn.Pkg.Info.Defs[id]; o != nil {
			if _, isVar := o.(*types.Var); isVar && typeString(o.Type()) == ts {
				name = id.Name
			}
		}
		return true
	})
	return name
}

func c20r1(c *RC) {
	pr := c.P
	enc := c.MustFn("metrics.(*Scope).GobEncode")
	dec := c.MustFn("metrics.(*Scope).GobDecode")
	if enc == nil || dec == nil {
		return
	}
	// encode: for i, m := range metrics { list[i] = s.load(m) }; list sized len(metrics)
	okE, sized := false, false
	listE := ""
	ast.Inspect(enc.Body, func(n ast.Node) bool {
		if a, ok := n.(*ast.AssignStmt); ok && len(a.Lhs) == 1 && len(a.Rhs) == 1 {
			if k, ok := a.Rhs[0].(*ast.CallExpr); ok && expr(k.Fun) == "make" && len(k.Args) == 2 && expr(k.Args[1]) == "len(metrics)" {
				listE = expr(a.Lhs[0])
			}
		}
		return true
	})
	ast.Inspect(enc.Body, func(n ast.Node) bool {
		switch x := n.(type) {
		case *ast.RangeStmt:
			if expr(x.X) != "metrics" || x.Key == nil || x.Value == nil {
				return true
			}
			i, m := expr(x.Key), expr(x.Value)
			for _, st := range x.Body.List {
				if a, ok := st.(*ast.AssignStmt); ok && len(a.Lhs) == 1 {
					if ix, ok := a.Lhs[0].(*ast.IndexExpr); ok && expr(ix.Index) == i && expr(ix.X) == listE {
						if call, ok := a.Rhs[0].(*ast.CallExpr); ok && enc.Pkg.CalleeName(call) == "metrics.(*Scope).load" && len(call.Args) == 1 && expr(call.Args[0]) == m {
							okE = true
						}
					}
				}
			}
		case *ast.CallExpr:
			if expr(x.Fun) == "make" && len(x.Args) == 2 && expr(x.Args[1]) == "len(metrics)" {
				sized = true
			}
		}
		return true
	})
	c.Check(okE && sized, enc.QName()+"|position-i-is-metric-i", pr.Pos(enc.Body.Pos()), "GobEncode no longer writes the value of metric i at position i of a list with one entry per registered metric")
	// the list is what gets encoded
	encList := false
	for _, k := range callsIn(enc.Body) {
		if enc.Pkg.CalleeName(k) == "encoding/gob.(*Encoder).Encode" && len(k.Args) == 1 && expr(k.Args[0]) == listE && listE != "" {
			encList = true
		}
	}
	c.Check(encList, enc.QName()+"|encodes-the-list", pr.Pos(enc.Body.Pos()), "GobEncode does not encode the per-metric list")
	// decode: length check before the store loop; loop ranges over the decoded slice with index
	fl := pr.Flow(dec)
	var store *ast.CallExpr
	okD := false
	ast.Inspect(dec.Body, func(n ast.Node) bool {
		rng, ok := n.(*ast.RangeStmt)
		if !ok || rng.Key == nil || rng.Value == nil {
			return true
		}
		if tv := dec.Pkg.Info.Types[rng.X]; tv.Type != nil {
			if _, isMap := tv.Type.Underlying().(*types.Map); isMap {
				return true
			}
		}
		i, v := expr(rng.Key), expr(rng.Value)
		for _, k := range callsIn(rng.Body) {
			if dec.Pkg.CalleeName(k) == "metrics.(*Scope).store" && len(k.Args) == 2 && expr(k.Args[0]) == "metrics["+i+"]" && expr(k.Args[1]) == v {
				okD = true
				store = k
			}
		}
		return true
	})
	c.Check(okD, dec.QName()+"|element-i-to-metric-i", pr.Pos(dec.Body.Pos()), "GobDecode no longer stores element i of the decoded list into metric i (in slice order)")
	listD := ""
	for _, k := range callsIn(dec.Body) {
		if dec.Pkg.CalleeName(k) == "encoding/gob.(*Decoder).Decode" && len(k.Args) == 1 {
			listD = strings.TrimPrefix(expr(k.Args[0]), "&")
		}
	}
	if store != nil {
		loc, _ := fl.LocOf(store)
		guarded := true
		var trail []string
		fl.Walk(fl.Entry(), "", nil, Visitor{NoFacts: true,
			Enter: func(from, to *cfg2Block, x string, s *Step) (string, bool) {
				t := strings.ReplaceAll(expr(fl.edgeCond(from)), " ", "")
				if (t == "len("+listD+")!=len(metrics)" || t == "len(metrics)!=len("+listD+")") && from.Succs[1] == to {
					return "len", false
				}
				if (t == "len("+listD+")==len(metrics)" || t == "len(metrics)==len("+listD+")") && from.Succs[0] == to {
					return "len", false
				}
				return x, false
			},
			Node: func(n ast.Node, x string, s *Step) (string, bool) {
				if s.Block == loc.B && s.Idx == loc.I {
					if x != "len" {
						guarded = false
						trail = s.Trail()
					}
					return x, true
				}
				return x, false
			}})
		c.Check(guarded, dec.QName()+"|rejects-length-mismatch", pr.Pos(store.Pos()), "values are stored without the decoded list having been checked to have one entry per locally registered metric: a worker with a different metric set shifts values into the wrong counters (or indexes out of range)", trail...)
	}
	errSites(c, []*Func{enc, dec}, func(fn *Func, call *ast.CallExpr, cn string) bool {
		return strings.HasPrefix(cn, "encoding/gob.")
	}, ErrFlowOpts{}, nil)
}

func c20r2(c *RC) {
	pr := c.P
	pk := pr.Pkgs["metrics"]
	if pk == nil {
		c.Undecide("metrics not loaded")
		return
	}
	// instance types: newInstance methods returning new(T)
	inst := map[string]bool{}
	for _, fn := range pr.FuncsIn("metrics") {
		if fn.Decl == nil || fn.Decl.Name.Name != "newInstance" {
			continue
		}
		ast.Inspect(fn.Body, func(n ast.Node) bool {
			if r, ok := n.(*ast.ReturnStmt); ok && len(r.Results) == 1 {
				if call, ok := r.Results[0].(*ast.CallExpr); ok && expr(call.Fun) == "new" && len(call.Args) == 1 {
					inst[expr(call.Args[0])] = true
				} else if u, ok := r.Results[0].(*ast.UnaryExpr); ok {
					if cl, ok := u.X.(*ast.CompositeLit); ok {
						inst[expr(cl.Type)] = true
					}
				}
			}
			return true
		})
	}
	c.Floor("metric instance types", len(inst), 1)
	reg := map[string]bool{}
	for _, fn := range pr.FuncsIn("metrics") {
		if fn.Body == nil {
			continue
		}
		for _, k := range callsIn(fn.Body) {
			if fn.Pkg.CalleeName(k) == "encoding/gob.Register" && len(k.Args) == 1 {
				t := nodeSrc(pr, k.Args[0])
				t = strings.TrimSuffix(strings.TrimPrefix(t, "&"), "{}")
				reg[t] = true
			}
		}
	}
	for t := range inst {
		c.Check(reg[t], "metrics."+t+"|gob-registered", "metrics/metrics.go", "metric instance type "+t+" is not registered with gob: a scope holding it cannot be sent from a worker to the driver")
		if n := pr.lookupType("metrics", t); n != nil {
			if st, ok := n.Underlying().(*types.Struct); ok {
				var unexp []string
				for i := 0; i < st.NumFields(); i++ {
					if !st.Field(i).Exported() {
						unexp = append(unexp, st.Field(i).Name())
					}
				}
				c.Check(len(unexp) == 0 && st.NumFields() > 0, "metrics."+t+"|fields-exported", pr.Pos(n.Obj().Pos()), "instance type "+t+" has unexported field(s) "+strings.Join(unexp, ", ")+": gob drops them silently, so values arrive as zero on the driver")
			}
		}
	}
	// merge is additive and atomic
	if m := c.MustFn("metrics.(*counterValue).merge"); m != nil {
		ok := false
		for _, k := range callsIn(m.Body) {
			if m.Pkg.CalleeName(k) == "sync/atomic.AddInt64" && len(k.Args) == 2 {
				if strings.HasPrefix(canon(m, k.Args[0]), "&$recv.") && strings.HasSuffix(expr(k.Args[1]), ".load()") && !strings.HasPrefix(canon(m, k.Args[1]), "$recv.") {
					ok = true
				}
			}
		}
		c.Check(ok, m.QName()+"|adds-other-value", pr.Pos(m.Body.Pos()), "merging counters no longer atomically adds the other instance's value to the receiver")
	}
	if m := c.MustFn("metrics.Counter.merge"); m != nil {
		ok := false
		for _, k := range callsIn(m.Body) {
			if m.Pkg.CalleeName(k) == "metrics.(*counterValue).merge" && strings.HasPrefix(canon(m, k.Fun), "$p0.") && len(k.Args) == 1 && strings.HasPrefix(canon(m, k.Args[0]), "$p1.") {
				ok = true
			}
		}
		c.Check(ok, m.QName()+"|merges-y-into-x", pr.Pos(m.Body.Pos()), "Counter.merge no longer merges its second operand into its first")
	}
	// Scope.Merge / Reset cover every metric
	if mg := c.MustFn("metrics.(*Scope).Merge"); mg != nil {
		ok := false
		ast.Inspect(mg.Body, func(n ast.Node) bool {
			rng, isR := n.(*ast.RangeStmt)
			if !isR || expr(rng.X) != "metrics" {
				return true
			}
			m := expr(rng.Value)
			src := ""
			for _, st := range rng.Body.List {
				if a, isA := st.(*ast.AssignStmt); isA && len(a.Rhs) == 1 {
					if call, isC := a.Rhs[0].(*ast.CallExpr); isC && mg.Pkg.CalleeName(call) == "metrics.(*Scope).load" {
						if sel, ok := call.Fun.(*ast.SelectorExpr); ok && canon(mg, sel.X) == "$p0" {
							src = expr(a.Lhs[0])
						}
					}
				}
				if es, isE := st.(*ast.ExprStmt); isE {
					if call, isC := es.X.(*ast.CallExpr); isC && mg.Pkg.CalleeName(call) == "metrics.Metric.merge" && len(call.Args) == 2 {
						if expr(call.Fun) == m+".merge" && canon(mg, call.Args[0]) == "$recv.instance("+m+")" && expr(call.Args[1]) == src && src != "" {
							ok = true
						}
					}
				}
			}
			return true
		})
		c.Check(ok, mg.QName()+"|folds-every-metric-of-source-into-receiver", pr.Pos(mg.Body.Pos()), "Scope.Merge no longer merges, for every registered metric, the source scope's instance into the receiver's own instance")
		// ... and never adopts an instance of the source: the receiver's
		// instances are created by instance() only, so that merging leaves the
		// source unchanged and later merges do not add to it
		adopts := false
		for _, k := range callsIn(mg.Body) {
			if mg.Pkg.CalleeName(k) == "metrics.(*Scope).store" {
				adopts = true
			}
		}
		c.Check(!adopts, mg.QName()+"|never-adopts-a-source-instance", pr.Pos(mg.Body.Pos()), "Scope.Merge stores an instance into the receiver instead of adding to the receiver's own: the receiver then shares the source's counter, every later merge also adds to that source, and a scope merged into two results is counted with whatever was merged after it")
	}
	if rs := c.MustFn("metrics.(*Scope).Reset"); rs != nil {
		clr, cp := false, false
		ast.Inspect(rs.Body, func(n ast.Node) bool {
			switch x := n.(type) {
			case *ast.CallExpr:
				if rs.Pkg.CalleeName(x) == "sync/atomic.StorePointer" && len(x.Args) == 2 && strings.Contains(canon(rs, x.Args[0]), "$recv.storage") && strings.Contains(expr(x.Args[1]), "nil") {
					clr = true
				}
			case *ast.RangeStmt:
				if expr(x.X) == "metrics" {
					m := expr(x.Value)
					for _, k := range callsIn(x.Body) {
						if rs.Pkg.CalleeName(k) == "metrics.(*Scope).store" && len(k.Args) == 2 && expr(k.Args[0]) == m && canon(rs, k.Args[1]) == "$p0.load("+m+")" {
							cp = true
						}
					}
				}
			}
			return true
		})
		c.Check(clr && cp, rs.QName()+"|clears-or-copies-every-metric", pr.Pos(rs.Body.Pos()), "Scope.Reset no longer clears the scope for nil and otherwise copies every registered metric from the other scope")
	}
	// metric ids are registry positions
	if nm := c.MustFn("metrics.newMetric"); nm != nil {
		ok := false
		for _, k := range callsIn(nm.Body) {
			if canon(nm, k.Fun) == "$p0" && len(k.Args) == 1 && expr(k.Args[0]) == "len(metrics)" {
				ok = true
			}
		}
		c.Check(ok, nm.QName()+"|id-is-registry-position", pr.Pos(nm.Body.Pos()), "a new metric's id is no longer its position in the registry, which the index-ordered transport relies on")
	}
}

func c20r3(c *RC) {
	pr := c.P
	// local executor
	if fn := c.MustFn("exec.(*localExecutor).Run"); fn != nil {
		fq := fn.QName()
		fl := pr.Flow(fn)
		var do, reset *ast.CallExpr
		for _, k := range callsIn(fn.Body) {
			sel, ok := k.Fun.(*ast.SelectorExpr)
			if ok && pr.fieldQName(fn.Pkg.FieldOf(sel)) == "exec.Task.Do" {
				do = k
			}
			if fn.Pkg.CalleeName(k) == "metrics.(*Scope).Reset" && len(k.Args) == 1 && expr(k.Args[0]) == "nil" && expr(k.Fun) == varOfType(fn, "*exec.Task")+".Scope.Reset" {
				reset = k
			}
		}
		if do == nil {
			c.Fail(fq+"|runs-task", pr.Pos(fn.Body.Pos()), "local Run no longer calls task.Do")
		} else {
			dl, _ := fl.LocOf(do)
			dom := false
			if reset != nil {
				dom, _ = fl.Dominated(dl, func(n ast.Node, s *Step) bool {
					return nodeHas(n, func(m ast.Node) bool { return m == ast.Node(reset) })
				})
			}
			c.Check(dom, fq+"|scope-cleared-before-run", pr.Pos(do.Pos()), "the task's metric scope is not cleared before the task runs: a task that is re-run (after a loss or discard) reports its increments twice")
		}
		scoped := false
		for _, k := range callsIn(fn.Body) {
			if fn.Pkg.CalleeName(k) == "exec.bufferOutput" && len(k.Args) == 3 {
				if sc, ok := k.Args[0].(*ast.CallExpr); ok && fn.Pkg.CalleeName(sc) == "metrics.ScopedContext" && len(sc.Args) == 2 && expr(sc.Args[1]) == "&"+varOfType(fn, "*exec.Task")+".Scope" {
					scoped = true
				}
			}
		}
		c.Check(scoped, fq+"|user-code-under-task-scope", pr.Pos(fn.Body.Pos()), "the local executor no longer evaluates the task under a context scoped to the task's own metric scope")
	}
	// worker
	if fn := c.MustFn("exec.(*worker).Run"); fn != nil {
		fq := fn.QName()
		fl := pr.Flow(fn)
		var sc *ast.AssignStmt
		taskV := varOfType(fn, "*exec.Task")
		inspectNoLit(fn.Body, func(n ast.Node) bool {
			if a, ok := n.(*ast.AssignStmt); ok && len(a.Lhs) == 1 && canon(fn, a.Lhs[0]) == "$p0" && canon(fn, a.Rhs[0]) == "metrics.ScopedContext($p0,&"+taskV+".Scope)" {
				sc = a
			}
			return true
		})
		if sc == nil {
			c.Fail(fq+"|user-code-under-task-scope", pr.Pos(fn.Body.Pos()), "the worker no longer scopes the context to the task's metric scope")
		} else {
			okAll := true
			for _, k := range callsIn(fn.Body) {
				sel, ok := k.Fun.(*ast.SelectorExpr)
				if !ok || pr.fieldQName(fn.Pkg.FieldOf(sel)) != "exec.Task.Do" {
					continue
				}
				loc, _ := fl.LocOf(k)
				dom, _ := fl.Dominated(loc, func(n ast.Node, s *Step) bool { return n == ast.Node(sc) })
				if !dom {
					okAll = false
				}
			}
			c.Check(okAll, fq+"|user-code-under-task-scope", pr.Pos(sc.Pos()), "task.Do is reachable before the context was scoped to the task")
		}
		// the scope is cleared before the task's code runs (a task that is run
		// again on this machine — after a discard, a loss or a failure — must
		// not add to what its earlier run counted)
		{
			var reset *ast.CallExpr
			for _, k := range callsIn(fn.Body) {
				if fn.Pkg.CalleeName(k) == "metrics.(*Scope).Reset" && len(k.Args) == 1 && expr(k.Args[0]) == "nil" && expr(k.Fun) == taskV+".Scope.Reset" {
					reset = k
				}
			}
			okAll, nDo := reset != nil, 0
			for _, k := range callsIn(fn.Body) {
				sel, ok := k.Fun.(*ast.SelectorExpr)
				if !ok || pr.fieldQName(fn.Pkg.FieldOf(sel)) != "exec.Task.Do" {
					continue
				}
				nDo++
				if reset == nil {
					continue
				}
				loc, _ := fl.LocOf(k)
				dom, _ := fl.Dominated(loc, func(n ast.Node, s *Step) bool {
					return nodeHas(n, func(m ast.Node) bool { return m == ast.Node(reset) })
				})
				if !dom {
					okAll = false
				}
			}
			c.Check(okAll && nDo > 0, fq+"|scope-cleared-before-run", pr.Pos(fn.Body.Pos()),
				"the worker does not clear the task's metric scope before running the task: a task that is run again on the same machine (its output was discarded or lost, or the earlier attempt failed) adds to the counters of its earlier run, so the result reports increments twice")
		}
		// deferred reply.Scope.Reset(&task.Scope), installed once task is known
		dl := false
		for _, st := range fn.Body.List {
			d, ok := st.(*ast.DeferStmt)
			if !ok {
				continue
			}
			if lit, ok := d.Call.Fun.(*ast.FuncLit); ok {
				for _, k := range callsIn(lit.Body) {
					if fn.Pkg.CalleeName(k) == "metrics.(*Scope).Reset" && canon(fn, k.Fun) == "$p2.Scope.Reset" && len(k.Args) == 1 && expr(k.Args[0]) == "&"+taskV+".Scope" {
						dl = true
					}
				}
			}
		}
		c.Check(dl, fq+"|reply-carries-task-scope", pr.Pos(fn.Body.Pos()), "the worker no longer copies the task's metric scope into the reply in a defer: increments made on the worker never reach the driver")
		// ... and it is installed before any return that can follow the task
		// having been found (the driver adopts the reply's scope after every
		// successful call, also one that found the task already run)
		var dst *ast.DeferStmt
		for _, st := range fn.Body.List {
			if d, ok := st.(*ast.DeferStmt); ok {
				if lit, ok := d.Call.Fun.(*ast.FuncLit); ok {
					for _, k := range callsIn(lit.Body) {
						if fn.Pkg.CalleeName(k) == "metrics.(*Scope).Reset" && canon(fn, k.Fun) == "$p2.Scope.Reset" {
							dst = d
						}
					}
				}
			}
		}
		if dst != nil {
			taskKey := ""
			ast.Inspect(fn.Body, func(n ast.Node) bool {
				if id, ok := n.(*ast.Ident); ok && id.Name == taskV && taskKey == "" {
					taskKey = fl.Key(id)
				}
				return true
			})
			early := ""
			var trail []string
			fl.Walk(fl.Entry(), "", nil, Visitor{
				Node: func(n ast.Node, x string, s *Step) (string, bool) {
					if n == ast.Node(dst) {
						return x, true
					}
					return x, false
				},
				Exit: func(kind ExitKind, ret *ast.ReturnStmt, x string, s *Step) {
					if kind == ExitPanic || taskKey == "" {
						return
					}
					if s.Facts.NonNil(taskKey) {
						early = fl.exitPos(s, ret)
						trail = s.Trail()
					}
				}})
			c.Check(early == "", fq+"|reply-scope-installed-before-any-return-with-a-task", pr.Pos(dst.Pos()),
				"the worker can return (at "+early+") with the task known but before the deferred copy of the task's scope into the reply is installed: the call succeeds with an empty scope, and the driver, which adopts the reply's scope after every successful call, wipes the task's counters", trail...)
		}
	}
	// driver: adopt reply scope only on success, before OK
	if fn := c.MustFn("exec.(*bigmachineExecutor).Run"); fn != nil {
		fq := fn.QName()
		fl := pr.Flow(fn)
		var adopt *ast.CallExpr
		replyV := varOfType(fn, "exec.taskRunReply")
		for _, k := range callsIn(fn.Body) {
			if fn.Pkg.CalleeName(k) == "metrics.(*Scope).Reset" && expr(k.Fun) == varOfType(fn, "*exec.Task")+".Scope.Reset" && len(k.Args) == 1 && expr(k.Args[0]) == "&"+replyV+".Scope" {
				adopt = k
			}
		}
		if adopt == nil {
			c.Fail(fq+"|adopts-reply-scope", pr.Pos(fn.Body.Pos()), "the driver no longer adopts the scope returned by the worker")
		} else {
			loc, _ := fl.LocOf(adopt)
			okSucc := true
			var trail []string
			n := 0
			// the error variable of the Worker.Run call
			runErr := ""
			inspectNoLit(fn.Body, func(nd ast.Node) bool {
				if a, ok := nd.(*ast.AssignStmt); ok && len(a.Rhs) == 1 && len(a.Lhs) == 1 {
					if k, ok := a.Rhs[0].(*ast.CallExpr); ok && len(k.Args) >= 2 && strings.Contains(nodeSrc(pr, k.Args[1]), "Worker.Run") {
						runErr = fl.Key(a.Lhs[0])
					}
				}
				return true
			})
			fl.Walk(fl.Entry(), "", nil, Visitor{
				Node: func(nd ast.Node, x string, s *Step) (string, bool) {
					if s.Block == loc.B && s.Idx == loc.I {
						n++
						nilErr := false
						if runErr != "" && s.Facts.IsNil(runErr) {
							nilErr = true
						}
						if !nilErr {
							okSucc = false
							trail = s.Trail()
						}
						return x, true
					}
					return x, false
				}})
			c.Check(okSucc && n > 0, fq+"|reply-scope-only-on-success", pr.Pos(adopt.Pos()), "the reply's scope is adopted on a path where the run is not known to have succeeded: a lost or failed attempt's (partial or empty) counters replace the task's", trail...)
			// before Set(TaskOk) in the same arm
			var setOK *ast.CallExpr
			for _, k := range callsIn(fn.Body) {
				if fn.Pkg.CalleeName(k) == "exec.(*Task).Set" && len(k.Args) == 1 && expr(k.Args[0]) == "TaskOk" {
					setOK = k
				}
			}
			if setOK != nil {
				sl, _ := fl.LocOf(setOK)
				dom, _ := fl.Dominated(sl, func(nd ast.Node, s *Step) bool {
					return nodeHas(nd, func(m ast.Node) bool { return m == ast.Node(adopt) })
				})
				c.Check(dom, fq+"|scope-adopted-before-OK", pr.Pos(setOK.Pos()), "the task becomes OK before its scope holds the worker's counters: a waiter that reads Result.Scope right away misses them")
			}
		}
	}
	// Result.Scope
	if fn := c.MustFn("exec.(*Result).Scope"); fn != nil {
		fq := fn.QName()
		once, merge := false, false
		for _, k := range callsIn(fn.Body) {
			if fn.Pkg.CalleeName(k) == "sync.(*Once).Do" {
				once = true
			}
		}
		var walk func(f *Func)
		walk = func(f *Func) {
			for _, k := range callsIn(f.Body) {
				if f.Pkg.CalleeName(k) == "metrics.(*Scope).Merge" && len(k.Args) == 1 && canon(f, k.Fun) == "$recv.scope.Merge" {
					arg := ast.Unparen(k.Args[0])
					// a single-definition local stands for its definition
					if id, ok := arg.(*ast.Ident); ok {
						if d, ok := newLinEnv(pr, f).defs[f.Pkg.Info.Uses[id]]; ok {
							arg = ast.Unparen(d)
						}
					}
					if canon(f, arg) == "&$l0.Scope" {
						merge = true
					}
				}
			}
			for _, l := range f.Lits {
				walk(l)
			}
		}
		walk(fn)
		iter := false
		var walk2 func(f *Func)
		walk2 = func(f *Func) {
			for _, k := range callsIn(f.Body) {
				if f.Pkg.CalleeName(k) == "exec.iterTasks" && len(k.Args) == 2 && canon(f, k.Args[0]) == "$recv.tasks" {
					iter = true
				}
			}
			for _, l := range f.Lits {
				walk2(l)
			}
		}
		walk2(fn)
		c.Check(once && merge && iter, fq+"|merges-each-task-once", pr.Pos(fn.Body.Pos()), "Result.Scope no longer merges the scope of every task of the result's graph exactly once (sync.Once around iterTasks(r.tasks, ... Merge(&task.Scope)))")
	}
	// iterTasks visits each task once
	if it := pr.Fn("exec.iterTasks"); it != nil {
		visited := false
		var walk func(f *Func)
		walk = func(f *Func) {
			ast.Inspect(f.Body, func(n ast.Node) bool {
				if ix, ok := n.(*ast.IndexExpr); ok {
					if tv := f.Pkg.Info.Types[ix.X]; tv.Type != nil {
						if _, isMap := tv.Type.Underlying().(*types.Map); isMap {
							visited = true
						}
					}
				}
				return true
			})
			for _, l := range f.Lits {
				walk(l)
			}
		}
		walk(it)
		c.Check(visited, "exec.iterTasks|visits-each-task-once", pr.Pos(it.Body.Pos()), "iterTasks no longer keeps a visited set: shared tasks would be merged more than once")
	} else {
		c.Undecide("exec.iterTasks not found")
	}
}
