package main

// E2: error-value flow.  For a call whose last result is an error, the error
// must, on every path on which it may be non-nil (and not an accepted
// end-of-stream sentinel), reach a consuming use — returned, stored, passed to
// a call, wrapped — before it is overwritten or the function returns.

import (
	"fmt"
	"go/ast"
	"go/token"
	"go/types"
	"strings"
)

type ErrFlowOpts struct {
	// SentinelOK lists value names (as produced by atomVal, e.g. "sliceio.EOF")
	// that do not count as errors.
	SentinelOK []string
	// KeyPrefix is prepended to obligation keys.
	What string
	// AllowBlank accepts `_ = f()` and `x, _ := f()` as deliberate discards.
	AllowBlank bool
	// RequireRowsZero: not used by the generic engine.
}

var errorType = types.Universe.Lookup("error").Type()

// returnsError reports whether the call's last result is of type error.
func returnsError(pk *Pkg, call *ast.CallExpr) bool {
	tv, ok := pk.Info.Types[call]
	if !ok || tv.Type == nil {
		return false
	}
	switch t := tv.Type.(type) {
	case *types.Tuple:
		if t.Len() == 0 {
			return false
		}
		return types.Identical(t.At(t.Len()-1).Type(), errorType)
	default:
		return types.Identical(t, errorType)
	}
}

// pathTo returns the chain of nodes from root down to target (inclusive).
func pathTo(root, target ast.Node) []ast.Node {
	var path, found []ast.Node
	ast.Inspect(root, func(n ast.Node) bool {
		if found != nil {
			return false
		}
		if n == nil {
			path = path[:len(path)-1]
			return false
		}
		path = append(path, n)
		if n == target {
			found = append([]ast.Node{}, path...)
			return false
		}
		return true
	})
	return found
}

// objOf resolves an identifier to its variable object.
func objOf(pk *Pkg, id *ast.Ident) *types.Var {
	if o, ok := pk.Info.Uses[id].(*types.Var); ok {
		return o
	}
	if o, ok := pk.Info.Defs[id].(*types.Var); ok {
		return o
	}
	return nil
}

// errFlow checks one call site.  fn must be the innermost function (literal)
// containing call.  ordinal disambiguates same-callee sites in the key.
func errFlow(c *RC, fn *Func, call *ast.CallExpr, label string, opts ErrFlowOpts) {
	pr := c.P
	pk := fn.Pkg
	fl := pr.Flow(fn)
	key := fn.QName() + "|" + label
	pos := pr.Pos(call.Pos())
	loc, ok := fl.LocOf(call)
	if !ok {
		c.Undecide("%s: call %s not found in the CFG", fn.QName(), label)
		return
	}
	node := loc.B.Nodes[loc.I]
	path := pathTo(node, call)
	if path == nil {
		c.Undecide("%s: call %s not located inside its CFG node", fn.QName(), label)
		return
	}
	// classify the immediate context
	var parent ast.Node
	if len(path) >= 2 {
		parent = path[len(path)-2]
	}
	for {
		if p, ok := parent.(*ast.ParenExpr); ok && len(path) >= 3 {
			_ = p
			path = path[:len(path)-1]
			parent = path[len(path)-2]
			continue
		}
		break
	}
	var errVar *types.Var
	var errIdent *ast.Ident
	switch p := parent.(type) {
	case nil:
		// the node is the call itself (a bare expression in a block, e.g. range X)
		c.Pass(key, pos, "call is an operand")
		return
	case *ast.ReturnStmt:
		c.Pass(key, pos, "returned directly")
		return
	case *ast.CallExpr:
		if p.Fun == ast.Expr(call) {
			c.Pass(key, pos, "callee expression")
			return
		}
		c.Pass(key, pos, "passed to "+expr(p.Fun))
		return
	case *ast.ExprStmt:
		c.Fail(key, pos, fmt.Sprintf("the error returned by %s is dropped: the call is a bare statement", label))
		return
	case *ast.DeferStmt, *ast.GoStmt:
		c.Fail(key, pos, fmt.Sprintf("the error returned by %s is dropped: the call is deferred/spawned with its result ignored", label))
		return
	case *ast.AssignStmt:
		if len(p.Rhs) != 1 {
			// parallel assignment a, b = f(), g(): the error of f goes to the matching LHS
			idx := -1
			for i, r := range p.Rhs {
				if ast.Unparen(r) == ast.Expr(call) {
					idx = i
				}
			}
			if idx < 0 || idx >= len(p.Lhs) {
				c.Undecide("%s: %s in an assignment I cannot match", fn.QName(), label)
				return
			}
			errIdent, _ = p.Lhs[idx].(*ast.Ident)
			if errIdent == nil {
				c.Pass(key, pos, "stored in "+expr(p.Lhs[idx]))
				return
			}
		} else {
			last := p.Lhs[len(p.Lhs)-1]
			id, isIdent := last.(*ast.Ident)
			if !isIdent {
				c.Pass(key, pos, "stored in "+expr(last))
				return
			}
			errIdent = id
		}
	case *ast.ValueSpec:
		if len(p.Names) == 0 {
			c.Undecide("%s: %s in a var spec without names", fn.QName(), label)
			return
		}
		errIdent = p.Names[len(p.Names)-1]
	case *ast.BinaryExpr, *ast.UnaryExpr, *ast.IfStmt, *ast.SwitchStmt:
		c.Fail(key, pos, fmt.Sprintf("the error returned by %s is only tested, never reported", label))
		return
	case *ast.KeyValueExpr, *ast.CompositeLit, *ast.SendStmt:
		c.Pass(key, pos, "stored")
		return
	default:
		c.Undecide("%s: %s used in an unrecognised context %T", fn.QName(), label, parent)
		return
	}
	if errIdent.Name == "_" {
		if opts.AllowBlank {
			c.Pass(key, pos, "explicitly discarded with _")
		} else {
			c.Fail(key, pos, fmt.Sprintf("the error returned by %s is discarded with _", label))
		}
		return
	}
	errVar = objOf(pk, errIdent)
	if errVar == nil {
		c.Undecide("%s: cannot resolve error variable %s of %s", fn.QName(), errIdent.Name, label)
		return
	}
	// stored into a variable that lives outside this function (captured or
	// package-level): that is a store
	if !(fn.Node().Pos() <= errVar.Pos() && errVar.Pos() < fn.Node().End()) {
		c.Pass(key, pos, "assigned to captured/outer variable "+errIdent.Name)
		return
	}
	named := false
	if fn.Type.Results != nil {
		for _, f := range fn.Type.Results.List {
			for _, n := range f.Names {
				if pk.Info.Defs[n] == types.Object(errVar) {
					named = true
				}
			}
		}
	}
	// referenced by a deferred closure declared in this function => the
	// closure sees (and may report) it at exit when it is a named result
	vkey := fl.Key(errIdent)
	notBad := func(f Facts) bool {
		if f.IsNil(vkey) {
			return true
		}
		for _, s := range opts.SentinelOK {
			if f.Eq(vkey) == s {
				return true
			}
		}
		return false
	}
	type use int
	const (
		useNone use = iota
		useConsume
		useOverwrite
	)
	classify := func(n ast.Node) use {
		res := useNone
		var stack []ast.Node
		ast.Inspect(n, func(m ast.Node) bool {
			if m == nil {
				stack = stack[:len(stack)-1]
				return false
			}
			stack = append(stack, m)
			id, ok := m.(*ast.Ident)
			if !ok || objOf(pk, id) != errVar {
				return true
			}
			var par ast.Node
			if len(stack) >= 2 {
				par = stack[len(stack)-2]
			}
			for i := len(stack) - 2; i >= 0; i-- {
				if _, isParen := stack[i].(*ast.ParenExpr); isParen {
					continue
				}
				par = stack[i]
				break
			}
			switch p := par.(type) {
			case *ast.BinaryExpr:
				if p.Op == token.EQL || p.Op == token.NEQ {
					return true // a test
				}
			case *ast.AssignStmt:
				for _, l := range p.Lhs {
					if l == ast.Expr(id) {
						if res == useNone {
							res = useOverwrite
						}
						return true
					}
				}
			case *ast.ValueSpec:
				for _, l := range p.Names {
					if l == id {
						return true
					}
				}
			}
			res = useConsume
			return true
		})
		return res
	}
	reported := false
	fail := func(s *Step, where, why string) {
		if reported {
			return
		}
		reported = true
		c.Fail(key, pos, fmt.Sprintf("the error returned by %s (in %s) %s at %s", label, errIdent.Name, why, where), s.Trail()...)
	}
	start := Loc{loc.B, loc.I + 1}
	fl.Walk(start, "", nil, Visitor{
		Node: func(n ast.Node, x string, s *Step) (string, bool) {
			if notBad(s.Facts) {
				return x, true
			}
			// a return statement is classified like any node; a bare return of a
			// named result reports it
			if ret, ok := n.(*ast.ReturnStmt); ok && len(ret.Results) == 0 && named {
				return x, true
			}
			switch classify(n) {
			case useConsume:
				return x, true
			case useOverwrite:
				fail(s, pr.Pos(n.Pos()), "is overwritten before it was reported")
				return x, true
			}
			return x, false
		},
		Exit: func(kind ExitKind, ret *ast.ReturnStmt, x string, s *Step) {
			if kind == ExitPanic || notBad(s.Facts) {
				return
			}
			if named && (ret == nil || len(ret.Results) == 0) {
				return
			}
			why := "is dropped: the function returns without reporting it"
			if s.Facts.NonNil(vkey) {
				why = "is known to be non-nil yet the function returns without reporting it"
			}
			if ret != nil {
				var rs []string
				for _, r := range ret.Results {
					rs = append(rs, expr(r))
				}
				why += " (return " + strings.Join(rs, ", ") + ")"
			}
			fail(s, fl.exitPos(s, ret), why)
		},
	})
	if !reported {
		c.Pass(key, pos, "handled on every path")
	}
}

// errSites enumerates, per function, the calls selected by pred whose last
// result is an error, and runs errFlow on each.  Returns the number of sites.
func errSites(c *RC, fns []*Func, pred func(fn *Func, call *ast.CallExpr, callee string) bool, opts ErrFlowOpts, except map[string]string) int {
	n := 0
	for _, fn := range fns {
		if fn.Body == nil {
			continue
		}
		ord := map[string]int{}
		// calls directly in this function (not in nested literals, which are
		// separate Funcs, except literals invoked on the spot)
		for _, call := range directCalls(fn.Body) {
			if !returnsError(fn.Pkg, call) {
				continue
			}
			cn := fn.Pkg.CalleeName(call)
			if cn == "" {
				cn = expr(call.Fun)
			}
			if !pred(fn, call, cn) {
				// a local closure that hands through the error of a selected call
				// (helper := func(...) error { ...; return tracked(...) })
				id, isId := call.Fun.(*ast.Ident)
				if !isId || !closureReturnsSelected(c.P, fn, id.Name, pred) {
					continue
				}
				cn = "closure:" + id.Name
			}
			ord[cn]++
			label := fmt.Sprintf("%s#%d", shortCallee(cn), ord[cn])
			if reason, ok := except[fn.QName()+"|"+shortCallee(cn)]; ok {
				c.Except(fn.QName()+"|"+shortCallee(cn), reason)
				c.Pass(fn.QName()+"|"+label, c.P.Pos(call.Pos()), "exception: "+reason)
				n++
				continue
			}
			errFlow(c, fn, call, label, opts)
			n++
		}
	}
	return n
}

func shortCallee(cn string) string {
	if i := strings.LastIndex(cn, "/"); i >= 0 {
		return cn[i+1:]
	}
	return cn
}

// closureReturnsSelected: name is bound (in fn or an enclosing function) to a
// function literal one of whose return statements returns a call selected by
// pred.
func closureReturnsSelected(pr *Prog, fn *Func, name string, pred func(fn *Func, call *ast.CallExpr, callee string) bool) bool {
	for f := fn; f != nil && f.Body != nil; f = f.Parent {
		var lit *Func
		ast.Inspect(f.Body, func(n ast.Node) bool {
			if a, ok := n.(*ast.AssignStmt); ok && len(a.Lhs) == 1 && len(a.Rhs) == 1 && expr(a.Lhs[0]) == name {
				if l, ok := a.Rhs[0].(*ast.FuncLit); ok {
					lit = pr.FuncOfLit(l)
				}
			}
			return true
		})
		if lit == nil {
			continue
		}
		res := false
		ast.Inspect(lit.Body, func(n ast.Node) bool {
			r, ok := n.(*ast.ReturnStmt)
			if !ok {
				return true
			}
			for _, e := range r.Results {
				if k, ok := ast.Unparen(e).(*ast.CallExpr); ok {
					cn := lit.Pkg.CalleeName(k)
					if cn == "" {
						cn = expr(k.Fun)
					}
					if returnsError(lit.Pkg, k) && pred(lit, k, cn) {
						res = true
					}
				}
			}
			return true
		})
		return res
	}
	return false
}
