package main

import (
	"fmt"
	"go/ast"
	"go/token"
	"go/types"
	"sort"
	"strings"
)

func init() {
	registerProperty(&Property{
		ID:          "C11",
		Explanation: "Decides structural necessary conditions of view transparency in package frame: (R1) every access to a column's storage — ops.Less/HashWithSeed/swap/Encode/Decode, val.Index/Slice, and pointer arithmetic on data.ptr — translates its row operand by +off of the frame whose data is addressed (scaled by the element size for pointer forms), the only untranslated accesses being those dominated by off == 0; (R2) Slice returns {off+i, j-i, cap-i} behind the bounds check, and grow/Ensure preserve rows; (R3) the untyped fast paths of assign run only under the matching size/pointer-ness facts and every other path reaches typedmemmove; (R4) frame.pointers and zero.isValueType list the same pointer-free kinds; (R5) codecs get exactly [off, off+len). Not decided: that sorting yields a permutation, step-by-step equivalence with a slice-of-rows model, memory safety of the runtime linknames.",
		Rules: []Rule{
			{ID: "C11-R1", Doc: "every storage access is offset-translated by the right frame", Run: c11r1},
			{ID: "C11-R2", Doc: "slicing/grow arithmetic", Run: c11r2},
			{ID: "C11-R3", Doc: "untyped fast paths guarded by size and pointer-ness", Run: c11r3},
			{ID: "C11-R4", Doc: "pointer-free kind tables agree", Run: c11r4},
			{ID: "C11-R5", Doc: "zeroing writes exactly n elements", Run: c11r5},
			{ID: "C11-R6", Doc: "constructors take the smallest column capacity; Ensure(n) yields exactly n rows", Run: c11r6},
			{ID: "C11-R7", Doc: "a frame parameter is replaced by a frame made from another frame only where it is known to be the zero frame (the result keeps the destination's key prefix)", Run: c11r7},
			{ID: "C11-R8", Doc: "Copy moves rows element by element only when a single row is copied (overlapping views are copied with memmove semantics)", Run: c11r8},
			{ID: "C11-R9", Doc: "a column is bound (newData) over the whole capacity the frame records, so grown views within capacity can be read, compared and sorted", Run: c11r9},
			{ID: "C11-R10", Doc: "comparison and hashing cover every key column (a loop over [0, prefix) plus column prefix)", Run: c11r10},
			{ID: "C07-R6", Doc: "the decoder writes only the rows of the destination view (shared)", Run: c07r6},
		},
	})
}

// term is one summand of an additive expression.
type term struct {
	neg bool
	e   ast.Expr
}

func flattenSum(e ast.Expr, neg bool, out *[]term) {
	e = ast.Unparen(e)
	if be, ok := e.(*ast.BinaryExpr); ok {
		switch be.Op {
		case token.ADD:
			flattenSum(be.X, neg, out)
			flattenSum(be.Y, neg, out)
			return
		case token.SUB:
			flattenSum(be.X, neg, out)
			flattenSum(be.Y, !neg, out)
			return
		}
	}
	*out = append(*out, term{neg, e})
}

// c11env resolves once-assigned locals to their definitions.
type c11env struct {
	fn   *Func
	defs map[string]ast.Expr // ident name -> defining expr (once-assigned)
	rng  map[string]ast.Expr // range value ident -> ranged expression (element of)
}

func newC11env(pr *Prog, fn *Func) *c11env {
	env := &c11env{fn: fn, defs: map[string]ast.Expr{}, rng: map[string]ast.Expr{}}
	cnt := map[string]int{}
	ast.Inspect(fn.Body, func(n ast.Node) bool {
		switch a := n.(type) {
		case *ast.AssignStmt:
			for i, l := range a.Lhs {
				if id, ok := l.(*ast.Ident); ok {
					cnt[id.Name]++
					if len(a.Lhs) == len(a.Rhs) {
						env.defs[id.Name] = a.Rhs[i]
					} else {
						delete(env.defs, id.Name)
						cnt[id.Name]++
					}
				}
			}
		case *ast.IncDecStmt:
			if id, ok := a.X.(*ast.Ident); ok {
				cnt[id.Name] += 2
			}
		case *ast.RangeStmt:
			if id, ok := a.Value.(*ast.Ident); ok {
				env.rng[id.Name] = a.X
				cnt[id.Name] += 2
			}
			if id, ok := a.Key.(*ast.Ident); ok {
				cnt[id.Name] += 2
			}
		case *ast.ValueSpec:
			for i, id := range a.Names {
				cnt[id.Name]++
				if i < len(a.Values) {
					env.defs[id.Name] = a.Values[i]
				}
			}
		}
		return true
	})
	for k := range env.defs {
		if cnt[k] != 1 {
			delete(env.defs, k)
		}
	}
	return env
}

// resolve substitutes once-assigned locals (depth-limited).
func (env *c11env) resolve(e ast.Expr, depth int) ast.Expr {
	e = ast.Unparen(e)
	if depth > 4 {
		return e
	}
	if id, ok := e.(*ast.Ident); ok {
		if d, ok := env.defs[id.Name]; ok {
			return env.resolve(d, depth+1)
		}
	}
	return e
}

// dataOwner: for an expression denoting a frame.data value (R.data[k], or a
// range variable over R.data, or a local defined as such) returns the text of
// the owning frame expression R.
func (env *c11env) dataOwner(e ast.Expr) string {
	e = env.resolve(e, 0)
	switch x := e.(type) {
	case *ast.IndexExpr:
		if s, ok := ast.Unparen(x.X).(*ast.SelectorExpr); ok && s.Sel.Name == "data" {
			return expr(s.X)
		}
	case *ast.Ident:
		if r, ok := env.rng[x.Name]; ok {
			if s, ok := ast.Unparen(r).(*ast.SelectorExpr); ok && s.Sel.Name == "data" {
				return expr(s.X)
			}
		}
	}
	return ""
}

func isFrameData(pk *Pkg, e ast.Expr) bool {
	tv, ok := pk.Info.Types[e]
	return ok && tv.Type != nil && typeString(tv.Type) == "frame.data"
}

// offsetForm classifies a row operand: it must be a sum with exactly one
// positive term R.off (R = owner) and no negative R.off.
func (env *c11env) offsetForm(e ast.Expr, owner string) (ok bool, why string) {
	var ts []term
	flattenSum(env.resolve(e, 0), false, &ts)
	// resolve each term once more (locals holding partial sums)
	var all []term
	for _, t := range ts {
		r := env.resolve(t.e, 0)
		if r != t.e {
			flattenSum(r, t.neg, &all)
		} else {
			all = append(all, t)
		}
	}
	pos, neg, other := 0, 0, 0
	for _, t := range all {
		s, isSel := t.e.(*ast.SelectorExpr)
		if isSel && s.Sel.Name == "off" {
			if expr(s.X) == owner {
				if t.neg {
					neg++
				} else {
					pos++
				}
			} else {
				other++
			}
		}
	}
	switch {
	case other > 0:
		return false, "uses the offset of a different frame than the one whose storage is addressed"
	case neg > 0:
		return false, "subtracts the view offset instead of adding it"
	case pos == 0:
		return false, "is not translated by the view offset"
	case pos > 1:
		return false, "adds the view offset more than once"
	}
	return true, ""
}

// scaledOffsetForm: uintptr(<sum with +owner.off>) * <dataType.size>
func (env *c11env) scaledOffsetForm(pk *Pkg, e ast.Expr, owner string) (bool, string) {
	e = env.resolve(e, 0)
	be, ok := e.(*ast.BinaryExpr)
	if !ok || be.Op != token.MUL {
		return false, "pointer offset is not rowindex*elementsize"
	}
	isSize := func(x ast.Expr) bool {
		x = env.resolve(x, 0)
		s, ok := x.(*ast.SelectorExpr)
		if !ok {
			return false
		}
		f := pk.FieldOf(s)
		return f != nil && f.Name() == "size"
	}
	var idx ast.Expr
	switch {
	case isSize(be.Y):
		idx = be.X
	case isSize(be.X):
		idx = be.Y
	default:
		return false, "pointer offset is not scaled by the column's element size"
	}
	idx = env.resolve(idx, 0)
	if conv, ok := idx.(*ast.CallExpr); ok && len(conv.Args) == 1 {
		if tv, ok := pk.Info.Types[conv.Fun]; ok && tv.IsType() {
			idx = conv.Args[0]
		}
	}
	return env.offsetForm(idx, owner)
}

func c11r1(c *RC) {
	pr := c.P
	pk := pr.Pkgs["frame"]
	if pk == nil {
		c.Undecide("package frame not loaded")
		return
	}
	sites := 0
	for _, fn := range pr.FuncsIn("frame") {
		if fn.Body == nil || fn.Parent != nil {
			continue
		}
		if strings.HasSuffix(pr.RelFile(fn.Body.Pos()), "ops.go") || strings.HasSuffix(pr.RelFile(fn.Body.Pos()), "ops_builtin.go") {
			continue
		}
		env := newC11env(pr, fn)
		fq := fn.QName()
		fl := pr.Flow(fn)
		ord := map[string]int{}
		mk := func(kind string) string {
			ord[kind]++
			return fmt.Sprintf("%s|%s#%d", fq, kind, ord[kind])
		}
		guardedByOffZero := func(n ast.Node, owner string) bool {
			loc, ok := fl.LocOf(n)
			if !ok {
				return false
			}
			guarded := true
			fl.Walk(fl.Entry(), "", nil, Visitor{
				Node: func(nd ast.Node, x string, s *Step) (string, bool) {
					if s.Block == loc.B && s.Idx == loc.I {
						if s.Facts.Eq(owner+".off") != "0" && s.Facts.Eq(stripAt(owner)+".off") != "0" {
							z := false
							for _, f := range s.Facts {
								if stripAt(f.key) == owner+".off" && f.eq && f.val == "0" {
									z = true
								}
							}
							if !z {
								guarded = false
							}
						}
						return x, true
					}
					return x, false
				},
			})
			return guarded
		}
		ast.Inspect(fn.Body, func(n ast.Node) bool {
			switch x := n.(type) {
			case *ast.CallExpr:
				sel, ok := x.Fun.(*ast.SelectorExpr)
				if ok {
					if inner, ok := ast.Unparen(sel.X).(*ast.SelectorExpr); ok && isFrameData(pk, inner.X) {
						owner := env.dataOwner(inner.X)
						switch inner.Sel.Name {
						case "ops":
							var rowArgs []int
							exact := false
							switch sel.Sel.Name {
							case "Less", "swap":
								rowArgs = []int{0, 1}
							case "HashWithSeed":
								rowArgs = []int{0}
							case "Encode", "Decode":
								rowArgs = []int{1, 2}
								exact = true
							default:
								return true
							}
							sites++
							key := mk("ops." + sel.Sel.Name)
							if owner == "" {
								c.Fail(key, pr.Pos(x.Pos()), "cannot tell which frame owns the column whose ops are called: "+expr(inner.X))
								return true
							}
							okAll := true
							why := ""
							for _, ai := range rowArgs {
								if ai >= len(x.Args) {
									okAll, why = false, "missing row argument"
									break
								}
								if ok, w := env.offsetForm(x.Args[ai], owner); !ok {
									okAll, why = false, fmt.Sprintf("row operand %q %s", expr(x.Args[ai]), w)
									break
								}
							}
							if okAll && exact && len(x.Args) == 3 {
								// bounds must be exactly [off, off+len)
								a1 := strings.ReplaceAll(expr(env.resolve(x.Args[1], 0)), " ", "")
								a2 := strings.ReplaceAll(expr(env.resolve(x.Args[2], 0)), " ", "")
								ok1 := a1 == owner+".off"
								ok2 := a2 == owner+".off+"+owner+".len" || a2 == owner+".len+"+owner+".off"
								if !ok1 || !ok2 {
									okAll, why = false, fmt.Sprintf("codec bounds (%s, %s) are not exactly [%s.off, %s.off+%s.len)", a1, a2, owner, owner, owner)
								}
							}
							c.Check(okAll, key, pr.Pos(x.Pos()), fmt.Sprintf("%s on column storage of %s: %s — the operation addresses rows outside (or other than) the view's", sel.Sel.Name, owner, why))
							return true
						case "val":
							switch sel.Sel.Name {
							case "Index", "Slice", "Slice3":
								sites++
								key := mk("val." + sel.Sel.Name)
								if owner == "" {
									c.Fail(key, pr.Pos(x.Pos()), "cannot tell which frame owns "+expr(inner.X))
									return true
								}
								okAll, why := true, ""
								for _, a := range x.Args {
									if ok, w := env.offsetForm(a, owner); !ok {
										okAll, why = false, fmt.Sprintf("operand %q %s", expr(a), w)
										break
									}
								}
								c.Check(okAll, key, pr.Pos(x.Pos()), fmt.Sprintf("val.%s on column storage of %s: %s", sel.Sel.Name, owner, why))
								return true
							}
						}
					}
				}
				// add(D.ptr, E) / unsafe.Add(D.ptr, E)
				cn := pk.CalleeName(x)
				isAdd := cn == "frame.add" || cn == "unsafe.Add" || expr(x.Fun) == "unsafe.Add"
				if isAdd && len(x.Args) == 2 {
					if ps, ok := ast.Unparen(x.Args[0]).(*ast.SelectorExpr); ok && ps.Sel.Name == "ptr" && isFrameData(pk, ps.X) {
						sites++
						key := mk("ptr+")
						owner := env.dataOwner(ps.X)
						if owner == "" {
							c.Fail(key, pr.Pos(x.Pos()), "cannot tell which frame owns "+expr(ps.X))
							return true
						}
						ok, why := env.scaledOffsetForm(pk, x.Args[1], owner)
						c.Check(ok, key, pr.Pos(x.Pos()), fmt.Sprintf("pointer into column storage of %s: %s (%s)", owner, why, expr(x.Args[1])))
					}
				}
			case *ast.BinaryExpr:
				// uintptr(D.ptr) + E
				if x.Op == token.ADD {
					for _, pair := range [][2]ast.Expr{{x.X, x.Y}, {x.Y, x.X}} {
						conv, ok := ast.Unparen(pair[0]).(*ast.CallExpr)
						if !ok || len(conv.Args) != 1 || expr(conv.Fun) != "uintptr" {
							continue
						}
						ps, ok := ast.Unparen(conv.Args[0]).(*ast.SelectorExpr)
						if !ok || ps.Sel.Name != "ptr" || !isFrameData(pk, ps.X) {
							continue
						}
						sites++
						key := mk("uintptr(ptr)+")
						owner := env.dataOwner(ps.X)
						ok2, why := env.scaledOffsetForm(pk, pair[1], owner)
						c.Check(ok2 && owner != "", key, pr.Pos(x.Pos()), fmt.Sprintf("address into column storage of %s: %s (%s)", owner, why, expr(pair[1])))
					}
				}
			case *ast.SelectorExpr:
				// a bare D.val used as a value (not as receiver of Index/Slice): the
				// whole underlying slice — only legitimate when off == 0
				if x.Sel.Name == "val" && isFrameData(pk, x.X) {
					// skip when it is the receiver of a method call or an assignment target
					par := parentOf(fn.Body, x)
					if ps, ok := par.(*ast.SelectorExpr); ok && ps.X == ast.Expr(x) {
						return true
					}
					if as, ok := par.(*ast.AssignStmt); ok {
						for _, l := range as.Lhs {
							if l == ast.Expr(x) {
								return true
							}
						}
					}
					owner := env.dataOwner(x.X)
					if owner == "" {
						return true // constructing a data value (newData), not reading a frame's column
					}
					sites++
					key := mk("val(whole)")
					c.Check(guardedByOffZero(x, owner), key, pr.Pos(x.Pos()),
						fmt.Sprintf("the whole underlying slice of a column of %s is handed out on a path not dominated by %s.off == 0: a view would expose rows before its start", owner, owner))
				}
			}
			return true
		})
	}
	c.Floor("storage access sites in package frame", sites, 12)
	c.Note("%d storage access sites examined", sites)
}

func parentOf(root ast.Node, target ast.Node) ast.Node {
	p := pathTo(root, target)
	for i := len(p) - 2; i >= 0; i-- {
		if _, ok := p[i].(*ast.ParenExpr); ok {
			continue
		}
		return p[i]
	}
	return nil
}

func c11r2(c *RC) {
	pr := c.P
	fn := c.MustFn("frame.Frame.Slice")
	if fn == nil {
		return
	}
	fq := fn.QName()
	recv := fn.Decl.Recv.List[0].Names[0].Name
	pi, pj := paramNames(fn)
	// the returned composite literal
	var lit *ast.CompositeLit
	var ret *ast.ReturnStmt
	ast.Inspect(fn.Body, func(n ast.Node) bool {
		if r, ok := n.(*ast.ReturnStmt); ok && len(r.Results) == 1 {
			if l, ok := ast.Unparen(r.Results[0]).(*ast.CompositeLit); ok {
				lit, ret = l, r
			}
		}
		return true
	})
	if lit == nil {
		c.Fail(fq+"|returns-view-literal", pr.Pos(fn.Body.Pos()), "Slice no longer returns a Frame literal")
		return
	}
	st, _ := pr.lookupType("frame", "Frame").Underlying().(*types.Struct)
	vals := map[string]string{}
	for i, e := range lit.Elts {
		if kv, ok := e.(*ast.KeyValueExpr); ok {
			vals[expr(kv.Key)] = strings.ReplaceAll(expr(kv.Value), " ", "")
		} else if st != nil && i < st.NumFields() {
			vals[st.Field(i).Name()] = strings.ReplaceAll(expr(e), " ", "")
		}
	}
	eq := func(got string, alts ...string) bool {
		for _, a := range alts {
			if got == a {
				return true
			}
		}
		return false
	}
	c.Check(eq(vals["off"], recv+".off+"+pi, pi+"+"+recv+".off"), fq+"|off=off+i", pr.Pos(lit.Pos()), "the view's offset is "+vals["off"]+", want "+recv+".off+"+pi)
	c.Check(eq(vals["len"], pj+"-"+pi), fq+"|len=j-i", pr.Pos(lit.Pos()), "the view's length is "+vals["len"]+", want "+pj+"-"+pi)
	c.Check(eq(vals["cap"], recv+".cap-"+pi), fq+"|cap=cap-i", pr.Pos(lit.Pos()), "the view's capacity is "+vals["cap"]+", want "+recv+".cap-"+pi+": a view with too large a capacity can be re-sliced or grown over rows it does not own")
	c.Check(eq(vals["data"], recv+".data") && eq(vals["prefix"], recv+".prefix"), fq+"|shares-data-and-prefix", pr.Pos(lit.Pos()), "the view does not share the columns/prefix of its parent")
	// bounds check dominates the return: an if whose body panics with cond = i<0 || j<i || j>f.cap
	want := map[string]bool{}
	norm := func(e ast.Expr) string {
		be, ok := ast.Unparen(e).(*ast.BinaryExpr)
		if !ok {
			return ""
		}
		l, r := strings.ReplaceAll(expr(be.X), " ", ""), strings.ReplaceAll(expr(be.Y), " ", "")
		switch be.Op {
		case token.LSS:
			return l + "<" + r
		case token.GTR:
			return r + "<" + l
		case token.LEQ:
			return l + "<=" + r
		case token.GEQ:
			return r + "<=" + l
		}
		return ""
	}
	var collect func(e ast.Expr)
	collect = func(e ast.Expr) {
		if be, ok := ast.Unparen(e).(*ast.BinaryExpr); ok && be.Op == token.LOR {
			collect(be.X)
			collect(be.Y)
			return
		}
		if s := norm(e); s != "" {
			want[s] = true
		}
	}
	guardFound := false
	for _, stt := range fn.Body.List {
		ifs, ok := stt.(*ast.IfStmt)
		if !ok {
			continue
		}
		panics := false
		for _, call := range callsIn(ifs.Body) {
			if !fn.Pkg.mayReturn(call) {
				panics = true
			}
		}
		if panics {
			collect(ifs.Cond)
			guardFound = true
		}
		if stt.End() > ret.Pos() {
			break
		}
	}
	need := []string{pi + "<0", pj + "<" + pi, recv + ".cap<" + pj}
	okB := guardFound
	var missing []string
	for _, nd := range need {
		if !want[nd] {
			okB = false
			missing = append(missing, nd)
		}
	}
	c.Check(okB, fq+"|bounds-check", pr.Pos(fn.Body.Pos()), "Slice's bounds check no longer rejects "+strings.Join(missing, ", ")+" with a panic before building the view: views can reach beyond the parent's capacity")

	// grow
	if g := c.MustFn("frame.Frame.grow"); g != nil {
		gq := g.QName()
		fl := pr.Flow(g)
		var mk, cp *ast.CallExpr
		var retNew *ast.ReturnStmt
		var newVar string
		inspectNoLit(g.Body, func(n ast.Node) bool {
			switch a := n.(type) {
			case *ast.AssignStmt:
				if len(a.Rhs) == 1 {
					if call, ok := a.Rhs[0].(*ast.CallExpr); ok && g.Pkg.CalleeName(call) == "frame.Make" {
						mk = call
						newVar = expr(a.Lhs[0])
					}
				}
			case *ast.CallExpr:
				if g.Pkg.CalleeName(a) == "frame.Copy" && len(a.Args) == 2 {
					cp = a
				}
			case *ast.ReturnStmt:
				if len(a.Results) == 3 && newVar != "" && expr(a.Results[0]) == newVar {
					retNew = a
				}
			}
			return true
		})
		grecv := g.Decl.Recv.List[0].Names[0].Name
		if mk == nil || retNew == nil {
			c.Fail(gq+"|reallocates", pr.Pos(g.Body.Pos()), "grow no longer allocates a new frame with Make and returns it")
		} else {
			okCopy := cp != nil && expr(cp.Args[0]) == newVar && expr(cp.Args[1]) == grecv
			dom := false
			if okCopy {
				rl, _ := fl.LocOf(retNew)
				dom, _ = fl.Dominated(rl, func(n ast.Node, s *Step) bool {
					return nodeHas(n, func(m ast.Node) bool { return m == ast.Node(cp) })
				})
			}
			c.Check(okCopy && dom, gq+"|copies-old-rows", pr.Pos(retNew.Pos()), "grow returns the reallocated frame without copying the existing rows into it (Copy(new, old) must dominate the return)")
			// new frame is made with the type of the old one and length i1
			c.Check(len(mk.Args) == 3 && expr(mk.Args[0]) == grecv, gq+"|same-type", pr.Pos(mk.Pos()), "the reallocated frame is not made with the old frame's type")
		}
		// (the in-place path returns f.Slice(0, i1); Slice's own bounds check,
		// decided above, rejects i1 > cap, so no separate guard is required.)
	}
}

func c11r3(c *RC) {
	pr := c.P
	fn := c.MustFn("frame.assign")
	if fn == nil {
		return
	}
	fq := fn.QName()
	fl := pr.Flow(fn)
	sizes := types.SizesFor("gc", "amd64")
	if pr.Deps.GoArch == "386" {
		sizes = types.SizesFor("gc", "386")
	}
	typParam := "typ"
	if len(fn.Type.Params.List) > 0 && len(fn.Type.Params.List[0].Names) > 0 {
		typParam = fn.Type.Params.List[0].Names[0].Name
	}
	nraw := 0
	nexit := 0
	fl.Walk(fl.Entry(), "none", nil, Visitor{
		Node: func(n ast.Node, x string, s *Step) (string, bool) {
			if a, ok := n.(*ast.AssignStmt); ok && len(a.Lhs) == 1 {
				if st, ok := ast.Unparen(a.Lhs[0]).(*ast.StarExpr); ok {
					// *(*T)(dst) = ...
					if conv, ok := ast.Unparen(st.X).(*ast.CallExpr); ok && len(conv.Args) == 1 {
						tv := fn.Pkg.Info.Types[conv.Fun]
						if p, ok := tv.Type.(*types.Pointer); ok && tv.IsType() {
							nraw++
							elem := p.Elem()
							isPtr := typeString(elem) == "unsafe.Pointer"
							sz := sizes.Sizeof(elem)
							var ptrFact, szFact string
							for _, f := range s.Facts {
								if stripAt(f.key) == typParam+".pointers" && f.eq {
									ptrFact = f.val
								}
								if stripAt(f.key) == typParam+".size" && f.eq {
									szFact = f.val
								}
							}
							key := fmt.Sprintf("%s|raw-copy:%s", fq, typeString(elem))
							if isPtr {
								c.Check(ptrFact == "true" && szFact == "ptrSize", key, pr.Pos(a.Pos()),
									fmt.Sprintf("raw pointer-word copy reached with pointers=%q size=%q; it is only valid for pointer-carrying types of exactly pointer size (anything else tears a multi-word value or skips the write barrier)", ptrFact, szFact))
							} else {
								c.Check(ptrFact == "false" && szFact == fmt.Sprint(sz), key, pr.Pos(a.Pos()),
									fmt.Sprintf("untyped %d-byte copy reached with pointers=%q size=%q; it is only valid for pointer-free types of exactly %d bytes", sz, ptrFact, szFact, sz))
							}
							return "copied", false
						}
					}
				}
			}
			for _, call := range callsIn(n) {
				if fn.Pkg.CalleeName(call) == "frame.typedmemmove" {
					return "copied", false
				}
			}
			return x, false
		},
		Exit: func(kind ExitKind, ret *ast.ReturnStmt, x string, s *Step) {
			if kind == ExitPanic {
				return
			}
			nexit++
			c.Check(x == "copied", fq+"|every-path-copies|"+exitKey(fl, s, ret), fl.exitPos(s, ret), "assign returns on a path that copied nothing (neither a guarded raw copy nor typedmemmove)", s.Trail()...)
		},
	})
	c.Floor("raw copies in assign", nraw, 4)
	if nexit == 0 {
		c.Undecide("assign: no exits")
	}
	// ptrSize constant equals the word size of the architecture analysed
	if obj, ok := fn.Pkg.Types.Scope().Lookup("ptrSize").(*types.Const); ok {
		c.Check(obj.Val().ExactString() == fmt.Sprint(sizes.Sizeof(types.Typ[types.UnsafePointer])), "frame.ptrSize|equals-word-size", pr.Pos(obj.Pos()),
			fmt.Sprintf("ptrSize is %s but a pointer is %d bytes on this architecture", obj.Val().ExactString(), sizes.Sizeof(types.Typ[types.UnsafePointer])))
	} else {
		c.Undecide("frame.ptrSize not found")
	}
}

// kindCases extracts, from the first `switch t.Kind()` of fn, the set of
// reflect kinds in the case that returns the boolean `val`, and whether the
// Array and Struct cases recurse into the same function.
func kindCases(fn *Func, val string) (kinds []string, recArray, recStruct bool, found bool) {
	var sw *ast.SwitchStmt
	ast.Inspect(fn.Body, func(n ast.Node) bool {
		if s, ok := n.(*ast.SwitchStmt); ok && sw == nil && s.Tag != nil && strings.HasSuffix(expr(s.Tag), ".Kind()") {
			sw = s
		}
		return true
	})
	if sw == nil {
		return
	}
	found = true
	for _, cs := range sw.Body.List {
		cc := cs.(*ast.CaseClause)
		retsVal := false
		recurses := false
		ast.Inspect(cc, func(n ast.Node) bool {
			if r, ok := n.(*ast.ReturnStmt); ok && len(r.Results) == 1 && expr(r.Results[0]) == val {
				retsVal = true
			}
			if call, ok := n.(*ast.CallExpr); ok && expr(call.Fun) == fn.Name {
				recurses = true
			}
			return true
		})
		for _, e := range cc.List {
			k := expr(e)
			switch k {
			case "reflect.Array":
				recArray = recurses
			case "reflect.Struct":
				recStruct = recurses
			default:
				if retsVal && len(cc.Body) == 1 {
					kinds = append(kinds, k)
				}
			}
		}
	}
	sort.Strings(kinds)
	return
}

func c11r4(c *RC) {
	pr := c.P
	p := c.MustFn("frame.pointers")
	z := c.MustFn("internal/zero.isValueType")
	if p == nil || z == nil {
		return
	}
	pk, pa, ps, ok1 := kindCases(p, "false")
	zk, za, zs, ok2 := kindCases(z, "true")
	if !ok1 || !ok2 {
		c.Fail("frame.pointers~zero.isValueType|kind-switch", pr.Pos(p.Body.Pos()), "one of the two pointer-free tables is no longer a switch over reflect.Kind")
		return
	}
	same := strings.Join(pk, ",") == strings.Join(zk, ",")
	var diff []string
	in := func(l []string, s string) bool {
		for _, x := range l {
			if x == s {
				return true
			}
		}
		return false
	}
	for _, k := range pk {
		if !in(zk, k) {
			diff = append(diff, k+" only in frame.pointers")
		}
	}
	for _, k := range zk {
		if !in(pk, k) {
			diff = append(diff, k+" only in zero.isValueType")
		}
	}
	c.Check(same, "frame.pointers~zero.isValueType|same-scalar-kinds", pr.Pos(p.Body.Pos()),
		"the pointer-free kind lists differ ("+strings.Join(diff, "; ")+"): memory holding pointers is cleared or copied without barriers, or pointer-free memory takes the slow path in one place only")
	c.Check(len(pk) >= 16, "frame.pointers|scalar-kinds-complete", pr.Pos(p.Body.Pos()), fmt.Sprintf("only %d scalar kinds are listed as pointer-free (16 expected)", len(pk)))
	// no pointer-carrying kind may be listed
	for _, bad := range []string{"reflect.Ptr", "reflect.Pointer", "reflect.UnsafePointer", "reflect.String", "reflect.Slice", "reflect.Map", "reflect.Chan", "reflect.Func", "reflect.Interface"} {
		c.Check(!in(pk, bad) && !in(zk, bad), "pointer-free-tables|excludes:"+bad, pr.Pos(p.Body.Pos()), bad+" is listed as pointer-free")
	}
	c.Check(pa && ps && za && zs, "frame.pointers~zero.isValueType|recurse-into-arrays-and-structs", pr.Pos(p.Body.Pos()), "Array/Struct kinds no longer recurse into their element/field types in both tables")
}

// c11r5: every zeroing closure of internal/zero overlays a slice on the
// destination whose length in bytes is exactly n elements of the column type.
func c11r5(c *RC) {
	pr := c.P
	sizes := types.SizesFor("gc", "amd64")
	if pr.Deps.GoArch == "386" {
		sizes = types.SizesFor("gc", "386")
	}
	nsites := 0
	for _, name := range []string{"internal/zero.slice", "internal/zero.sliceValue"} {
		host := c.MustFn(name)
		if host == nil {
			continue
		}
		// the case constant governing each literal (sliceValue: switch size)
		caseOf := map[*ast.FuncLit]string{}
		ast.Inspect(host.Body, func(n ast.Node) bool {
			cc, ok := n.(*ast.CaseClause)
			if !ok {
				return true
			}
			label := "default"
			if len(cc.List) == 1 {
				label = expr(cc.List[0])
			}
			ast.Inspect(cc, func(m ast.Node) bool {
				if l, ok := m.(*ast.FuncLit); ok {
					caseOf[l] = label
					return false
				}
				return true
			})
			return true
		})
		for _, lit := range host.Lits {
			nParam := ""
			if len(lit.Type.Params.List) == 2 && len(lit.Type.Params.List[1].Names) == 1 {
				nParam = lit.Type.Params.List[1].Names[0].Name
			}
			// var X []T ; XHdr := (*reflect.SliceHeader)(unsafe.Pointer(&X))
			var elem types.Type
			hdr := ""
			ast.Inspect(lit.Body, func(n ast.Node) bool {
				if a, ok := n.(*ast.AssignStmt); ok && len(a.Lhs) == 1 && len(a.Rhs) == 1 && strings.Contains(expr(a.Rhs[0]), "reflect.SliceHeader") && strings.Contains(expr(a.Rhs[0]), "unsafe.Pointer(&") {
					hdr = expr(a.Lhs[0])
					ast.Inspect(a.Rhs[0], func(m ast.Node) bool {
						if u, ok := m.(*ast.UnaryExpr); ok && u.Op == token.AND {
							if tv := lit.Pkg.Info.Types[u.X]; tv.Type != nil {
								if sl, ok := tv.Type.Underlying().(*types.Slice); ok {
									elem = sl.Elem()
								}
							}
						}
						return true
					})
				}
				return true
			})
			if hdr == "" || elem == nil {
				continue
			}
			nsites++
			key := fmt.Sprintf("%s|case %s|overlay-length", lit.QName(), caseOf[lit.Lit])
			var lenE, capE string
			ast.Inspect(lit.Body, func(n ast.Node) bool {
				if a, ok := n.(*ast.AssignStmt); ok && len(a.Lhs) == 1 && len(a.Rhs) == 1 {
					switch expr(a.Lhs[0]) {
					case hdr + ".Len":
						lenE = strings.ReplaceAll(expr(a.Rhs[0]), " ", "")
					case hdr + ".Cap":
						capE = strings.ReplaceAll(expr(a.Rhs[0]), " ", "")
					}
				}
				return true
			})
			esz := sizes.Sizeof(elem)
			okLen := false
			label := caseOf[lit.Lit]
			// the variable holding the element size (switch size := elem.Size(); size)
			sizeVar := "size"
			ast.Inspect(host.Body, func(n ast.Node) bool {
				if a, ok := n.(*ast.AssignStmt); ok && len(a.Lhs) == 1 && len(a.Rhs) == 1 && strings.HasSuffix(expr(a.Rhs[0]), ".Size()") {
					sizeVar = expr(a.Lhs[0])
				}
				return true
			})
			switch {
			case lenE == nParam:
				// n elements of the overlay type: its size must be the governed size
				if v, err := parseInt(label); err == nil {
					okLen = v == esz
				} else {
					okLen = true // kind-governed closures (string, slice, pointer): overlay type is the kind's representation
					if strings.Contains(label, "String") {
						okLen = typeString(elem) == "string"
					} else if strings.Contains(label, "Slice") {
						okLen = esz == sizes.Sizeof(types.NewSlice(types.Typ[types.Int]))
					} else if strings.Contains(label, "Ptr") || strings.Contains(label, "Pointer") {
						okLen = esz == sizes.Sizeof(types.Typ[types.UnsafePointer])
					} else {
						okLen = false
					}
				}
			case esz == 1 && (lenE == "int("+sizeVar+")*"+nParam || lenE == nParam+"*int("+sizeVar+")"):
				okLen = true
			}
			okCap := capE == lenE || capE == hdr+".Len" || capE == nParam && lenE == nParam
			c.Check(okLen && okCap, key, pr.Pos(lit.Body.Pos()),
				fmt.Sprintf("the zeroing overlay is []%s with Len=%s Cap=%s for case %s: it does not cover exactly n elements of the column type, so Frame.Zero clears bytes of rows after the view (or leaves a tail uncleared)", typeString(elem), lenE, capE, label))
		}
	}
	c.Floor("zeroing overlays in internal/zero", nsites, 6)
}

func parseInt(s string) (int64, error) {
	var v int64
	_, err := fmt.Sscanf(s, "%d", &v)
	if err == nil && fmt.Sprint(v) != s {
		return 0, fmt.Errorf("not an int")
	}
	return v, err
}
