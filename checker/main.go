// bsvet decides structural necessary conditions of the bigslice properties
// from the type-checked source of /repo.  See /verif/DESIGN.md.
package main

import (
	"encoding/json"
	"flag"
	"fmt"
	"os"
	"path/filepath"
	"sort"
	"strconv"
	"strings"
	"time"
)

func main() {
	var (
		root     = flag.String("root", "/repo", "repository root")
		tier     = flag.String("tier", "quick", "quick|thorough")
		evDir    = flag.String("evidence", "/verif/evidence", "evidence directory")
		known    = flag.String("known", "/verif/known_findings.json", "known findings file")
		mutDir   = flag.String("mutants", "/verif/mutants", "variant corpus directory (thorough tier)")
		verbose  = flag.Bool("v", false, "verbose")
		noEv     = flag.Bool("no-evidence", false, "do not write evidence files")
		listOnly = flag.Bool("list", false, "list properties and rules")
		sweep    = flag.Bool("rename-sweep", false, "run the rename sweep for the given properties (development aid)")
		mutSweep = flag.Bool("mutation-sweep", false, "run the mutation sweep over the anchored packages for the given properties (development aid)")
		chunk    = flag.String("chunk", "", "i/n: part of the mutation sweep to run")
		mutOnly  = flag.String("mut-only", "", "restrict the mutation sweep to functions/files containing this text")
	)
	flag.Parse()
	if *listOnly {
		for _, id := range propIDs() {
			p := properties[id]
			fmt.Printf("%s\n", id)
			for _, r := range p.Rules {
				fmt.Printf("  %s  %s\n", r.ID, r.Doc)
			}
		}
		return
	}
	ids := flag.Args()
	if len(ids) == 0 {
		fmt.Fprintln(os.Stderr, "usage: bsvet [flags] <property-id>... | all")
		os.Exit(2)
	}
	if len(ids) == 1 && ids[0] == "all" {
		ids = propIDs()
	}
	for _, id := range ids {
		if properties[id] == nil {
			fmt.Fprintf(os.Stderr, "bsvet: no check registered for %s\n", id)
			os.Exit(2)
		}
	}
	seed := 0
	if s := os.Getenv("VERIF_SEED"); s != "" {
		if v, err := strconv.Atoi(s); err == nil {
			seed = v
		}
	}
	if t := os.Getenv("VERIF_TIER"); t != "" && *tier == "" {
		*tier = t
	}
	t0 := time.Now()
	deps, err := loadDeps(*root, "")
	if err != nil {
		fmt.Fprintf(os.Stderr, "bsvet: cannot load %s: %v\n", *root, err)
		os.Exit(2)
	}
	pr, err := deps.check(nil)
	if err != nil {
		fmt.Fprintf(os.Stderr, "bsvet: cannot parse %s: %v\n", *root, err)
		os.Exit(2)
	}
	loadS := time.Since(t0).Seconds()
	if extra := pr.extraTypeErrs(); len(extra) > 0 {
		fmt.Printf("bsvet: the tree has type errors beyond the known dependency drift; not a tree this checker can analyse:\n")
		for _, e := range extra {
			fmt.Printf("  %s: %s (%s)\n", e.Pos, e.Msg, e.Pkg)
		}
		os.Exit(2)
	}
	kf, err := loadKnown(*known)
	if err != nil {
		fmt.Fprintf(os.Stderr, "bsvet: known findings: %v\n", err)
		os.Exit(2)
	}
	fmt.Printf("bsvet: loaded %d module packages + %d dependencies from %s in %.1fs (%d baseline type errors)\n",
		len(pr.Order), deps.NExt, *root, loadS, len(pr.TypeErrs))
	if *mutSweep {
		runMutationSweep(deps, pr, ids, kf, *chunk, *mutOnly)
		return
	}
	exit := 0
	for _, id := range ids {
		p := properties[id]
		t1 := time.Now()
		res := runProperty(pr, p, kf)
		extra := map[string]interface{}{}
		selfFail := false
		if *sweep {
			runRenameSweep(deps, pr, p, kf, *verbose)
			continue
		}
		if *tier == "thorough" {
			st := runSelfTest(deps, pr, p, kf, *mutDir, seed, *verbose)
			extra["selftest"] = st
			if st.Failed > 0 {
				selfFail = true
			}
			// second architecture
			if a := runOtherArch(*root, p, kf); a != nil {
				extra["goarch_386"] = a
				if a.Violations > 0 || a.Undecided > 0 {
					res.Undecided = append(res.Undecided, fmt.Sprintf("GOARCH=386 run: %d violation(s), %d undecided: %s", a.Violations, a.Undecided, strings.Join(a.Detail, "; ")))
				}
			}
		}
		wall := time.Since(t1).Seconds() + loadS
		printResult(pr, p, res, *verbose)
		if !*noEv {
			if err := writeEvidence(*evDir, p, res, pr, *tier, seed, wall, extra); err != nil {
				fmt.Fprintf(os.Stderr, "bsvet: writing evidence: %v\n", err)
				os.Exit(2)
			}
		}
		n := 0
		for _, f := range res.Known {
			fmt.Printf("KNOWN-FINDING: property=%s %s %s: %s\n", id, f.Rule, f.Key, f.Known)
		}
		for _, f := range res.Violations {
			n++
			path := writeReplay(*evDir, id, n, f, nil)
			fmt.Printf("VIOLATION property=%s replay=%s\n", id, path)
			exit = 1
		}
		if len(res.Undecided) > 0 {
			n++
			path := writeReplay(*evDir, id, n, Finding{Rule: id, Key: "undecided", Msg: "rule(s) could not decide"}, res.Undecided)
			fmt.Printf("VIOLATION property=%s replay=%s\n", id, path)
			exit = 1
		}
		if selfFail {
			// Checker self-validation says nothing about /repo: it is reported and
			// recorded in the evidence, and (unless BSVET_STRICT_SELFTEST=1, used
			// during development) does not change the verdict on the tree.
			fmt.Printf("SELFTEST-FAILED property=%s (a killing variant survived or a neutral variant was flagged; see evidence)\n", id)
			if exit == 0 && os.Getenv("BSVET_STRICT_SELFTEST") == "1" {
				exit = 2
			}
		}
	}
	os.Exit(exit)
}

func propIDs() []string {
	var ids []string
	for id := range properties {
		ids = append(ids, id)
	}
	sort.Strings(ids)
	return ids
}

func printResult(pr *Prog, p *Property, res *PropResult, verbose bool) {
	nObl, nOK := 0, 0
	for _, rc := range res.Rules {
		ok := 0
		for _, o := range rc.Obls {
			if o.OK {
				ok++
			}
		}
		nObl += len(rc.Obls)
		nOK += ok
		status := "ok"
		if len(rc.Undecided) > 0 {
			status = "UNDECIDED"
		} else if ok != len(rc.Obls) {
			status = "FINDINGS"
		}
		fmt.Printf("  %-8s %3d/%-3d obligations  %s\n", rc.Rule, ok, len(rc.Obls), status)
		if verbose {
			for _, o := range rc.Obls {
				m := "ok  "
				if !o.OK {
					m = "FAIL"
				}
				fmt.Printf("      %s %s  %s %s\n", m, o.Key, o.Pos, o.Note)
			}
			for _, n := range rc.Notes {
				fmt.Printf("      note: %s\n", n)
			}
			for _, n := range rc.Excepted {
				fmt.Printf("      exception: %s\n", n)
			}
		}
	}
	for _, u := range res.Undecided {
		fmt.Printf("  undecided: %s\n", u)
	}
	for _, f := range append(append([]Finding{}, res.Violations...), res.Known...) {
		tag := "violation"
		if f.Known != "" {
			tag = "known"
		}
		fmt.Printf("  [%s] %s %s: %s\n      key: %s\n", tag, f.Rule, f.Pos, f.Msg, f.Key)
		for _, d := range f.Detail {
			fmt.Printf("        %s\n", d)
		}
	}
	fmt.Printf("%s: %d/%d obligations discharged, %d violation(s), %d known finding(s), %d undecided\n",
		p.ID, nOK, nObl, len(res.Violations), len(res.Known), len(res.Undecided))
}

func writeReplay(evDir, id string, n int, f Finding, undecided []string) string {
	dir := filepath.Join(evDir, "replay")
	_ = os.MkdirAll(dir, 0o755)
	path := filepath.Join(dir, fmt.Sprintf("%s-%d.json", id, n))
	m := map[string]interface{}{
		"property":      id,
		"kind":          "violation",
		"finding":       f,
		"how_to_replay": "cd /verif && ./run.sh " + id + " quick   # the check is static: re-running it on the same tree reproduces the report",
	}
	if undecided != nil {
		m["kind"] = "undecided"
		m["undecided"] = undecided
	}
	b, _ := json.MarshalIndent(m, "", " ")
	_ = os.WriteFile(path, b, 0o644)
	return path
}
