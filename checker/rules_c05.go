package main

import (
	"bytes"
	"fmt"
	"go/ast"
	"go/format"
	"go/parser"
	"go/token"
	"go/types"
	"os"
	"path/filepath"
	"strconv"
	"strings"
	"text/template"
)

func init() {
	registerProperty(&Property{
		ID:          "C05",
		Explanation: "Decides structural necessary conditions of key-determined placement: (R1) every registered hash and comparison kernel, hash32/hash64, the default partitioner and Frame.Hash/HashWithSeed are pure functions of the row value, the seed and the shard count — they mention no global, map, clock, randomness, pointer identity or task/machine state, and Frame.Hash uses the constant seed 0; (R2) every call of a task's Partitioner passes the frame just read, that task's NumPartition and exactly the first n entries of the shard vector, and row i is then stored to partition shards[i] — at all call sites alike; (R3) the operators that redistribute (Reduce, Fold, Cogroup, Reshuffle/Repartition, Reshard) declare a shuffle dependency, only Repartition forwards a partitioner, and its wrapper writes the user function's result for row i to shards[i]; (R4) compile sizes the producer's partition count and the consumer's task list from the same expression and wires consumer p to partition p of the producer's head task, setting the task group for shuffles; (R5) every Task literal that can be a shuffle producer takes NumPartition/Partitioner/Combiner/CombineKey from the requested partitioning; (R6) the generated kernels equal the template instantiated for the generator's type list. Not decided: quality of the hash, out-of-range results of user partitioners, NaN keys, that aggregations emit each key once (value-level).",
		Rules: []Rule{
			{ID: "C05-R1", Doc: "hash/compare kernels and partitioners are pure functions of the value", Run: c05r1},
			{ID: "C05-R2", Doc: "partitioner call discipline at every call site", Run: c05r2},
			{ID: "C05-R3", Doc: "redistributing operators declare shuffle dependencies", Run: c05r3},
			{ID: "C05-R4", Doc: "compile wires consumer p to partition p", Run: c05r4},
			{ID: "C05-R5", Doc: "Task literals carry their partitioning", Run: c05r5},
			{ID: "C05-R6", Doc: "generated kernels in sync with the generator", Run: c05r6},
			{ID: "C05-R7", Doc: "memoised compilations are keyed by (or restricted to zero of) every partitioning field", Run: c05r7},
			{ID: "C05-R8", Doc: "row i is buffered for partition shards[i], once, and every buffered row is written", Run: c05r8},
			{ID: "C05-R10", Doc: "every dependency of a task contributes its reader(s) to the task's input vector, in dependency order", Run: c05r10},
			{ID: "C09-R12", Doc: "on the combining path row i is folded into the combiner of partition shards[i] (shared)", Run: c09r12},
			{ID: "C11-R1", Doc: "hash and comparison address row i of a view at storage index i+off, so a key's shard does not depend on its position in a vector (shared)", Run: c11r1},
			{ID: "C18-R8", Doc: "operators that key by a prefix reject inputs whose key prefix or key column types differ (Cogroup), so equal keys are hashed over the same columns by every producer (shared)", Run: c18r8},
			{ID: "C11-R10", Doc: "comparison and hashing cover every key column, so keys equal for the hash are equal for the order (shared)", Run: c11r10},
			{ID: "C08-R2", Doc: "task sets the memo keeps apart (different partitioners or widths) get distinct names minted by the namer: workers and stores key partitions by task name, so a shared name files rows under the other set's shards (shared)", Run: c08r2},
			{ID: "C05-R9", Doc: "driver and worker agree on one location per dependency task", Run: c05r9},
		},
	})
}

var pureCallees = map[string]bool{
	"github.com/spaolacci/murmur3.Sum32WithSeed": true,
	"frame.hash32": true, "frame.hash64": true,
	"math.Float32bits": true, "math.Float64bits": true,
	"bytes.Compare": true, "strings.Compare": true,
}

// impure returns the reasons why the function body b (a literal or declared
// function) is not a pure function of its parameters and the allowed outer
// variables.
func impureUses(pk *Pkg, fnNode ast.Node, body *ast.BlockStmt, allowedOuter map[types.Object]bool, extraCallees map[string]bool) []string {
	var out []string
	ast.Inspect(body, func(n ast.Node) bool {
		switch x := n.(type) {
		case *ast.GoStmt:
			out = append(out, "starts a goroutine")
		case *ast.SelectStmt:
			out = append(out, "selects on channels")
		case *ast.RangeStmt:
			if tv := pk.Info.Types[x.X]; tv.Type != nil {
				if _, ok := tv.Type.Underlying().(*types.Map); ok {
					out = append(out, "ranges over a map")
				}
			}
		case *ast.CallExpr:
			cn := pk.CalleeName(x)
			if cn == "" {
				// conversion or call of a function value
				if tv, ok := pk.Info.Types[x.Fun]; ok && tv.IsType() {
					return true
				}
				if _, ok := ast.Unparen(x.Fun).(*ast.FuncLit); ok {
					return true
				}
				out = append(out, "calls the function value "+expr(x.Fun))
				return true
			}
			if _, isB := pk.Callee(x).(*types.Builtin); isB {
				return true
			}
			if !pureCallees[cn] && !extraCallees[cn] {
				out = append(out, "calls "+cn)
			}
		case *ast.Ident:
			obj := pk.Info.Uses[x]
			v, ok := obj.(*types.Var)
			if !ok || v.IsField() {
				return true
			}
			inside := fnNode.Pos() <= v.Pos() && v.Pos() < fnNode.End()
			if !inside && !allowedOuter[obj] {
				where := "captured variable"
				if v.Pkg() != nil && v.Parent() == v.Pkg().Scope() {
					where = "package-level variable"
				}
				out = append(out, "reads "+where+" "+x.Name)
			}
		}
		return true
	})
	return uniq(out)
}

func c05r1(c *RC) {
	pr := c.P
	nlit := 0
	for _, pkRel := range []string{"frame"} {
		for _, fn := range pr.FuncsIn(pkRel) {
			if fn.Body == nil || fn.Lit != nil {
				continue
			}
			// RegisterOps(func(slice []T) Ops { return Ops{Less: ..., HashWithSeed: ...} })
			ast.Inspect(fn.Body, func(n ast.Node) bool {
				call, ok := n.(*ast.CallExpr)
				if !ok || fn.Pkg.CalleeName(call) != "frame.RegisterOps" || len(call.Args) != 1 {
					return true
				}
				outer, ok := call.Args[0].(*ast.FuncLit)
				if !ok {
					c.Fail(fn.QName()+"|RegisterOps-arg-is-literal", pr.Pos(call.Pos()), "RegisterOps is not given a function literal; its kernels cannot be inspected")
					return true
				}
				allowed := map[types.Object]bool{}
				typ := "?"
				for _, f := range outer.Type.Params.List {
					typ = expr(f.Type)
					for _, nm := range f.Names {
						allowed[fn.Pkg.Info.Defs[nm]] = true
					}
				}
				ast.Inspect(outer.Body, func(m ast.Node) bool {
					kv, ok := m.(*ast.KeyValueExpr)
					if !ok {
						return true
					}
					k := expr(kv.Key)
					if k != "HashWithSeed" && k != "Less" {
						return true
					}
					lit, ok := kv.Value.(*ast.FuncLit)
					if !ok {
						c.Fail(fmt.Sprintf("frame.ops%s|%s-is-literal", typ, k), pr.Pos(kv.Pos()), k+" kernel for "+typ+" is not a function literal")
						return true
					}
					nlit++
					bad := impureUses(fn.Pkg, lit, lit.Body, allowed, nil)
					// the row index parameters may only select rows of the column:
					// they must not flow into the result themselves
					for _, f := range lit.Type.Params.List {
						if expr(f.Type) != "int" {
							continue
						}
						for _, nm := range f.Names {
							obj := fn.Pkg.Info.Defs[nm]
							var stack []ast.Node
							ast.Inspect(lit.Body, func(q ast.Node) bool {
								if q == nil {
									stack = stack[:len(stack)-1]
									return false
								}
								stack = append(stack, q)
								id, ok := q.(*ast.Ident)
								if !ok || fn.Pkg.Info.Uses[id] != obj {
									return true
								}
								okUse := false
								if len(stack) >= 2 {
									if ix, ok := stack[len(stack)-2].(*ast.IndexExpr); ok && ix.Index == ast.Expr(id) {
										if base, ok := ast.Unparen(ix.X).(*ast.Ident); ok && allowed[fn.Pkg.Info.Uses[base]] {
											okUse = true
										}
									}
								}
								if !okUse {
									bad = append(bad, "uses the row index "+id.Name+" other than to select a row of the column")
								}
								return true
							})
						}
					}
					bad = uniq(bad)
					c.Check(len(bad) == 0, fmt.Sprintf("frame.ops%s|%s-pure", typ, k), pr.Pos(lit.Pos()),
						fmt.Sprintf("the %s kernel for %s %s: the shard (or order) of a key then depends on something other than the key value and the seed", k, typ, strings.Join(bad, "; ")))
					return true
				})
				return true
			})
		}
	}
	c.Floor("registered hash/compare kernels", nlit, 20)
	for _, q := range []string{"frame.hash32", "frame.hash64"} {
		if fn := c.MustFn(q); fn != nil {
			bad := impureUses(fn.Pkg, fn.Decl, fn.Body, nil, nil)
			c.Check(len(bad) == 0, q+"|pure", pr.Pos(fn.Body.Pos()), q+" "+strings.Join(bad, "; "))
		}
	}
	// partitioner closures: called by several tasks of one process at once, so
	// they must not write to state shared through their enclosing function
	if pt := pr.lookupType("", "Partitioner"); pt != nil {
		np := 0
		for _, pk := range []string{"", "exec"} {
			for _, f := range pr.FuncsIn(pk) {
				if f.Lit == nil {
					continue
				}
				tv := f.Pkg.Info.Types[f.Lit]
				if tv.Type == nil || !types.Identical(tv.Type.Underlying(), pt.Underlying()) {
					continue
				}
				np++
				w := capturedWrites(f, f.Lit)
				c.Check(len(w) == 0, f.QName()+"|partitioner-closure-writes-nothing-shared", pr.Pos(f.Lit.Pos()),
					"this partitioner closure writes to "+strings.Join(w, ", ")+", captured from the function that built it: the tasks of a slice run concurrently in one process and share the closure, so one task's rows are partitioned with another task's values — a row is not in the shard its function returned")
			}
		}
		c.Floor("partitioner closures", np, 1)
	}
	if fn := c.MustFn("exec.defaultPartitioner"); fn != nil {
		bad := impureUses(fn.Pkg, fn.Decl, fn.Body, nil, map[string]bool{"frame.Frame.Hash": true})
		c.Check(len(bad) == 0, fn.QName()+"|pure", pr.Pos(fn.Body.Pos()), "the default partitioner "+strings.Join(bad, "; ")+": the shard of a key depends on more than its hash and the shard count")
		// shards[i] = int(frame.Hash(i) % uint32(nshard))
		okForm := false
		ast.Inspect(fn.Body, func(n ast.Node) bool {
			a, ok := n.(*ast.AssignStmt)
			if !ok || len(a.Lhs) != 1 {
				return true
			}
			ix, ok := a.Lhs[0].(*ast.IndexExpr)
			if !ok {
				return true
			}
			t := strings.ReplaceAll(expr(a.Rhs[0]), " ", "")
			i := expr(ix.Index)
			var pn []string
			for _, f := range fn.Type.Params.List {
				for _, nm := range f.Names {
					pn = append(pn, nm.Name)
				}
			}
			if len(pn) == 4 && t == "int("+pn[1]+".Hash("+i+")%uint32("+pn[2]+"))" && expr(ix.X) == pn[3] {
				okForm = true
			}
			return true
		})
		c.Check(okForm, fn.QName()+"|hash-mod-nshard-of-same-row", pr.Pos(fn.Body.Pos()), "the default partitioner no longer assigns shards[i] = Hash(i) mod nshard for the same row i")
	}
	if fn := c.MustFn("frame.Frame.Hash"); fn != nil {
		ok := false
		for _, call := range callsIn(fn.Body) {
			if fn.Pkg.CalleeName(call) == "frame.Frame.HashWithSeed" && len(call.Args) == 2 {
				if v, isC := constInt(fn.Pkg, call.Args[1]); isC && v == 0 {
					ok = true
				}
			}
		}
		c.Check(ok, fn.QName()+"|constant-seed", pr.Pos(fn.Body.Pos()), "Frame.Hash no longer hashes with the constant seed 0: two processes (or two calls) may place the same key in different shards")
	}
	if fn := c.MustFn("frame.Frame.HashWithSeed"); fn != nil {
		recv := map[types.Object]bool{}
		bad := impureUses(fn.Pkg, fn.Decl, fn.Body, recv, nil)
		// calls of the ops field are function values; allow exactly those
		var rest []string
		for _, b := range bad {
			if strings.Contains(b, ".ops.HashWithSeed") || b == "calls frame.HashWithSeed" {
				continue // the per-column kernel (field Ops.HashWithSeed), checked above
			}
			rest = append(rest, b)
		}
		c.Check(len(rest) == 0, fn.QName()+"|pure", pr.Pos(fn.Body.Pos()), "Frame.HashWithSeed "+strings.Join(rest, "; "))
	}
}

func c05r2(c *RC) {
	pr := c.P
	n := 0
	for _, fn := range pr.FuncsIn("exec") {
		if fn.Body == nil {
			continue
		}
		for _, call := range directCalls(fn.Body) {
			sel, ok := call.Fun.(*ast.SelectorExpr)
			if !ok || pr.fieldQName(fn.Pkg.FieldOf(sel)) != "exec.Task.Partitioner" {
				continue
			}
			n++
			fq := fn.QName()
			key := fmt.Sprintf("%s|Partitioner-call#%d", fq, n)
			task := expr(sel.X)
			if len(call.Args) != 4 {
				c.Fail(key, pr.Pos(call.Pos()), "Partitioner called with "+fmt.Sprint(len(call.Args))+" arguments")
				continue
			}
			var problems []string
			if expr(call.Args[2]) != task+".NumPartition" {
				problems = append(problems, fmt.Sprintf("the shard count passed is %s, not %s.NumPartition", expr(call.Args[2]), task))
			}
			frameArg := expr(call.Args[1])
			se, ok := call.Args[3].(*ast.SliceExpr)
			shards, nvar := "", ""
			if !ok || se.Low != nil || se.High == nil {
				problems = append(problems, "the shard vector is not sliced to the first n entries: "+expr(call.Args[3]))
			} else {
				shards, nvar = expr(se.X), expr(se.High)
			}
			// n comes from the Read into frameArg that precedes the call in the same block/loop
			okRead := false
			body := enclosingLoop(fn.Body, call)
			var scope ast.Node = fn.Body
			if body != nil {
				scope = body
			}
			ast.Inspect(scope, func(m ast.Node) bool {
				a, ok := m.(*ast.AssignStmt)
				if !ok || len(a.Rhs) != 1 || len(a.Lhs) != 2 || a.Pos() > call.Pos() {
					return true
				}
				rc, ok := a.Rhs[0].(*ast.CallExpr)
				if ok && isReaderRead(pr, fn.Pkg, rc) && expr(rc.Args[1]) == frameArg && expr(a.Lhs[0]) == nvar {
					okRead = true
				}
				return true
			})
			if nvar != "" && !okRead {
				problems = append(problems, fmt.Sprintf("%s is not the row count of the Read into %s that precedes the call", nvar, frameArg))
			}
			// rows are then placed by shards[i] for i < n
			okPlace := false
			ast.Inspect(scope, func(m ast.Node) bool {
				f, ok := m.(*ast.ForStmt)
				if !ok || f.Pos() < call.Pos() || f.Cond == nil {
					return true
				}
				iv, bound, ok := loopUpTo(fn, f)
				if !ok || expr(bound) != nvar {
					return true
				}
				ast.Inspect(f.Body, func(k ast.Node) bool {
					if ix, ok := k.(*ast.IndexExpr); ok && expr(ix.X) == shards && expr(ix.Index) == iv {
						okPlace = true
					}
					return true
				})
				return true
			})
			if shards != "" && !okPlace {
				problems = append(problems, fmt.Sprintf("no loop over i < %s places row i by %s[i] after the call", nvar, shards))
			}
			c.Check(len(problems) == 0, key, pr.Pos(call.Pos()), "partitioner call discipline broken: "+strings.Join(problems, "; ")+" — rows are placed by stale or foreign shard assignments")
		}
	}
	c.Floor("Partitioner call sites", n, 3)
}

// depLiterals returns the composite literals of type Dep reachable as the
// value of the slice type's Dep method (returned directly or via a field
// initialised in the constructor).
func depShuffleOf(pr *Prog, typeName string) (shuffle string, partitioner string, found bool) {
	fn := pr.Fn(".(*" + typeName + ").Dep")
	if fn == nil {
		return
	}
	var lit *ast.CompositeLit
	ast.Inspect(fn.Body, func(n ast.Node) bool {
		if r, ok := n.(*ast.ReturnStmt); ok && len(r.Results) == 1 {
			switch x := ast.Unparen(r.Results[0]).(type) {
			case *ast.CompositeLit:
				lit = x
			case *ast.SelectorExpr:
				// returned from a field: find its initialiser in the package
				fld := fn.Pkg.FieldOf(x)
				for _, f2 := range pr.FuncsIn("") {
					if f2.Body == nil {
						continue
					}
					ast.Inspect(f2.Body, func(m ast.Node) bool {
						if a, ok := m.(*ast.AssignStmt); ok && len(a.Lhs) == 1 && len(a.Rhs) == 1 {
							if s, ok := a.Lhs[0].(*ast.SelectorExpr); ok && f2.Pkg.FieldOf(s) == fld {
								if l, ok := a.Rhs[0].(*ast.CompositeLit); ok {
									lit = l
								}
							}
						}
						return true
					})
				}
			case *ast.CallExpr:
				if fn.Pkg.CalleeName(x) == ".singleDep" && len(x.Args) == 3 {
					shuffle, partitioner, found = expr(x.Args[2]), "nil", true
				}
			}
		}
		return true
	})
	if lit == nil {
		return
	}
	found = true
	st, _ := pr.lookupType("", "Dep").Underlying().(*types.Struct)
	for i, e := range lit.Elts {
		name := ""
		val := e
		if kv, ok := e.(*ast.KeyValueExpr); ok {
			name, val = expr(kv.Key), kv.Value
		} else if st != nil && i < st.NumFields() {
			name = st.Field(i).Name()
		}
		switch name {
		case "Shuffle":
			shuffle = expr(val)
		case "Partitioner":
			partitioner = expr(val)
		}
	}
	return
}

func c05r3(c *RC) {
	c05constructorsRedistribute(c)
	pr := c.P
	must := []string{"reduceSlice", "foldSlice", "cogroupSlice", "reshuffleSlice", "reshardSlice"}
	for _, t := range must {
		sh, part, found := depShuffleOf(pr, t)
		key := "." + t + ".Dep|shuffle"
		if !found {
			c.Fail(key, "", "cannot find the dependency declared by "+t)
			continue
		}
		c.Check(sh == "true", key, pr.Pos(pr.Fn(".(*"+t+").Dep").Body.Pos()), t+" declares its dependency with Shuffle="+sh+": its input is pipelined instead of being redistributed by key, so equal keys stay in different shards")
		if t == "reshuffleSlice" {
			c.Check(strings.HasSuffix(part, ".partitioner"), "."+t+".Dep|forwards-partitioner", pr.Pos(pr.Fn(".(*"+t+").Dep").Body.Pos()), "reshuffleSlice no longer forwards its partitioner (Repartition's function would be ignored): got "+part)
		} else {
			c.Check(part == "nil" || part == "", "."+t+".Dep|default-partitioner", pr.Pos(pr.Fn(".(*"+t+").Dep").Body.Pos()), t+" forwards a custom partitioner "+part)
		}
	}
	// the pipelined operators must not shuffle (sanity of the extraction)
	for _, t := range []string{"mapSlice", "filterSlice"} {
		sh, _, found := depShuffleOf(pr, t)
		c.Check(found && sh == "false", "."+t+".Dep|no-shuffle", "", t+" shuffle="+sh)
	}
	// Repartition's wrapper: shards[i] = int(result[0].Int()) for the row i whose columns were passed
	fn := c.MustFn(".Repartition")
	if fn == nil {
		return
	}
	ok := false
	var lit *ast.FuncLit
	ast.Inspect(fn.Body, func(n ast.Node) bool {
		if l, isL := n.(*ast.FuncLit); isL && len(l.Type.Params.List) >= 3 {
			lit = l
		}
		return true
	})
	if lit != nil {
		ast.Inspect(lit.Body, func(n ast.Node) bool {
			rng, isR := n.(*ast.RangeStmt)
			if !isR {
				return true
			}
			iv := expr(rng.Key)
			storesI, readsI := false, false
			ast.Inspect(rng.Body, func(m ast.Node) bool {
				if a, isA := m.(*ast.AssignStmt); isA && len(a.Lhs) == 1 {
					if ix, isIx := a.Lhs[0].(*ast.IndexExpr); isIx && expr(ix.Index) == iv && expr(ix.X) == expr(rng.X) {
						// the value stored is element 0 of the user function's result
						// — as given: a conversion of result[0].Int() and nothing else (a
						// value folded into the shard range, say with % nshard, files an
						// out-of-range assignment under another shard instead of failing)
						rhs := ast.Unparen(a.Rhs[0])
						if cv, isCall := rhs.(*ast.CallExpr); isCall && len(cv.Args) == 1 {
							if tv, okT := fn.Pkg.Info.Types[cv.Fun]; okT && tv.IsType() {
								rhs = ast.Unparen(cv.Args[0])
							}
						}
						if k, isCall := rhs.(*ast.CallExpr); isCall && len(k.Args) == 0 {
							if se, isSel := k.Fun.(*ast.SelectorExpr); isSel && se.Sel.Name == "Int" {
								if ix0, isIx0 := ast.Unparen(se.X).(*ast.IndexExpr); isIx0 {
									if z, isC := constInt(fn.Pkg, ix0.Index); isC && z == 0 {
										storesI = true
									}
								}
							}
						}
					}
				}
				if call, isC := m.(*ast.CallExpr); isC && fn.Pkg.CalleeName(call) == "frame.Frame.Index" && len(call.Args) == 2 && expr(call.Args[1]) == iv {
					readsI = true
				}
				return true
			})
			if storesI && readsI {
				ok = true
			}
			return true
		})
	}
	c.Check(ok, ".Repartition|row-i-to-shards-i", pr.Pos(fn.Body.Pos()), "Repartition's wrapper no longer stores the user function's result for row i in shards[i]")
	// the nshard argument handed to the user function is the wrapper's nshard
	okN := false
	if lit != nil {
		ast.Inspect(lit.Body, func(n ast.Node) bool {
			if a, isA := n.(*ast.AssignStmt); isA && len(a.Lhs) == 1 && strings.HasSuffix(expr(a.Lhs[0]), "[0]") && len(lit.Type.Params.List) >= 3 && len(lit.Type.Params.List[2].Names) == 1 && expr(a.Rhs[0]) == "reflect.ValueOf("+lit.Type.Params.List[2].Names[0].Name+")" {
				okN = true
			}
			return true
		})
	}
	c.Check(okN, ".Repartition|passes-shard-count", pr.Pos(fn.Body.Pos()), "Repartition no longer passes the shard count as the user function's first argument")
}

func c05r4(c *RC) {
	pr := c.P
	fn := c.MustFn("exec.(*compiler).compile")
	if fn == nil {
		return
	}
	fq := fn.QName()
	// tasks = make([]*Task, E)
	sizeExpr := ""
	var depPart *ast.CompositeLit
	// the task list is the function's first (named) result
	tasksVar := "tasks"
	if fn.Type.Results != nil && len(fn.Type.Results.List) > 0 && len(fn.Type.Results.List[0].Names) > 0 {
		tasksVar = fn.Type.Results.List[0].Names[0].Name
	}
	inspectNoLit(fn.Body, func(n ast.Node) bool {
		switch a := n.(type) {
		case *ast.AssignStmt:
			if len(a.Lhs) == 1 && len(a.Rhs) == 1 && expr(a.Lhs[0]) == tasksVar {
				if call, ok := a.Rhs[0].(*ast.CallExpr); ok && expr(call.Fun) == "make" && len(call.Args) == 2 && strings.Contains(expr(call.Args[1]), "NumShard") {
					sizeExpr = expr(call.Args[1])
				}
			}
			if len(a.Lhs) == 1 && len(a.Rhs) == 1 {
				if l, ok := a.Rhs[0].(*ast.CompositeLit); ok && len(l.Elts) > 0 {
					if tv := fn.Pkg.Info.Types[l]; tv.Type != nil && typeString(tv.Type) == "exec.partitioner" {
						depPart = l
					}
				}
			}
		}
		return true
	})
	if sizeExpr == "" || depPart == nil {
		c.Fail(fq+"|wiring-anchors", pr.Pos(fn.Body.Pos()), "cannot find the task list allocation or the producer partitioning in compile")
		return
	}
	st, _ := pr.lookupType("exec", "partitioner").Underlying().(*types.Struct)
	fields := map[string]string{}
	for i, e := range depPart.Elts {
		if kv, ok := e.(*ast.KeyValueExpr); ok {
			fields[expr(kv.Key)] = expr(kv.Value)
		} else if st != nil && i < st.NumFields() {
			fields[st.Field(i).Name()] = expr(e)
		}
	}
	c.Check(fields["numPartition"] == sizeExpr, fq+"|producer-partitions=consumer-shards", pr.Pos(depPart.Pos()),
		fmt.Sprintf("the producer is compiled with %s partitions but the consumer has %s tasks: some partitions are never read or some consumers read nothing", fields["numPartition"], sizeExpr))
	okDepPart := false
	if depPart != nil {
		ast.Inspect(depPart, func(n ast.Node) bool {
			if sel, ok := n.(*ast.SelectorExpr); ok && sel.Sel.Name == "Partitioner" {
				if tv := fn.Pkg.Info.Types[sel.X]; tv.Type != nil && (typeString(tv.Type) == "Dep" || typeString(tv.Type) == ".Dep") && expr(sel) == fields["partitioner"] {
					okDepPart = true
				}
			}
			return true
		})
	}
	c.Check(okDepPart, fq+"|producer-uses-dep-partitioner", pr.Pos(depPart.Pos()), "the producer is not compiled with the dependency's partitioner: "+fields["partitioner"])
	combineKeyVar := fields["CombineKey"]
	c.Check(strings.HasSuffix(fields["Combiner"], ".Combiner()") && combineKeyVar != "" && combineKeyVar != `""`, fq+"|producer-combiner", pr.Pos(depPart.Pos()), "the producer's combiner/combine key are not those of the consuming slice")
	// TaskDep literals
	tdst, _ := pr.lookupType("exec", "TaskDep").Underlying().(*types.Struct)
	nshuffle, nnarrow := 0, 0
	ast.Inspect(fn.Body, func(n ast.Node) bool {
		rng, ok := n.(*ast.RangeStmt)
		if !ok || expr(rng.X) != tasksVar {
			return true
		}
		iv := expr(rng.Key)
		ast.Inspect(rng.Body, func(m ast.Node) bool {
			a, ok := m.(*ast.AssignStmt)
			if !ok || len(a.Lhs) != 1 || !strings.HasSuffix(expr(a.Lhs[0]), ".Deps") {
				return true
			}
			target := expr(a.Lhs[0])
			var lit *ast.CompositeLit
			ast.Inspect(a.Rhs[0], func(k ast.Node) bool {
				if l, ok := k.(*ast.CompositeLit); ok && lit == nil {
					if tv := fn.Pkg.Info.Types[l]; tv.Type != nil && typeString(tv.Type) == "exec.TaskDep" {
						lit = l
					}
				}
				return true
			})
			if lit == nil {
				return true
			}
			f := map[string]string{}
			for i, e := range lit.Elts {
				if kv, ok := e.(*ast.KeyValueExpr); ok {
					f[expr(kv.Key)] = expr(kv.Value)
				} else if tdst != nil && i < tdst.NumFields() {
					f[tdst.Field(i).Name()] = expr(e)
				}
			}
			okTarget := target == tasksVar+"["+iv+"].Deps"
			// the head is <depTasks>[0] for a shuffle, <depTasks>[<loop var>] otherwise,
			// where <depTasks> is a variable assigned from the recursive compile call
			headIdx := ""
			if hx, ok := func() (*ast.IndexExpr, bool) {
				for _, e := range lit.Elts {
					v := e
					if kv, ok := e.(*ast.KeyValueExpr); ok {
						if expr(kv.Key) != "Head" {
							continue
						}
						v = kv.Value
					}
					if ix, ok := v.(*ast.IndexExpr); ok {
						return ix, true
					}
					break
				}
				return nil, false
			}(); ok {
				headIdx = expr(hx.Index)
			}
			if headIdx == "0" {
				nshuffle++
				c.Check(okTarget && f["Partition"] == iv && f["CombineKey"] == combineKeyVar, fq+"|shuffle-dep:consumer-p-reads-partition-p", pr.Pos(lit.Pos()),
					fmt.Sprintf("the shuffle dependency appended to %s has Partition=%s (loop variable %s): consumer shard p must read partition p of the producer's head task", target, f["Partition"], iv))
			} else {
				nnarrow++
				c.Check(okTarget && headIdx == iv && f["Partition"] == "0" && (f["CombineKey"] == `""` || f["CombineKey"] == ""), fq+"|narrow-dep:shard-i-reads-shard-i", pr.Pos(lit.Pos()),
					fmt.Sprintf("the pipelined dependency appended to %s is {Head:%s Partition:%s}: shard i must read partition 0 of shard i", target, f["Head"], f["Partition"]))
			}
			return true
		})
		return true
	})
	c.Floor("shuffle TaskDep literals in compile", nshuffle, 1)
	c.Floor("narrow TaskDep literals in compile", nnarrow, 1)
	// group set for shuffles by a deferred function covering every later return
	grp := false
	for _, stt := range fn.Body.List {
		d, ok := stt.(*ast.DeferStmt)
		if !ok {
			continue
		}
		lit, ok := d.Call.Fun.(*ast.FuncLit)
		if !ok {
			continue
		}
		ast.Inspect(lit.Body, func(n ast.Node) bool {
			if ifs, ok := n.(*ast.IfStmt); ok && strings.Contains(expr(ifs.Cond), "IsShuffle()") && !strings.Contains(expr(ifs.Cond), "!") {
				ast.Inspect(ifs.Body, func(m ast.Node) bool {
					if a, ok := m.(*ast.AssignStmt); ok && len(a.Lhs) == 1 && strings.HasSuffix(expr(a.Lhs[0]), ".Group") && expr(a.Rhs[0]) == tasksVar {
						grp = true
					}
					return true
				})
			}
			return true
		})
	}
	c.Check(grp, fq+"|shuffle-producers-grouped", pr.Pos(fn.Body.Pos()), "compile no longer sets task.Group = tasks for shuffle producers in a defer: TaskDep.NumTask() sees a single task, so consumers read only shard 0 of the producer")
}

func c05r5(c *RC) {
	pr := c.P
	n := 0
	for _, fn := range pr.FuncsIn("exec") {
		if fn.Body == nil || fn.Parent != nil {
			continue
		}
		// only functions that have a partitioner-typed parameter named part
		partName := ""
		if fn.Type.Params != nil {
			for _, f := range fn.Type.Params.List {
				if tv := fn.Pkg.Info.Types[f.Type]; tv.Type != nil && typeString(tv.Type) == "exec.partitioner" && len(f.Names) > 0 {
					partName = f.Names[0].Name
				}
			}
		}
		ast.Inspect(fn.Body, func(nd ast.Node) bool {
			lit, ok := nd.(*ast.CompositeLit)
			if !ok {
				return true
			}
			tv := fn.Pkg.Info.Types[lit]
			if tv.Type == nil || typeString(tv.Type) != "exec.Task" {
				return true
			}
			n++
			ord := n
			key := fmt.Sprintf("%s|Task-literal#%d", fn.QName(), ord)
			if partName == "" {
				c.Fail(key, pr.Pos(lit.Pos()), "a Task is built in a function that has no requested partitioning to take its partition fields from")
				return true
			}
			f := map[string]string{}
			for _, e := range lit.Elts {
				if kv, ok := e.(*ast.KeyValueExpr); ok {
					f[expr(kv.Key)] = strings.ReplaceAll(expr(kv.Value), " ", "")
				}
			}
			want := map[string]string{
				"NumPartition": partName + ".NumPartition()",
				"Partitioner":  partName + ".Partitioner()",
				"Combiner":     partName + ".Combiner",
				"CombineKey":   partName + ".CombineKey",
			}
			var missing []string
			for k, w := range want {
				if f[k] != w {
					missing = append(missing, fmt.Sprintf("%s=%q (want %s)", k, f[k], w))
				}
			}
			// the task's row type — whose key prefix is what the partitioner
			// hashes — is that of the slice being compiled for this consumer
			sliceP := ""
			for _, fld := range fn.Type.Params.List {
				if tv := fn.Pkg.Info.Types[fld.Type]; tv.Type != nil && typeString(tv.Type) == "Slice" && len(fld.Names) > 0 {
					sliceP = fld.Names[0].Name
				}
			}
			typeOK := false
			for _, e := range lit.Elts {
				kv, ok := e.(*ast.KeyValueExpr)
				if !ok || expr(kv.Key) != "Type" {
					continue
				}
				switch v := ast.Unparen(kv.Value).(type) {
				case *ast.Ident:
					typeOK = v.Name == sliceP
				case *ast.IndexExpr:
					// slices[0] where slices := pipeline(slice): the outermost
					// operator of the pipeline is the slice itself
					if id, ok := v.X.(*ast.Ident); ok && expr(v.Index) == "0" {
						ast.Inspect(fn.Body, func(m ast.Node) bool {
							if a, ok := m.(*ast.AssignStmt); ok && len(a.Lhs) == 1 && len(a.Rhs) == 1 && expr(a.Lhs[0]) == id.Name {
								if k, ok := a.Rhs[0].(*ast.CallExpr); ok && fn.Pkg.CalleeName(k) == "exec.pipeline" && len(k.Args) == 1 && expr(k.Args[0]) == sliceP {
									typeOK = true
								}
							}
							return true
						})
					}
				}
			}
			c.Check(typeOK && sliceP != "", key+"|typed-by-the-compiled-slice", pr.Pos(lit.Pos()),
				"this Task literal does not take its row type from the slice being compiled: the partitioner hashes the key prefix of the task's type, so with another type (e.g. that of a reused result's task) the shard of a row depends on columns that are not the consumer's key — equal keys land in several shards")
			// a literal on a path where part.IsShuffle() is known false may omit them only if NumPartition would be 1 anyway — no such literal exists; require always
			c.Check(len(missing) == 0, key, pr.Pos(lit.Pos()),
				"this Task literal does not take its partitioning from the requested partitioner: "+strings.Join(missing, ", ")+" — when the task's output feeds a shuffle it is written as 0/1 partitions without the consumer's partitioner, so consumers find no partition p (the executors index partitions[0] of an empty list)")
			return true
		})
	}
	c.Floor("Task literals in package exec", n, 2)
}

func c05r6(c *RC) {
	pr := c.P
	root := pr.Deps.Root
	gen := filepath.Join(root, "frame", "genops.go")
	tmplPath := filepath.Join(root, "frame", "ops_builtin.gotemplate")
	outPath := filepath.Join(root, "frame", "ops_builtin.go")
	src, err := os.ReadFile(gen)
	if err != nil {
		c.Undecide("cannot read generator: %v", err)
		return
	}
	fset := token.NewFileSet()
	gf, err := parser.ParseFile(fset, gen, src, 0)
	if err != nil {
		c.Undecide("cannot parse generator: %v", err)
		return
	}
	var typesList []string
	ast.Inspect(gf, func(n ast.Node) bool {
		vs, ok := n.(*ast.ValueSpec)
		if !ok || len(vs.Names) != 1 || vs.Names[0].Name != "types" || len(vs.Values) != 1 {
			return true
		}
		if cl, ok := vs.Values[0].(*ast.CompositeLit); ok {
			for _, e := range cl.Elts {
				if bl, ok := e.(*ast.BasicLit); ok {
					s, _ := strconv.Unquote(bl.Value)
					typesList = append(typesList, s)
				}
			}
		}
		return true
	})
	if len(typesList) < 10 {
		c.Undecide("generator type list not found (%d entries)", len(typesList))
		return
	}
	type typeInfo struct{ Type, TypeCap, ValueMethod string }
	infos := make([]typeInfo, len(typesList))
	for i, t := range typesList {
		infos[i].Type = t
		infos[i].TypeCap = strings.Title(t)
		switch {
		case strings.HasPrefix(t, "uint"):
			infos[i].ValueMethod = "Uint"
		case strings.HasPrefix(t, "int"):
			infos[i].ValueMethod = "Int"
		case strings.HasPrefix(t, "float"):
			infos[i].ValueMethod = "Float"
		case t == "string":
			infos[i].ValueMethod = "String"
		}
	}
	tsrc, ok := pr.Src[tmplPath]
	if !ok {
		b, err := os.ReadFile(tmplPath)
		if err != nil {
			c.Undecide("cannot read template: %v", err)
			return
		}
		tsrc = b
	}
	tm, err := template.New("ops").Parse(string(tsrc))
	if err != nil {
		c.Undecide("template does not parse: %v", err)
		return
	}
	var b bytes.Buffer
	if err := tm.Execute(&b, infos); err != nil {
		c.Undecide("template does not execute: %v", err)
		return
	}
	want, err := format.Source(b.Bytes())
	if err != nil {
		c.Fail("frame/ops_builtin.go|generator-output-valid", "frame/ops_builtin.gotemplate", "the template no longer generates valid Go: "+err.Error())
		return
	}
	got, ok := pr.Src[outPath]
	if !ok {
		c.Undecide("ops_builtin.go not loaded")
		return
	}
	// compare ASTs modulo comments/positions by re-printing both without comments
	norm := func(src []byte) (string, error) {
		fs := token.NewFileSet()
		f, err := parser.ParseFile(fs, "x.go", src, 0)
		if err != nil {
			return "", err
		}
		alphaNormalise(f)
		compareNormalise(f)
		var o bytes.Buffer
		if err := format.Node(&o, fs, f); err != nil {
			return "", err
		}
		return o.String(), nil
	}
	w, err1 := norm(want)
	g, err2 := norm(got)
	if err1 != nil || err2 != nil {
		c.Undecide("cannot normalise generated sources: %v %v", err1, err2)
		return
	}
	diffLine := ""
	if w != g {
		wl, gl := strings.Split(w, "\n"), strings.Split(g, "\n")
		for i := 0; i < len(wl) && i < len(gl); i++ {
			if wl[i] != gl[i] {
				diffLine = fmt.Sprintf("first difference at normalised line %d: generator gives %q, file has %q", i+1, strings.TrimSpace(wl[i]), strings.TrimSpace(gl[i]))
				break
			}
		}
		if diffLine == "" {
			diffLine = fmt.Sprintf("lengths differ: generator %d lines, file %d lines", len(wl), len(gl))
		}
	}
	c.Check(w == g, "frame/ops_builtin.go|equals-generator-output", "frame/ops_builtin.go",
		"the checked-in kernels differ from the template instantiated for the generator's type list ("+diffLine+"): one width's hash or comparison was edited by hand, so that key type is placed differently from what the generator (and other builds) produce")
	c.Note("generator types: %s", strings.Join(typesList, ","))
}

// alphaNormalise renames, in every function declaration and literal of f, the
// parameters, results and locally declared variables to canonical names in
// order of declaration, so that two files that differ only in the spelling of
// local names print identically.  (Purely syntactic: the file is a generated
// kernel file without shadowing subtleties.)
func alphaNormalise(f *ast.File) {
	var doFunc func(typ *ast.FuncType, body *ast.BlockStmt, depth int)
	doFunc = func(typ *ast.FuncType, body *ast.BlockStmt, depth int) {
		names := map[string]string{}
		k := 0
		decl := func(id *ast.Ident) {
			if id == nil || id.Name == "_" {
				return
			}
			if _, ok := names[id.Name]; !ok {
				names[id.Name] = fmt.Sprintf("v%d_%d", depth, k)
				k++
			}
		}
		for _, fl := range []*ast.FieldList{typ.Params, typ.Results} {
			if fl == nil {
				continue
			}
			for _, p := range fl.List {
				for _, n := range p.Names {
					decl(n)
				}
			}
		}
		if body == nil {
			return
		}
		ast.Inspect(body, func(n ast.Node) bool {
			switch x := n.(type) {
			case *ast.FuncLit:
				return false
			case *ast.AssignStmt:
				if x.Tok == token.DEFINE {
					for _, l := range x.Lhs {
						if id, ok := l.(*ast.Ident); ok {
							decl(id)
						}
					}
				}
			case *ast.ValueSpec:
				for _, id := range x.Names {
					decl(id)
				}
			case *ast.RangeStmt:
				if x.Tok == token.DEFINE {
					if id, ok := x.Key.(*ast.Ident); ok {
						decl(id)
					}
					if id, ok := x.Value.(*ast.Ident); ok {
						decl(id)
					}
				}
			}
			return true
		})
		var rename func(n ast.Node)
		rename = func(n ast.Node) {
			ast.Inspect(n, func(m ast.Node) bool {
				switch x := m.(type) {
				case *ast.FuncLit:
					// inner literal: rename outer names inside it first, then its own
					rename(x.Body)
					renameFields(x.Type, names)
					doFunc(x.Type, x.Body, depth+1)
					return false
				case *ast.SelectorExpr:
					rename(x.X)
					return false
				case *ast.KeyValueExpr:
					rename(x.Value)
					return false
				case *ast.Ident:
					if nn, ok := names[x.Name]; ok {
						x.Name = nn
					}
				}
				return true
			})
		}
		renameFields(typ, names)
		rename(body)
	}
	for _, d := range f.Decls {
		if fd, ok := d.(*ast.FuncDecl); ok {
			doFunc(fd.Type, fd.Body, 0)
		}
	}
}

func renameFields(typ *ast.FuncType, names map[string]string) {
	for _, fl := range []*ast.FieldList{typ.Params, typ.Results} {
		if fl == nil {
			continue
		}
		for _, p := range fl.List {
			for _, n := range p.Names {
				if nn, ok := names[n.Name]; ok {
					n.Name = nn
				}
			}
		}
	}
}

// compareNormalise rewrites every comparison into one spelling (a > b as
// b < a, a >= b as b <= a, and the operands of == and != in text order), so
// that a comparison written the other way round is not a difference.
func compareNormalise(f *ast.File) {
	ast.Inspect(f, func(n ast.Node) bool {
		be, ok := n.(*ast.BinaryExpr)
		if !ok {
			return true
		}
		switch be.Op {
		case token.GTR:
			be.X, be.Y, be.Op = be.Y, be.X, token.LSS
		case token.GEQ:
			be.X, be.Y, be.Op = be.Y, be.X, token.LEQ
		case token.EQL, token.NEQ:
			if expr(be.X) > expr(be.Y) {
				be.X, be.Y = be.Y, be.X
			}
		}
		return true
	})
}
