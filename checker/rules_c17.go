package main

import (
	"fmt"
	"go/ast"
	"go/token"
	"go/types"
	"strings"
)

func init() {
	registerProperty(&Property{
		ID:          "C17",
		Explanation: "Decides structural necessary conditions of the reader contract, for every type in the module that implements sliceio.Reader and every library loop that drains one: (R1) the error of every upstream Read is reported on every path (error-value flow; end-of-stream is the only accepted non-error); (R2) a frame whose rows were kept by the local executor is not handed to the next Read; (R3) the scanner validates arity and types on every call before it reads or assigns, and reports end-of-stream as a nil Err; (R4) multi-readers move on after an exhausted reader and tolerate empty reads; (R5) the end-of-stream sentinel is produced only at the sanctioned exhaustion sites, each under its recorded condition; (R6) the row count returned by an upstream Read is used on every non-error path, in particular when it arrives together with end-of-stream. Not decided: that the delivered sequence is independent of destination sizes and upstream chunking (value-level, the core of the statement), nor that earlier rows are never altered.",
		Rules: []Rule{
			{ID: "C17-R1", Doc: "upstream read errors propagate", Run: c17r1},
			{ID: "C17-R2", Doc: "kept frames are not reused", Run: c17r2},
			{ID: "C17-R3", Doc: "scanner validates before reading; EOF is nil Err", Run: c17r3},
			{ID: "C17-R4", Doc: "multi-readers tolerate empty reads", Run: c17r4},
			{ID: "C17-R5", Doc: "EOF produced only at sanctioned sites", Run: c17r5},
			{ID: "C17-R6", Doc: "rows returned with EOF (or nil) are never dropped", Run: c17r6},
			{ID: "C17-R7", Doc: "no compound test of an error against nil and the end-of-stream sentinel is constant", Run: c17r7},
			{ID: "C17-R8", Doc: "no stored value points into a refillable buffer", Run: c17r8},
			// shared with C07 / C10 (decoding, merge and reduce readers are library readers of this property)
			{ID: "C07-R5", Doc: "decoding reader: buffered remainder drained before next batch (shared)", Run: c07r5},
			{ID: "C07-R6", Doc: "decoding reader: batch decoded into a frame of exactly the decoded, validated length (shared)", Run: c07r6},
			{ID: "C10-R4", Doc: "merge/cogroup/reduce: heap repaired after every cursor move (shared)", Run: c10r4},
			{ID: "C10-R8", Doc: "a merge heap is heapified after it has been filled (shared)", Run: c10r8},
			{ID: "C10-R9", Doc: "a merge cursor moves only past a row that was taken (shared)", Run: c10r9},
			{ID: "C10-R11", Doc: "frames on which a reader compares or hashes keys take their key prefix from the reader's own type, never from the caller's destination frame (shared)", Run: c10r11},
			{ID: "C10-R12", Doc: "a loop over the input readers visits every reader (shared)", Run: c10r12},
			{ID: "C17-R10", Doc: "a reader with a row budget (Head) cuts the destination to the budget before it reads: it writes only the rows it returns", Run: c17r10},
			{ID: "C17-R9", Doc: "a pump loop ends exactly at end-of-stream", Run: c17r9},
			{ID: "C01-R3", Doc: "operator row loops visit every row read exactly once, at its own index, and write it at the next free output row (shared)", Run: c01r3},
			{ID: "C10-R6", Doc: "reduce reader: combined value stored before refill (shared)", Run: c10r6},
		},
	})
}

// isReaderRead: call is X.Read(ctx, frame) returning (int, error) on a value
// whose type implements sliceio.Reader.
func isReaderRead(pr *Prog, pk *Pkg, call *ast.CallExpr) bool {
	sel, ok := call.Fun.(*ast.SelectorExpr)
	if !ok || sel.Sel.Name != "Read" || len(call.Args) != 2 {
		return false
	}
	iface := pr.lookupIface("sliceio", "Reader")
	if iface == nil {
		return false
	}
	tv, ok := pk.Info.Types[sel.X]
	if !ok || tv.Type == nil {
		return false
	}
	return types.Implements(tv.Type, iface) || types.Implements(types.NewPointer(tv.Type), iface)
}

var readerPkgs = []string{"sliceio", "sortio", "exec", "", "internal/slicecache"}

func readerFuncs(pr *Prog) []*Func {
	var fns []*Func
	for _, rel := range readerPkgs {
		fns = append(fns, pr.FuncsIn(rel)...)
	}
	return fns
}

func c17r1(c *RC) {
	pr := c.P
	except := map[string]string{}
	n := errSites(c, readerFuncs(pr), func(fn *Func, call *ast.CallExpr, cn string) bool {
		return isReaderRead(pr, fn.Pkg, call) || cn == "sliceio.ReadFull"
	}, ErrFlowOpts{SentinelOK: []string{"sliceio.EOF"}}, except)
	c.Floor("upstream Read call sites", n, 15)
	// every implementation of sliceio.Reader is covered (listed for audit)
	if iface := pr.lookupIface("sliceio", "Reader"); iface != nil {
		impls := pr.implementers(iface, "Read")
		c.Note("%d types implement sliceio.Reader", len(impls))
		c.Floor("implementations of sliceio.Reader", len(impls), 12)
	}
}

func c17r2(c *RC) {
	pr := c.P
	fn := c.MustFn("exec.bufferOutput")
	if fn == nil {
		return
	}
	fq := fn.QName()
	fl := pr.Flow(fn)
	// frames kept: append(buf[...], X) where X is a frame variable later passed to Read
	n := 0
	for _, b := range fl.G.Blocks {
		if !b.Live {
			continue
		}
		for i, nd := range b.Nodes {
			a, ok := nd.(*ast.AssignStmt)
			if !ok || len(a.Rhs) != 1 {
				continue
			}
			call, ok := a.Rhs[0].(*ast.CallExpr)
			if !ok || expr(call.Fun) != "append" || len(call.Args) != 2 {
				continue
			}
			tv := fn.Pkg.Info.Types[call.Args[1]]
			if tv.Type == nil || typeString(tv.Type) != "frame.Frame" {
				continue
			}
			kept, isId := call.Args[1].(*ast.Ident)
			if !isId {
				continue
			}
			// only frames that are also Read destinations matter
			isDest := false
			for _, k := range callsIn(fn.Body) {
				if isReaderRead(pr, fn.Pkg, k) && expr(k.Args[1]) == kept.Name {
					isDest = true
				}
			}
			if !isDest {
				continue
			}
			n++
			bad := false
			var trail []string
			fl.Walk(Loc{b, i + 1}, "", nil, Visitor{NoFacts: true,
				Node: func(n2 ast.Node, x string, s *Step) (string, bool) {
					if as, ok := n2.(*ast.AssignStmt); ok {
						for _, l := range as.Lhs {
							if expr(l) == kept.Name {
								return x, true // rebound: the kept frame is no longer the destination
							}
						}
					}
					for _, k := range callsIn(n2) {
						if isReaderRead(pr, fn.Pkg, k) && expr(k.Args[1]) == kept.Name {
							bad = true
							trail = s.Trail()
							return x, true
						}
					}
					return x, false
				}})
			c.Check(!bad, fmt.Sprintf("%s|kept-frame-not-reused#%d", fq, n), pr.Pos(a.Pos()),
				"a frame appended to the task buffer is passed to the next Read without being replaced: rows already stored are overwritten by the next batch", trail...)
		}
	}
	c.Floor("frames kept by bufferOutput", n, 1)
}

func c17r3(c *RC) {
	pr := c.P
	fn := c.MustFn("sliceio.(*Scanner).Scan")
	if fn == nil {
		return
	}
	fq := fn.QName()
	fl := pr.Flow(fn)
	// the arity comparison and the per-column type comparison must lie on every
	// path from entry to (a) the upstream Read and (b) the column assignment
	isArity := func(cond ast.Expr) bool {
		be, ok := ast.Unparen(cond).(*ast.BinaryExpr)
		if !ok || (be.Op != token.NEQ && be.Op != token.EQL) {
			return false
		}
		t := expr(be.X) + " " + expr(be.Y)
		outP := "out"
		if fn.Type.Params != nil && len(fn.Type.Params.List) > 0 {
			last := fn.Type.Params.List[len(fn.Type.Params.List)-1]
			if len(last.Names) > 0 {
				outP = last.Names[len(last.Names)-1].Name
			}
		}
		return strings.Contains(t, "len("+outP+")") && strings.Contains(t, "NumOut()")
	}
	isType := func(cond ast.Expr) bool {
		be, ok := ast.Unparen(cond).(*ast.BinaryExpr)
		if !ok || (be.Op != token.NEQ && be.Op != token.EQL) {
			return false
		}
		for _, side := range []ast.Expr{be.X, be.Y} {
			tv := fn.Pkg.Info.Types[side]
			if tv.Type == nil || typeString(tv.Type) != "reflect.Type" {
				return false
			}
		}
		return true
	}
	var targets []ast.Node
	var names []string
	for _, call := range callsIn(fn.Body) {
		if isReaderRead(pr, fn.Pkg, call) {
			targets = append(targets, call)
			names = append(names, "upstream-Read")
		}
		if strings.HasSuffix(fn.Pkg.CalleeName(call), "reflect.Value.Set") {
			targets = append(targets, call)
			names = append(names, "column-assignment")
		}
	}
	c.Floor("read/assign sites in Scan", len(targets), 2)
	for ti, tgt := range targets {
		loc, ok := fl.LocOf(tgt)
		if !ok {
			c.Undecide("%s: site not in CFG", fq)
			continue
		}
		bad := ""
		var trail []string
		fl.Walk(fl.Entry(), "", nil, Visitor{NoFacts: true,
			Enter: func(from, to *cfg2Block, x string, s *Step) (string, bool) {
				cond := fl.edgeCond(from)
				if cond == nil {
					return x, false
				}
				// only the edge taken when the two sides are equal counts as "validated"
				onEqualEdge := func() bool {
					if len(from.Succs) != 2 {
						return false
					}
					vEq, ok1 := evalCond(cond, func(e ast.Expr) (bool, bool) {
						be, ok := ast.Unparen(e).(*ast.BinaryExpr)
						if !ok || (be.Op != token.EQL && be.Op != token.NEQ) {
							return false, false
						}
						return be.Op == token.EQL, true
					})
					if !ok1 {
						return false
					}
					return (from.Succs[0] == to) == vEq
				}
				if isArity(cond) && !strings.Contains(x, "A") && onEqualEdge() {
					x += "A"
				}
				if isType(cond) && !strings.Contains(x, "T") && onEqualEdge() {
					x += "T"
				}
				return x, false
			},
			Node: func(n ast.Node, x string, s *Step) (string, bool) {
				if s.Block == loc.B && s.Idx == loc.I {
					if !strings.Contains(x, "A") {
						bad = "the arity check"
						trail = s.Trail()
					}
					// the type loop may run zero times only when there are zero columns
					return x, true
				}
				return x, false
			}})
		c.Check(bad == "", fmt.Sprintf("%s|%s-after-validation", fq, names[ti]), pr.Pos(tgt.Pos()),
			"Scan reaches its "+names[ti]+" on a path that skipped "+bad+": a destination list of the wrong arity is silently accepted (truncated rows) or panics instead of setting an error", trail...)
	}
	// a mismatch (arity or type) records an error and ends the scan
	nMis, okMis := 0, true
	ast.Inspect(fn.Body, func(n ast.Node) bool {
		ifs, ok := n.(*ast.IfStmt)
		if !ok || !(isArity(ifs.Cond) || isType(ifs.Cond)) {
			return true
		}
		nMis++
		vEq, known := evalCond(ifs.Cond, func(e ast.Expr) (bool, bool) {
			be, ok := ast.Unparen(e).(*ast.BinaryExpr)
			if !ok || (be.Op != token.EQL && be.Op != token.NEQ) {
				return false, false
			}
			return be.Op == token.EQL, true
		})
		var arm []ast.Stmt
		if known && !vEq {
			arm = ifs.Body.List // the then-branch is the mismatch
		} else if known {
			if el, ok := ifs.Else.(*ast.BlockStmt); ok {
				arm = el.List
			}
		}
		setsErr, retFalse := false, false
		for _, st := range arm {
			switch x := st.(type) {
			case *ast.AssignStmt:
				for _, l := range x.Lhs {
					if canon(fn, l) == "$recv.err" {
						setsErr = true
					}
				}
			case *ast.ReturnStmt:
				if len(x.Results) == 1 && expr(x.Results[0]) == "false" {
					retFalse = true
				}
			}
		}
		if !(setsErr && retFalse) {
			okMis = false
		}
		return true
	})
	c.Check(nMis >= 2 && okMis, fq+"|mismatch-is-an-error", pr.Pos(fn.Body.Pos()),
		"a destination list of the wrong arity or type does not make Scan record an error and return false: the mismatch is accepted (a reflect panic, or rows assigned to the wrong variables) or silently ends the scan")
	// the type check exists and sets s.err
	hasType := false
	ast.Inspect(fn.Body, func(n ast.Node) bool {
		if ifs, ok := n.(*ast.IfStmt); ok && isType(ifs.Cond) {
			hasType = true
		}
		return true
	})
	c.Check(hasType, fq+"|type-check-present", pr.Pos(fn.Body.Pos()), "Scan no longer compares each destination's type with the column type")
	// the validation is not nested under a once-only guard (s.started)
	nested := false
	ast.Inspect(fn.Body, func(n ast.Node) bool {
		ifs, ok := n.(*ast.IfStmt)
		if !ok {
			return true
		}
		if strings.Contains(expr(ifs.Cond), "started") {
			ast.Inspect(ifs.Body, func(m ast.Node) bool {
				if i2, ok := m.(*ast.IfStmt); ok && (isArity(i2.Cond) || isType(i2.Cond)) {
					nested = true
				}
				return true
			})
		}
		return true
	})
	c.Check(!nested, fq+"|validation-on-every-call", pr.Pos(fn.Body.Pos()), "the arity/type validation only runs on the first Scan call")
	// the refill loop keeps reading while no rows are buffered: `for s.beg == s.end`
	loopOK := false
	ast.Inspect(fn.Body, func(n ast.Node) bool {
		if f, ok := n.(*ast.ForStmt); ok && f.Cond != nil {
			hasRead := false
			for _, call := range callsIn(f.Body) {
				if isReaderRead(pr, fn.Pkg, call) {
					hasRead = true
				}
			}
			if be, ok := ast.Unparen(f.Cond).(*ast.BinaryExpr); ok && hasRead && be.Op == token.EQL {
				loopOK = true
			}
		}
		return true
	})
	c.Check(loopOK, fq+"|refill-loops-on-empty-reads", pr.Pos(fn.Body.Pos()), "the scanner's refill is no longer a loop that repeats while no rows are buffered: an upstream read returning zero rows without ending is taken for the end of the stream")
	// Err maps the sentinel to nil
	if e := c.MustFn("sliceio.(*Scanner).Err"); e != nil {
		ok := false
		ast.Inspect(e.Body, func(n ast.Node) bool {
			if ifs, isIf := n.(*ast.IfStmt); isIf {
				if _, whenEq, isT := constTest(ifs.Cond, func(x string) bool { return strings.HasSuffix(x, ".err") }, "EOF"); isT && whenEq {
					for _, st := range ifs.Body.List {
						if r, isR := st.(*ast.ReturnStmt); isR && len(r.Results) == 1 && expr(r.Results[0]) == "nil" {
							ok = true
						}
					}
				}
			}
			return true
		})
		c.Check(ok, "sliceio.(*Scanner).Err|EOF-is-nil", pr.Pos(e.Body.Pos()), "Scanner.Err no longer reports end-of-stream as nil")
	}
}

func c17r4(c *RC) {
	pr := c.P
	for _, q := range []string{"sliceio.(*multiReader).Read", "exec.(*multiReader).Read"} {
		fn := c.MustFn(q)
		if fn == nil {
			continue
		}
		stickyFirst(c, fn)
		fl := pr.Flow(fn)
		var read *ast.CallExpr
		for _, call := range callsIn(fn.Body) {
			if isReaderRead(pr, fn.Pkg, call) {
				read = call
			}
		}
		if read == nil {
			c.Fail(q+"|reads-current", pr.Pos(fn.Body.Pos()), "multiReader no longer reads from its current reader")
			continue
		}
		loc, _ := fl.LocOf(read)
		// the variables receiving the read's count and error
		nV, errV := "n", "err"
		ast.Inspect(fn.Body, func(m ast.Node) bool {
			if a, ok := m.(*ast.AssignStmt); ok && len(a.Lhs) == 2 && len(a.Rhs) == 1 && ast.Unparen(a.Rhs[0]) == ast.Expr(read) {
				nV, errV = expr(a.Lhs[0]), expr(a.Lhs[1])
			}
			return true
		})
		loop := enclosingLoop(fn.Body, read)
		if loop == nil {
			c.Fail(q+"|loops", pr.Pos(read.Pos()), "the read of the current reader is not inside a loop: an exhausted or momentarily empty reader ends the whole stream")
			continue
		}
		// paths from the read: with (n==0, err==nil) must reach the loop head again, not return
		returnsOnEmpty := false
		var trail []string
		fl.Walk(Loc{loc.B, loc.I + 1}, "", nil, Visitor{
			Exit: func(kind ExitKind, ret *ast.ReturnStmt, x string, s *Step) {
				if kind == ExitPanic || ret == nil {
					return
				}
				// an exit is fine if facts show an error/EOF or rows (n > 0)
				errKnown, rows := false, false
				for _, f := range s.Facts {
					k := stripAt(f.key)
					if k == errV && (f.eq && f.val != "nil" || !f.eq && f.val == "nil") {
						errKnown = true
					}
					if k == nV+">0" && f.eq && f.val == "true" {
						rows = true
					}
					if k == nV && !f.eq && f.val == "0" {
						rows = true
					}
				}
				if !errKnown && !rows {
					// is this the final `return 0, EOF` after the loop? then len(q)>0 is false
					for _, f := range s.Facts {
						if strings.HasPrefix(stripAt(f.key), "len(") && f.eq && (f.val == "false" || f.val == "0") {
							return
						}
					}
					returnsOnEmpty = true
					trail = s.Trail()
				}
			}})
		c.Check(!returnsOnEmpty, q+"|empty-read-continues", pr.Pos(read.Pos()),
			"the multi-reader returns after a read that produced neither rows nor an error: an input read that returns no rows without ending ends (or stalls) the stream", trail...)
		// on EOF the current reader is dropped from the queue
		adv := false
		ast.Inspect(loop, func(n ast.Node) bool {
			if a, ok := n.(*ast.AssignStmt); ok && len(a.Lhs) == 1 && len(a.Rhs) == 1 {
				if sl, ok := a.Rhs[0].(*ast.SliceExpr); ok && expr(sl.X) == expr(a.Lhs[0]) && sl.Low != nil && expr(sl.Low) == "1" {
					adv = true
				}
			}
			return true
		})
		c.Check(adv, q+"|advances-on-EOF", pr.Pos(loop.Pos()), "the multi-reader no longer drops the exhausted reader from its queue")
		// a real error is made sticky before it is returned (stickyFirst tests the field on entry)
		{
			stored := false
			ast.Inspect(loop, func(n ast.Node) bool {
				if a, ok := n.(*ast.AssignStmt); ok && len(a.Lhs) == 1 && len(a.Rhs) == 1 && canon(fn, a.Lhs[0]) == "$recv.err" && expr(a.Rhs[0]) == errV {
					stored = true
				}
				return true
			})
			c.Check(stored, q+"|error-is-made-sticky", pr.Pos(loop.Pos()), "the multi-reader returns an input's error without keeping it: a later Read goes on to the next rows (or readers) as if nothing had happened, and rows after the failure are delivered")
		}
		// ... and only then: on every path to the statement that drops the head
		// reader, its read is known to have returned the end-of-stream sentinel
		var advStmt *ast.AssignStmt
		ast.Inspect(loop, func(n ast.Node) bool {
			if a, ok := n.(*ast.AssignStmt); ok && len(a.Lhs) == 1 && len(a.Rhs) == 1 {
				if sl, ok := a.Rhs[0].(*ast.SliceExpr); ok && expr(sl.X) == expr(a.Lhs[0]) && sl.Low != nil && expr(sl.Low) == "1" {
					advStmt = a
				}
			}
			return true
		})
		if advStmt != nil {
			var errId *ast.Ident
			ast.Inspect(fn.Body, func(m ast.Node) bool {
				if a, ok := m.(*ast.AssignStmt); ok && len(a.Lhs) == 2 && len(a.Rhs) == 1 && ast.Unparen(a.Rhs[0]) == ast.Expr(read) {
					errId, _ = a.Lhs[1].(*ast.Ident)
				}
				return true
			})
			al, okA := fl.LocOf(advStmt)
			early := false
			var tr2 []string
			if okA && errId != nil {
				ek := fl.Key(errId)
				fl.Walk(Loc{loc.B, loc.I + 1}, "", nil, Visitor{
					Node: func(n ast.Node, x string, s *Step) (string, bool) {
						if s.Block == al.B && s.Idx == al.I {
							if !strings.HasSuffix(s.Facts.Eq(ek), "EOF") {
								early = true
								tr2 = s.Trail()
							}
							return x, true
						}
						return x, false
					}})
			} else {
				c.Undecide("%s: cannot locate the queue advance or the read's error variable", q)
			}
			c.Check(!early, q+"|advances-only-on-EOF", pr.Pos(advStmt.Pos()),
				"the multi-reader drops its head reader on a path where that reader's Read is not known to have returned the end-of-stream sentinel (e.g. it returned no rows and no error): the rest of that input is silently lost", tr2...)
		}
	}
}

func c17r5(c *RC) {
	pr := c.P
	before := len(c.Obls)
	eofSites(c, readerFuncs(pr))
	c.Floor("end-of-stream production sites", len(c.Obls)-before, 8)
}

// c17r6: the count of an upstream Read must be used on every non-error path.
func c17r6(c *RC) {
	pr := c.P
	n := 0
	for _, fn := range readerFuncs(pr) {
		if fn.Body == nil {
			continue
		}
		fl := pr.Flow(fn)
		ord := 0
		for _, b := range fl.G.Blocks {
			if !b.Live {
				continue
			}
			for i, nd := range b.Nodes {
				a, ok := nd.(*ast.AssignStmt)
				if !ok || len(a.Rhs) != 1 || len(a.Lhs) != 2 {
					continue
				}
				call, ok := ast.Unparen(a.Rhs[0]).(*ast.CallExpr)
				if !ok || !isReaderRead(pr, fn.Pkg, call) {
					continue
				}
				ord++
				key := fmt.Sprintf("%s|count-of-Read#%d-used", fn.QName(), ord)
				nid, isId := a.Lhs[0].(*ast.Ident)
				if !isId {
					c.Pass(key, pr.Pos(a.Pos()), "count stored in "+expr(a.Lhs[0]))
					n++
					continue
				}
				if nid.Name == "_" {
					// legitimate only when the destination has no rows (frame.Empty)
					n++
					c.Check(expr(call.Args[1]) == "frame.Empty", key, pr.Pos(a.Pos()), "the row count of a Read into a non-empty frame is discarded")
					continue
				}
				nv := objOf(fn.Pkg, nid)
				if nv == nil {
					continue
				}
				// captured / named result => escapes
				if !(fn.Node().Pos() <= nv.Pos() && nv.Pos() < fn.Node().End()) {
					c.Pass(key, pr.Pos(a.Pos()), "count assigned to an outer variable")
					n++
					continue
				}
				namedRes := false
				if fn.Type.Results != nil {
					for _, f := range fn.Type.Results.List {
						for _, nm := range f.Names {
							if fn.Pkg.Info.Defs[nm] == types.Object(nv) {
								namedRes = true
							}
						}
					}
				}
				errKey := ""
				if eid, ok := a.Lhs[1].(*ast.Ident); ok {
					errKey = fl.Key(eid)
				} else {
					errKey = fl.Key(a.Lhs[1])
				}
				n++
				isErrPath := func(f Facts) bool {
					return errKey != "" && f.NonNil(errKey) && f.Ne(errKey, "sliceio.EOF")
				}
				uses := func(node ast.Node) (used, overwritten bool) {
					var stack []ast.Node
					ast.Inspect(node, func(m ast.Node) bool {
						if m == nil {
							stack = stack[:len(stack)-1]
							return false
						}
						stack = append(stack, m)
						id, ok := m.(*ast.Ident)
						if !ok || objOf(fn.Pkg, id) != nv {
							return true
						}
						if len(stack) >= 2 {
							if as, ok := stack[len(stack)-2].(*ast.AssignStmt); ok {
								for _, l := range as.Lhs {
									if l == ast.Expr(id) {
										if as.Tok == token.ASSIGN || as.Tok == token.DEFINE {
											overwritten = true
											return true
										}
									}
								}
							}
						}
						used = true
						return true
					})
					return
				}
				bad := false
				var trail []string
				why := ""
				fl.Walk(Loc{b, i + 1}, "", nil, Visitor{
					Node: func(n2 ast.Node, x string, s *Step) (string, bool) {
						if isErrPath(s.Facts) {
							return x, true
						}
						u, o := uses(n2)
						if u {
							return x, true
						}
						if o {
							bad = true
							why = "is overwritten at " + pr.Pos(n2.Pos())
							trail = s.Trail()
							return x, true
						}
						if ret, ok := n2.(*ast.ReturnStmt); ok && len(ret.Results) == 0 && namedRes {
							return x, true
						}
						return x, false
					},
					Exit: func(kind ExitKind, ret *ast.ReturnStmt, x string, s *Step) {
						if kind == ExitPanic || isErrPath(s.Facts) {
							return
						}
						if namedRes && (ret == nil || len(ret.Results) == 0) {
							return
						}
						bad = true
						why = "is still unused when the function returns at " + fl.exitPos(s, ret)
						trail = s.Trail()
					}})
				c.Check(!bad, key, pr.Pos(a.Pos()),
					fmt.Sprintf("the row count %s returned by %s %s on a path that is not an error path (facts: it may be nil or end-of-stream): Read may return rows together with EOF, and those rows are dropped", nid.Name, expr(call.Fun), why), trail...)
			}
		}
	}
	c.Floor("upstream Read sites binding a count", n, 12)
}
