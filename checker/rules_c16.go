package main

import (
	"fmt"
	"go/ast"
	"go/token"
	"go/types"
	"regexp"
	"sort"
	"strings"
)

func init() {
	registerProperty(&Property{
		ID:          "C16",
		Explanation: "Decides structural necessary conditions of invocation transport: (R1) every field of bigslice.Invocation and of execInvocation is either in the directly encoded field list (name and address of the same field) or is Args, which both codec functions handle; (R2) GobEncode and GobDecode walk the same field list first and then the arguments with the same Func lookup and the same per-argument predicate (parameter kind is interface => encode the address / decode into an empty interface), decode maps *Result parameters to invocationRef, invocationRef is gob-registered, the driver substitutes *Result by invocationRef before storing and the worker substitutes it back before invoking; (R3) on first sight of an invocation its serialisation is checked before a machine is requested, a failure makes the task ERR, the encoder's error is wrapped Fatal+Invalid and the compile loop's fatal arm matches exactly that; (R4) a started machine is added to the cluster only after the Func registry comparison came back empty. Not decided: gob fidelity for all types, correctness of FuncLocationsDiff (a value-level dynamic program).",
		Rules: []Rule{
			{ID: "C16-R1", Doc: "every field of the invocation travels", Run: c16r1},
			{ID: "C16-R2", Doc: "encode/decode agree; Result<->invocationRef substitution", Run: c16r2},
			{ID: "C16-R3", Doc: "unencodable arguments fail fast and fatally", Run: c16r3},
			{ID: "C16-R4", Doc: "registry check precedes use of a machine", Run: c16r4},
			{ID: "C16-R5", Doc: "a worker receives invocations dependencies-first", Run: c16r5},
			{ID: "C16-R6", Doc: "a Func records the location of the user's call (runtime.Caller depth matches the distance from the API)", Run: c16r6},
			{ID: "C16-R7", Doc: "registry comparison starts at the first Func", Run: c16r7},
			{ID: "C16-R8", Doc: "GobEncode sends every argument exactly once, as given", Run: c16r8},
			{ID: "C16-R9", Doc: "every travelling field of a decoded invocation comes from the stream (GobDecode assigns none of them)", Run: c16r9},
			{ID: "C16-R10", Doc: "every struct type reachable from the transported invocation has only exported fields (gob skips the others silently)", Run: c16r10},
			{ID: "C16-R11", Doc: "an invocation's arguments are rewritten for transport in a copy, not in the caller's slice", Run: c16r11},
		},
	})
}

func structFields(t *types.Named) []string {
	var out []string
	if t == nil {
		return nil
	}
	st, ok := t.Underlying().(*types.Struct)
	if !ok {
		return nil
	}
	for i := 0; i < st.NumFields(); i++ {
		f := st.Field(i)
		if f.Embedded() {
			if n := namedOf(f.Type()); n != nil {
				out = append(out, structFields(n)...)
			}
			continue
		}
		out = append(out, f.Name())
	}
	return out
}

func c16r1(c *RC) {
	pr := c.P
	fn := c.MustFn("exec.(*execInvocation).directEncodedFields")
	if fn == nil {
		return
	}
	fq := fn.QName()
	all := structFields(pr.lookupType("exec", "execInvocation"))
	if len(all) < 5 {
		c.Undecide("execInvocation has %d fields", len(all))
		return
	}
	listed := map[string]bool{}
	ast.Inspect(fn.Body, func(n ast.Node) bool {
		cl, ok := n.(*ast.CompositeLit)
		if !ok || len(cl.Elts) != 2 {
			return true
		}
		var name string
		var ptr ast.Expr
		for i, e := range cl.Elts {
			v := e
			k := ""
			if kv, ok := e.(*ast.KeyValueExpr); ok {
				v, k = kv.Value, expr(kv.Key)
			}
			if bl, ok := v.(*ast.BasicLit); ok && bl.Kind == token.STRING && (k == "name" || (k == "" && i == 0)) {
				name = strings.Trim(bl.Value, `"`)
			}
			if u, ok := v.(*ast.UnaryExpr); ok && u.Op == token.AND {
				ptr = u.X
			}
		}
		if name == "" || ptr == nil {
			return true
		}
		sel, ok := ptr.(*ast.SelectorExpr)
		c.Check(ok && sel.Sel.Name == name, fq+"|entry:"+name, pr.Pos(cl.Pos()), fmt.Sprintf("the entry named %q encodes the address of %s", name, expr(ptr)))
		if ok {
			listed[sel.Sel.Name] = true
		}
		return true
	})
	var missing []string
	for _, f := range all {
		if f == "Args" {
			continue
		}
		if !listed[f] {
			missing = append(missing, f)
		}
	}
	sort.Strings(missing)
	c.Check(len(missing) == 0, fq+"|all-fields-listed", pr.Pos(fn.Body.Pos()),
		"field(s) "+strings.Join(missing, ", ")+" of the invocation are neither in the directly encoded list nor Args: they arrive zero-valued on the worker, which then compiles a different invocation")
	c.Check(!listed["Args"], fq+"|Args-not-direct", pr.Pos(fn.Body.Pos()), "Args is gob-encoded directly, bypassing the type-directed argument encoding (unregistered concrete types fail to encode)")
	// pointer receiver: the addresses must be those of the receiver's fields, not of a copy
	ptrRecv := false
	if fn.Decl != nil && fn.Decl.Recv != nil {
		_, ptrRecv = fn.Decl.Recv.List[0].Type.(*ast.StarExpr)
	}
	c.Check(ptrRecv, fq+"|pointer-receiver", pr.Pos(fn.Body.Pos()), "directEncodedFields has a value receiver: GobDecode would decode into a copy and the invocation would stay empty")
}

// argLoopInfo describes the per-argument handling of GobEncode/GobDecode.
func c16r2(c *RC) {
	pr := c.P
	enc := c.MustFn("exec.execInvocation.GobEncode")
	dec := c.MustFn("exec.(*execInvocation).GobDecode")
	if enc == nil || dec == nil {
		return
	}
	// both range over directEncodedFields() and (en|de)code field.ptr, before touching args
	for _, f := range []*Func{enc, dec} {
		var rng *ast.RangeStmt
		ast.Inspect(f.Body, func(n ast.Node) bool {
			if r, ok := n.(*ast.RangeStmt); ok && rng == nil {
				if call, ok := r.X.(*ast.CallExpr); ok && f.Pkg.CalleeName(call) == "exec.(*execInvocation).directEncodedFields" {
					rng = r
				}
			}
			return true
		})
		ok := false
		if rng != nil {
			for _, k := range callsIn(rng.Body) {
				cn := f.Pkg.CalleeName(k)
				if (cn == "encoding/gob.(*Encoder).Encode" || cn == "encoding/gob.(*Decoder).Decode") && len(k.Args) == 1 && strings.HasSuffix(expr(k.Args[0]), ".ptr") {
					ok = true
				}
			}
		}
		c.Check(ok, f.QName()+"|direct-fields-first", pr.Pos(f.Body.Pos()), "the codec function no longer walks directEncodedFields() and (en/de)codes each field address")
		// Func lookup
		lookup := false
		for _, k := range callsIn(f.Body) {
			if f.Pkg.CalleeName(k) == ".FuncByIndex" && len(k.Args) == 1 && strings.HasSuffix(expr(k.Args[0]), ".Func") {
				lookup = true
				if rng != nil {
					c.Check(k.Pos() > rng.End(), f.QName()+"|func-lookup-after-fields", pr.Pos(k.Pos()), "the Func is looked up before the Func index field has been (en/de)coded")
				}
			}
		}
		c.Check(lookup, f.QName()+"|types-from-registered-func", pr.Pos(f.Body.Pos()), "argument types are no longer taken from the registered Func of the invocation")
	}
	// encode: interface-kinded parameters are encoded by address
	encOK := false
	ast.Inspect(enc.Body, func(n ast.Node) bool {
		ifs, ok := n.(*ast.IfStmt)
		if !ok {
			return true
		}
		t := strings.ReplaceAll(expr(ifs.Cond), " ", "")
		if !strings.HasSuffix(t, ".Kind()==reflect.Interface") {
			return true
		}
		for _, k := range callsIn(ifs.Body) {
			if enc.Pkg.CalleeName(k) == "encoding/gob.(*Encoder).Encode" && len(k.Args) == 1 {
				if u, ok := k.Args[0].(*ast.UnaryExpr); ok && u.Op == token.AND {
					encOK = true
				}
			}
		}
		// and the branch does not fall through to the plain encode
		hasCont := false
		for _, st := range ifs.Body.List {
			if b, ok := st.(*ast.BranchStmt); ok && b.Tok == token.CONTINUE {
				hasCont = true
			}
		}
		if !hasCont && ifs.Else == nil {
			encOK = false
		}
		return true
	})
	c.Check(encOK, enc.QName()+"|interface-args-by-address", pr.Pos(enc.Body.Pos()), "interface-typed parameters are no longer gob-encoded through the address of the argument (exactly once): gob then sends the concrete type and the decoder, which decodes into an interface, fails or sees a different value")
	// the parameter type of argument i is fv.In(i) on both sides
	for _, f := range []*Func{enc, dec} {
		ok := false
		ast.Inspect(f.Body, func(n ast.Node) bool {
			if a, isA := n.(*ast.AssignStmt); isA && len(a.Lhs) == 1 && len(a.Rhs) == 1 {
				if call, isC := a.Rhs[0].(*ast.CallExpr); isC && f.Pkg.CalleeName(call) == ".(*FuncValue).In" && len(call.Args) == 1 {
					// the index is the loop variable of the enclosing loop over Args
					if loop, isR := enclosingLoop(f.Body, a).(*ast.RangeStmt); isR && expr(loop.Key) == expr(call.Args[0]) && strings.HasSuffix(expr(loop.X), ".Args") {
						ok = true
					}
				}
			}
			return true
		})
		c.Check(ok, f.QName()+"|arg-i-typed-by-param-i", pr.Pos(f.Body.Pos()), "argument i is no longer (en/de)coded according to parameter i of the Func")
	}
	// decode: switch arms
	var sw *ast.SwitchStmt
	ast.Inspect(dec.Body, func(n ast.Node) bool {
		if s, ok := n.(*ast.SwitchStmt); ok && s.Tag == nil && sw == nil {
			sw = s
		}
		return true
	})
	if sw == nil {
		c.Fail(dec.QName()+"|type-directed-decode", pr.Pos(dec.Body.Pos()), "GobDecode no longer selects the decode target by parameter type")
	} else {
		arms := map[string]string{}
		// the variable holding the parameter type (assigned from FuncValue.In)
		typV := "typ"
		ast.Inspect(dec.Body, func(n ast.Node) bool {
			if a, ok := n.(*ast.AssignStmt); ok && len(a.Lhs) == 1 && len(a.Rhs) == 1 {
				if k, ok := a.Rhs[0].(*ast.CallExpr); ok && dec.Pkg.CalleeName(k) == ".(*FuncValue).In" {
					typV = expr(a.Lhs[0])
				}
			}
			return true
		})
		for _, cs := range sw.Body.List {
			cc := cs.(*ast.CaseClause)
			cond := "default"
			if len(cc.List) == 1 {
				cond = replaceWord(strings.ReplaceAll(expr(cc.List[0]), " ", ""), typV, "typ")
				if be, isBe := ast.Unparen(cc.List[0]).(*ast.BinaryExpr); isBe && be.Op == token.EQL {
					l := replaceWord(strings.ReplaceAll(expr(be.X), " ", ""), typV, "typ")
					r := replaceWord(strings.ReplaceAll(expr(be.Y), " ", ""), typV, "typ")
					if r == "typ" || strings.HasPrefix(r, "typ.") {
						l, r = r, l
					}
					cond = l + "==" + r
				}
			}
			for _, st := range cc.Body {
				if a, ok := st.(*ast.AssignStmt); ok && len(a.Rhs) == 1 {
					arms[cond] = replaceWord(strings.ReplaceAll(expr(a.Rhs[0]), " ", ""), typV, "typ")
				}
			}
		}
		c.Check(arms["typ==typResultPtr"] == "reflect.New(typInvocationRef)", dec.QName()+"|Result-params-decode-to-invocationRef", pr.Pos(sw.Pos()), "*Result parameters are no longer decoded into an invocationRef (the driver sends a reference, not the result)")
		c.Check(arms["typ.Kind()==reflect.Interface"] == "reflect.New(typEmptyInterface)", dec.QName()+"|interface-params-decode-to-interface", pr.Pos(sw.Pos()), "interface-typed parameters are no longer decoded into an empty interface, mirroring the encoder's by-address encoding")
		c.Check(arms["default"] == "reflect.New(typ)", dec.QName()+"|concrete-params-decode-to-own-type", pr.Pos(sw.Pos()), "concretely typed parameters are no longer decoded into a new value of the parameter type")
		// Args sized by the Func's arity and element stored from the decoded value
		sized, stored := false, false
		ast.Inspect(dec.Body, func(n ast.Node) bool {
			if a, ok := n.(*ast.AssignStmt); ok && len(a.Lhs) == 1 {
				l := expr(a.Lhs[0])
				r := strings.ReplaceAll(expr(a.Rhs[0]), " ", "")
				if strings.HasSuffix(l, ".Args") && strings.Contains(r, ".NumIn()") {
					sized = true
				}
				if strings.Contains(l, ".Args[") && strings.HasSuffix(r, ".Elem().Interface()") {
					stored = true
				}
			}
			return true
		})
		c.Check(sized && stored, dec.QName()+"|args-rebuilt", pr.Pos(dec.Body.Pos()), "the decoded argument list is not rebuilt with one decoded value per parameter")
	}
	// typ variables denote what their names say
	pk := pr.Pkgs["exec"]
	for name, want := range map[string]string{"typResultPtr": "(*Result)(nil)", "typInvocationRef": "invocationRef{}", "typEmptyInterface": "(*interface{})(nil)"} {
		found := ""
		for _, f := range pk.Files {
			ast.Inspect(f, func(n ast.Node) bool {
				if vs, ok := n.(*ast.ValueSpec); ok {
					for i, nm := range vs.Names {
						if nm.Name == name && i < len(vs.Values) {
							found = strings.ReplaceAll(nodeSrc(pr, vs.Values[i]), " ", "")
						}
					}
				}
				return true
			})
		}
		c.Check(strings.Contains(found, strings.ReplaceAll(want, " ", "")), "exec."+name+"|denotes-its-type", "exec/invocation.go", fmt.Sprintf("%s is %s, expected to be derived from %s", name, found, want))
	}
	// gob registration of invocationRef (it travels inside interface{} values)
	reg := false
	for _, f := range pr.FuncsIn("exec") {
		if f.Body == nil || !strings.HasPrefix(f.Name, "init") {
			continue
		}
		for _, k := range callsIn(f.Body) {
			if f.Pkg.CalleeName(k) == "encoding/gob.Register" && len(k.Args) == 1 && strings.Contains(nodeSrc(pr, k.Args[0]), "invocationRef{") {
				reg = true
			}
		}
	}
	c.Check(reg, "exec.init|gob-registers-invocationRef", "exec/bigmachine.go", "invocationRef is no longer registered with gob: a Result passed through an interface-typed parameter cannot be encoded")
	// driver: *Result -> invocationRef before the store; worker: invocationRef -> local Result before Invoke
	if add := c.MustFn("exec.(*bigmachineExecutor).addInvocation"); add != nil {
		ok := false
		ast.Inspect(add.Body, func(n ast.Node) bool {
			if a, isA := n.(*ast.AssignStmt); isA && len(a.Lhs) == 1 && strings.Contains(expr(a.Lhs[0]), ".Args[") {
				if strings.Contains(nodeSrc(pr, a.Rhs[0]), "invocationRef{") && strings.Contains(nodeSrc(pr, a.Rhs[0]), ".invIndex") {
					ok = true
				}
			}
			return true
		})
		c.Check(ok, add.QName()+"|Result-args-become-references", pr.Pos(add.Body.Pos()), "the driver no longer replaces *Result arguments by invocationRef{result.invIndex} before the invocation is stored for transport")
		dep := false
		ast.Inspect(add.Body, func(n ast.Node) bool {
			if a, isA := n.(*ast.AssignStmt); isA && len(a.Lhs) == 1 && strings.Contains(expr(a.Lhs[0]), "invocationDeps[") && expr(a.Rhs[0]) == "true" {
				dep = true
			}
			return true
		})
		c.Check(dep, add.QName()+"|records-invocation-dependency", pr.Pos(add.Body.Pos()), "the dependency on the referenced invocation is no longer recorded: the worker is not made to compile it first and cannot resolve the reference")
	}
	if w := c.MustFn("exec.(*worker).Compile"); w != nil {
		subst, before := false, false
		for _, l := range w.Lits {
			var substPos, invokePos token.Pos
			ast.Inspect(l.Body, func(n ast.Node) bool {
				if a, isA := n.(*ast.AssignStmt); isA && len(a.Lhs) == 2 && strings.Contains(expr(a.Lhs[0]), ".Args[") && strings.Contains(expr(a.Rhs[0]), ".slices[") {
					subst = true
					substPos = a.Pos()
				}
				if k, isC := n.(*ast.CallExpr); isC && l.Pkg.CalleeName(k) == ".Invocation.Invoke" {
					invokePos = k.Pos()
				}
				return true
			})
			if subst && invokePos > substPos {
				before = true
			}
		}
		c.Check(subst && before, w.QName()+"|references-resolved-before-invoke", pr.Pos(w.Body.Pos()), "the worker no longer replaces invocationRef arguments by its local Result of that invocation before invoking the Func")
	}
}

func nodeSrc(pr *Prog, n ast.Node) string {
	ps, pe := pr.Fset.Position(n.Pos()), pr.Fset.Position(n.End())
	src := pr.Src[ps.Filename]
	if ps.Offset >= 0 && pe.Offset <= len(src) && ps.Offset <= pe.Offset {
		return string(src[ps.Offset:pe.Offset])
	}
	return expr(n.(ast.Expr))
}

func c16r3(c *RC) {
	pr := c.P
	run := c.MustFn("exec.(*bigmachineExecutor).Run")
	if run == nil {
		return
	}
	rq := run.QName()
	fl := pr.Flow(run)
	var offer, check *ast.CallExpr
	for _, k := range callsIn(run.Body) {
		switch run.Pkg.CalleeName(k) {
		case qOffer:
			offer = k
		case "exec.(*bigmachineExecutor).checkInvocationReader":
			check = k
		}
	}
	if offer == nil || check == nil {
		c.Fail(rq+"|eager-serialisation-check", pr.Pos(run.Body.Pos()), "Run no longer checks the invocation's serialisation before requesting a machine")
		return
	}
	ol, _ := fl.LocOf(offer)
	// on every path to Offer: either `added` was false, or the check ran
	bad := false
	var trail []string
	addedKey := ""
	inspectNoLit(run.Body, func(n ast.Node) bool {
		if a, ok := n.(*ast.AssignStmt); ok && len(a.Rhs) == 1 && len(a.Lhs) == 2 {
			if k, ok := a.Rhs[0].(*ast.CallExpr); ok && run.Pkg.CalleeName(k) == "exec.(*bigmachineExecutor).addInvocation" {
				addedKey = fl.Key(a.Lhs[0])
			}
		}
		return true
	})
	fl.Walk(fl.Entry(), "", nil, Visitor{
		Node: func(n ast.Node, x string, s *Step) (string, bool) {
			if s.Block == ol.B && s.Idx == ol.I {
				if x != "checked" && s.Facts.Eq(addedKey) != "false" {
					bad = true
					trail = s.Trail()
				}
				return x, true
			}
			if nodeHas(n, func(m ast.Node) bool { return m == ast.Node(check) }) {
				return "checked", false
			}
			return x, false
		}})
	c.Check(!bad && addedKey != "", rq+"|check-before-Offer-on-first-sight", pr.Pos(offer.Pos()), "a machine is requested for an invocation seen for the first time without its serialisation having been checked: an unencodable argument surfaces only after machines were started, as compile retries", trail...)
	// its error makes the task ERR and returns
	cl, _ := fl.LocOf(check)
	okErr := true
	fl.Walk(Loc{cl.B, cl.I + 1}, "", nil, Visitor{
		Node: func(n ast.Node, x string, s *Step) (string, bool) {
			for _, k := range callsIn(n) {
				cn := run.Pkg.CalleeName(k)
				if cn == "exec.(*Task).Errorf" || cn == "exec.(*Task).Error" {
					return "err", false
				}
				if k == offer {
					// reaching Offer with a known non-nil error is the violation
					for _, f := range s.Facts {
						if strings.HasPrefix(f.key, "err@") && !f.eq && f.val == "nil" {
							okErr = false
						}
					}
					return x, true
				}
			}
			return x, false
		},
		Exit: func(kind ExitKind, ret *ast.ReturnStmt, x string, s *Step) {
			for _, f := range s.Facts {
				if strings.HasPrefix(f.key, "err@") && !f.eq && f.val == "nil" && x != "err" {
					okErr = false
				}
			}
		}})
	c.Check(okErr, rq+"|check-failure-is-task-error", pr.Pos(check.Pos()), "a failed serialisation check does not put the task into ERR before returning (or Run carries on): the evaluation hangs or retries")
	// the encoder's error is wrapped Fatal + Invalid
	if ir := c.MustFn("exec.(*bigmachineExecutor).invocationReader"); ir != nil {
		ok := false
		for _, l := range ir.Lits {
			for _, k := range callsIn(l.Body) {
				if l.Pkg.CalleeName(k) == "github.com/grailbio/base/errors.E" {
					t := nodeSrc(pr, k)
					if strings.Contains(t, "errors.Fatal") && strings.Contains(t, "errors.Invalid") && strings.Contains(t, "err") {
						ok = true
					}
				}
			}
		}
		c.Check(ok, ir.QName()+"|encode-error-is-fatal-invalid", pr.Pos(ir.Body.Pos()), "the gob-encoding error of an invocation is no longer wrapped as errors.Fatal + errors.Invalid: the compile loop treats it as a lost machine and retries forever")
	}
	// the compile loop's fatal arm matches Invalid && fatal and errors the task
	arm := false
	ast.Inspect(run.Body, func(n ast.Node) bool {
		cc, ok := n.(*ast.CaseClause)
		if !ok || len(cc.List) != 1 {
			return true
		}
		t := strings.ReplaceAll(expr(cc.List[0]), " ", "")
		if m := regexp.MustCompile(`errors\.Is\(errors\.Invalid,(\w+)\)`).FindStringSubmatch(t); m != nil && strings.Contains(t, "errors.Match(fatalErr,"+m[1]+")") {
			// falls through to, or itself contains, task.Errorf + return
			for _, st := range cc.Body {
				if b, ok := st.(*ast.BranchStmt); ok && b.Tok == token.FALLTHROUGH {
					arm = true
				}
				if es, ok := st.(*ast.ExprStmt); ok {
					if k, ok := es.X.(*ast.CallExpr); ok && strings.HasSuffix(run.Pkg.CalleeName(k), "(*Task).Errorf") {
						arm = true
					}
				}
			}
		}
		return true
	})
	c.Check(arm, rq+"|compile-loop-fatal-arm", pr.Pos(run.Body.Pos()), "the compile loop no longer treats a Fatal+Invalid compile error as a task error")
	// an error the worker returned from Worker.Compile is the invocation's
	// fault whatever its severity (argument decoding, invocation references,
	// invoking the Func): the arm testing errors.Remote errors the task with no
	// further condition
	remote := false
	ast.Inspect(run.Body, func(n ast.Node) bool {
		cc, ok := n.(*ast.CaseClause)
		if !ok || len(cc.List) != 1 {
			return true
		}
		k, ok := ast.Unparen(cc.List[0]).(*ast.CallExpr)
		if !ok || run.Pkg.CalleeName(k) != "github.com/grailbio/base/errors.Is" || len(k.Args) != 2 || !strings.HasSuffix(expr(k.Args[0]), "errors.Remote") {
			return true
		}
		// only the arm of the switch that follows b.compile
		inCompile := false
		for _, anc := range pathTo(run.Body, cc) {
			if sw, ok := anc.(*ast.SwitchStmt); ok {
				for _, p := range pathTo(run.Body, sw) {
					if f, ok := p.(*ast.ForStmt); ok {
						for _, kk := range callsIn(f.Body) {
							if run.Pkg.CalleeName(kk) == "exec.(*bigmachineExecutor).compile" {
								inCompile = true
							}
						}
					}
				}
			}
		}
		if !inCompile {
			return true
		}
		for _, st := range cc.Body {
			if es, ok := st.(*ast.ExprStmt); ok {
				if kk, ok := es.X.(*ast.CallExpr); ok && strings.HasSuffix(run.Pkg.CalleeName(kk), "(*Task).Errorf") {
					remote = true
				}
			}
		}
		return true
	})
	c.Check(remote, rq+"|worker-compile-errors-are-task-errors", pr.Pos(run.Body.Pos()),
		"the compile loop no longer errors the task for every error returned by the worker's Compile (an arm testing exactly errors.Is(errors.Remote, err)): an argument that cannot be decoded on the worker, or an invalid invocation reference, makes the task LOST and it is resubmitted until it has been lost five times, instead of failing at once with the cause")
	// checkInvocationReader drains the reader and returns its error
	if ck := c.MustFn("exec.(*bigmachineExecutor).checkInvocationReader"); ck != nil {
		drains := false
		for _, k := range callsIn(ck.Body) {
			if ck.Pkg.CalleeName(k) == "io.Copy" {
				drains = true
			}
		}
		c.Check(drains, ck.QName()+"|drains-encoding", pr.Pos(ck.Body.Pos()), "checkInvocationReader no longer reads the whole encoding (the encoder runs lazily, so errors would not surface)")
		errSites(c, []*Func{ck}, func(fn *Func, call *ast.CallExpr, cn string) bool {
			return cn == "io.Copy" || cn == "exec.(*bigmachineExecutor).invocationReader"
		}, ErrFlowOpts{}, nil)
	}
}

func c16r4(c *RC) {
	pr := c.P
	fn := c.MustFn("exec.startMachines")
	if fn == nil {
		return
	}
	var host *Func
	var store *ast.AssignStmt
	for _, l := range fn.Lits {
		ast.Inspect(l.Body, func(n ast.Node) bool {
			if a, ok := n.(*ast.AssignStmt); ok && len(a.Lhs) == 1 {
				if ix, ok := a.Lhs[0].(*ast.IndexExpr); ok {
					if tv := l.Pkg.Info.Types[ix.X]; tv.Type != nil && typeString(tv.Type) == "[]*exec.sliceMachine" {
						host, store = l, a
					}
				}
			}
			return true
		})
	}
	if host == nil {
		c.Fail(fn.QName()+"|adds-machine", pr.Pos(fn.Body.Pos()), "cannot find where a started machine is added to the result")
		return
	}
	fl := pr.Flow(host)
	loc, _ := fl.LocOf(store)
	hq := host.QName()
	// state: D after FuncLocationsDiff call; E after `len(diff) > 0` found false
	var missing []string
	var trail []string
	diffVar := ""
	inspectNoLit(host.Body, func(n ast.Node) bool {
		if a, ok := n.(*ast.AssignStmt); ok && len(a.Rhs) == 1 {
			if k, ok := a.Rhs[0].(*ast.CallExpr); ok && host.Pkg.CalleeName(k) == ".FuncLocationsDiff" {
				diffVar = expr(a.Lhs[0])
			}
		}
		return true
	})
	fl.Walk(fl.Entry(), "", nil, Visitor{
		Enter: func(from, to *cfg2Block, x string, s *Step) (string, bool) {
			be, ok := ast.Unparen(fl.edgeCond(from)).(*ast.BinaryExpr)
			if !ok {
				return x, false
			}
			t := strings.ReplaceAll(expr(be), " ", "")
			empty := (t == "len("+diffVar+")>0" || t == "len("+diffVar+")!=0") && from.Succs[1] == to || t == "len("+diffVar+")==0" && from.Succs[0] == to
			if empty && strings.Contains(x, "D") && !strings.Contains(x, "E") {
				return x + "E", false
			}
			return x, false
		},
		Node: func(n ast.Node, x string, s *Step) (string, bool) {
			if s.Block == loc.B && s.Idx == loc.I {
				if !strings.Contains(x, "D") {
					missing = append(missing, "the Func registry comparison did not run")
					trail = s.Trail()
				} else if !strings.Contains(x, "E") {
					missing = append(missing, "the registry difference was not found empty")
					trail = s.Trail()
				}
				if !strings.Contains(x, "F") {
					missing = append(missing, "the worker's Func locations were not fetched successfully")
					trail = s.Trail()
				}
				return x, true
			}
			for _, k := range callsIn(n) {
				cn := host.Pkg.CalleeName(k)
				if cn == ".FuncLocationsDiff" && !strings.Contains(x, "D") {
					x += "D"
				}
				if strings.HasSuffix(cn, "Machine).RetryCall") && len(k.Args) >= 2 && strings.Contains(nodeSrc(pr, k.Args[1]), "Worker.FuncLocations") && !strings.Contains(x, "F") {
					x += "F"
				}
			}
			return x, false
		}})
	c.Check(len(missing) == 0 && diffVar != "", hq+"|machine-added-only-after-registry-check", pr.Pos(store.Pos()),
		"a started machine is added to the cluster on a path where "+strings.Join(uniq(missing), " and ")+": a worker with a different Func registry would run the wrong function for an index", trail...)
	// the comparison is between the driver's and the worker's locations
	okArgs := false
	for _, k := range callsIn(host.Body) {
		if host.Pkg.CalleeName(k) == ".FuncLocationsDiff" && len(k.Args) == 2 {
			a0 := strings.ReplaceAll(expr(k.Args[0]), " ", "")
			if a0 == "bigslice.FuncLocations()" {
				okArgs = true
			}
		}
	}
	c.Check(okArgs, hq+"|compares-driver-with-worker", pr.Pos(host.Body.Pos()), "the registry comparison no longer compares the driver's FuncLocations() with the worker's")
	// a non-empty diff is fatal (panic): the path does not continue
	fatal := false
	ast.Inspect(host.Body, func(n ast.Node) bool {
		if ifs, ok := n.(*ast.IfStmt); ok && strings.Contains(expr(ifs.Cond), "len("+diffVar+")") {
			for _, k := range callsIn(ifs.Body) {
				if !host.Pkg.mayReturn(k) {
					fatal = true
				}
			}
			for _, st := range ifs.Body.List {
				if _, ok := st.(*ast.ReturnStmt); ok {
					fatal = true
				}
			}
		}
		return true
	})
	c.Check(fatal, hq+"|mismatch-stops-the-machine", pr.Pos(host.Body.Pos()), "a registry mismatch no longer aborts (panic or return) before the machine is used")
	// worker side: FuncLocations reports the worker's own registry
	if w := c.MustFn("exec.(*worker).FuncLocations"); w != nil {
		ok := false
		ast.Inspect(w.Body, func(n ast.Node) bool {
			if a, isA := n.(*ast.AssignStmt); isA && len(a.Lhs) == 1 && strings.HasPrefix(expr(a.Lhs[0]), "*") && strings.ReplaceAll(expr(a.Rhs[0]), " ", "") == "bigslice.FuncLocations()" {
				ok = true
			}
			return true
		})
		c.Check(ok, w.QName()+"|reports-own-registry", pr.Pos(w.Body.Pos()), "the worker no longer reports its own Func registry locations")
	}
	// FuncLocations lists one entry per registered func in index order
	if f := c.MustFn(".FuncLocations"); f != nil {
		ok := false
		ast.Inspect(f.Body, func(n ast.Node) bool {
			if r, isR := n.(*ast.RangeStmt); isR && expr(r.X) == "funcs" {
				for _, st := range r.Body.List {
					if a, isA := st.(*ast.AssignStmt); isA && len(a.Lhs) == 1 {
						if ix, isIx := a.Lhs[0].(*ast.IndexExpr); isIx && expr(ix.Index) == expr(r.Key) {
							ok = true
						}
					}
				}
			}
			return true
		})
		c.Check(ok, f.QName()+"|one-entry-per-func-in-index-order", pr.Pos(f.Body.Pos()), "FuncLocations no longer lists the registered Funcs in index order")
	}
}
