package main

// C18-R7: typecheck.CanApply looks at every column.
//
// CanApply is the gate through which Map, Filter and Flatmap decide whether a
// function fits a slice.  It walks the slice's columns in consecutive index
// loops (fixed parameters, then the columns bound to a variadic parameter).
// The rule requires the loops of each branch to tile the whole index range
// [0, number of columns): the first starts at 0, each next one starts where
// the previous ended (compared as linear forms, so spelling does not matter),
// the last ends at the column count (directly, or through the arity equality
// tested before it), and each loop's body rejects on a non-assignable column.

import (
	"fmt"
	"go/ast"
	"go/parser"
	"go/token"
)

func c18r7(c *RC) {
	pr := c.P
	fn := c.MustFn("typecheck.CanApply")
	if fn == nil {
		return
	}
	fq := fn.QName()
	le := newLinEnv(pr, fn)
	// parameter names: fn (slicefunc.Func), arg (slicetype.Type)
	var fnP, argP string
	for _, fld := range fn.Type.Params.List {
		for _, nm := range fld.Names {
			switch typeString(fn.Pkg.Info.Defs[nm].Type()) {
			case "slicefunc.Func":
				fnP = nm.Name
			case "slicetype.Type":
				argP = nm.Name
			}
		}
	}
	if fnP == "" || argP == "" {
		c.Undecide("%s: parameters not identified", fq)
		return
	}
	ncols := le.norm(parseExprOrNil(argP+".NumOut()"), 0)
	nparams := le.norm(parseExprOrNil(fnP+".In.NumOut()"), 0)
	type loop struct {
		f          *ast.ForStmt
		init, end  lin
		rejects    bool
		indexesArg bool
	}
	loopsIn := func(list []ast.Stmt) []loop {
		var out []loop
		for _, st := range list {
			f, ok := st.(*ast.ForStmt)
			if !ok || f.Init == nil || f.Cond == nil {
				continue
			}
			in, ok := f.Init.(*ast.AssignStmt)
			be, ok2 := ast.Unparen(f.Cond).(*ast.BinaryExpr)
			if !ok || !ok2 || len(in.Lhs) != 1 || be.Op != token.LSS || expr(be.X) != expr(in.Lhs[0]) {
				continue
			}
			l := loop{f: f, init: le.norm(in.Rhs[0], 0), end: le.norm(be.Y, 0)}
			iv := expr(in.Lhs[0])
			ast.Inspect(f.Body, func(n ast.Node) bool {
				if ifs, ok := n.(*ast.IfStmt); ok {
					asg := false
					ast.Inspect(ifs.Cond, func(m ast.Node) bool {
						if k, ok := m.(*ast.CallExpr); ok {
							if s, ok := k.Fun.(*ast.SelectorExpr); ok && s.Sel.Name == "AssignableTo" {
								if rk, ok := s.X.(*ast.CallExpr); ok && len(rk.Args) == 1 && expr(rk.Args[0]) == iv && expr(rk.Fun) == argP+".Out" {
									asg = true
								}
							}
						}
						return true
					})
					if u, ok := ast.Unparen(ifs.Cond).(*ast.UnaryExpr); ok && u.Op == token.NOT && asg {
						for _, s := range ifs.Body.List {
							if r, ok := s.(*ast.ReturnStmt); ok && len(r.Results) == 1 && expr(r.Results[0]) == "false" {
								l.rejects = true
							}
						}
					}
				}
				return true
			})
			out = append(out, l)
		}
		return out
	}
	same := func(a, b lin) bool { return a.String() == b.String() }
	// variadic branch
	var varIf *ast.IfStmt
	for _, st := range fn.Body.List {
		if ifs, ok := st.(*ast.IfStmt); ok && expr(ifs.Cond) == fnP+".IsVariadic" {
			varIf = ifs
		}
	}
	check := func(name string, ls []loop, endWant lin, endAlt *lin) {
		ok := len(ls) > 0
		why := ""
		if !ok {
			why = "no column loop"
		}
		for i, l := range ls {
			if !l.rejects {
				ok, why = false, "a loop does not reject a non-assignable column"
			}
			if i == 0 && !same(l.init, lin{}) && l.init.String() != "" {
				ok, why = false, "the first loop starts at "+l.init.String()+", not at column 0"
			}
			if i > 0 && !same(l.init, ls[i-1].end) {
				ok, why = false, "a loop starts at "+l.init.String()+" but the previous one ended at "+ls[i-1].end.String()+": the columns in between are never compared with the parameter types"
			}
		}
		if ok {
			last := ls[len(ls)-1].end
			if !same(last, endWant) && !(endAlt != nil && same(last, *endAlt)) {
				ok, why = false, "the last loop ends at "+last.String()+", not at the number of columns"
			}
		}
		c.Check(ok, fq+"|"+name+"|loops-tile-all-columns", pr.Pos(fn.Body.Pos()),
			"CanApply does not look at every column ("+why+"): Map, Filter and Flatmap accept a function whose parameter type does not fit that column, and the mismatch surfaces as a reflect panic inside a task instead of a typecheck error at the call site")
	}
	if varIf == nil {
		c.Fail(fq+"|variadic|loops-tile-all-columns", pr.Pos(fn.Body.Pos()), "CanApply has no branch for variadic functions")
	} else {
		check("variadic", loopsIn(varIf.Body.List), ncols, nil)
	}
	// fixed arity: an equality test of the two counts precedes the loop
	arity := false
	for _, st := range fn.Body.List {
		if ifs, ok := st.(*ast.IfStmt); ok {
			if be, ok := ast.Unparen(ifs.Cond).(*ast.BinaryExpr); ok && be.Op == token.NEQ {
				a, b := le.norm(be.X, 0), le.norm(be.Y, 0)
				if (same(a, ncols) && same(b, nparams)) || (same(a, nparams) && same(b, ncols)) {
					for _, s := range ifs.Body.List {
						if r, ok := s.(*ast.ReturnStmt); ok && len(r.Results) == 1 && expr(r.Results[0]) == "false" {
							arity = true
						}
					}
				}
			}
		}
	}
	c.Check(arity, fq+"|fixed|arity-equality", pr.Pos(fn.Body.Pos()), "CanApply no longer rejects a non-variadic function whose parameter count differs from the column count")
	check("fixed", loopsIn(fn.Body.List), ncols, &nparams)
}

// parseExprOrNil parses a small expression used as a template.
func parseExprOrNil(s string) ast.Expr {
	e, err := parser.ParseExpr(s)
	if err != nil {
		return nil
	}
	return e
}

// apiDepth returns how many frames separate fn from user code: 1 for an
// exported function or method of the root package (its caller is the user),
// d+1 for an unexported function all of whose in-package callers are at depth
// d, and for a function literal bound to a local variable that is called in
// its parent.  0 when that is not determined (no callers, or callers at
// different depths).
func apiDepth(pr *Prog, fn *Func, seen map[*Func]bool) int {
	if fn == nil || seen[fn] {
		return 0
	}
	seen[fn] = true
	defer delete(seen, fn)
	if fn.Lit != nil {
		p := fn.Parent
		if p == nil || p.Body == nil {
			return 0
		}
		called := false
		ast.Inspect(p.Body, func(nd ast.Node) bool {
			if a, ok := nd.(*ast.AssignStmt); ok && len(a.Rhs) == 1 && a.Rhs[0] == ast.Expr(fn.Lit) {
				name := expr(a.Lhs[0])
				for _, k := range directCalls(p.Body) {
					if expr(k.Fun) == name {
						called = true
					}
				}
			}
			return true
		})
		if !called {
			return 0
		}
		if d := apiDepth(pr, p, seen); d > 0 {
			return d + 1
		}
		return 0
	}
	if fn.Decl == nil {
		return 0
	}
	if fn.Decl.Name.IsExported() {
		return 1
	}
	depth := 0
	q := fn.QName()
	for _, g := range pr.FuncsIn(fn.Pkg.Rel) {
		if g.Body == nil || g == fn {
			continue
		}
		calls := false
		for _, k := range callsIn(g.Body) {
			if g.Pkg.CalleeName(k) == q {
				calls = true
			}
		}
		if !calls {
			continue
		}
		d := apiDepth(pr, g, seen)
		if d == 0 {
			return 0
		}
		if depth != 0 && depth != d+1 {
			return 0
		}
		depth = d + 1
	}
	return depth
}

// c18depths: every typecheck panic of the root package outside the
// constructors themselves (helpers, methods) passes the call depth that its
// position below the exported API requires.
func c18depths(c *RC, done map[*Func]bool) int {
	pr := c.P
	n := 0
	for _, fn := range pr.FuncsIn("") {
		if fn.Body == nil || done[fn] {
			continue
		}
		var calls []*ast.CallExpr
		for _, k := range callsIn(fn.Body) {
			if isTypecheckPanic(fn.Pkg, k) && len(k.Args) > 0 {
				calls = append(calls, k)
			}
		}
		if len(calls) == 0 {
			continue
		}
		want := apiDepth(pr, fn, map[*Func]bool{})
		for i, k := range calls {
			n++
			key := fmt.Sprintf("%s|helper-panic-depth#%d", fn.QName(), i+1)
			if want == 0 {
				c.Undecide("%s: typecheck panic in a function whose distance from the exported API is not determined (no in-package caller, or callers at different depths)", fn.QName())
				continue
			}
			v, isC := constInt(fn.Pkg, k.Args[0])
			c.Check(isC && v == int64(want), key, pr.Pos(k.Pos()),
				fmt.Sprintf("typecheck panic in %s passes call depth %s, but %s is %d frame(s) below the exported API: the error is attributed to library code (or to the caller's caller) instead of the user's call", fn.QName(), expr(k.Args[0]), fn.QName(), want))
		}
	}
	return n
}
