package main

// Thorough tier: checker self-validation on in-memory variants of /repo
// (DESIGN.md §3), and a second run of the rules under GOARCH=386.

import (
	"encoding/json"
	"fmt"
	"go/ast"
	"go/token"
	"go/types"
	"os"
	"path/filepath"
	"sort"
	"strings"
)

// Variant is a one-edit in-memory variant of a repository file.
type Variant struct {
	Name   string `json:"name"`
	Kind   string `json:"kind"` // "kill" or "neutral"
	File   string `json:"file"` // relative to the repository root
	Edits  []Edit `json:"edits"`
	Expect string `json:"expect_rule,omitempty"` // rule expected to report (kill)
	Note   string `json:"note,omitempty"`
}

type Edit struct {
	Old string `json:"old"`
	New string `json:"new"`
	// Nth selects the n-th occurrence (1-based); 0 = must be unique.
	Nth int `json:"nth,omitempty"`
}

type VariantOutcome struct {
	Name    string   `json:"name"`
	Kind    string   `json:"kind"`
	Outcome string   `json:"outcome"` // killed | survived | silent | flagged | stale | does-not-typecheck
	Rules   []string `json:"reported_rules,omitempty"`
	OK      bool     `json:"ok"`
}

type SelfTest struct {
	Variants int              `json:"variants"`
	Killed   int              `json:"killed"`
	Silent   int              `json:"neutral_silent"`
	Stale    int              `json:"stale"`
	Failed   int              `json:"failed"`
	Outcomes []VariantOutcome `json:"outcomes"`
}

func loadVariants(dir, id string) ([]Variant, error) {
	files, _ := filepath.Glob(filepath.Join(dir, id, "*.json"))
	sort.Strings(files)
	var out []Variant
	for _, f := range files {
		b, err := os.ReadFile(f)
		if err != nil {
			return nil, err
		}
		var vs []Variant
		if err := json.Unmarshal(b, &vs); err != nil {
			var v Variant
			if err2 := json.Unmarshal(b, &v); err2 != nil {
				return nil, fmt.Errorf("%s: %v", f, err)
			}
			vs = []Variant{v}
		}
		out = append(out, vs...)
	}
	return out, nil
}

func applyEdits(src string, edits []Edit) (string, bool) {
	for _, e := range edits {
		n := strings.Count(src, e.Old)
		if n == 0 {
			return "", false
		}
		if e.Nth == 0 {
			if n != 1 {
				return "", false
			}
			src = strings.Replace(src, e.Old, e.New, 1)
			continue
		}
		if e.Nth > n {
			return "", false
		}
		idx := -1
		from := 0
		for k := 0; k < e.Nth; k++ {
			j := strings.Index(src[from:], e.Old)
			idx = from + j
			from = idx + len(e.Old)
		}
		src = src[:idx] + e.New + src[idx+len(e.Old):]
	}
	return src, true
}

// findingSet summarises the (rule,key) pairs a property reports on a tree.
func findingSet(res *PropResult) map[string]bool {
	m := map[string]bool{}
	for _, f := range res.Violations {
		m[f.Rule+"|"+f.Key] = true
	}
	for _, u := range res.Undecided {
		m["undecided|"+u] = true
	}
	return m
}

func runSelfTest(deps *Deps, base *Prog, p *Property, kf *KnownFile, dir string, seed int, verbose bool) *SelfTest {
	st := &SelfTest{}
	vs, err := loadVariants(dir, p.ID)
	if err != nil {
		st.Failed++
		st.Outcomes = append(st.Outcomes, VariantOutcome{Name: "load: " + err.Error(), Outcome: "error"})
		return st
	}
	baseRes := runProperty(base, p, kf)
	baseSet := findingSet(baseRes)
	for _, v := range vs {
		st.Variants++
		o := VariantOutcome{Name: v.Name, Kind: v.Kind}
		abs := filepath.Join(deps.Root, v.File)
		src, ok := base.Src[abs]
		if !ok {
			o.Outcome = "stale"
			st.Stale++
			st.Outcomes = append(st.Outcomes, o)
			continue
		}
		ns, ok := applyEdits(string(src), v.Edits)
		if !ok {
			fmt.Printf("  selftest %-8s %-60s stale (edit does not apply to the current tree)\n", v.Kind, v.Name)
			o.Outcome = "stale"
			st.Stale++
			st.Outcomes = append(st.Outcomes, o)
			continue
		}
		flowCache = map[*Func]*Flow{}
		vp, err := deps.check(map[string][]byte{abs: []byte(ns)})
		if err != nil || len(vp.extraTypeErrs()) > 0 {
			o.Outcome = "does-not-typecheck"
			if err == nil {
				o.Rules = []string{vp.extraTypeErrs()[0].Msg}
			}
			fmt.Printf("  selftest %-8s %-60s does not type-check %v %v\n", v.Kind, v.Name, err, o.Rules)
			st.Failed++
			st.Outcomes = append(st.Outcomes, o)
			continue
		}
		res := runProperty(vp, p, kf)
		set := findingSet(res)
		var newRules []string
		seen := map[string]bool{}
		for k := range set {
			if !baseSet[k] {
				r := k[:strings.Index(k, "|")]
				if !seen[r] {
					seen[r] = true
					newRules = append(newRules, r)
				}
			}
		}
		sort.Strings(newRules)
		o.Rules = newRules
		switch v.Kind {
		case "kill":
			hit := len(newRules) > 0
			if v.Expect != "" {
				hit = false
				for _, r := range newRules {
					if strings.HasPrefix(r, v.Expect) || strings.HasPrefix(r, "undecided") {
						hit = true
					}
				}
				// an undecided report names the rule in its text
				for k := range set {
					if !baseSet[k] && strings.HasPrefix(k, "undecided|"+v.Expect) {
						hit = true
					}
				}
			}
			if hit {
				o.Outcome, o.OK = "killed", true
				st.Killed++
			} else {
				o.Outcome = "survived"
				st.Failed++
			}
		default:
			if len(newRules) == 0 {
				o.Outcome, o.OK = "silent", true
				st.Silent++
			} else {
				o.Outcome = "flagged"
				st.Failed++
			}
		}
		if verbose || !o.OK {
			fmt.Printf("  selftest %-8s %-60s %s %v\n", v.Kind, v.Name, o.Outcome, o.Rules)
		}
		st.Outcomes = append(st.Outcomes, o)
	}
	flowCache = map[*Func]*Flow{}
	fmt.Printf("  selftest: %d variants, %d killed, %d neutral silent, %d stale, %d failed\n", st.Variants, st.Killed, st.Silent, st.Stale, st.Failed)
	return st
}

type ArchRun struct {
	GoArch     string   `json:"goarch"`
	Violations int      `json:"violations"`
	Undecided  int      `json:"undecided"`
	Known      int      `json:"known"`
	Obls       int      `json:"obligations"`
	Detail     []string `json:"detail,omitempty"`
}

var archDeps *Deps
var archProg *Prog

func runOtherArch(root string, p *Property, kf *KnownFile) *ArchRun {
	if archDeps == nil {
		d, err := loadDeps(root, "386")
		if err != nil {
			return &ArchRun{GoArch: "386", Detail: []string{"load failed: " + err.Error()}}
		}
		archDeps = d
		flowCache = map[*Func]*Flow{}
		pr, err := d.check(nil)
		if err != nil {
			return &ArchRun{GoArch: "386", Detail: []string{"check failed: " + err.Error()}}
		}
		archProg = pr
	}
	flowCache = map[*Func]*Flow{}
	res := runProperty(archProg, p, kf)
	flowCache = map[*Func]*Flow{}
	a := &ArchRun{GoArch: "386", Violations: len(res.Violations), Undecided: len(res.Undecided), Known: len(res.Known)}
	for _, rc := range res.Rules {
		a.Obls += len(rc.Obls)
	}
	for _, f := range res.Violations {
		a.Detail = append(a.Detail, f.Rule+" "+f.Key)
	}
	a.Detail = append(a.Detail, res.Undecided...)
	return a
}

// ---------------------------------------------------------------------------
// Rename sweep (development aid and part of the thorough tier's neutral
// variants): for every function of the packages a property is anchored in,
// rename the receiver, parameters, results and locals of that function and
// check that the property's report does not change.  A rule that fires on such
// a variant keys on spelling rather than on meaning.

type RenameOutcome struct {
	Func    string   `json:"func"`
	Flagged []string `json:"flagged_rules"`
}

var sweepPkgs = []string{"exec", "", "frame", "sliceio", "sortio", "metrics", "internal/slicecache", "internal/zero"}

func renameVariant(pr *Prog, fn *Func) ([]byte, string, bool) {
	if fn.Decl == nil || fn.Body == nil {
		return nil, "", false
	}
	pk := fn.Pkg
	file := pr.Fset.Position(fn.Decl.Pos()).Filename
	src := pr.Src[file]
	type edit struct {
		off, n int
		name   string
	}
	var edits []edit
	inDecl := func(p token.Pos) bool { return fn.Decl.Pos() <= p && p < fn.Decl.End() }
	renamed := map[types.Object]string{}
	// objects with an explicit defining identifier (not the implicit per-clause
	// objects of a type switch)
	explicit := map[types.Object]bool{}
	ast.Inspect(fn.Decl, func(n ast.Node) bool {
		if id, ok := n.(*ast.Ident); ok {
			if d := pk.Info.Defs[id]; d != nil {
				explicit[d] = true
			}
		}
		return true
	})
	nameOf := func(o types.Object) (string, bool) {
		v, ok := o.(*types.Var)
		if !ok || v.IsField() || !inDecl(v.Pos()) || v.Name() == "_" || !explicit[o] {
			return "", false
		}
		if n, ok := renamed[o]; ok {
			return n, true
		}
		n := v.Name() + "R"
		renamed[o] = n
		return n, true
	}
	ast.Inspect(fn.Decl, func(n ast.Node) bool {
		id, ok := n.(*ast.Ident)
		if !ok {
			return true
		}
		var o types.Object
		if d, ok := pk.Info.Defs[id]; ok && d != nil {
			o = d
		} else if u, ok := pk.Info.Uses[id]; ok {
			o = u
		}
		if o == nil {
			return true
		}
		if nn, ok := nameOf(o); ok {
			edits = append(edits, edit{pr.Fset.Position(id.Pos()).Offset, len(id.Name), nn})
		}
		return true
	})
	if len(edits) == 0 {
		return nil, "", false
	}
	sort.Slice(edits, func(i, j int) bool { return edits[i].off > edits[j].off })
	out := append([]byte{}, src...)
	last := -1
	for _, e := range edits {
		if e.off == last {
			continue
		}
		last = e.off
		out = append(out[:e.off], append([]byte(e.name), out[e.off+e.n:]...)...)
	}
	return out, file, true
}

func runRenameSweep(deps *Deps, base *Prog, p *Property, kf *KnownFile, verbose bool) []RenameOutcome {
	baseRes := runProperty(base, p, kf)
	baseSet := findingSet(baseRes)
	// identifiers renamed change obligation keys that embed expressions; compare by rule only
	baseRules := map[string]int{}
	for k := range baseSet {
		baseRules[k[:strings.Index(k, "|")]]++
	}
	var out []RenameOutcome
	n := 0
	for _, rel := range sweepPkgs {
		for _, fn := range base.FuncsIn(rel) {
			if fn.Decl == nil {
				continue
			}
			if only := os.Getenv("BSVET_SWEEP_ONLY"); only != "" {
				hit := false
				for _, o := range strings.Split(only, ",") {
					if o != "" && strings.Contains(fn.QName(), o) {
						hit = true
					}
				}
				if !hit {
					continue
				}
			}
			var src []byte
			var file string
			var ok bool
			if os.Getenv("BSVET_SWEEP_KIND") == "mirror" {
				src, file, ok = mirrorVariant(base, fn)
			} else {
				src, file, ok = renameVariant(base, fn)
			}
			if !ok {
				continue
			}
			n++
			flowCache = map[*Func]*Flow{}
			vp, err := deps.check(map[string][]byte{file: src})
			if err != nil || len(vp.extraTypeErrs()) > 0 {
				msg := "does not type-check"
				if err == nil {
					msg += ": " + vp.extraTypeErrs()[0].Msg
				}
				out = append(out, RenameOutcome{Func: fn.QName(), Flagged: []string{msg}})
				continue
			}
			res := runProperty(vp, p, kf)
			rules := map[string]int{}
			for k := range findingSet(res) {
				rules[k[:strings.Index(k, "|")]]++
			}
			var flagged []string
			for r, c := range rules {
				if c > baseRules[r] {
					flagged = append(flagged, r)
				}
			}
			// known findings may lose their match when keys embed renamed expressions
			if len(res.Known) < len(baseRes.Known) && len(flagged) == 0 {
				flagged = append(flagged, "known-finding-key-changed")
			}
			sort.Strings(flagged)
			if len(flagged) > 0 {
				out = append(out, RenameOutcome{Func: fn.QName(), Flagged: flagged})
				if verbose {
					for _, f := range res.Violations {
						fmt.Printf("    rename %s -> %s %s: %s\n", fn.QName(), f.Rule, f.Key, f.Msg)
					}
					for _, u := range res.Undecided {
						fmt.Printf("    rename %s -> undecided %s\n", fn.QName(), u)
					}
				}
			}
		}
	}
	flowCache = map[*Func]*Flow{}
	fmt.Printf("  rename sweep: %d functions renamed one at a time, %d changed the report\n", n, len(out))
	for _, o := range out {
		fmt.Printf("    %-55s %v\n", o.Func, o.Flagged)
	}
	return out
}

// mirrorVariant re-spells fn without changing its meaning: every comparison
// `a op b` whose operands are free of calls is written `b op' a` (mirrored
// operator), and every integer `a + b` with call-free operands `b + a`.
// Used with BSVET_SWEEP_KIND=mirror by the rename sweep driver: a rule whose
// report changes under this rewriting matches text, not meaning.
func mirrorVariant(pr *Prog, fn *Func) ([]byte, string, bool) {
	if fn.Decl == nil || fn.Body == nil {
		return nil, "", false
	}
	pk := fn.Pkg
	file := pr.Fset.Position(fn.Decl.Pos()).Filename
	src := pr.Src[file]
	off := func(p token.Pos) int { return pr.Fset.Position(p).Offset }
	callFree := func(e ast.Expr) bool {
		ok := true
		ast.Inspect(e, func(n ast.Node) bool {
			switch n.(type) {
			case *ast.CallExpr, *ast.FuncLit, *ast.UnaryExpr:
				if u, isU := n.(*ast.UnaryExpr); isU && u.Op != token.ARROW {
					return true
				}
				ok = false
			}
			return true
		})
		return ok
	}
	mirror := map[token.Token]string{token.EQL: "==", token.NEQ: "!=", token.LSS: ">", token.GTR: "<", token.LEQ: ">=", token.GEQ: "<="}
	// rewrite innermost-first by rendering recursively
	var render func(e ast.Expr) string
	render = func(e ast.Expr) string {
		switch x := e.(type) {
		case *ast.ParenExpr:
			return "(" + render(x.X) + ")"
		case *ast.BinaryExpr:
			l, r := render(x.X), render(x.Y)
			if m, ok := mirror[x.Op]; ok && callFree(x.X) && callFree(x.Y) {
				return r + " " + m + " " + l
			}
			if x.Op == token.ADD && callFree(x.X) && callFree(x.Y) {
				if tv := pk.Info.Types[x]; tv.Type != nil {
					if b, ok := tv.Type.Underlying().(*types.Basic); ok && b.Info()&types.IsInteger != 0 && tv.Value == nil {
						// keep precedence: operands of + that are themselves lower precedence cannot occur
						return r + " + " + l
					}
				}
			}
			return l + " " + x.Op.String() + " " + r
		case *ast.UnaryExpr:
			if x.Op == token.NOT {
				return "!" + render(x.X)
			}
		}
		return string(src[off(e.Pos()):off(e.End())])
	}
	type edit struct {
		s, e int
		text string
	}
	var edits []edit
	var visit func(n ast.Node) bool
	visit = func(n ast.Node) bool {
		switch x := n.(type) {
		case *ast.FuncLit:
			return true
		case *ast.BinaryExpr:
			switch x.Op {
			case token.EQL, token.NEQ, token.LSS, token.GTR, token.LEQ, token.GEQ, token.ADD, token.LAND, token.LOR:
				t := render(x)
				if t != string(src[off(x.Pos()):off(x.End())]) {
					edits = append(edits, edit{off(x.Pos()), off(x.End()), t})
				}
				return false
			}
		}
		return true
	}
	ast.Inspect(fn.Body, visit)
	if len(edits) == 0 {
		return nil, "", false
	}
	sort.Slice(edits, func(i, j int) bool { return edits[i].s > edits[j].s })
	out := append([]byte{}, src...)
	for _, e := range edits {
		out = append(append(append([]byte{}, out[:e.s]...), e.text...), out[e.e:]...)
	}
	return out, file, true
}
