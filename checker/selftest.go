package main

// Thorough tier: checker self-validation on in-memory variants of /repo
// (DESIGN.md §3), and a second run of the rules under GOARCH=386.

import (
	"encoding/json"
	"fmt"
	"os"
	"path/filepath"
	"sort"
	"strings"
)

// Variant is a one-edit in-memory variant of a repository file.
type Variant struct {
	Name   string `json:"name"`
	Kind   string `json:"kind"` // "kill" or "neutral"
	File   string `json:"file"` // relative to the repository root
	Edits  []Edit `json:"edits"`
	Expect string `json:"expect_rule,omitempty"` // rule expected to report (kill)
	Note   string `json:"note,omitempty"`
}

type Edit struct {
	Old string `json:"old"`
	New string `json:"new"`
	// Nth selects the n-th occurrence (1-based); 0 = must be unique.
	Nth int `json:"nth,omitempty"`
}

type VariantOutcome struct {
	Name    string   `json:"name"`
	Kind    string   `json:"kind"`
	Outcome string   `json:"outcome"` // killed | survived | silent | flagged | stale | does-not-typecheck
	Rules   []string `json:"reported_rules,omitempty"`
	OK      bool     `json:"ok"`
}

type SelfTest struct {
	Variants int              `json:"variants"`
	Killed   int              `json:"killed"`
	Silent   int              `json:"neutral_silent"`
	Stale    int              `json:"stale"`
	Failed   int              `json:"failed"`
	Outcomes []VariantOutcome `json:"outcomes"`
}

func loadVariants(dir, id string) ([]Variant, error) {
	files, _ := filepath.Glob(filepath.Join(dir, id, "*.json"))
	sort.Strings(files)
	var out []Variant
	for _, f := range files {
		b, err := os.ReadFile(f)
		if err != nil {
			return nil, err
		}
		var vs []Variant
		if err := json.Unmarshal(b, &vs); err != nil {
			var v Variant
			if err2 := json.Unmarshal(b, &v); err2 != nil {
				return nil, fmt.Errorf("%s: %v", f, err)
			}
			vs = []Variant{v}
		}
		out = append(out, vs...)
	}
	return out, nil
}

func applyEdits(src string, edits []Edit) (string, bool) {
	for _, e := range edits {
		n := strings.Count(src, e.Old)
		if n == 0 {
			return "", false
		}
		if e.Nth == 0 {
			if n != 1 {
				return "", false
			}
			src = strings.Replace(src, e.Old, e.New, 1)
			continue
		}
		if e.Nth > n {
			return "", false
		}
		idx := -1
		from := 0
		for k := 0; k < e.Nth; k++ {
			j := strings.Index(src[from:], e.Old)
			idx = from + j
			from = idx + len(e.Old)
		}
		src = src[:idx] + e.New + src[idx+len(e.Old):]
	}
	return src, true
}

// findingSet summarises the (rule,key) pairs a property reports on a tree.
func findingSet(res *PropResult) map[string]bool {
	m := map[string]bool{}
	for _, f := range res.Violations {
		m[f.Rule+"|"+f.Key] = true
	}
	for _, u := range res.Undecided {
		m["undecided|"+u] = true
	}
	return m
}

func runSelfTest(deps *Deps, base *Prog, p *Property, kf *KnownFile, dir string, seed int, verbose bool) *SelfTest {
	st := &SelfTest{}
	vs, err := loadVariants(dir, p.ID)
	if err != nil {
		st.Failed++
		st.Outcomes = append(st.Outcomes, VariantOutcome{Name: "load: " + err.Error(), Outcome: "error"})
		return st
	}
	baseRes := runProperty(base, p, kf)
	baseSet := findingSet(baseRes)
	for _, v := range vs {
		st.Variants++
		o := VariantOutcome{Name: v.Name, Kind: v.Kind}
		abs := filepath.Join(deps.Root, v.File)
		src, ok := base.Src[abs]
		if !ok {
			o.Outcome = "stale"
			st.Stale++
			st.Outcomes = append(st.Outcomes, o)
			continue
		}
		ns, ok := applyEdits(string(src), v.Edits)
		if !ok {
			fmt.Printf("  selftest %-8s %-60s stale (edit does not apply to the current tree)\n", v.Kind, v.Name)
			o.Outcome = "stale"
			st.Stale++
			st.Outcomes = append(st.Outcomes, o)
			continue
		}
		flowCache = map[*Func]*Flow{}
		vp, err := deps.check(map[string][]byte{abs: []byte(ns)})
		if err != nil || len(vp.extraTypeErrs()) > 0 {
			o.Outcome = "does-not-typecheck"
			if err == nil {
				o.Rules = []string{vp.extraTypeErrs()[0].Msg}
			}
			fmt.Printf("  selftest %-8s %-60s does not type-check %v %v\n", v.Kind, v.Name, err, o.Rules)
			st.Failed++
			st.Outcomes = append(st.Outcomes, o)
			continue
		}
		res := runProperty(vp, p, kf)
		set := findingSet(res)
		var newRules []string
		seen := map[string]bool{}
		for k := range set {
			if !baseSet[k] {
				r := k[:strings.Index(k, "|")]
				if !seen[r] {
					seen[r] = true
					newRules = append(newRules, r)
				}
			}
		}
		sort.Strings(newRules)
		o.Rules = newRules
		switch v.Kind {
		case "kill":
			hit := len(newRules) > 0
			if v.Expect != "" {
				hit = false
				for _, r := range newRules {
					if strings.HasPrefix(r, v.Expect) || strings.HasPrefix(r, "undecided") {
						hit = true
					}
				}
				// an undecided report names the rule in its text
				for k := range set {
					if !baseSet[k] && strings.HasPrefix(k, "undecided|"+v.Expect) {
						hit = true
					}
				}
			}
			if hit {
				o.Outcome, o.OK = "killed", true
				st.Killed++
			} else {
				o.Outcome = "survived"
				st.Failed++
			}
		default:
			if len(newRules) == 0 {
				o.Outcome, o.OK = "silent", true
				st.Silent++
			} else {
				o.Outcome = "flagged"
				st.Failed++
			}
		}
		if verbose || !o.OK {
			fmt.Printf("  selftest %-8s %-60s %s %v\n", v.Kind, v.Name, o.Outcome, o.Rules)
		}
		st.Outcomes = append(st.Outcomes, o)
	}
	flowCache = map[*Func]*Flow{}
	fmt.Printf("  selftest: %d variants, %d killed, %d neutral silent, %d stale, %d failed\n", st.Variants, st.Killed, st.Silent, st.Stale, st.Failed)
	return st
}

type ArchRun struct {
	GoArch     string   `json:"goarch"`
	Violations int      `json:"violations"`
	Undecided  int      `json:"undecided"`
	Known      int      `json:"known"`
	Obls       int      `json:"obligations"`
	Detail     []string `json:"detail,omitempty"`
}

var archDeps *Deps
var archProg *Prog

func runOtherArch(root string, p *Property, kf *KnownFile) *ArchRun {
	if archDeps == nil {
		d, err := loadDeps(root, "386")
		if err != nil {
			return &ArchRun{GoArch: "386", Detail: []string{"load failed: " + err.Error()}}
		}
		archDeps = d
		flowCache = map[*Func]*Flow{}
		pr, err := d.check(nil)
		if err != nil {
			return &ArchRun{GoArch: "386", Detail: []string{"check failed: " + err.Error()}}
		}
		archProg = pr
	}
	flowCache = map[*Func]*Flow{}
	res := runProperty(archProg, p, kf)
	flowCache = map[*Func]*Flow{}
	a := &ArchRun{GoArch: "386", Violations: len(res.Violations), Undecided: len(res.Undecided), Known: len(res.Known)}
	for _, rc := range res.Rules {
		a.Obls += len(rc.Obls)
	}
	for _, f := range res.Violations {
		a.Detail = append(a.Detail, f.Rule+" "+f.Key)
	}
	a.Detail = append(a.Detail, res.Undecided...)
	return a
}
