package main

// C16-R5: a worker receives invocations dependencies-first.
//
// Worker.Compile resolves invocationRef arguments against the invocations the
// worker has compiled before ("invalid invocation reference" otherwise, a
// fatal task error).  (*bigmachineExecutor).compile therefore sends the
// transitive dependencies of an invocation bottom-up.  It obtains that order
// as the reverse of a breadth-first walk that lists an invocation once for
// every edge that reaches it: the last listing of an invocation is then
// deeper than every invocation that depends on it, so in reverse each
// invocation is first met before all of its dependents (repeats are absorbed
// by the per-machine once.Map).  A walk that skips already-seen invocations
// loses exactly that: an invocation reachable at two depths is listed only at
// the shallower one and, reversed, comes after an intermediate dependent.
// The rule recognises the walk (FIFO work list, unconditional push of every
// dependency edge) and its consumption in reverse.

import (
	"fmt"
	"go/ast"
	"go/token"
	"strings"
)

func c16r5(c *RC) {
	pr := c.P
	fn := c.MustFn("exec.(*bigmachineExecutor).compile")
	if fn == nil {
		return
	}
	fq := fn.QName()
	pk := fn.Pkg
	var depLoop *ast.RangeStmt
	ast.Inspect(fn.Body, func(n ast.Node) bool {
		r, ok := n.(*ast.RangeStmt)
		if !ok {
			return true
		}
		ix, ok := ast.Unparen(r.X).(*ast.IndexExpr)
		if !ok {
			return true
		}
		if sel, ok := ix.X.(*ast.SelectorExpr); ok && pr.fieldQName(pk.FieldOf(sel)) == "exec.bigmachineExecutor.invocationDeps" {
			depLoop = r
		}
		return true
	})
	if depLoop == nil {
		c.Fail(fq+"|walks-invocation-dependencies", pr.Pos(fn.Body.Pos()), "the driver no longer walks the dependencies of an invocation before sending it to a machine: a worker that has not seen the invocations behind Result arguments fails the task with an invalid invocation reference")
		return
	}
	// every edge is pushed: the body is nothing but `W = append(W, key)`
	work := ""
	every := len(depLoop.Body.List) > 0 && depLoop.Key != nil
	for _, st := range depLoop.Body.List {
		a, ok := st.(*ast.AssignStmt)
		if !ok || len(a.Lhs) != 1 || len(a.Rhs) != 1 {
			every = false
			break
		}
		k, ok := a.Rhs[0].(*ast.CallExpr)
		if !ok || expr(k.Fun) != "append" || len(k.Args) != 2 || expr(k.Args[0]) != expr(a.Lhs[0]) || expr(k.Args[1]) != expr(depLoop.Key) {
			every = false
			break
		}
		work = expr(a.Lhs[0])
	}
	c.Check(every && work != "", fq+"|every-dependency-edge-is-listed", pr.Pos(depLoop.Pos()),
		"the walk over invocation dependencies does not push every dependency edge onto its work list (the loop body is more than the unconditional append): an invocation that is reachable at two depths is listed only once, at the shallower depth, and in the reversed list it comes after an intermediate invocation that depends on it — that one is compiled on the worker first and fails with an invalid invocation reference")
	// FIFO pop in the enclosing loop, listing b.invocations[i]
	var outer *ast.ForStmt
	for _, p := range pathTo(fn.Body, depLoop) {
		if f, ok := p.(*ast.ForStmt); ok {
			outer = f
		}
	}
	fifo, list := false, ""
	if outer != nil {
		for _, st := range outer.Body.List {
			a, ok := st.(*ast.AssignStmt)
			if !ok {
				continue
			}
			if len(a.Lhs) == 2 && len(a.Rhs) == 2 && expr(a.Lhs[1]) == work &&
				strings.ReplaceAll(expr(a.Rhs[0]), " ", "") == work+"[0]" && strings.ReplaceAll(expr(a.Rhs[1]), " ", "") == work+"[1:]" {
				fifo = true
			}
			if len(a.Lhs) == 1 && len(a.Rhs) == 1 {
				if k, ok := a.Rhs[0].(*ast.CallExpr); ok && expr(k.Fun) == "append" && len(k.Args) == 2 && expr(k.Args[0]) == expr(a.Lhs[0]) {
					if ix, ok := k.Args[1].(*ast.IndexExpr); ok {
						if sel, ok := ix.X.(*ast.SelectorExpr); ok && pr.fieldQName(pk.FieldOf(sel)) == "exec.bigmachineExecutor.invocations" {
							list = expr(a.Lhs[0])
						}
					}
				}
			}
		}
	}
	c.Check(fifo && list != "", fq+"|breadth-first-listing", pr.Pos(depLoop.Pos()),
		"the dependency walk is no longer a first-in-first-out work list that lists each visited invocation: the reverse of the listing is then not a dependencies-first order")
	if list == "" {
		return
	}
	// consumed in reverse, one Worker.Compile per listed invocation, stopping at the first error
	rev := false
	var revLoop *ast.ForStmt
	ast.Inspect(fn.Body, func(n ast.Node) bool {
		f, ok := n.(*ast.ForStmt)
		if !ok || f.Init == nil || f.Cond == nil || f.Post == nil {
			return true
		}
		in, ok := f.Init.(*ast.AssignStmt)
		if !ok || len(in.Lhs) != 1 || len(in.Rhs) != 1 {
			return true
		}
		iv := expr(in.Lhs[0])
		if t := strings.ReplaceAll(expr(in.Rhs[0]), " ", ""); t != "len("+list+")-1" && t != "-1+len("+list+")" {
			return true
		}
		be, ok := ast.Unparen(f.Cond).(*ast.BinaryExpr)
		post, ok2 := f.Post.(*ast.IncDecStmt)
		downTo0 := ok && (be.Op == token.GEQ && expr(be.X) == iv && expr(be.Y) == "0" || be.Op == token.LEQ && expr(be.Y) == iv && expr(be.X) == "0")
		if downTo0 && ok2 && post.Tok == token.DEC && expr(post.X) == iv {
			rev = true
			revLoop = f
		}
		return true
	})
	c.Check(rev, fq+"|sent-in-reverse-of-the-listing", pr.Pos(fn.Body.Pos()),
		"the listed invocations are no longer sent from the last to the first: dependents reach the worker before their dependencies")
	if revLoop != nil {
		sends, stops := false, false
		var walk func(n ast.Node)
		walk = func(n ast.Node) {
			ast.Inspect(n, func(m ast.Node) bool {
				if k, ok := m.(*ast.CallExpr); ok && len(k.Args) >= 2 && strings.Contains(nodeSrc(pr, k.Args[1]), `"Worker.Compile"`) {
					sends = true
				}
				return true
			})
		}
		walk(revLoop.Body)
		ast.Inspect(revLoop.Body, func(m ast.Node) bool {
			if _, isLit := m.(*ast.FuncLit); isLit {
				return false
			}
			if ifs, ok := m.(*ast.IfStmt); ok {
				if tx, nonNil, ok := nilTest(ifs.Cond); ok && nonNil {
					for _, st := range ifs.Body.List {
						if r, ok := st.(*ast.ReturnStmt); ok && len(r.Results) == 1 && expr(r.Results[0]) == tx {
							stops = true
						}
					}
				}
			}
			return true
		})
		c.Check(sends && stops, fq+"|each-listed-invocation-compiled-or-error", pr.Pos(revLoop.Pos()),
			"the reverse loop no longer sends Worker.Compile for each listed invocation and stops at the first error: a dependent is compiled after its dependency failed to compile")
	}
}

// C16-R6: the location a Func records is that of the user's bigslice.Func
// call.  The registry comparison between driver and worker (FuncLocations /
// FuncLocationsDiff) is only as good as those locations: if every Func records
// the same library line, two different registries of equal length compare
// equal.  runtime.Caller(k) must be given the number of frames between its
// own function and user code (1 in the exported constructor itself, 2 in a
// helper it calls, ...), and its file/line results must be stored in the
// FuncValue.
func c16r6(c *RC) {
	pr := c.P
	n := 0
	for _, fn := range pr.FuncsIn("") {
		if fn.Body == nil {
			continue
		}
		for _, k := range callsIn(fn.Body) {
			if fn.Pkg.CalleeName(k) != "runtime.Caller" || len(k.Args) != 1 {
				continue
			}
			// only the call whose results land in a FuncValue
			var as *ast.AssignStmt
			for _, p := range pathTo(fn.Body, k) {
				if a, ok := p.(*ast.AssignStmt); ok {
					as = a
				}
			}
			if as == nil || len(as.Lhs) != 4 {
				continue
			}
			fileF, lineF := "", ""
			if sel, ok := as.Lhs[1].(*ast.SelectorExpr); ok {
				fileF = pr.fieldQName(fn.Pkg.FieldOf(sel))
			}
			if sel, ok := as.Lhs[2].(*ast.SelectorExpr); ok {
				lineF = pr.fieldQName(fn.Pkg.FieldOf(sel))
			}
			if fileF != ".FuncValue.file" && lineF != ".FuncValue.line" {
				continue
			}
			n++
			c.Check(fileF == ".FuncValue.file" && lineF == ".FuncValue.line", fn.QName()+"|location-stored", pr.Pos(as.Pos()),
				"the file and line of the Func's definition site are no longer both stored in the FuncValue")
			want := apiDepth(pr, fn, map[*Func]bool{})
			v, isC := constInt(fn.Pkg, k.Args[0])
			if want == 0 {
				c.Undecide("%s: records a Func location but its distance from the exported API is not determined", fn.QName())
				continue
			}
			c.Check(isC && v == int64(want), fn.QName()+"|location-is-the-users-call-site", pr.Pos(k.Pos()),
				fmt.Sprintf("runtime.Caller(%s) in %s, which is %d frame(s) below the exported API: every Func records the same library location instead of the user's bigslice.Func call, so the driver/worker registry comparison sees identical location lists for different registries of equal length and a mismatched worker is accepted", expr(k.Args[0]), fn.QName(), want))
		}
	}
	c.Floor("Func location capture sites", n, 1)
	// FuncLocations reports file:line of every registered Func, in index order
	if fl := c.MustFn(".FuncLocations"); fl != nil {
		ok := false
		ast.Inspect(fl.Body, func(nd ast.Node) bool {
			if r, isR := nd.(*ast.RangeStmt); isR && expr(r.X) == "funcs" {
				// the recorded file and line go into the location as they are:
				// each is an argument of the formatting call itself, not of
				// something that abbreviates it (filepath.Base(file) makes two
				// Funcs in equally named files of different directories equal)
				uses := map[string]bool{}
				ast.Inspect(r.Body, func(m ast.Node) bool {
					k, isK := m.(*ast.CallExpr)
					if !isK {
						return true
					}
					for _, a := range k.Args {
						if sel, isS := ast.Unparen(a).(*ast.SelectorExpr); isS {
							switch q := pr.fieldQName(fl.Pkg.FieldOf(sel)); q {
							case ".FuncValue.file", ".FuncValue.line":
								if strings.HasPrefix(fl.Pkg.CalleeName(k), "fmt.") {
									uses[q] = true
								}
							}
						}
					}
					return true
				})
				if len(uses) == 2 {
					ok = true
				}
			}
			return true
		})
		c.Check(ok, fl.QName()+"|lists-file-and-line-per-func", pr.Pos(fl.Body.Pos()), "FuncLocations no longer lists the recorded file and line of every registered Func in registry order")
	}
}
