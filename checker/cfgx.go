package main

// Path engine over golang.org/x/tools/go/cfg (E1 of DESIGN.md).
//
// A Flow wraps the CFG of one function (declaration or literal).  Walk explores
// every feasible path from a start location, threading a rule-specific state
// string through the nodes, pruning edges that contradict simple branch facts
// (x == nil, x != K, boolean locals, conjunctions/disjunctions), and reporting
// function exits.  States are memoised per (block, facts, rule state), so the
// exploration is finite.

import (
	"fmt"
	"go/ast"
	"go/token"
	"go/types"
	"regexp"
	"sort"
	"strings"

	"golang.org/x/tools/go/cfg"
)

type Flow struct {
	P    *Prog
	Pkg  *Pkg
	Fn   *Func
	G    *cfg.CFG
	swOf map[*ast.CaseClause]ast.Stmt
	// deadAfter: the "after case" block of the last communicating clause of a
	// select without default is never entered (one clause is always taken)
	deadAfter map[*ast.CommClause]bool
	// unstable names: assigned inside a nested function literal or
	// address-taken; facts about them die at every call.
	unstable map[string]bool
	// boolDefs: once-assigned boolean locals standing for a comparison
	boolDefs    map[string]ast.Expr
	assignCount map[string]int
	mayReturn   func(*ast.CallExpr) bool
	keyKind     map[string]string // "name@line" -> recv | int | error | bool | other
}

var noReturnCallees = map[string]bool{
	"panic":          true,
	"os.Exit":        true,
	"runtime.Goexit": true,
	"log.Fatal":      true, "log.Fatalf": true, "log.Fatalln": true, "log.Panic": true, "log.Panicf": true, "log.Panicln": true,
	"github.com/grailbio/base/log.Fatal": true, "github.com/grailbio/base/log.Fatalf": true,
	"github.com/grailbio/base/log.Panic": true, "github.com/grailbio/base/log.Panicf": true,
	"typecheck.Panic": true, "typecheck.Panicf": true,
}

func (pk *Pkg) mayReturn(call *ast.CallExpr) bool {
	cn := pk.CalleeName(call)
	return !noReturnCallees[cn]
}

var flowCache = map[*Func]*Flow{}

func (pr *Prog) Flow(fn *Func) *Flow {
	if f, ok := flowCache[fn]; ok && f.P == pr {
		return f
	}
	fl := &Flow{P: pr, Pkg: fn.Pkg, Fn: fn, swOf: map[*ast.CaseClause]ast.Stmt{}, unstable: map[string]bool{}, boolDefs: map[string]ast.Expr{}, assignCount: map[string]int{}}
	// local closures that never return (die := func(msg string) { typecheck.Panicf(...) })
	noRet := map[string]bool{}
	ast.Inspect(fn.Body, func(n ast.Node) bool {
		a, ok := n.(*ast.AssignStmt)
		if !ok || len(a.Lhs) != 1 || len(a.Rhs) != 1 || a.Tok != token.DEFINE {
			return true
		}
		lit, ok := a.Rhs[0].(*ast.FuncLit)
		id, ok2 := a.Lhs[0].(*ast.Ident)
		if !ok || !ok2 || len(lit.Body.List) == 0 {
			return true
		}
		if es, ok := lit.Body.List[len(lit.Body.List)-1].(*ast.ExprStmt); ok {
			if call, ok := es.X.(*ast.CallExpr); ok && !fn.Pkg.mayReturn(call) {
				noRet[id.Name] = true
			}
		}
		return true
	})
	fl.mayReturn = func(call *ast.CallExpr) bool {
		if id, ok := call.Fun.(*ast.Ident); ok && noRet[id.Name] {
			if _, isVar := fn.Pkg.Info.Uses[id].(*types.Var); isVar {
				return false
			}
		}
		return fn.Pkg.mayReturn(call)
	}
	fl.G = cfg.New(fn.Body, fl.mayReturn)
	ast.Inspect(fn.Body, func(n ast.Node) bool {
		switch s := n.(type) {
		case *ast.SwitchStmt:
			for _, c := range s.Body.List {
				fl.swOf[c.(*ast.CaseClause)] = s
			}
		case *ast.TypeSwitchStmt:
			for _, c := range s.Body.List {
				fl.swOf[c.(*ast.CaseClause)] = s
			}
		case *ast.SelectStmt:
			hasDefault := false
			var last *ast.CommClause
			for _, c := range s.Body.List {
				cc := c.(*ast.CommClause)
				if cc.Comm == nil {
					hasDefault = true
				} else {
					last = cc
				}
			}
			if !hasDefault && last != nil {
				if fl.deadAfter == nil {
					fl.deadAfter = map[*ast.CommClause]bool{}
				}
				fl.deadAfter[last] = true
			}
		case *ast.FuncLit:
			ast.Inspect(s.Body, func(m ast.Node) bool {
				switch a := m.(type) {
				case *ast.AssignStmt:
					for _, l := range a.Lhs {
						if id, ok := l.(*ast.Ident); ok {
							fl.unstable[id.Name] = true
						}
					}
				case *ast.IncDecStmt:
					if id, ok := a.X.(*ast.Ident); ok {
						fl.unstable[id.Name] = true
					}
				}
				return true
			})
		case *ast.UnaryExpr:
			if s.Op == token.AND {
				if id, ok := s.X.(*ast.Ident); ok {
					fl.unstable[id.Name] = true
				}
			}
		}
		return true
	})
	// named results assigned in deferred closures are "unstable" too (covered above)
	// once-assigned boolean locals
	inspectNoLit(fn.Body, func(n ast.Node) bool {
		switch a := n.(type) {
		case *ast.AssignStmt:
			for i, l := range a.Lhs {
				if id, ok := l.(*ast.Ident); ok {
					fl.assignCount[id.Name]++
					if len(a.Lhs) == len(a.Rhs) {
						if tv, ok := fn.Pkg.Info.Types[a.Rhs[i]]; ok && tv.Type != nil {
							if b, ok := tv.Type.Underlying().(*types.Basic); ok && b.Info()&types.IsBoolean != 0 {
								fl.boolDefs[id.Name] = a.Rhs[i]
							}
						}
					}
				}
			}
		case *ast.IncDecStmt:
			if id, ok := a.X.(*ast.Ident); ok {
				fl.assignCount[id.Name]++
			}
		case *ast.RangeStmt:
			for _, e := range []ast.Expr{a.Key, a.Value} {
				if id, ok := e.(*ast.Ident); ok {
					fl.assignCount[id.Name] += 2
				}
			}
		case *ast.ValueSpec:
			for _, id := range a.Names {
				fl.assignCount[id.Name]++
			}
		}
		return true
	})
	for k := range fl.boolDefs {
		if fl.assignCount[k] != 1 || fl.unstable[k] {
			delete(fl.boolDefs, k)
		}
	}
	flowCache[fn] = fl
	return fl
}

// ---------------------------------------------------------------------------
// Facts

type fact struct {
	key string // expression text: "err", "task.state", "ok"
	eq  bool
	val string // "nil", "true", "false", "TaskOk", "sliceio.EOF", "3"
}

type Facts []fact

func (fs Facts) String() string {
	parts := make([]string, len(fs))
	for i, f := range fs {
		op := "!="
		if f.eq {
			op = "=="
		}
		parts[i] = f.key + op + f.val
	}
	return strings.Join(parts, ";")
}

func (fs Facts) norm() Facts {
	sort.Slice(fs, func(i, j int) bool {
		if fs[i].key != fs[j].key {
			return fs[i].key < fs[j].key
		}
		if fs[i].eq != fs[j].eq {
			return fs[i].eq
		}
		return fs[i].val < fs[j].val
	})
	out := fs[:0]
	for i, f := range fs {
		if i > 0 && f == fs[i-1] {
			continue
		}
		out = append(out, f)
	}
	return out
}

// Eq returns the value key is known to equal ("" if unknown).
func (fs Facts) Eq(key string) string {
	for _, f := range fs {
		if f.key == key && f.eq {
			return f.val
		}
	}
	return ""
}

// Ne reports whether key is known to differ from val.
func (fs Facts) Ne(key, val string) bool {
	for _, f := range fs {
		if f.key != key {
			continue
		}
		if !f.eq && f.val == val {
			return true
		}
		if f.eq && f.val != val && distinctVals(f.val, val) {
			return true
		}
	}
	return false
}

func (fs Facts) NonNil(key string) bool { return fs.Ne(key, "nil") }
func (fs Facts) IsNil(key string) bool  { return fs.Eq(key) == "nil" }

// distinctVals: two value names known to denote different values.
func distinctVals(a, b string) bool {
	if a == b {
		return false
	}
	// nil, true, false, constants and package-level sentinels are assumed
	// pairwise distinct (atoms only carry such values, see atomVal).
	return true
}

// add returns fs plus f, or ok=false if contradictory.
func (fs Facts) add(f fact) (Facts, bool) {
	for _, g := range fs {
		if g.key != f.key {
			continue
		}
		switch {
		case g.eq && f.eq:
			if g.val != f.val {
				return nil, false
			}
		case g.eq && !f.eq:
			if g.val == f.val {
				return nil, false
			}
		case !g.eq && f.eq:
			if g.val == f.val {
				return nil, false
			}
		}
	}
	out := append(Facts{}, fs...)
	if f.eq {
		// an equality subsumes inequalities on the same key
		o2 := out[:0]
		for _, g := range out {
			if g.key == f.key && !g.eq {
				continue
			}
			o2 = append(o2, g)
		}
		out = o2
	} else if fs.Eq(f.key) != "" {
		return fs, true // already stronger
	}
	out = append(out, f)
	return out.norm(), true
}

func (fs Facts) kill(name string) Facts {
	var out Facts
	for _, f := range fs {
		if f.key == name || (strings.HasPrefix(f.key, name) && len(f.key) > len(name) && strings.ContainsRune(".[<>=!", rune(f.key[len(name)]))) {
			continue
		}
		// a variable-to-variable fact "x==y" dies with either side
		if i := strings.Index(f.key, "=="); i > 0 {
			rhs := f.key[i+2:]
			if rhs == name || (strings.HasPrefix(rhs, name) && len(rhs) > len(name) && strings.ContainsRune(".[", rune(rhs[len(name)]))) {
				continue
			}
		}
		out = append(out, f)
	}
	return out
}

func (fs Facts) killWhere(pred func(key string) bool) Facts {
	var out Facts
	for _, f := range fs {
		if pred(f.key) {
			continue
		}
		out = append(out, f)
	}
	return out
}

// Key returns the fact key of a trackable expression: an identifier (local
// variables are disambiguated by their declaration line, so shadowing does not
// confuse facts), a selector chain, a pure getter call or a constant index.
func (fl *Flow) Key(e ast.Expr) string { return fl.trackKey(e) }

func (fl *Flow) trackKey(e ast.Expr) string {
	trackKey := fl.trackKey
	switch x := e.(type) {
	case *ast.Ident:
		if x.Name == "_" || x.Name == "nil" || x.Name == "true" || x.Name == "false" {
			return ""
		}
		var obj types.Object
		if o, ok := fl.Pkg.Info.Uses[x]; ok {
			obj = o
		} else if o, ok := fl.Pkg.Info.Defs[x]; ok {
			obj = o
		}
		if v, ok := obj.(*types.Var); ok && !v.IsField() && v.Pkg() != nil && v.Parent() != v.Pkg().Scope() {
			k := fmt.Sprintf("%s@%d", x.Name, fl.P.Fset.Position(v.Pos()).Line)
			if fl.keyKind == nil {
				fl.keyKind = map[string]string{}
			}
			if _, seen := fl.keyKind[k]; !seen {
				kind := "other"
				root := fl.Fn.Root()
				if root.Decl != nil && root.Decl.Recv != nil && len(root.Decl.Recv.List) == 1 && len(root.Decl.Recv.List[0].Names) == 1 && fl.Pkg.Info.Defs[root.Decl.Recv.List[0].Names[0]] == types.Object(v) {
					kind = "recv"
				} else if b, ok := v.Type().Underlying().(*types.Basic); ok {
					switch {
					case b.Info()&types.IsInteger != 0:
						kind = "int"
					case b.Info()&types.IsBoolean != 0:
						kind = "bool"
					}
				} else if types.Identical(v.Type(), types.Universe.Lookup("error").Type()) {
					kind = "error"
				}
				fl.keyKind[k] = kind
			}
			return k
		}
		return x.Name
	case *ast.SelectorExpr:
		k := trackKey(x.X)
		if k == "" {
			return ""
		}
		return k + "." + x.Sel.Name
	case *ast.ParenExpr:
		return trackKey(x.X)
	case *ast.CallExpr:
		// pure getters used as conditions: ctx.Err(), f.Len(), x.IsNil(), len(x)
		if len(x.Args) == 0 {
			if s, ok := x.Fun.(*ast.SelectorExpr); ok {
				k := trackKey(s.X)
				if k != "" {
					return k + "." + s.Sel.Name + "()"
				}
			}
		}
		if id, ok := x.Fun.(*ast.Ident); ok && id.Name == "len" && len(x.Args) == 1 {
			if k := trackKey(x.Args[0]); k != "" {
				return "len(" + k + ")"
			}
		}
		return ""
	case *ast.IndexExpr:
		k := trackKey(x.X)
		if k == "" {
			return ""
		}
		switch ix := x.Index.(type) {
		case *ast.BasicLit:
			return k + "[" + ix.Value + "]"
		case *ast.Ident:
			if ik := trackKey(ix); ik != "" {
				return k + "[" + ik + "]"
			}
		}
		return ""
	}
	return ""
}

// atomVal: the value name of a comparison operand if it is a constant-like
// thing (nil, true/false, a constant, a package-level variable such as
// sliceio.EOF), else "".
func (fl *Flow) atomVal(e ast.Expr) string {
	e = ast.Unparen(e)
	info := fl.Pkg.Info
	if tv, ok := info.Types[e]; ok {
		if tv.IsNil() {
			return "nil"
		}
		if tv.Value != nil {
			// prefer the constant's name when it has one
			switch x := e.(type) {
			case *ast.Ident:
				if c, ok := info.Uses[x].(*types.Const); ok {
					return constName(c)
				}
			case *ast.SelectorExpr:
				if c, ok := info.Uses[x.Sel].(*types.Const); ok {
					return constName(c)
				}
			}
			return tv.Value.ExactString()
		}
	}
	switch x := e.(type) {
	case *ast.Ident:
		if x.Name == "nil" {
			return "nil"
		}
		if v, ok := info.Uses[x].(*types.Var); ok && v.Parent() != nil && v.Pkg() != nil && v.Parent() == v.Pkg().Scope() {
			return short(v.Pkg().Path()) + "." + v.Name()
		}
	case *ast.SelectorExpr:
		if v, ok := info.Uses[x.Sel].(*types.Var); ok && !v.IsField() && v.Pkg() != nil && v.Parent() == v.Pkg().Scope() {
			return short(v.Pkg().Path()) + "." + v.Name()
		}
	}
	return ""
}

func constName(c *types.Const) string {
	if c.Pkg() == nil {
		return c.Name()
	}
	if c.Name() == "true" || c.Name() == "false" {
		return c.Name()
	}
	return c.Name()
}

// alts returns, in disjunctive normal form, the facts implied by cond
// evaluating to outcome: each element is one alternative conjunction.  An
// unknown condition yields one alternative with no facts.
func (fl *Flow) alts(cond ast.Expr, outcome bool) [][]fact {
	cond = ast.Unparen(cond)
	cross := func(a, b [][]fact) [][]fact {
		var out [][]fact
		for _, x := range a {
			for _, y := range b {
				out = append(out, append(append([]fact{}, x...), y...))
			}
		}
		if len(out) > 16 {
			return [][]fact{{}}
		}
		return out
	}
	switch c := cond.(type) {
	case *ast.UnaryExpr:
		if c.Op == token.NOT {
			return fl.alts(c.X, !outcome)
		}
	case *ast.BinaryExpr:
		switch c.Op {
		case token.LAND:
			if outcome {
				return cross(fl.alts(c.X, true), fl.alts(c.Y, true))
			}
			return append(fl.alts(c.X, false), cross(fl.alts(c.X, true), fl.alts(c.Y, false))...)
		case token.LOR:
			if !outcome {
				return cross(fl.alts(c.X, false), fl.alts(c.Y, false))
			}
			return append(fl.alts(c.X, true), cross(fl.alts(c.X, false), fl.alts(c.Y, true))...)
		case token.EQL, token.NEQ:
			eq := (c.Op == token.EQL) == outcome
			if k, v := fl.trackKey(c.X), fl.atomVal(c.Y); k != "" && v != "" && fl.atomVal(c.X) == "" {
				return [][]fact{{{k, eq, v}}}
			}
			if k, v := fl.trackKey(c.Y), fl.atomVal(c.X); k != "" && v != "" && fl.atomVal(c.Y) == "" {
				return [][]fact{{{k, eq, v}}}
			}
			// two trackable, non-constant operands: an opaque boolean fact
			// "a==b" (operands in a fixed order)
			if a, b := fl.trackKey(c.X), fl.trackKey(c.Y); a != "" && b != "" && fl.atomVal(c.X) == "" && fl.atomVal(c.Y) == "" {
				if b < a {
					a, b = b, a
				}
				return [][]fact{{{a + "==" + b, true, fmt.Sprint(eq)}}}
			}
		case token.LSS, token.LEQ, token.GTR, token.GEQ:
			// an ordered comparison of a trackable expression with a constant
			// is remembered as an opaque boolean fact keyed by its text
			if k, v := fl.trackKey(c.X), fl.atomVal(c.Y); k != "" && v != "" && fl.atomVal(c.X) == "" {
				return [][]fact{{{k + c.Op.String() + v, true, fmt.Sprint(outcome)}}}
			}
			// constant on the left: the same fact, written the canonical way round
			if k, v := fl.trackKey(c.Y), fl.atomVal(c.X); k != "" && v != "" && fl.atomVal(c.Y) == "" {
				m := map[token.Token]string{token.LSS: ">", token.LEQ: ">=", token.GTR: "<", token.GEQ: "<="}[c.Op]
				return [][]fact{{{k + m + v, true, fmt.Sprint(outcome)}}}
			}
		}
	case *ast.Ident:
		if k := fl.trackKey(c); k != "" {
			return [][]fact{{{k, true, fmt.Sprint(outcome)}}}
		}
	case *ast.SelectorExpr, *ast.CallExpr:
		if k := fl.trackKey(c); k != "" {
			return [][]fact{{{k, true, fmt.Sprint(outcome)}}}
		}
	}
	return [][]fact{{}}
}

// atoms returns the facts that certainly hold when cond evaluates to outcome
// (the facts common to a single-alternative DNF; nil otherwise).
func (fl *Flow) atoms(cond ast.Expr, outcome bool) []fact {
	a := fl.alts(cond, outcome)
	if len(a) == 1 {
		return a[0]
	}
	return nil
}

// ---------------------------------------------------------------------------
// Walk

// Step is the per-path context handed to visitors.
type Step struct {
	Fl    *Flow
	Facts Facts
	Block *cfg.Block
	Idx   int
	trail *trail
}

type trail struct {
	prev *trail
	pos  token.Pos
	note string
}

// Trail renders the branch decisions taken to reach this point.
func (s *Step) Trail() []string {
	var out []string
	for t := s.trail; t != nil; t = t.prev {
		out = append(out, fmt.Sprintf("%s %s", s.Fl.P.Pos(t.pos), t.note))
	}
	for i, j := 0, len(out)-1; i < j; i, j = i+1, j-1 {
		out[i], out[j] = out[j], out[i]
	}
	if len(out) > 14 {
		out = append(out[:6], append([]string{"..."}, out[len(out)-7:]...)...)
	}
	return out
}

type ExitKind int

const (
	ExitReturn ExitKind = iota // return statement or falling off the end
	ExitPanic                  // no-return call
)

type Visitor struct {
	// Node is called for each CFG node in path order.  It returns the new
	// rule state and whether this path should stop being explored.
	Node func(n ast.Node, x string, s *Step) (nx string, stop bool)
	// Enter is called when a block is entered through an edge (optional).
	Enter func(from, to *cfg.Block, x string, s *Step) (nx string, stop bool)
	// Exit is called at function exits (optional).
	Exit func(kind ExitKind, ret *ast.ReturnStmt, x string, s *Step)
	// NoFacts disables branch refinement.
	NoFacts bool
}

// Loc identifies a node inside a CFG.
type Loc struct {
	B *cfg.Block
	I int
}

// Find locates the CFG node for which pred holds (first match in block order).
func (fl *Flow) Find(pred func(n ast.Node) bool) (Loc, bool) {
	for _, b := range fl.G.Blocks {
		if !b.Live {
			continue
		}
		for i, n := range b.Nodes {
			if pred(n) {
				return Loc{b, i}, true
			}
		}
	}
	return Loc{}, false
}

// FindAll locates all CFG nodes for which pred holds.
func (fl *Flow) FindAll(pred func(n ast.Node) bool) []Loc {
	var out []Loc
	for _, b := range fl.G.Blocks {
		if !b.Live {
			continue
		}
		for i, n := range b.Nodes {
			if pred(n) {
				out = append(out, Loc{b, i})
			}
		}
	}
	return out
}

// LocOf finds the CFG node that syntactically contains target.
func (fl *Flow) LocOf(target ast.Node) (Loc, bool) {
	return fl.Find(func(n ast.Node) bool { return n.Pos() <= target.Pos() && target.End() <= n.End() })
}

func (fl *Flow) Entry() Loc { return Loc{fl.G.Blocks[0], 0} }

// edgeCond returns the condition controlling the two successors of b (nil if
// b's branch is not a boolean condition: range, select, type switch).
func (fl *Flow) edgeCond(b *cfg.Block) ast.Expr {
	if len(b.Succs) != 2 || len(b.Nodes) == 0 {
		return nil
	}
	last, ok := b.Nodes[len(b.Nodes)-1].(ast.Expr)
	if !ok {
		return nil
	}
	switch b.Succs[0].Kind {
	case cfg.KindIfThen:
		if s, ok := b.Succs[0].Stmt.(*ast.IfStmt); ok && s.Cond == last {
			return last
		}
	case cfg.KindForBody:
		if s, ok := b.Succs[0].Stmt.(*ast.ForStmt); ok && s.Cond == last {
			return last
		}
	case cfg.KindSwitchCaseBody:
		cc, _ := b.Succs[0].Stmt.(*ast.CaseClause)
		if cc == nil {
			return nil
		}
		sw, _ := fl.swOf[cc].(*ast.SwitchStmt)
		if sw == nil {
			return nil
		}
		found := false
		for _, e := range cc.List {
			if e == last {
				found = true
			}
		}
		if !found {
			return nil
		}
		if sw.Tag != nil {
			return &ast.BinaryExpr{X: sw.Tag, Op: token.EQL, Y: last, OpPos: last.Pos()}
		}
		return last
	}
	return nil
}

type wkey struct {
	b     int32
	i     int
	facts string
	x     string
}

// Walk explores all feasible paths from start.
func (fl *Flow) Walk(start Loc, x0 string, f0 Facts, v Visitor) {
	type item struct {
		loc   Loc
		x     string
		facts Facts
		tr    *trail
	}
	seen := map[wkey]bool{}
	stack := []item{{start, x0, f0, nil}}
	info := fl.Pkg.Info
	for len(stack) > 0 {
		it := stack[len(stack)-1]
		stack = stack[:len(stack)-1]
		k := wkey{it.loc.B.Index, it.loc.I, it.facts.String(), it.x}
		if seen[k] {
			continue
		}
		seen[k] = true
		b := it.loc.B
		x := it.x
		facts := it.facts
		stopped := false
		step := &Step{Fl: fl, Block: b, trail: it.tr}
		for i := it.loc.I; i < len(b.Nodes); i++ {
			n := b.Nodes[i]
			step.Idx = i
			step.Facts = facts
			if v.Node != nil {
				var stop bool
				x, stop = v.Node(n, x, step)
				if stop {
					stopped = true
					break
				}
			}
			if !v.NoFacts {
				facts = fl.transfer(n, facts)
			}
		}
		if stopped {
			continue
		}
		step.Facts = facts
		step.Idx = len(b.Nodes)
		if len(b.Succs) == 0 {
			if v.Exit != nil {
				kind := ExitReturn
				var ret *ast.ReturnStmt
				if len(b.Nodes) > 0 {
					switch last := b.Nodes[len(b.Nodes)-1].(type) {
					case *ast.ReturnStmt:
						ret = last
					case *ast.ExprStmt:
						if c, ok := last.X.(*ast.CallExpr); ok && !fl.mayReturn(c) {
							kind = ExitPanic
						}
					}
				}
				v.Exit(kind, ret, x, step)
			}
			continue
		}
		cond := fl.edgeCond(b)
		for si, succ := range b.Succs {
			if succ.Kind == cfg.KindSelectAfterCase {
				if cc, ok := succ.Stmt.(*ast.CommClause); ok && fl.deadAfter[cc] {
					continue
				}
			}
			tr := it.tr
			altFacts := []Facts{facts}
			if len(b.Succs) == 2 {
				note := ""
				var pos token.Pos
				if cond != nil {
					outcome := si == 0
					pos = cond.Pos()
					note = fmt.Sprintf("[%s]=%v", expr(cond), outcome)
					if !v.NoFacts {
						// constant conditions
						if tv, has := info.Types[cond]; has && tv.Value != nil {
							if (tv.Value.ExactString() == "true") != outcome {
								continue
							}
						}
						altFacts = nil
						seenAlt := map[string]bool{}
						for _, alt := range fl.alts(cond, outcome) {
							nf := facts
							ok := true
							for _, a := range alt {
								nf, ok = nf.add(a)
								if !ok {
									break
								}
							}
							if ok && !seenAlt[nf.String()] {
								seenAlt[nf.String()] = true
								altFacts = append(altFacts, nf)
							}
						}
						if len(altFacts) == 0 {
							continue // infeasible edge
						}
					}
				} else if succ.Stmt != nil {
					pos = succ.Stmt.Pos()
					note = fmt.Sprintf("%s#%d", succ.Kind, si)
				}
				if note != "" {
					tr = &trail{prev: it.tr, pos: pos, note: note}
				}
			}
			for _, nf := range altFacts {
				if rs, ok := succ.Stmt.(*ast.RangeStmt); ok && succ.Kind == cfg.KindRangeBody && !v.NoFacts {
					for _, e := range []ast.Expr{rs.Key, rs.Value} {
						if e == nil {
							continue
						}
						if k := fl.trackKey(e); k != "" {
							nf = nf.kill(k)
							nf = nf.killWhere(func(key string) bool { return strings.Contains(key, "["+k+"]") })
						}
					}
				}
				nx := x
				if v.Enter != nil {
					st := &Step{Fl: fl, Block: succ, Facts: nf, trail: tr}
					var stop bool
					nx, stop = v.Enter(b, succ, x, st)
					if stop {
						continue
					}
				}
				stack = append(stack, item{Loc{succ, 0}, nx, nf, tr})
			}
		}
	}
}

// transfer applies the effect of node n on facts (kills).
func (fl *Flow) transfer(n ast.Node, facts Facts) Facts {
	if len(facts) == 0 {
		return facts
	}
	killName := func(e ast.Expr) {
		if k := fl.trackKey(e); k != "" {
			facts = facts.kill(k)
			// any fact mentioning k as an index also dies
			facts = facts.killWhere(func(key string) bool { return strings.Contains(key, "["+k+"]") })
		}
	}
	hasCall := false
	inspectNoLit(n, func(m ast.Node) bool {
		switch a := m.(type) {
		case *ast.AssignStmt:
			for _, l := range a.Lhs {
				killName(l)
			}
		case *ast.IncDecStmt:
			killName(a.X)
		case *ast.RangeStmt:
			if a.Key != nil {
				killName(a.Key)
			}
			if a.Value != nil {
				killName(a.Value)
			}
		case *ast.ValueSpec:
			for _, id := range a.Names {
				killName(id)
			}
		case *ast.CallExpr:
			hasCall = true
		case *ast.UnaryExpr:
			if a.Op == token.ARROW {
				hasCall = true // a receive is a synchronisation point
			}
		}
		return true
	})
	if hasCall {
		facts = facts.killWhere(func(key string) bool {
			// facts on fields, getters, indexed elements die at calls; facts on
			// plain locals survive unless the local is unstable
			if strings.ContainsAny(key, ".([") {
				// a getter or field of a stable local: calls may change it
				return true
			}
			if i := strings.Index(key, "@"); i > 0 {
				key = key[:i]
			}
			return fl.unstable[key]
		})
	}
	return facts
}

// ---------------------------------------------------------------------------
// Common queries built on Walk

// MustReach checks that every path from start that reaches a function exit
// passes a node satisfying event first.  It returns the offending exits.
type PathViolation struct {
	Exit  string   // position of the exit
	Trail []string // branch decisions
	Facts string
}

func (fl *Flow) exitPos(s *Step, ret *ast.ReturnStmt) string {
	if ret != nil {
		return fl.P.Pos(ret.Pos())
	}
	if len(s.Block.Nodes) > 0 {
		return fl.P.Pos(s.Block.Nodes[len(s.Block.Nodes)-1].Pos()) + " (end of path)"
	}
	return fl.P.Pos(fl.Fn.Body.End()) + " (end of function)"
}

// nodeHas reports whether n contains (outside non-invoked literals) a node
// satisfying pred.
func nodeHas(n ast.Node, pred func(ast.Node) bool) bool {
	found := false
	inspectNoLit(n, func(m ast.Node) bool {
		if found {
			return false
		}
		if pred(m) {
			found = true
			return false
		}
		return true
	})
	return found
}

// Dominated reports whether every path from the function entry to target
// passes an event node first; it returns a witness trail otherwise.
func (fl *Flow) Dominated(target Loc, event func(n ast.Node, s *Step) bool) (bool, []string) {
	ok := true
	var wit []string
	fl.Walk(fl.Entry(), "", nil, Visitor{
		Node: func(n ast.Node, x string, s *Step) (string, bool) {
			if !ok {
				return x, true
			}
			if s.Block == target.B && s.Idx == target.I {
				ok = false
				wit = s.Trail()
				return x, true
			}
			if event(n, s) {
				return x, true
			}
			return x, false
		},
	})
	return ok, wit
}

type cfg2Block = cfg.Block

func cond2(e ast.Expr) ast.Expr { return e }

var reLocalKey = regexp.MustCompile(`[A-Za-z_][A-Za-z0-9_]*@[0-9]+`)

// NormKey rewrites a fact key so that it no longer depends on the spelling of
// local names: the receiver becomes $r, other locals become $int, $bool,
// $error or $v according to their type.
func (fl *Flow) NormKey(key string) string {
	return reLocalKey.ReplaceAllStringFunc(key, func(m string) string {
		switch fl.keyKind[m] {
		case "recv":
			return "$r"
		case "int":
			return "$int"
		case "bool":
			return "$bool"
		case "error":
			return "$error"
		}
		return "$v"
	})
}
