package main

// C19-R4: a guarded reference does not escape its critical section.
// C19-R5: locks are acquired in one global order.

import (
	"fmt"
	"go/ast"
	"go/types"
	"sort"
	"strings"
)

// C19-R4.  Copying a guarded map/slice/pointer field into a local under the
// lock copies the reference, not the data: using the local after the unlock
// reads (or writes) the live structure without the lock.  The one idiom that
// is fine is taking ownership — the field is replaced in the same function
// (tasks := s.tasks; s.tasks = nil).
func c19r4(c *RC) {
	pr := c.P
	n := 0
	for _, fn := range pr.FuncsIn("exec") {
		if fn.Body == nil {
			continue
		}
		fq := fn.QName()
		if _, isCtor := c19constructors[fq]; isCtor {
			continue
		}
		// aliases: local ident -> (field, lock key)
		type alias struct {
			field, need string
			def         *ast.Ident
		}
		aliases := map[types.Object]alias{}
		replaced := map[string]bool{}
		inspectNoLit(fn.Body, func(nd ast.Node) bool {
			a, ok := nd.(*ast.AssignStmt)
			if !ok {
				return true
			}
			for _, l := range a.Lhs {
				if sel, ok := l.(*ast.SelectorExpr); ok {
					if fqn := pr.fieldQName(fn.Pkg.FieldOf(sel)); guardedBy[fqn] != "" {
						replaced[fqn] = true
					}
				}
			}
			if len(a.Lhs) != len(a.Rhs) {
				return true
			}
			for i, r := range a.Rhs {
				sel, ok := ast.Unparen(r).(*ast.SelectorExpr)
				if !ok {
					continue
				}
				fqn := pr.fieldQName(fn.Pkg.FieldOf(sel))
				kind, guarded := guardedBy[fqn]
				if !guarded {
					continue
				}
				tv := fn.Pkg.Info.Types[sel]
				if tv.Type == nil {
					continue
				}
				switch tv.Type.Underlying().(type) {
				case *types.Map, *types.Slice, *types.Pointer, *types.Chan:
				default:
					continue
				}
				id, ok := a.Lhs[i].(*ast.Ident)
				if !ok || id.Name == "_" {
					continue
				}
				o := fn.Pkg.Info.Defs[id]
				if o == nil {
					o = fn.Pkg.Info.Uses[id]
				}
				if o == nil {
					continue
				}
				need := strings.ReplaceAll(expr(sel.X), " ", "")
				if kind == "mu" {
					need += ".mu"
				}
				aliases[o] = alias{fqn, need, id}
			}
			return true
		})
		for o, a := range aliases {
			if replaced[a.field] {
				delete(aliases, o) // ownership is taken: the field is replaced in this function
			}
		}
		if len(aliases) == 0 {
			continue
		}
		fl := pr.Flow(fn)
		encode := func(m map[string]bool) string {
			var l []string
			for k := range m {
				l = append(l, k)
			}
			sort.Strings(l)
			return strings.Join(l, ",")
		}
		decode := func(x string) map[string]bool {
			m := map[string]bool{}
			for _, k := range strings.Split(x, ",") {
				if k != "" {
					m[k] = true
				}
			}
			return m
		}
		bad := map[types.Object][]string{}
		badPos := map[types.Object]string{}
		fl.Walk(fl.Entry(), "", nil, Visitor{NoFacts: true,
			Node: func(nd ast.Node, x string, s *Step) (string, bool) {
				held := decode(x)
				if _, isDefer := nd.(*ast.DeferStmt); isDefer {
					return x, false
				}
				type ev struct {
					pos  int
					kind string
					key  string
					obj  types.Object
				}
				var evs []ev
				ast.Inspect(nd, func(m ast.Node) bool {
					switch a := m.(type) {
					case *ast.CallExpr:
						if sel, ok := a.Fun.(*ast.SelectorExpr); ok {
							switch sel.Sel.Name {
							case "Lock", "RLock":
								evs = append(evs, ev{int(a.End()), "lock", strings.ReplaceAll(expr(sel.X), " ", ""), nil})
							case "Unlock", "RUnlock":
								evs = append(evs, ev{int(a.Pos()), "unlock", strings.ReplaceAll(expr(sel.X), " ", ""), nil})
							}
						}
					case *ast.Ident:
						if o := fn.Pkg.Info.Uses[a]; o != nil {
							if al, ok := aliases[o]; ok && a != al.def {
								evs = append(evs, ev{int(a.Pos()), "use", al.need, o})
							}
						}
					}
					return true
				})
				sort.SliceStable(evs, func(i, j int) bool { return evs[i].pos < evs[j].pos })
				for _, e := range evs {
					switch e.kind {
					case "lock":
						held[e.key] = true
					case "unlock":
						delete(held, e.key)
					case "use":
						if !held[e.key] && bad[e.obj] == nil {
							bad[e.obj] = s.Trail()
							badPos[e.obj] = pr.Pos(nd.Pos())
						}
					}
				}
				return encode(held), false
			}})
		for o, a := range aliases {
			n++
			key := fmt.Sprintf("%s|alias-of:%s|used-only-under-lock", fq, a.field)
			c.Check(bad[o] == nil, key, badPos[o],
				fmt.Sprintf("%s is a copy of the reference in %s, taken under %s, and is used where that lock is not held: the copy shares the live map/slice with every other goroutine, so this is an unsynchronised access (a concurrent writer makes it a data race, for a map a fatal one)", o.Name(), a.field, a.need), bad[o]...)
		}
	}
	c.Note("%d local aliases of guarded reference fields examined", n)
	if n == 0 {
		c.Pass("exec|no-aliases-of-guarded-references", "exec", "no function keeps a local copy of a guarded map/slice/pointer field (other than by taking ownership)")
	}
}

// C19-R5.  Lock classes: a mutex field (exec.localExecutor.mu) or a type that
// embeds its mutex (exec.Task).  An edge A -> B means: somewhere B is acquired
// (directly, or inside a callee) while A is held.  A cycle between classes is
// a potential deadlock: each site looks fine alone.
func c19r5(c *RC) {
	pr := c.P
	lockClass := func(fn *Func, x ast.Expr) string {
		x = ast.Unparen(x)
		if sel, ok := x.(*ast.SelectorExpr); ok {
			if f := fn.Pkg.FieldOf(sel); f != nil {
				ts := typeString(f.Type())
				if strings.HasSuffix(ts, "sync.Mutex") || strings.HasSuffix(ts, "sync.RWMutex") {
					return pr.fieldQName(f)
				}
			}
		}
		if tv := fn.Pkg.Info.Types[x]; tv.Type != nil {
			t := tv.Type
			if p, ok := t.(*types.Pointer); ok {
				t = p.Elem()
			}
			ts := typeString(t)
			if strings.HasPrefix(ts, "exec.") {
				return ts
			}
		}
		return ""
	}
	// direct acquisitions per function (not inside go-started literals)
	funcs := pr.FuncsIn("exec")
	direct := map[*Func]map[string]bool{}
	calls := map[*Func][]*Func{}
	for _, fn := range funcs {
		if fn.Body == nil {
			continue
		}
		direct[fn] = map[string]bool{}
		inspectNoLit(fn.Body, func(n ast.Node) bool {
			k, ok := n.(*ast.CallExpr)
			if !ok {
				return true
			}
			if sel, ok := k.Fun.(*ast.SelectorExpr); ok && (sel.Sel.Name == "Lock" || sel.Sel.Name == "RLock") {
				if cl := lockClass(fn, sel.X); cl != "" {
					direct[fn][cl] = true
				}
			}
			if o, ok := fn.Pkg.Callee(k).(*types.Func); ok {
				if g := pr.FuncOfObj(o); g != nil && g.Body != nil && g.Pkg.Rel == "exec" {
					calls[fn] = append(calls[fn], g)
				}
			}
			return true
		})
	}
	// transitive acquisitions (fixpoint)
	acq := map[*Func]map[string]bool{}
	for f, d := range direct {
		acq[f] = map[string]bool{}
		for k := range d {
			acq[f][k] = true
		}
	}
	for changed := true; changed; {
		changed = false
		for f, gs := range calls {
			for _, g := range gs {
				for k := range acq[g] {
					if !acq[f][k] {
						acq[f][k] = true
						changed = true
					}
				}
			}
		}
	}
	type site struct{ pos, fn string }
	edges := map[[2]string]site{}
	for _, fn := range funcs {
		if fn.Body == nil || len(acq[fn]) == 0 {
			continue
		}
		fl := pr.Flow(fn)
		encode := func(m map[string]string) string {
			var l []string
			for k, v := range m {
				l = append(l, k+"="+v)
			}
			sort.Strings(l)
			return strings.Join(l, ",")
		}
		decode := func(x string) map[string]string {
			m := map[string]string{}
			for _, kv := range strings.Split(x, ",") {
				if p := strings.SplitN(kv, "=", 2); len(p) == 2 {
					m[p[0]] = p[1]
				}
			}
			return m
		}
		init := map[string]string{}
		if kind, ok := lockRequired[fn.QName()]; ok {
			r := recvNameOf(fn)
			if kind == "self" {
				init[r] = "exec.Task"
			}
		}
		fl.Walk(fl.Entry(), encode(init), nil, Visitor{NoFacts: true,
			Node: func(nd ast.Node, x string, s *Step) (string, bool) {
				held := decode(x) // lock expression -> class
				if _, isDefer := nd.(*ast.DeferStmt); isDefer {
					return x, false
				}
				if _, isGo := nd.(*ast.GoStmt); isGo {
					return x, false
				}
				type ev struct {
					pos  int
					kind string
					key  string
					cls  []string
				}
				var evs []ev
				inspectNoLit(nd, func(m ast.Node) bool {
					k, ok := m.(*ast.CallExpr)
					if !ok {
						return true
					}
					if sel, ok := k.Fun.(*ast.SelectorExpr); ok {
						switch sel.Sel.Name {
						case "Lock", "RLock":
							if cl := lockClass(fn, sel.X); cl != "" {
								evs = append(evs, ev{int(k.End()), "lock", strings.ReplaceAll(expr(sel.X), " ", ""), []string{cl}})
							}
							return true
						case "Unlock", "RUnlock":
							evs = append(evs, ev{int(k.Pos()), "unlock", strings.ReplaceAll(expr(sel.X), " ", ""), nil})
							return true
						}
					}
					if o, ok := fn.Pkg.Callee(k).(*types.Func); ok {
						if g := pr.FuncOfObj(o); g != nil && len(acq[g]) > 0 {
							var cls []string
							for cl := range acq[g] {
								cls = append(cls, cl)
							}
							sort.Strings(cls)
							evs = append(evs, ev{int(k.Pos()), "call", g.QName(), cls})
						}
					}
					return true
				})
				sort.SliceStable(evs, func(i, j int) bool { return evs[i].pos < evs[j].pos })
				for _, e := range evs {
					switch e.kind {
					case "lock", "call":
						for _, hc := range held {
							for _, cl := range e.cls {
								if hc == cl {
									continue // re-acquiring the same class (different objects) is not ordered here
								}
								ek := [2]string{hc, cl}
								if _, seen := edges[ek]; !seen {
									what := "acquires " + cl
									if e.kind == "call" {
										what = "calls " + e.key + ", which acquires " + cl
									}
									edges[ek] = site{pr.Pos(nd.Pos()), fn.QName() + " " + what + " while holding " + hc}
								}
							}
						}
						if e.kind == "lock" {
							held[e.key] = e.cls[0]
						}
					case "unlock":
						delete(held, e.key)
					}
				}
				return encode(held), false
			}})
	}
	// cycles of length 2 (and longer, by DFS)
	var keys [][2]string
	for k := range edges {
		keys = append(keys, k)
	}
	sort.Slice(keys, func(i, j int) bool { return keys[i][0]+keys[i][1] < keys[j][0]+keys[j][1] })
	adj := map[string][]string{}
	for _, k := range keys {
		adj[k[0]] = append(adj[k[0]], k[1])
	}
	reach := func(from, to string) bool {
		seen := map[string]bool{}
		var dfs func(x string) bool
		dfs = func(x string) bool {
			if x == to {
				return true
			}
			if seen[x] {
				return false
			}
			seen[x] = true
			for _, y := range adj[x] {
				if dfs(y) {
					return true
				}
			}
			return false
		}
		for _, y := range adj[from] {
			if dfs(y) {
				return true
			}
		}
		return false
	}
	for _, k := range keys {
		back := reach(k[1], k[0])
		detail := ""
		if back {
			if s2, ok := edges[[2]string{k[1], k[0]}]; ok {
				detail = "; the opposite order: " + s2.fn + " (" + s2.pos + ")"
			}
		}
		c.Check(!back, "exec|lock-order:"+k[0]+"->"+k[1], edges[k].pos,
			edges[k].fn+", and elsewhere "+k[0]+" is acquired while "+k[1]+" is held"+detail+": two goroutines taking the two locks in opposite orders deadlock, and with an executor-wide lock every run and scan of the session blocks behind them")
	}
	c.Floor("lock-order edges", len(keys), 2)
}
