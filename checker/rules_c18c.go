package main

// C18-R8: the exact-shape clauses of the documented schemas.
//
// C18-R2 decides that a constructor calls the checks its schema needs and that
// their failing edges panic.  It cannot see a check that was *weakened*: the
// guard still exists and still panics for some inputs.  The documented schemas
// contain clauses of exact shape ("func(v, v) v with v the value column",
// "returns a single bool", "(int, error)") which the constructors test with
// comparisons in the condition of a typecheck panic.  Each such clause is
// listed below as "the constructor rejects when <linear form> REL 0" (read off
// the documentation of each constructor and confirmed against the source);
// the rule evaluates the conditions of the constructor's panic guards in
// three-valued logic under the scenario "this clause alone is violated,
// nothing else is known" and demands that some guard is then certainly taken.
// Operands are compared as linear forms over canonical atoms (parameters
// positional, the Func obtained from slicefunc.Of as $fn, single-definition
// locals expanded), so spelling, operand order, De Morgan rewrites and
// splitting or merging guards do not matter.
//
// Also decided here: slicefunc.Of drops the first parameter of a user function
// only when its type is identical (==) to context.Context.  Anything laxer
// (AssignableTo, Implements, Kind) strips interface{} parameters of user
// functions, after which every function-taking constructor checks the wrong
// signature.

import (
	"fmt"
	"go/ast"
	"go/token"
	"go/types"
	"os"
	"sort"
	"strings"
)

type c18clause struct {
	what string
	form lin    // the quantity
	rel  string // rejects when form REL 0: "!=", "<", ">", "=="
}

// T(p) is the last column of slice parameter p.
const c18lastCol0 = "$p0.Out($p0.NumOut()-1)"

var c18exact = map[string][]c18clause{
	".Reduce": {
		{"exactly one value column", lin{"$p0.NumOut()": 1, "$p0.Prefix()": -1, "": -1}, "!="},
		{"the combiner takes two arguments", lin{"$fn.In.NumOut()": 1, "": -2}, "!="},
		{"the combiner's first argument is the value column's type", lin{"$fn.In.Out(0)": 1, c18lastCol0: -1}, "!="},
		{"the combiner's second argument is the value column's type", lin{"$fn.In.Out(1)": 1, c18lastCol0: -1}, "!="},
		{"the combiner returns one value", lin{"$fn.Out.NumOut()": 1, "": -1}, "!="},
		{"the combiner returns the value column's type", lin{"$fn.Out.Out(0)": 1, c18lastCol0: -1}, "!="},
	},
	".Filter": {
		{"the predicate returns one value", lin{"$fn.Out.NumOut()": 1, "": -1}, "!="},
		{"the predicate returns a bool", lin{"$fn.Out.Out(0).Kind()": 1, "": -1}, "!="}, // reflect.Bool == 1
	},
	".Fold": {
		{"at least two columns", lin{"$p0.NumOut()": 1, "": -2}, "<"},
		{"the fold function returns one value", lin{"$fn.Out.NumOut()": 1, "": -1}, "!="},
	},
	".Map": {
		{"at least one output column", lin{"$fn.Out.NumOut()": 1}, "=="},
	},
	".ReaderFunc": {
		{"shard, state and at least one column", lin{"$fn.In.NumOut()": 1, "": -3}, "<"},
		{"the first parameter is the shard (int)", lin{"$fn.In.Out(0).Kind()": 1, "": -2}, "!="}, // reflect.Int == 2
		{"returns (int, error): two results", lin{"$fn.Out.NumOut()": 1, "": -2}, "!="},
		{"returns (int, error): int first", lin{"$fn.Out.Out(0).Kind()": 1, "": -2}, "!="},
		{"returns (int, error): error second", lin{"$fn.Out.Out(1)": 1, "typeOfError": -1}, "!="},
	},
	".Prefixed": {
		{"prefix of at least one column", lin{"$p1": 1, "": -1}, "<"},
		{"prefix within the columns", lin{"$p1": 1, "$p0.NumOut()": -1}, ">"},
	},
	".Const": {
		{"at least one column", lin{"len($p1)": 1}, "=="},
		{"at least one shard", lin{"$p0": 1, "": -1}, "<"},
	},
	".Cogroup": {
		{"at least one slice", lin{"len($p0)": 1}, "=="},
		{"every slice has columns", lin{"$p0[*].NumOut()": 1}, "=="},
		{"every slice has the key prefix of the first", lin{"$p0[*].Prefix()": 1, "len(@[]reflect.Type.0)": -1}, "!="},
		{"every slice has the key column types of the first", lin{"$p0[*].Out(@[]reflect.Type.0[#])": 1, "@[]reflect.Type.0[@[]reflect.Type.0[#]]": -1}, "!="},
	},
	".Func": {
		{"the argument is a func", lin{"reflect.ValueOf($p0).Type().Kind()": 1, "": -19}, "!="}, // reflect.Func == 19
		{"one result", lin{"reflect.ValueOf($p0).Type().NumOut()": 1, "": -1}, "!="},
		{"the result is a Slice", lin{"reflect.ValueOf($p0).Type().Out(0)": 1, "typeOfSlice": -1}, "!="},
	},
}

func linEq(a, b lin, k int) bool {
	d := lin{}
	d.addScaled(a, 1)
	d.addScaled(b, -k)
	return len(nonZero(d)) == 0
}

// truthUnder: the value of `d op 0` given that `d rel 0` holds; known=false
// when the scenario does not decide it.
func truthUnder(op token.Token, rel string) (bool, bool) {
	type k struct {
		op  token.Token
		rel string
	}
	table := map[k]bool{
		{token.NEQ, "!="}: true, {token.EQL, "!="}: false,
		{token.LSS, "<"}: true, {token.LEQ, "<"}: true, {token.NEQ, "<"}: true, {token.EQL, "<"}: false, {token.GTR, "<"}: false, {token.GEQ, "<"}: false,
		{token.GTR, ">"}: true, {token.GEQ, ">"}: true, {token.NEQ, ">"}: true, {token.EQL, ">"}: false, {token.LSS, ">"}: false, {token.LEQ, ">"}: false,
		{token.EQL, "=="}: true, {token.LEQ, "=="}: true, {token.GEQ, "=="}: true, {token.NEQ, "=="}: false, {token.LSS, "=="}: false, {token.GTR, "=="}: false,
	}
	v, ok := table[k{op, rel}]
	return v, ok
}

func flipRel(rel string) string {
	switch rel {
	case "<":
		return ">"
	case ">":
		return "<"
	}
	return rel
}

// evalCond3 is evalCond in Kleene's three-valued logic.
func evalCond3(e ast.Expr, atom func(ast.Expr) (bool, bool)) (bool, bool) {
	e = ast.Unparen(e)
	switch x := e.(type) {
	case *ast.UnaryExpr:
		if x.Op == token.NOT {
			v, ok := evalCond3(x.X, atom)
			return !v, ok
		}
	case *ast.BinaryExpr:
		switch x.Op {
		case token.LAND:
			a, ok1 := evalCond3(x.X, atom)
			b, ok2 := evalCond3(x.Y, atom)
			if (ok1 && !a) || (ok2 && !b) {
				return false, true
			}
			return a && b, ok1 && ok2
		case token.LOR:
			a, ok1 := evalCond3(x.X, atom)
			b, ok2 := evalCond3(x.Y, atom)
			if (ok1 && a) || (ok2 && b) {
				return true, true
			}
			return a || b, ok1 && ok2
		}
	}
	return atom(e)
}

func c18r8(c *RC) {
	pr := c.P
	ctors := map[string]*Func{}
	for _, fn := range c18constructors(pr) {
		ctors[fn.QName()] = fn
	}
	var names []string
	for k := range c18exact {
		names = append(names, k)
	}
	sort.Strings(names)
	n := 0
	for _, q := range names {
		fn := ctors[q]
		if fn == nil {
			c.Undecide("constructor %s not found", q)
			continue
		}
		le := newLinEnv(pr, fn)
		// the local holding the Func made from the user's function
		fnLocal := ""
		inspectNoLit(fn.Body, func(nd ast.Node) bool {
			if as, ok := nd.(*ast.AssignStmt); ok && len(as.Rhs) == 1 && len(as.Lhs) == 2 {
				if k, ok := as.Rhs[0].(*ast.CallExpr); ok && fn.Pkg.CalleeName(k) == "slicefunc.Of" {
					fnLocal = expr(as.Lhs[0])
				}
			}
			return true
		})
		// single-definition locals are expanded inside atoms too, so that no
		// local name survives in a term
		expand := func(t string) string {
			for depth := 0; depth < 4; depth++ {
				before := t
				for o, d := range le.defs {
					if _, isCall := ast.Unparen(d).(*ast.CallExpr); !isCall {
						if _, isSel := ast.Unparen(d).(*ast.SelectorExpr); !isSel {
							continue
						}
					}
					t = replaceWord(t, o.Name(), canon(fn, d))
				}
				if t == before {
					break
				}
			}
			return t
		}
		roles := c18localRoles(fn, le, fnLocal)
		norm := func(e ast.Expr) lin {
			l := le.norm(e, 0)
			out := lin{}
			for t, k := range l {
				if fnLocal != "" {
					t = replaceWord(t, fnLocal, "$fn")
				}
				for _, r := range roles {
					t = replaceWord(t, r[0], r[1])
				}
				t = expand(t)
				if fnLocal != "" {
					t = strings.ReplaceAll(replaceWord(t, fnLocal, "$fn"), "$$fn", "$fn")
				}
				for _, r := range roles {
					t = replaceWord(t, r[0], r[1])
				}
				if os.Getenv("BSVET_C18_DEBUG") != "" {
					fmt.Fprintf(os.Stderr, "c18r8 %s: term %q\n", q, t)
				}
				out[t] += k
			}
			return out
		}
		// panic guards: if statements whose body certainly panics with a typecheck error
		var guards []*ast.IfStmt
		inspectNoLit(fn.Body, func(nd ast.Node) bool {
			ifs, ok := nd.(*ast.IfStmt)
			if !ok || len(ifs.Body.List) == 0 {
				return true
			}
			if es, ok := ifs.Body.List[0].(*ast.ExprStmt); ok {
				if k, ok := es.X.(*ast.CallExpr); ok && isTypecheckPanic(fn.Pkg, k) {
					guards = append(guards, ifs)
				}
			}
			return true
		})
		for _, cl := range c18exact[q] {
			n++
			// "differs" is decided as "smaller" and "greater" separately, so that a
			// test spelled x < k || x > k counts
			rels := []string{cl.rel}
			if cl.rel == "!=" {
				rels = []string{"<", ">"}
			}
			rejected := true
			for _, rel := range rels {
				cl := c18clause{cl.what, cl.form, rel}
				taken := false
				for _, g := range guards {
					v, known := evalCond3(g.Cond, func(e ast.Expr) (bool, bool) {
						be, ok := ast.Unparen(e).(*ast.BinaryExpr)
						if !ok {
							return false, false
						}
						switch be.Op {
						case token.EQL, token.NEQ, token.LSS, token.LEQ, token.GTR, token.GEQ:
						default:
							return false, false
						}
						d := norm(be.X)
						d.addScaled(norm(be.Y), -1)
						// d = s*F + c for the clause's quantity F (integers): the
						// scenario bounds F, hence d, and `d op 0` is decided when it
						// has one value over the whole range
						for _, sgn := range []int{1, -1} {
							rest := lin{}
							rest.addScaled(d, 1)
							rest.addScaled(cl.form, -sgn)
							nz := nonZero(rest)
							if len(nz) > 1 || (len(nz) == 1 && nz[0] != "") {
								continue
							}
							return truthInRange(be.Op, cl.rel, sgn, int64(rest[""]))
						}
						return false, false
					})
					if known && v {
						taken = true
					}
				}
				if !taken {
					rejected = false
				}
			}
			c.Check(rejected, q+"|rejects:"+cl.what, pr.Pos(fn.Body.Pos()),
				fmt.Sprintf("%s no longer certainly rejects an argument that violates \"%s\" (%s %s 0): no typecheck-panic guard is taken when this clause alone fails, so a combination outside the documented schema is accepted and misbehaves at run time", strings.TrimPrefix(q, "."), cl.what, cl.form.String(), cl.rel))
		}
	}
	c.Floor("exact-shape clauses", n, 27)

	// slicefunc.Of: the context parameter is recognised by identity
	of := pr.Fn("slicefunc.Of")
	if of == nil {
		c.Undecide("slicefunc.Of not found")
		return
	}
	le := newLinEnv(pr, of)
	m := 0
	inspectNoLit(of.Body, func(nd ast.Node) bool {
		as, ok := nd.(*ast.AssignStmt)
		if !ok || len(as.Lhs) != 1 || len(as.Rhs) != 1 {
			return true
		}
		se, ok := as.Rhs[0].(*ast.SliceExpr)
		if !ok || expr(se.X) != expr(as.Lhs[0]) || se.Low == nil || se.High != nil {
			return true
		}
		if v, isC := constInt(of.Pkg, se.Low); !isC || v != 1 {
			return true
		}
		tv, okT := of.Pkg.Info.Types[se.X]
		if !okT || typeString(tv.Type) != "[]reflect.Type" {
			return true
		}
		m++
		vec := expr(se.X)
		// the guard of the drop
		var guard ast.Expr
		for _, p := range pathTo(of.Body, as) {
			if ifs, ok := p.(*ast.IfStmt); ok && as.Pos() >= ifs.Body.Pos() && as.End() <= ifs.Body.End() {
				guard = ifs.Cond
			}
		}
		okG := false
		why := "the first parameter is dropped unconditionally"
		if guard != nil {
			// expand a single-definition bool local
			if id, ok := ast.Unparen(guard).(*ast.Ident); ok {
				if d, ok := le.defs[of.Pkg.Info.Uses[id]]; ok {
					guard = d
				}
			}
			why = "the first parameter is dropped without comparing its type for identity (==) with context.Context"
			for _, cj := range conjuncts(guard) {
				be, ok := ast.Unparen(cj).(*ast.BinaryExpr)
				if !ok || be.Op != token.EQL {
					continue
				}
				for _, pair := range [][2]ast.Expr{{be.X, be.Y}, {be.Y, be.X}} {
					first, ctx := pair[0], pair[1]
					ix, isIx := ast.Unparen(first).(*ast.IndexExpr)
					if !isIx || expr(ix.X) != vec {
						continue
					}
					if z, isC := constInt(of.Pkg, ix.Index); !isC || z != 0 {
						continue
					}
					if id, ok := ast.Unparen(ctx).(*ast.Ident); ok {
						if v, ok := of.Pkg.Info.Uses[id].(*types.Var); ok && v.Parent() == of.Pkg.Types.Scope() && c18initMentions(of.Pkg, v, "context.Context") {
							okG = true
						}
					}
				}
			}
		}
		c.Check(okG, "slicefunc.Of|context-parameter-by-identity", pr.Pos(as.Pos()), why+": a user function whose first parameter is an interface that context.Context satisfies (interface{}, ...) loses that parameter, and every function-taking constructor then checks, and later calls, the wrong signature")
		return true
	})
	c.Floor("context-parameter drop in slicefunc.Of", m, 1)
}

// c18initMentions: the package-level variable v is initialised by an
// expression whose text mentions s.
func c18initMentions(pk *Pkg, v *types.Var, s string) bool {
	found := false
	for _, f := range pk.Files {
		for _, d := range f.Decls {
			gd, ok := d.(*ast.GenDecl)
			if !ok {
				continue
			}
			for _, sp := range gd.Specs {
				vs, ok := sp.(*ast.ValueSpec)
				if !ok {
					continue
				}
				for i, nm := range vs.Names {
					if pk.Info.Defs[nm] == types.Object(v) && i < len(vs.Values) && strings.Contains(expr(vs.Values[i]), s) {
						found = true
					}
				}
			}
		}
	}
	return found
}

// c18localRoles names the locals of a constructor that cannot be expanded to
// their single definition by what they stand for, so that no clause depends
// on how a local is spelled: the value (key) variable of a `range` over E is
// "E[*]" ("E[#]"); a field of a local that is stored exactly once
// (`s.nshard = nshard`) is the stored expression; a local assigned more than
// once is "@T" when it is the only such local of type T.  Returned as
// (word, replacement) pairs, longest word first, applied to the text of each
// term before the single-definition expansion.
func c18localRoles(fn *Func, le *linEnv, skip string) [][2]string {
	var out [][2]string
	pk := fn.Pkg
	// multi-definition locals, unique by type
	byType := map[string][]string{}
	seen := map[types.Object]bool{}
	inspectNoLit(fn.Body, func(nd ast.Node) bool {
		id, ok := nd.(*ast.Ident)
		if !ok {
			return true
		}
		o, ok := pk.Info.Defs[id].(*types.Var)
		if !ok || o.IsField() || seen[o] {
			return true
		}
		seen[o] = true
		if _, single := le.defs[o]; single {
			return true
		}
		if o.Name() == skip {
			return true
		}
		byType[typeString(o.Type())] = append(byType[typeString(o.Type())], o.Name())
		return true
	})
	rangeVars := map[string]bool{}
	inspectNoLit(fn.Body, func(nd ast.Node) bool {
		if rs, ok := nd.(*ast.RangeStmt); ok {
			for _, e := range []ast.Expr{rs.Key, rs.Value} {
				if id, ok := e.(*ast.Ident); ok {
					rangeVars[id.Name] = true
				}
			}
		}
		return true
	})
	typed := map[string]string{}
	for t, names := range byType {
		var ns []string
		for _, n := range names {
			if !rangeVars[n] && n != "_" {
				ns = append(ns, n)
			}
		}
		// unique by type, or else numbered in declaration order
		for i, n := range ns {
			if len(ns) == 1 {
				typed[n] = "@" + t
			} else {
				typed[n] = "@" + t + "." + itoa(i)
			}
		}
	}
	sub := func(t string) string {
		t = canonText(fn, strings.ReplaceAll(t, " ", ""))
		for n, r := range typed {
			t = replaceWord(t, n, r)
		}
		return t
	}
	// range variables (names that are bound by exactly one range statement)
	count := map[string]int{}
	bind := map[string]string{}
	bindAll := map[string]map[string]bool{}
	noteBind := func(n, b string) {
		if bindAll[n] == nil {
			bindAll[n] = map[string]bool{}
		}
		bindAll[n][b] = true
	}
	inspectNoLit(fn.Body, func(nd ast.Node) bool {
		rs, ok := nd.(*ast.RangeStmt)
		if !ok {
			return true
		}
		if id, ok := rs.Key.(*ast.Ident); ok && id.Name != "_" {
			count[id.Name]++
			bind[id.Name] = sub(expr(rs.X)) + "[#]"
			noteBind(id.Name, bind[id.Name])
		}
		if id, ok := rs.Value.(*ast.Ident); ok && id.Name != "_" {
			count[id.Name]++
			bind[id.Name] = sub(expr(rs.X)) + "[*]"
			noteBind(id.Name, bind[id.Name])
		}
		return true
	})
	// fields of locals stored exactly once
	fcount := map[string]int{}
	fdef := map[string]string{}
	inspectNoLit(fn.Body, func(nd ast.Node) bool {
		as, ok := nd.(*ast.AssignStmt)
		if !ok {
			return true
		}
		for i, l := range as.Lhs {
			se, ok := l.(*ast.SelectorExpr)
			if !ok {
				continue
			}
			id, ok := se.X.(*ast.Ident)
			if !ok {
				continue
			}
			if v, ok := pk.Info.Uses[id].(*types.Var); !ok || v.Parent() == nil || v.Parent() == pk.Types.Scope() {
				continue
			}
			key := canonText(fn, strings.ReplaceAll(expr(se), " ", ""))
			fcount[key]++
			if as.Tok == token.ASSIGN && len(as.Lhs) == len(as.Rhs) {
				fdef[key] = sub(expr(as.Rhs[i]))
			}
		}
		return true
	})
	for k, n := range fcount {
		if n == 1 && fdef[k] != "" {
			out = append(out, [2]string{k, fdef[k]})
		}
	}
	for n := range count {
		if len(bindAll[n]) == 1 {
			out = append(out, [2]string{n, bind[n]})
		}
	}
	for n, r := range typed {
		out = append(out, [2]string{n, r})
	}
	sort.Slice(out, func(i, j int) bool {
		if len(out[i][0]) != len(out[j][0]) {
			return len(out[i][0]) > len(out[j][0])
		}
		return out[i][0] < out[j][0]
	})
	return out
}

// truthInRange: the value of `d op 0` for d = sgn*F + c, F an integer with
// `F rel 0` (rel one of "==", "<", ">"); known=false when it differs over the
// range.
func truthInRange(op token.Token, rel string, sgn int, c int64) (bool, bool) {
	const inf = int64(1) << 40
	var lo, hi int64
	switch rel {
	case "==":
		lo, hi = 0, 0
	case "<":
		lo, hi = -inf, -1
	case ">":
		lo, hi = 1, inf
	default:
		return false, false
	}
	if sgn < 0 {
		lo, hi = -hi, -lo
	}
	if lo > -inf {
		lo += c
	}
	if hi < inf {
		hi += c
	}
	decide := func(allTrue, allFalse bool) (bool, bool) {
		switch {
		case allTrue:
			return true, true
		case allFalse:
			return false, true
		}
		return false, false
	}
	switch op {
	case token.LSS:
		return decide(hi < 0, lo >= 0)
	case token.LEQ:
		return decide(hi <= 0, lo > 0)
	case token.GTR:
		return decide(lo > 0, hi <= 0)
	case token.GEQ:
		return decide(lo >= 0, hi < 0)
	case token.EQL:
		return decide(lo == 0 && hi == 0, hi < 0 || lo > 0)
	case token.NEQ:
		return decide(hi < 0 || lo > 0, lo == 0 && hi == 0)
	}
	return false, false
}
