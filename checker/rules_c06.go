package main

import (
	"fmt"
	"go/ast"
	"go/token"
	"go/types"
	"sort"
	"strings"
)

func init() {
	registerProperty(&Property{
		ID:          "C06",
		Explanation: "Decides structural necessary conditions of failure surfacing: (R1) from every goroutine entry of the executors (Executor.Run implementations, the worker's RPC handlers, and every goroutine they spawn), each call that can reach user code — slicefunc.Func.Call, a task's Partitioner, Invocation.Invoke, a Read on a reader produced by task.Do or by the combiner's reducing merge, and every module function that transitively contains such a call — executes inside an activation that installed `defer func(){ recover() }` on all paths before the call; (R2) a shared combine buffer taken from its channel is put back by a defer whenever a user-reaching call sits between take and put; (R3) the two operators that receive a user error keep end-of-stream and temporary errors as they are and wrap everything else Fatal, store it sticky, and the writer's error cannot mask a read error; (R4 = C02-R2) fatal errors make the task ERR, everything else LOST; (R5) every recover handler formats the recovered value into the error it reports, with Fatal severity; (R6) the worker marks a task OK only on the path where its run returned no error; (R7) when a combining task fails, the worker-resident combine buffers it fed are discarded and the combine key returns to its initial state, so that a retry does not add the same rows again. Not decided: retry counts actually observed, session reuse afterwards, crashes for other reasons than an unrecovered panic.",
		Rules: []Rule{
			{ID: "C06-R1", Doc: "recover covers every user-reaching call", Run: c06r1},
			{ID: "C06-R2", Doc: "channel-held combiners survive a panic", Run: c06r2},
			{ID: "C06-R3", Doc: "application errors are fatal unless temporary or end-of-stream", Run: c06r3},
			{ID: "C02-R2", Doc: "fatal => ERR, else LOST (shared)", Run: c02r2},
			{ID: "C03-R4", Doc: "retries are bounded per run of consecutive losses; a success ends the run (shared)", Run: c03r4},
			{ID: "C06-R5", Doc: "panic text is kept, with fatal severity", Run: c06r5},
			{ID: "C06-R6", Doc: "worker never reports a half-run task OK", Run: c06r6},
			{ID: "C06-R7", Doc: "a failed combining attempt leaves nothing behind for its retry", Run: c06r7},
			{ID: "C06-R8", Doc: "a recover handler notices every panic, panic(nil) included", Run: c06r8},
			{ID: "C12-R8", Doc: "a failed task carries the error that decided it (local executor) (shared)", Run: c12r8},
			{ID: "C14-R7", Doc: "the local executor returns its procs on every exit, so a failed task does not cost the session its parallelism (shared)", Run: c14r7},
			{ID: "C17-R1", Doc: "the error of a user-supplied reader is reported by every operator reader above it, never turned into a clean, shorter result (shared)", Run: c17r1},
			{ID: "C05-R3", Doc: "a Repartition function's result is used as given, so an out-of-range shard fails the task instead of being filed elsewhere (shared)", Run: c05r3},
		},
	})
}

// ---- user-reaching analysis ------------------------------------------------

type userReach struct {
	pr *Prog
	// direct[fn] = direct user-call sites in fn (not in nested literals)
	direct map[*Func][]*ast.CallExpr
	why    map[*ast.CallExpr]string
	// callees[fn] = module functions called statically from fn (incl. literals run synchronously)
	reach map[*Func]bool
}

// readerFromUser: within fn, the set of identifiers holding readers that run
// user code: assigned from task.Do(...), from (*combiner).Reader(), from
// sortio.Reduce, or parameters that receive such a value at some call site.
func (u *userReach) userReaders(fn *Func, paramSeeds map[*Func]map[string]bool) map[types.Object]bool {
	out := map[types.Object]bool{}
	if fn.Type != nil && fn.Type.Params != nil {
		for _, f := range fn.Type.Params.List {
			for _, nm := range f.Names {
				if paramSeeds[fn][nm.Name] {
					out[fn.Pkg.Info.Defs[nm]] = true
				}
			}
		}
	}
	if fn.Body == nil {
		return out
	}
	if fn.Parent != nil && fn.Parent.Body != nil {
		// a literal sees the readers its enclosing function holds
		for o := range u.userReaders(fn.Parent, paramSeeds) {
			out[o] = true
		}
	}
	pr := u.pr
	ast.Inspect(fn.Body, func(n ast.Node) bool {
		if _, ok := n.(*ast.FuncLit); ok && n != ast.Node(fn.Lit) {
			return false
		}
		a, ok := n.(*ast.AssignStmt)
		if !ok || len(a.Rhs) != 1 {
			return true
		}
		call, ok := ast.Unparen(a.Rhs[0]).(*ast.CallExpr)
		if !ok {
			return true
		}
		src := false
		if sel, ok := call.Fun.(*ast.SelectorExpr); ok && pr.fieldQName(fn.Pkg.FieldOf(sel)) == "exec.Task.Do" {
			src = true
		}
		switch fn.Pkg.CalleeName(call) {
		case "exec.(*combiner).Reader", "sortio.Reduce":
			src = true
		}
		if src {
			if id, ok := a.Lhs[0].(*ast.Ident); ok {
				if o := fn.Pkg.Info.Defs[id]; o != nil {
					out[o] = true
				} else if o := fn.Pkg.Info.Uses[id]; o != nil {
					out[o] = true
				}
			}
		}
		return true
	})
	return out
}

func buildUserReach(pr *Prog) *userReach {
	u := &userReach{pr: pr, direct: map[*Func][]*ast.CallExpr{}, why: map[*ast.CallExpr]string{}, reach: map[*Func]bool{}}
	pkgs := []string{"exec", "", "sortio", "sliceio", "internal/slicecache"}
	var fns []*Func
	for _, rel := range pkgs {
		fns = append(fns, pr.FuncsIn(rel)...)
	}
	// parameter seeds: readers passed as arguments
	paramSeeds := map[*Func]map[string]bool{}
	for iter := 0; iter < 3; iter++ {
		for _, fn := range fns {
			if fn.Body == nil {
				continue
			}
			rd := u.userReaders(fn, paramSeeds)
			for _, call := range directCalls(fn.Body) {
				cf := pr.Fn(fn.Pkg.CalleeName(call))
				if cf == nil || cf.Type.Params == nil {
					continue
				}
				var pnames []string
				for _, f := range cf.Type.Params.List {
					for _, nm := range f.Names {
						pnames = append(pnames, nm.Name)
					}
				}
				for i, a := range call.Args {
					isUser := false
					if id, ok := a.(*ast.Ident); ok && rd[fn.Pkg.Info.Uses[id]] {
						isUser = true
					}
					if k, ok := a.(*ast.CallExpr); ok {
						if sel, ok := k.Fun.(*ast.SelectorExpr); ok && pr.fieldQName(fn.Pkg.FieldOf(sel)) == "exec.Task.Do" {
							isUser = true
						}
					}
					if isUser && i < len(pnames) {
						if paramSeeds[cf] == nil {
							paramSeeds[cf] = map[string]bool{}
						}
						paramSeeds[cf][pnames[i]] = true
					}
				}
			}
		}
	}
	for _, fn := range fns {
		if fn.Body == nil {
			continue
		}
		rd := u.userReaders(fn, paramSeeds)
		for _, call := range directCalls(fn.Body) {
			cn := fn.Pkg.CalleeName(call)
			why := ""
			switch {
			case cn == "slicefunc.Func.Call":
				why = "calls the user function through slicefunc.Func.Call"
			case cn == ".Invocation.Invoke":
				why = "invokes the user's Func (Invocation.Invoke)"
			}
			if sel, ok := call.Fun.(*ast.SelectorExpr); ok {
				switch pr.fieldQName(fn.Pkg.FieldOf(sel)) {
				case "exec.Task.Partitioner":
					why = "calls the task's Partitioner (Repartition wraps a user function)"
				case ".scanSlice.scan":
					why = "calls the user's scan callback"
				}
				if sel.Sel.Name == "Read" && isReaderRead(pr, fn.Pkg, call) {
					if id, ok := ast.Unparen(sel.X).(*ast.Ident); ok && rd[fn.Pkg.Info.Uses[id]] {
						why = "reads from " + id.Name + ", a reader that runs user code (task.Do / reducing merge)"
					}
				}
			}
			if why != "" {
				u.direct[fn] = append(u.direct[fn], call)
				u.why[call] = why
			}
		}
	}
	// fixpoint over static callees (and synchronous literals)
	changed := true
	for _, fn := range fns {
		if len(u.direct[fn]) > 0 {
			u.reach[fn] = true
		}
	}
	for changed {
		changed = false
		for _, fn := range fns {
			if fn.Body == nil || u.reach[fn] {
				continue
			}
			hit := false
			for _, call := range directCalls(fn.Body) {
				if cf := pr.Fn(fn.Pkg.CalleeName(call)); cf != nil && u.reach[cf] {
					hit = true
				}
			}
			for _, l := range fn.Lits {
				if u.reach[l] {
					hit = true
				}
			}
			if hit {
				u.reach[fn] = true
				changed = true
			}
		}
	}
	return u
}

// litIsGoroutine: the literal is the operand of `go`, of `defer`, or of
// errgroup.Group.Go in its parent.
func litIsGoroutine(parent *Func, l *Func) bool {
	if parent.Body == nil {
		return false
	}
	res := false
	ast.Inspect(parent.Body, func(n ast.Node) bool {
		switch x := n.(type) {
		case *ast.GoStmt:
			if x.Call.Fun == ast.Expr(l.Lit) {
				res = true
			}
		case *ast.CallExpr:
			if parent.Pkg.CalleeName(x) == "golang.org/x/sync/errgroup.(*Group).Go" && len(x.Args) == 1 && x.Args[0] == ast.Expr(l.Lit) {
				res = true
			}
		}
		return true
	})
	return res
}

func litIsDeferred(parent *Func, l *Func) bool {
	res := false
	if parent.Body == nil {
		return false
	}
	ast.Inspect(parent.Body, func(n ast.Node) bool {
		if d, ok := n.(*ast.DeferStmt); ok && d.Call.Fun == ast.Expr(l.Lit) {
			res = true
		}
		return true
	})
	return res
}

// recoverDefers returns the defer statements of fn whose function literal
// calls recover().
func recoverDefers(fn *Func) []*ast.DeferStmt {
	var out []*ast.DeferStmt
	if fn.Body == nil {
		return nil
	}
	ast.Inspect(fn.Body, func(n ast.Node) bool {
		if _, isLit := n.(*ast.FuncLit); isLit && n != ast.Node(fn.Lit) {
			// nested literals are functions of their own
			return false
		}
		d, ok := n.(*ast.DeferStmt)
		if !ok {
			return true
		}
		lit, ok := d.Call.Fun.(*ast.FuncLit)
		if !ok {
			return true
		}
		has := false
		ast.Inspect(lit.Body, func(m ast.Node) bool {
			if c, ok := m.(*ast.CallExpr); ok {
				if id, ok := c.Fun.(*ast.Ident); ok && id.Name == "recover" {
					has = true
				}
			}
			return true
		})
		if has {
			out = append(out, d)
		}
		return false
	})
	return out
}

// coveredAt: on every path from fn's entry to the node holding call, a
// recover-defer has been installed.
func coveredAt(pr *Prog, fn *Func, call *ast.CallExpr) bool {
	defs := recoverDefers(fn)
	if len(defs) == 0 {
		return false
	}
	fl := pr.Flow(fn)
	loc, ok := fl.LocOf(call)
	if !ok {
		return false
	}
	dom, _ := fl.Dominated(loc, func(n ast.Node, s *Step) bool {
		for _, d := range defs {
			if n == ast.Node(d) {
				return true
			}
		}
		return false
	})
	return dom
}

func c06r1(c *RC) {
	pr := c.P
	u := buildUserReach(pr)
	// entries
	type entry struct {
		fn   *Func
		desc string
	}
	var entries []entry
	if iface := pr.lookupIface("exec", "Executor"); iface != nil {
		for _, f := range pr.implementers(iface, "Run") {
			entries = append(entries, entry{f, "Executor.Run (started with `go` by Eval)"})
		}
	}
	for _, fn := range pr.FuncsIn("exec") {
		if fn.Decl == nil || fn.Decl.Recv == nil || !strings.HasPrefix(fn.Name, "(*worker).") || !fn.Decl.Name.IsExported() {
			continue
		}
		if fn.Type.Params != nil && len(fn.Type.Params.List) >= 1 && strings.Contains(expr(fn.Type.Params.List[0].Type), "context.Context") {
			entries = append(entries, entry{fn, "worker RPC handler"})
		}
	}
	c.Floor("goroutine entries (executors and RPC handlers)", len(entries), 5)
	nsites := 0
	type memoKey struct {
		fn      *Func
		covered bool
	}
	seen := map[memoKey]bool{}
	var explore func(fn *Func, covered bool, chain []string, entryDesc string)
	explore = func(fn *Func, covered bool, chain []string, entryDesc string) {
		k := memoKey{fn, covered}
		if seen[k] || fn.Body == nil {
			return
		}
		seen[k] = true
		chain = append(append([]string{}, chain...), fn.QName())
		// direct user calls
		for _, call := range u.direct[fn] {
			nsites++
			cov := covered || coveredAt(pr, fn, call)
			key := fmt.Sprintf("%s|user-call:%s|via:%s", fn.QName(), callKey(fn, call), chain[0])
			c.Check(cov, key, pr.Pos(call.Pos()),
				fmt.Sprintf("%s: this %s with no recover installed on the call chain %s (entry: %s): a panic in user code kills the process (or the goroutine's owner never learns of it) instead of surfacing as an error from Run", expr(call.Fun), u.why[call], strings.Join(chain, " -> "), entryDesc))
		}
		// calls into user-reaching module functions
		for _, call := range directCalls(fn.Body) {
			cf := pr.Fn(fn.Pkg.CalleeName(call))
			if cf == nil || !u.reach[cf] {
				continue
			}
			// started as a goroutine?
			par := parentOf(fn.Body, call)
			if _, isGo := par.(*ast.GoStmt); isGo {
				explore(cf, false, []string{fn.QName() + " (go)"}, "goroutine started by "+fn.QName())
				continue
			}
			if _, isDefer := par.(*ast.DeferStmt); isDefer {
				// runs during unwinding: covered only by recovers of outer activations
				explore(cf, covered, chain, entryDesc)
				continue
			}
			explore(cf, covered || coveredAt(pr, fn, call), chain, entryDesc)
		}
		for _, l := range fn.Lits {
			if !u.reach[l] {
				continue
			}
			if litIsGoroutine(fn, l) {
				explore(l, false, []string{fn.QName() + " (goroutine)"}, "goroutine started by "+fn.QName())
				continue
			}
			if litIsDeferred(fn, l) {
				explore(l, covered, chain, entryDesc)
				continue
			}
			// run synchronously by the callee it is handed to (once.Map.Do, pprof.Do, ...)
			cov := covered
			if !cov {
				// installed before the literal's creation point?
				fl := pr.Flow(fn)
				if loc, ok := fl.LocOf(l.Lit); ok {
					defs := recoverDefers(fn)
					if len(defs) > 0 {
						dom, _ := fl.Dominated(loc, func(n ast.Node, s *Step) bool {
							for _, d := range defs {
								if n == ast.Node(d) {
									return true
								}
							}
							return false
						})
						cov = dom
					}
				}
			}
			explore(l, cov, chain, entryDesc)
		}
	}
	for _, e := range entries {
		explore(e.fn, false, nil, e.desc)
	}
	// goroutines spawned from functions not reached above (e.g. `go w.writeCombiner`) are found through explore's go handling
	c.Floor("user-reaching call sites on executor paths", nsites, 5)
	var reach []string
	for f := range u.reach {
		reach = append(reach, f.QName())
	}
	sort.Strings(reach)
	c.Note("%d module functions can reach user code: %s", len(reach), strings.Join(reach, ", "))
}

func callKey(fn *Func, call *ast.CallExpr) string {
	// line-independent identity: callee text + ordinal among same text in fn
	txt := expr(call.Fun)
	n := 0
	for _, k := range directCalls(fn.Body) {
		if expr(k.Fun) == txt {
			n++
			if k == call {
				break
			}
		}
	}
	return fmt.Sprintf("%s#%d", txt, n)
}

func c06r2(c *RC) {
	pr := c.P
	u := buildUserReach(pr)
	n := 0
	for _, fn := range pr.FuncsIn("exec") {
		if fn.Body == nil {
			continue
		}
		fl := pr.Flow(fn)
		for _, b := range fl.G.Blocks {
			if !b.Live {
				continue
			}
			for i, nd := range b.Nodes {
				// take: x := <-ch / x = <-ch  with ch of type chan *combiner
				var lhs string
				var recv *ast.UnaryExpr
				switch a := nd.(type) {
				case *ast.AssignStmt:
					if len(a.Rhs) == 1 {
						if ue, ok := ast.Unparen(a.Rhs[0]).(*ast.UnaryExpr); ok && ue.Op == token.ARROW {
							recv, lhs = ue, expr(a.Lhs[0])
						}
					}
				}
				if recv == nil {
					continue
				}
				tv := fn.Pkg.Info.Types[recv.X]
				if tv.Type == nil {
					continue
				}
				ch, ok := tv.Type.Underlying().(*types.Chan)
				if !ok || !strings.HasSuffix(typeString(ch.Elem()), "exec.combiner") {
					continue
				}
				n++
				chExpr := expr(recv.X)
				// a take that is the comm of a select clause happens only when that
				// clause is chosen: start at the clause's body
				start := Loc{b, i + 1}
				ast.Inspect(fn.Body, func(m ast.Node) bool {
					if cc, ok := m.(*ast.CommClause); ok && cc.Comm == nd {
						for _, b2 := range fl.G.Blocks {
							if b2.Live && b2.Kind.String() == "SelectCaseBody" && b2.Stmt == ast.Stmt(cc) {
								start = Loc{b2, 0}
							}
						}
					}
					return true
				})
				// walk to the put; is there a user-reaching call in between, and is the put deferred?
				bad := false
				var trail []string
				var what string
				fl.Walk(start, "", nil, Visitor{NoFacts: true,
					Node: func(n2 ast.Node, x string, s *Step) (string, bool) {
						if d, ok := n2.(*ast.DeferStmt); ok {
							if lit, ok := d.Call.Fun.(*ast.FuncLit); ok {
								puts := false
								ast.Inspect(lit.Body, func(m ast.Node) bool {
									if snd, ok := m.(*ast.SendStmt); ok && expr(snd.Value) == lhs {
										puts = true
									}
									return true
								})
								if puts {
									return "deferred", true
								}
							}
							return x, false
						}
						if snd, ok := n2.(*ast.SendStmt); ok && expr(snd.Value) == lhs && expr(snd.Chan) == chExpr {
							return x, true // put back
						}
						// an immediately invoked literal that puts the combiner back in a defer
						okIIFE := false
						ast.Inspect(n2, func(m ast.Node) bool {
							if k, ok := m.(*ast.CallExpr); ok {
								if l, ok := k.Fun.(*ast.FuncLit); ok && len(l.Body.List) > 0 {
									if d, ok := l.Body.List[0].(*ast.DeferStmt); ok {
										if dl, ok := d.Call.Fun.(*ast.FuncLit); ok {
											ast.Inspect(dl.Body, func(q ast.Node) bool {
												if snd, ok := q.(*ast.SendStmt); ok && expr(snd.Value) == lhs {
													okIIFE = true
												}
												return true
											})
										}
									}
								}
							}
							return true
						})
						if okIIFE {
							return x, true
						}
						for _, call := range callsIn(n2) {
							// handed to a local closure that puts it back in a defer
							if id, ok := call.Fun.(*ast.Ident); ok {
								if c06closureDefersPut(pr, u, fn, id.Name, call, lhs) {
									return x, true
								}
							}
							userCall := false
							for _, d := range u.direct[fn] {
								if d == call {
									userCall = true
								}
							}
							if cf := pr.Fn(fn.Pkg.CalleeName(call)); cf != nil && u.reach[cf] {
								userCall = true
							}
							if userCall {
								bad = true
								what = expr(call.Fun)
								trail = s.Trail()
								return x, true
							}
						}
						return x, false
					}})
				c.Check(!bad, fmt.Sprintf("%s|combiner-put-back-deferred#%d", fn.QName(), n), pr.Pos(nd.Pos()),
					fmt.Sprintf("the shared combine buffer %s taken from %s is handed to %s, which can run (and panic in) user code, before it is sent back, and the send is not deferred: after such a panic the buffer never returns to its channel, and the next taker (another task, or writeCombiner while holding the worker mutex) blocks forever", lhs, chExpr, what), trail...)
			}
		}
	}
	c.Floor("takes of shared combiners from their channel", n, 3)
}

func c06r3(c *RC) {
	pr := c.P
	c06userErrorsStayFatal(c)
	// classify: an if whose condition says "<e> is end-of-stream or temporary" (reader)
	// or "<e> is temporary" (writer) keeps <e>; its else wraps <e> as errors.Fatal;
	// both store into the same target.
	classify := func(fn *Func, wantEOF bool) (keep, wrap bool, target string) {
		ast.Inspect(fn.Body, func(n ast.Node) bool {
			ifs, ok := n.(*ast.IfStmt)
			if !ok {
				return true
			}
			var tempArg string
			hasEOF := false
			ast.Inspect(ifs.Cond, func(m ast.Node) bool {
				switch x := m.(type) {
				case *ast.CallExpr:
					if fn.Pkg.CalleeName(x) == "github.com/grailbio/base/errors.IsTemporary" && len(x.Args) == 1 {
						tempArg = expr(x.Args[0])
					}
				case *ast.BinaryExpr:
					if x.Op == token.EQL && (strings.HasSuffix(expr(x.Y), "EOF") || strings.HasSuffix(expr(x.X), "EOF")) {
						hasEOF = true
					}
				}
				return true
			})
			if tempArg == "" || hasEOF != wantEOF {
				return true
			}
			el, ok := ifs.Else.(*ast.BlockStmt)
			if !ok {
				return true
			}
			for _, st := range ifs.Body.List {
				if a, ok := st.(*ast.AssignStmt); ok && len(a.Lhs) == 1 && expr(a.Rhs[0]) == tempArg {
					keep = true
					target = expr(a.Lhs[0])
				}
			}
			for _, st := range el.List {
				if a, ok := st.(*ast.AssignStmt); ok && len(a.Lhs) == 1 && expr(a.Lhs[0]) == target {
					if k, ok := a.Rhs[0].(*ast.CallExpr); ok && fn.Pkg.CalleeName(k) == "github.com/grailbio/base/errors.E" && len(k.Args) == 2 && expr(k.Args[0]) == "errors.Fatal" && expr(k.Args[1]) == tempArg {
						wrap = true
					}
				}
			}
			return true
		})
		return
	}
	if fn := c.MustFn(".(*readerFuncSliceReader).Read"); fn != nil {
		fq := fn.QName()
		sticky := stickyFirst(c, fn)
		keep, wrap, target := classify(fn, true)
		c.Check(keep && wrap && target == sticky, fq+"|user-error-classification", pr.Pos(fn.Body.Pos()), "a reader function's error is no longer kept as is only for end-of-stream and temporary errors and wrapped errors.Fatal otherwise (stored in the sticky error): a persistent user error is retried as a lost task (or a temporary one fails the run)")
		okRet := false
		if last, ok := fn.Body.List[len(fn.Body.List)-1].(*ast.ReturnStmt); ok && len(last.Results) == 2 && expr(last.Results[1]) == sticky && sticky != "" {
			okRet = true
		}
		c.Check(okRet, fq+"|returns-sticky-error", pr.Pos(fn.Body.Pos()), "the reader function's error is not what Read returns")
	}
	if fn := c.MustFn(".(*writerFuncReader).Read"); fn != nil {
		fq := fn.QName()
		keep, wrap, _ := classify(fn, false)
		c.Check(keep && wrap, fq+"|user-error-classification", pr.Pos(fn.Body.Pos()), "a writer function's error is no longer kept when temporary and wrapped errors.Fatal otherwise")
	}
}

func c06r5(c *RC) {
	pr := c.P
	n := 0
	for _, rel := range []string{"exec"} {
		for _, fn := range pr.FuncsIn(rel) {
			for _, d := range recoverDefers(fn) {
				lit := d.Call.Fun.(*ast.FuncLit)
				n++
				// e := recover(); if e != nil { err = fmt.Errorf("...%v...", e ...); err = errors.E(err, errors.Fatal) }
				rv := ""
				ast.Inspect(lit.Body, func(m ast.Node) bool {
					if a, ok := m.(*ast.AssignStmt); ok && len(a.Rhs) == 1 {
						if k, ok := a.Rhs[0].(*ast.CallExpr); ok {
							if id, ok := k.Fun.(*ast.Ident); ok && id.Name == "recover" {
								rv = expr(a.Lhs[0])
							}
						}
					}
					return true
				})
				formatted, fatal, assigned := false, false, false
				ast.Inspect(lit.Body, func(m ast.Node) bool {
					switch x := m.(type) {
					case *ast.CallExpr:
						cn := fn.Pkg.CalleeName(x)
						if cn == "fmt.Errorf" || cn == "fmt.Sprintf" {
							hasV := false
							for _, a := range x.Args[1:] {
								if expr(a) == rv {
									hasV = true
								}
							}
							if bl, ok := x.Args[0].(*ast.BasicLit); ok && hasV && strings.Contains(bl.Value, "%v") {
								formatted = true
							}
						}
						if cn == "github.com/grailbio/base/errors.E" && strings.Contains(nodeSrc(pr, x), "errors.Fatal") {
							fatal = true
						}
					case *ast.AssignStmt:
						for _, l := range x.Lhs {
							if id, ok := l.(*ast.Ident); ok && c06isErrResult(fn, id) {
								assigned = true
							}
						}
					}
					return true
				})
				c.Check(rv != "" && formatted && fatal && assigned, fmt.Sprintf("%s|recover-handler#%d", fn.QName(), n), pr.Pos(d.Pos()),
					fmt.Sprintf("the recover handler must bind the recovered value (%v), format it with %%v into the error it assigns to the function's result (%v, %v) and give it Fatal severity (%v): otherwise Run's error lacks the user's panic message, or the panic is retried as a lost task", rv != "", formatted, assigned, fatal))
			}
		}
	}
	c.Floor("recover handlers in package exec", n, 3)
}

func c06r6(c *RC) {
	pr := c.P
	fn := c.MustFn("exec.(*worker).Run")
	if fn == nil {
		return
	}
	fq := fn.QName()
	// the deferred epilogue containing recover
	defs := recoverDefers(fn)
	if len(defs) == 0 {
		c.Fail(fq+"|epilogue", pr.Pos(fn.Body.Pos()), "worker.Run has no deferred recover epilogue")
		return
	}
	lit := pr.FuncOfLit(defs[0].Call.Fun.(*ast.FuncLit))
	if lit == nil {
		c.Undecide("%s: epilogue literal not indexed", fq)
		return
	}
	fl := pr.Flow(lit)
	var setOK *ast.CallExpr
	var setLocs []Loc
	for _, k := range callsIn(lit.Body) {
		if lit.Pkg.CalleeName(k) == "exec.(*Task).Set" && len(k.Args) == 1 && expr(k.Args[0]) == "TaskOk" {
			setOK = k
			if l, ok := fl.LocOf(k); ok {
				setLocs = append(setLocs, l)
			}
		}
	}
	if setOK == nil {
		c.Fail(fq+"|marks-OK", pr.Pos(lit.Body.Pos()), "the worker no longer marks a successfully run task OK in its epilogue")
		return
	}
	atSet := func(s *Step) bool {
		for _, l := range setLocs {
			if s.Block == l.B && s.Idx == l.I {
				return true
			}
		}
		return false
	}
	okNil := true
	var trail []string
	fl.Walk(fl.Entry(), "", nil, Visitor{
		Node: func(n ast.Node, x string, s *Step) (string, bool) {
			if atSet(s) {
				isNil := false
				for _, f := range s.Facts {
					if stripAt(f.key) == c06errResultName(fn) && f.eq && f.val == "nil" {
						isNil = true
					}
				}
				if !isNil {
					okNil = false
					trail = s.Trail()
				}
				return x, true
			}
			return x, false
		}})
	c.Check(okNil, fq+"|OK-only-without-error", pr.Pos(setOK.Pos()), "the worker marks the task OK on a path where the run's error is not known to be nil: a half-run task is served to its consumers", trail...)
	// on the error path the task is put into ERR (so that waiters on the worker wake) and severity revised
	hasErrSet, revised := false, false
	for _, k := range callsIn(lit.Body) {
		switch lit.Pkg.CalleeName(k) {
		case "exec.(*Task).Error":
			hasErrSet = true
		case "exec.reviseSeverity":
			revised = true
		}
	}
	c.Check(hasErrSet && revised, fq+"|error-path-marks-ERR-and-revises-severity", pr.Pos(lit.Body.Pos()), "on a failed run the worker no longer revises the error's severity and marks its task in error")
	// the epilogue is installed before anything can fail: it is the first statement after `var task *Task`
	first := false
	for i, st := range fn.Body.List {
		if st == ast.Stmt(defs[0]) && i <= 1 {
			first = true
		}
	}
	c.Check(first, fq+"|epilogue-installed-first", pr.Pos(defs[0].Pos()), "the recover epilogue is not installed at the very start of worker.Run")
}

// c06closureDefersPut: call invokes a local function literal bound to name,
// passing the taken combiner `taken` as an argument; the literal sends that
// parameter back on a channel in a defer installed before its first
// user-reaching call.
func c06closureDefersPut(pr *Prog, u *userReach, fn *Func, name string, call *ast.CallExpr, taken string) bool {
	var lit *Func
	ast.Inspect(fn.Body, func(n ast.Node) bool {
		if a, ok := n.(*ast.AssignStmt); ok && len(a.Lhs) == 1 && len(a.Rhs) == 1 && expr(a.Lhs[0]) == name {
			if l, ok := a.Rhs[0].(*ast.FuncLit); ok {
				lit = pr.FuncOfLit(l)
			}
		}
		return true
	})
	if lit == nil {
		return false
	}
	pname := ""
	i := 0
	for _, f := range lit.Type.Params.List {
		for _, nm := range f.Names {
			if i < len(call.Args) && expr(call.Args[i]) == taken {
				pname = nm.Name
			}
			i++
		}
	}
	if pname == "" {
		return false
	}
	// first statement(s): a defer whose literal sends pname
	for _, st := range lit.Body.List {
		d, ok := st.(*ast.DeferStmt)
		if !ok {
			// any statement before the defer must not be user-reaching
			for _, k := range callsIn(st) {
				for _, dc := range u.direct[lit] {
					if dc == k {
						return false
					}
				}
				if cf := pr.Fn(lit.Pkg.CalleeName(k)); cf != nil && u.reach[cf] {
					return false
				}
			}
			continue
		}
		if dl, ok := d.Call.Fun.(*ast.FuncLit); ok {
			sends := false
			ast.Inspect(dl.Body, func(m ast.Node) bool {
				if snd, ok := m.(*ast.SendStmt); ok && expr(snd.Value) == pname {
					sends = true
				}
				return true
			})
			if sends {
				return true
			}
		}
	}
	return false
}

// c06isErrResult: id denotes a named result of type error of fn (or of an
// enclosing function, for handlers in nested literals).
func c06isErrResult(fn *Func, id *ast.Ident) bool {
	o := fn.Pkg.Info.Uses[id]
	if o == nil {
		o = fn.Pkg.Info.Defs[id]
	}
	for f := fn; f != nil; f = f.Parent {
		if f.Type == nil || f.Type.Results == nil {
			continue
		}
		for _, r := range f.Type.Results.List {
			if expr(r.Type) != "error" {
				continue
			}
			for _, nm := range r.Names {
				if f.Pkg.Info.Defs[nm] == o && o != nil {
					return true
				}
			}
		}
	}
	return false
}

func c06errResultName(fn *Func) string {
	if fn.Type != nil && fn.Type.Results != nil {
		for _, r := range fn.Type.Results.List {
			if expr(r.Type) == "error" && len(r.Names) > 0 {
				return r.Names[0].Name
			}
		}
	}
	return "err"
}
