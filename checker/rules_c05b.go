package main

// C05-R7: a memoised compilation is keyed by everything that shapes its tasks.
//
// (*compiler).compile(slice, part) returns the tasks it compiled earlier for
// the same memo key.  The tasks' output partitioning is determined by every
// field of `part` (partition count, custom partitioner, combiner, combine
// key), so each field must either be part of the key or be established to be
// zero by the guard around the memo block.  A field that is neither lets two
// consumers with different partitioning share producer tasks: one of them
// reads rows placed by the other's partitioner.

import (
	"go/ast"
	"go/token"
	"go/types"
	"sort"
	"strings"
)

func c05r7(c *RC) {
	pr := c.P
	fn := c.MustFn("exec.(*compiler).compile")
	if fn == nil {
		return
	}
	fq := fn.QName()
	pk := fn.Pkg
	pt := pr.lookupType("exec", "partitioner")
	if pt == nil {
		c.Undecide("exec.partitioner not found")
		return
	}
	st, ok := pt.Underlying().(*types.Struct)
	if !ok {
		c.Undecide("exec.partitioner is not a struct")
		return
	}
	// the partitioner parameter
	partP := ""
	for _, fld := range fn.Type.Params.List {
		for _, nm := range fld.Names {
			if o := pk.Info.Defs[nm]; o != nil && types.Identical(o.Type(), pt) {
				partP = nm.Name
			}
		}
	}
	if partP == "" {
		c.Undecide("%s: no parameter of type partitioner", fq)
		return
	}
	// memo lookups: index expressions on compiler.memo
	var lookups []*ast.IndexExpr
	inspectNoLit(fn.Body, func(n ast.Node) bool {
		if ix, ok := n.(*ast.IndexExpr); ok {
			if sel, ok := ix.X.(*ast.SelectorExpr); ok && pr.fieldQName(pk.FieldOf(sel)) == "exec.compiler.memo" {
				lookups = append(lookups, ix)
			}
		}
		return true
	})
	if len(lookups) == 0 {
		c.Note("compile no longer memoises: nothing to decide")
		c.Pass(fq+"|memo", pr.Pos(fn.Body.Pos()), "no memo")
		return
	}
	for li, ix := range lookups {
		// the key: an identifier bound to a memoKey literal, or the literal itself
		var lit *ast.CompositeLit
		switch k := ast.Unparen(ix.Index).(type) {
		case *ast.CompositeLit:
			lit = k
		case *ast.Ident:
			ast.Inspect(fn.Body, func(n ast.Node) bool {
				if a, ok := n.(*ast.AssignStmt); ok && len(a.Lhs) == 1 && len(a.Rhs) == 1 && expr(a.Lhs[0]) == k.Name {
					if cl, ok := a.Rhs[0].(*ast.CompositeLit); ok {
						lit = cl
					}
				}
				return true
			})
		}
		if lit == nil {
			c.Undecide("%s: cannot find the literal of memo key #%d", fq, li+1)
			continue
		}
		inKey := map[string]bool{}
		keyHasSlice := false
		ast.Inspect(lit, func(n ast.Node) bool {
			if sel, ok := n.(*ast.SelectorExpr); ok && expr(sel.X) == partP {
				inKey[sel.Sel.Name] = true
			}
			if id, ok := n.(*ast.Ident); ok {
				if o := pk.Info.Uses[id]; o != nil && o.Type() != nil && typeString(o.Type()) == "Slice" {
					keyHasSlice = true
				}
			}
			return true
		})
		// guards: conjuncts of enclosing if conditions
		zero := map[string]bool{}
		for _, anc := range pathTo(fn.Body, ix) {
			ifs, ok := anc.(*ast.IfStmt)
			if !ok || !(ifs.Body.Pos() <= ix.Pos() && ix.End() <= ifs.Body.End()) {
				continue
			}
			var split func(e ast.Expr)
			split = func(e ast.Expr) {
				e = ast.Unparen(e)
				if be, ok := e.(*ast.BinaryExpr); ok && be.Op == token.LAND {
					split(be.X)
					split(be.Y)
					return
				}
				switch x := e.(type) {
				case *ast.CallExpr: // part.F.IsNil()
					if s, ok := x.Fun.(*ast.SelectorExpr); ok && s.Sel.Name == "IsNil" {
						if f, ok := s.X.(*ast.SelectorExpr); ok && expr(f.X) == partP {
							zero[f.Sel.Name] = true
						}
					}
				case *ast.BinaryExpr: // part.F == nil / "" / 0 (either way round)
					if x.Op == token.EQL {
						for _, pair := range [][2]ast.Expr{{x.X, x.Y}, {x.Y, x.X}} {
							if f, ok := ast.Unparen(pair[0]).(*ast.SelectorExpr); ok && expr(f.X) == partP {
								switch expr(pair[1]) {
								case "nil", `""`, "0":
									zero[f.Sel.Name] = true
								}
							}
						}
					}
				}
			}
			split(ifs.Cond)
		}
		c.Check(keyHasSlice, fq+"|memo-key-names-the-slice", pr.Pos(lit.Pos()), "the memo key does not include the slice being compiled")
		var names []string
		for i := 0; i < st.NumFields(); i++ {
			names = append(names, st.Field(i).Name())
		}
		sort.Strings(names)
		for _, f := range names {
			if f == "CombineKey" && zero["Combiner"] {
				// set only together with a combiner (checked below)
				continue
			}
			c.Check(inKey[f] || zero[f], fq+"|memo-covers:"+f, pr.Pos(ix.Pos()),
				"compiled tasks are memoised under a key that does not include partitioner."+f+", and the memo block is not restricted to "+f+" being zero: two dependencies on the same slice that differ only in "+f+" share one set of producer tasks, so one consumer reads rows placed (or combined) for the other — equal keys end up in different shards, or a Repartition row is not in the shard its function returned")
		}
	}
	// CombineKey is only ever set together with a combiner
	nck := 0
	for _, f := range pr.FuncsIn("exec") {
		if f.Body == nil {
			continue
		}
		ast.Inspect(f.Body, func(n ast.Node) bool {
			switch x := n.(type) {
			case *ast.AssignStmt:
				for _, l := range x.Lhs {
					sel, ok := l.(*ast.SelectorExpr)
					if !ok || pr.fieldQName(f.Pkg.FieldOf(sel)) != "exec.partitioner.CombineKey" {
						continue
					}
					nck++
					guarded := false
					for _, anc := range pathTo(f.Body, x) {
						if ifs, ok := anc.(*ast.IfStmt); ok && ifs.Body.Pos() <= x.Pos() && x.End() <= ifs.Body.End() {
							t := strings.ReplaceAll(expr(ifs.Cond), " ", "")
							if strings.Contains(t, "!") && strings.Contains(t, "Combiner().IsNil()") {
								guarded = true
							}
						}
					}
					c.Check(guarded, f.QName()+"|CombineKey-only-with-combiner", pr.Pos(x.Pos()), "a partitioner's CombineKey is set outside a `!…Combiner().IsNil()` guard: the memo guard (which tests only the combiner) no longer implies an empty combine key")
				}
			case *ast.CompositeLit:
				if tv := f.Pkg.Info.Types[x]; tv.Type != nil && types.Identical(tv.Type, pt) {
					var ck, comb ast.Expr
					for i, el := range x.Elts {
						if kv, ok := el.(*ast.KeyValueExpr); ok {
							switch expr(kv.Key) {
							case "CombineKey":
								ck = kv.Value
							case "Combiner":
								comb = kv.Value
							}
						} else if i < st.NumFields() {
							switch st.Field(i).Name() {
							case "CombineKey":
								ck = el
							case "Combiner":
								comb = el
							}
						}
					}
					if ck == nil || expr(ck) == `""` {
						return true
					}
					nck++
					okCK := false
					if id, isId := ck.(*ast.Ident); isId && comb != nil {
						// every assignment to the variable sits under `!<combiner>.IsNil()`
						want := "!" + strings.ReplaceAll(expr(comb), " ", "") + ".IsNil()"
						all, any := true, false
						ast.Inspect(f.Body, func(m ast.Node) bool {
							a, isA := m.(*ast.AssignStmt)
							if !isA {
								return true
							}
							for _, l := range a.Lhs {
								if expr(l) != id.Name {
									continue
								}
								any = true
								g := false
								for _, anc := range pathTo(f.Body, a) {
									if ifs, ok := anc.(*ast.IfStmt); ok && ifs.Body.Pos() <= a.Pos() && a.End() <= ifs.Body.End() {
										if strings.Contains(strings.ReplaceAll(expr(ifs.Cond), " ", ""), want) {
											g = true
										}
									}
								}
								if !g {
									all = false
								}
							}
							return true
						})
						okCK = all && any
					}
					c.Check(okCK, f.QName()+"|CombineKey-only-with-combiner", pr.Pos(x.Pos()), "a partitioner is built with a combine key that is not established to be empty whenever its combiner is nil: the memo guard (which tests only the combiner) no longer implies an empty combine key")
				}
			}
			return true
		})
	}
	_ = nck
}
