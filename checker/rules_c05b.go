package main

// C05-R7: a memoised compilation is keyed by everything that shapes its tasks.
//
// (*compiler).compile(slice, part) returns the tasks it compiled earlier for
// the same memo key.  The tasks' output partitioning is determined by every
// field of `part` (partition count, custom partitioner, combiner, combine
// key), so each field must either be part of the key or be established to be
// zero by the guard around the memo block.  A field that is neither lets two
// consumers with different partitioning share producer tasks: one of them
// reads rows placed by the other's partitioner.

import (
	"go/ast"
	"go/token"
	"go/types"
	"sort"
	"strings"
)

func c05r7(c *RC) {
	pr := c.P
	fn := c.MustFn("exec.(*compiler).compile")
	if fn == nil {
		return
	}
	fq := fn.QName()
	pk := fn.Pkg
	pt := pr.lookupType("exec", "partitioner")
	if pt == nil {
		c.Undecide("exec.partitioner not found")
		return
	}
	st, ok := pt.Underlying().(*types.Struct)
	if !ok {
		c.Undecide("exec.partitioner is not a struct")
		return
	}
	// the partitioner parameter
	partP := ""
	for _, fld := range fn.Type.Params.List {
		for _, nm := range fld.Names {
			if o := pk.Info.Defs[nm]; o != nil && types.Identical(o.Type(), pt) {
				partP = nm.Name
			}
		}
	}
	if partP == "" {
		c.Undecide("%s: no parameter of type partitioner", fq)
		return
	}
	// memo lookups: index expressions on compiler.memo
	var lookups []*ast.IndexExpr
	inspectNoLit(fn.Body, func(n ast.Node) bool {
		if ix, ok := n.(*ast.IndexExpr); ok {
			if sel, ok := ix.X.(*ast.SelectorExpr); ok && pr.fieldQName(pk.FieldOf(sel)) == "exec.compiler.memo" {
				lookups = append(lookups, ix)
			}
		}
		return true
	})
	if len(lookups) == 0 {
		c.Note("compile no longer memoises: nothing to decide")
		c.Pass(fq+"|memo", pr.Pos(fn.Body.Pos()), "no memo")
		return
	}
	for li, ix := range lookups {
		// the key: an identifier bound to a memoKey literal, or the literal itself
		var lit *ast.CompositeLit
		switch k := ast.Unparen(ix.Index).(type) {
		case *ast.CompositeLit:
			lit = k
		case *ast.Ident:
			ast.Inspect(fn.Body, func(n ast.Node) bool {
				if a, ok := n.(*ast.AssignStmt); ok && len(a.Lhs) == 1 && len(a.Rhs) == 1 && expr(a.Lhs[0]) == k.Name {
					if cl, ok := a.Rhs[0].(*ast.CompositeLit); ok {
						lit = cl
					}
				}
				return true
			})
		}
		if lit == nil {
			c.Undecide("%s: cannot find the literal of memo key #%d", fq, li+1)
			continue
		}
		inKey := map[string]bool{}
		keyHasSlice := false
		ast.Inspect(lit, func(n ast.Node) bool {
			_ = n // partitioner fields count only as whole key components (below)
			if id, ok := n.(*ast.Ident); ok {
				if o := pk.Info.Uses[id]; o != nil && o.Type() != nil && typeString(o.Type()) == "Slice" {
					keyHasSlice = true
				}
			}
			return true
		})
		// a field is in the key only as a component's whole value (part.F): a
		// predicate over it (part.F != nil) maps all its non-zero values to one key
		for _, el := range lit.Elts {
			v := el
			if kv, ok := el.(*ast.KeyValueExpr); ok {
				v = kv.Value
			}
			if sel, ok := ast.Unparen(v).(*ast.SelectorExpr); ok && expr(sel.X) == partP {
				inKey[sel.Sel.Name] = true
			}
		}
		// guards: conjuncts of enclosing if conditions
		zero := map[string]bool{}
		for _, anc := range pathTo(fn.Body, ix) {
			ifs, ok := anc.(*ast.IfStmt)
			if !ok || !(ifs.Body.Pos() <= ix.Pos() && ix.End() <= ifs.Body.End()) {
				continue
			}
			var split func(e ast.Expr)
			split = func(e ast.Expr) {
				e = ast.Unparen(e)
				if be, ok := e.(*ast.BinaryExpr); ok && be.Op == token.LAND {
					split(be.X)
					split(be.Y)
					return
				}
				switch x := e.(type) {
				case *ast.CallExpr: // part.F.IsNil()
					if s, ok := x.Fun.(*ast.SelectorExpr); ok && s.Sel.Name == "IsNil" {
						if f, ok := s.X.(*ast.SelectorExpr); ok && expr(f.X) == partP {
							zero[f.Sel.Name] = true
						}
					}
				case *ast.BinaryExpr: // part.F == nil / "" / 0 (either way round)
					if x.Op == token.EQL {
						for _, pair := range [][2]ast.Expr{{x.X, x.Y}, {x.Y, x.X}} {
							if f, ok := ast.Unparen(pair[0]).(*ast.SelectorExpr); ok && expr(f.X) == partP {
								switch expr(pair[1]) {
								case "nil", `""`, "0":
									zero[f.Sel.Name] = true
								}
							}
						}
					}
				}
			}
			split(ifs.Cond)
		}
		c.Check(keyHasSlice, fq+"|memo-key-names-the-slice", pr.Pos(lit.Pos()), "the memo key does not include the slice being compiled")
		// the slice component is the slice being compiled *itself* (the
		// parameter): a wrapper such as Prefixed changes the key prefix the
		// producers hash by, so a key that sees through wrappers (Unwrap) makes
		// two views with different prefixes share producer tasks
		sliceParam := ""
		for _, fld := range fn.Type.Params.List {
			for _, nm := range fld.Names {
				if o := pk.Info.Defs[nm]; o != nil && typeString(o.Type()) == "Slice" {
					sliceParam = nm.Name
				}
			}
		}
		itself := false
		for _, el := range lit.Elts {
			v := el
			if kv, ok := el.(*ast.KeyValueExpr); ok {
				v = kv.Value
			}
			if t := pk.Info.TypeOf(v); t != nil && typeString(t) == "Slice" {
				if id, ok := ast.Unparen(v).(*ast.Ident); ok && id.Name == sliceParam {
					itself = true
				}
			}
		}
		if keyHasSlice {
			c.Check(itself, fq+"|memo-key-is-the-slice-itself", pr.Pos(lit.Pos()), "the memo key identifies the compiled slice through an expression other than the slice parameter itself (e.g. bigslice.Unwrap): a Prefixed view and the slice it wraps, shuffled to the same width, then share one set of producer tasks, which hash by whichever view was compiled first — a shuffle keyed by one column is fed by producers that hashed two, and equal keys land in different shards")
		}
		var names []string
		for i := 0; i < st.NumFields(); i++ {
			names = append(names, st.Field(i).Name())
		}
		sort.Strings(names)
		for _, f := range names {
			if f == "CombineKey" && zero["Combiner"] {
				// set only together with a combiner (checked below)
				continue
			}
			c.Check(inKey[f] || zero[f], fq+"|memo-covers:"+f, pr.Pos(ix.Pos()),
				"compiled tasks are memoised under a key that does not include partitioner."+f+", and the memo block is not restricted to "+f+" being zero: two dependencies on the same slice that differ only in "+f+" share one set of producer tasks, so one consumer reads rows placed (or combined) for the other — equal keys end up in different shards, or a Repartition row is not in the shard its function returned")
		}
	}
	// CombineKey is only ever set together with a combiner
	nck := 0
	for _, f := range pr.FuncsIn("exec") {
		if f.Body == nil {
			continue
		}
		ast.Inspect(f.Body, func(n ast.Node) bool {
			switch x := n.(type) {
			case *ast.AssignStmt:
				for _, l := range x.Lhs {
					sel, ok := l.(*ast.SelectorExpr)
					if !ok || pr.fieldQName(f.Pkg.FieldOf(sel)) != "exec.partitioner.CombineKey" {
						continue
					}
					nck++
					guarded := false
					for _, anc := range pathTo(f.Body, x) {
						if ifs, ok := anc.(*ast.IfStmt); ok && ifs.Body.Pos() <= x.Pos() && x.End() <= ifs.Body.End() {
							t := strings.ReplaceAll(expr(ifs.Cond), " ", "")
							if strings.Contains(t, "!") && strings.Contains(t, "Combiner().IsNil()") {
								guarded = true
							}
						}
					}
					c.Check(guarded, f.QName()+"|CombineKey-only-with-combiner", pr.Pos(x.Pos()), "a partitioner's CombineKey is set outside a `!…Combiner().IsNil()` guard: the memo guard (which tests only the combiner) no longer implies an empty combine key")
				}
			case *ast.CompositeLit:
				if tv := f.Pkg.Info.Types[x]; tv.Type != nil && types.Identical(tv.Type, pt) {
					var ck, comb ast.Expr
					for i, el := range x.Elts {
						if kv, ok := el.(*ast.KeyValueExpr); ok {
							switch expr(kv.Key) {
							case "CombineKey":
								ck = kv.Value
							case "Combiner":
								comb = kv.Value
							}
						} else if i < st.NumFields() {
							switch st.Field(i).Name() {
							case "CombineKey":
								ck = el
							case "Combiner":
								comb = el
							}
						}
					}
					if ck == nil || expr(ck) == `""` {
						return true
					}
					nck++
					okCK := false
					if id, isId := ck.(*ast.Ident); isId && comb != nil {
						// every assignment to the variable sits under `!<combiner>.IsNil()`
						want := "!" + strings.ReplaceAll(expr(comb), " ", "") + ".IsNil()"
						all, any := true, false
						ast.Inspect(f.Body, func(m ast.Node) bool {
							a, isA := m.(*ast.AssignStmt)
							if !isA {
								return true
							}
							for _, l := range a.Lhs {
								if expr(l) != id.Name {
									continue
								}
								any = true
								g := false
								for _, anc := range pathTo(f.Body, a) {
									if ifs, ok := anc.(*ast.IfStmt); ok && ifs.Body.Pos() <= a.Pos() && a.End() <= ifs.Body.End() {
										if strings.Contains(strings.ReplaceAll(expr(ifs.Cond), " ", ""), want) {
											g = true
										}
									}
								}
								if !g {
									all = false
								}
							}
							return true
						})
						okCK = all && any
					}
					c.Check(okCK, f.QName()+"|CombineKey-only-with-combiner", pr.Pos(x.Pos()), "a partitioner is built with a combine key that is not established to be empty whenever its combiner is nil: the memo guard (which tests only the combiner) no longer implies an empty combine key")
				}
			}
			return true
		})
	}
	_ = nck
}

// C05-R8: after the partitioner has assigned row i to partition shards[i],
// exactly row i is buffered for exactly that partition, nothing buffered is
// overwritten or left unwritten.
//
// Two loops do this: the worker's partitioned write loop (fixed-size buffers
// with per-partition fill counts) and the local executor's bufferOutput (lists
// of frames appended to).  The rule pins down the index arithmetic as linear
// forms and the tests by evaluation:
//
//	worker:  p := shards[i]; j := lens[p];
//	         Copy(buf[p].Slice(j, j+1), in.Slice(i, i+1)); lens[p]++; count[p]++;
//	         flush buf[p] (the whole frame) and reset lens[p] exactly when lens[p] == size of buf[p];
//	         afterwards every partition with lens[p] != 0 writes buf[p].Slice(0, lens[p])
//	local:   p := shards[i]; a new frame is started exactly when there is none or the last is full;
//	         the last frame of buf[p] is replaced by AppendFrame(itself, in.Slice(i, i+1))
func c05r8(c *RC) {
	pr := c.P
	sliceOfRow := func(fn *Func, le *linEnv, e ast.Expr, base string, row lin) bool {
		k, ok := ast.Unparen(e).(*ast.CallExpr)
		if !ok || fn.Pkg.CalleeName(k) != "frame.Frame.Slice" || len(k.Args) != 2 {
			return false
		}
		sel, ok := k.Fun.(*ast.SelectorExpr)
		if !ok || strings.ReplaceAll(expr(sel.X), " ", "") != base {
			return false
		}
		hi := lin{}
		hi.addScaled(row, 1)
		hi[""] += 1
		return le.norm(k.Args[0], 0).String() == row.String() && le.norm(k.Args[1], 0).String() == hi.String()
	}
	// ------------------------------------------------------------ worker
	if fn := c.MustFn("exec.(*worker).Run"); fn != nil {
		fq := fn.QName()
		le := newLinEnv(pr, fn)
		// do not expand j := lens[p] etc.: use a private env without defs for index checks
		le.defs = map[types.Object]ast.Expr{}
		var loop *ast.ForStmt
		var shards, iv string
		ast.Inspect(fn.Body, func(n ast.Node) bool {
			f, ok := n.(*ast.ForStmt)
			if !ok {
				return true
			}
			v, _, okL := loopUpTo(fn, f)
			if !okL {
				return true
			}
			for _, st := range f.Body.List {
				if a, ok := st.(*ast.AssignStmt); ok && len(a.Lhs) == 1 && len(a.Rhs) == 1 {
					if ix, ok := a.Rhs[0].(*ast.IndexExpr); ok && expr(ix.Index) == v {
						if tv := fn.Pkg.Info.Types[ix.X]; tv.Type != nil && typeString(tv.Type) == "[]int" {
							// candidate: p := shards[i], and lens[p] is used below
							uses := false
							ast.Inspect(f.Body, func(m ast.Node) bool {
								if inc, ok := m.(*ast.IncDecStmt); ok {
									if ix2, ok := inc.X.(*ast.IndexExpr); ok && expr(ix2.Index) == expr(a.Lhs[0]) {
										uses = true
									}
								}
								return true
							})
							if uses {
								loop, shards, iv = f, expr(ix.X), v
							}
						}
					}
				}
			}
			return true
		})
		if loop == nil {
			c.Fail(fq+"|partition-buffers", pr.Pos(fn.Body.Pos()), "the worker's per-row partitioning loop (p := shards[i] with per-partition fill counts) was not found")
		} else {
			pV, jV, lensV, bufV := "", "", "", ""
			for _, st := range loop.Body.List {
				a, ok := st.(*ast.AssignStmt)
				if !ok || len(a.Lhs) != 1 || len(a.Rhs) != 1 {
					continue
				}
				ix, ok := a.Rhs[0].(*ast.IndexExpr)
				if !ok {
					continue
				}
				switch {
				case expr(ix.X) == shards && expr(ix.Index) == iv:
					pV = expr(a.Lhs[0])
				case pV != "" && expr(ix.Index) == pV:
					jV, lensV = expr(a.Lhs[0]), expr(ix.X)
				}
			}
			var copyAt, incAt, cntAt = -1, -1, -1
			var flush *ast.IfStmt
			inV := ""
			for si, st := range loop.Body.List {
				switch x := st.(type) {
				case *ast.ExprStmt:
					k, ok := x.X.(*ast.CallExpr)
					if !ok || fn.Pkg.CalleeName(k) != "frame.Copy" || len(k.Args) != 2 {
						continue
					}
					// destination buf[p].Slice(j, j+1)
					if d, ok := ast.Unparen(k.Args[0]).(*ast.CallExpr); ok {
						if sel, ok := d.Fun.(*ast.SelectorExpr); ok {
							if ix, ok := ast.Unparen(sel.X).(*ast.IndexExpr); ok && expr(ix.Index) == pV {
								bufV = expr(ix.X)
							}
						}
					}
					if s2, ok := ast.Unparen(k.Args[1]).(*ast.CallExpr); ok {
						if sel, ok := s2.Fun.(*ast.SelectorExpr); ok {
							inV = expr(sel.X)
						}
					}
					if bufV != "" && sliceOfRow(fn, le, k.Args[0], bufV+"["+pV+"]", lin{jV: 1}) && sliceOfRow(fn, le, k.Args[1], inV, lin{iv: 1}) {
						copyAt = si
					}
				case *ast.IncDecStmt:
					if ix, ok := x.X.(*ast.IndexExpr); ok && expr(ix.Index) == pV && x.Tok == token.INC {
						if expr(ix.X) == lensV {
							if incAt >= 0 {
								incAt = -2
							} else {
								incAt = si
							}
						} else {
							cntAt = si
						}
					}
				case *ast.IfStmt:
					flush = x
				}
			}
			c.Check(pV != "" && jV != "" && copyAt >= 0, fq+"|row-i-copied-to-its-partition-slot", pr.Pos(loop.Pos()),
				"row i is not copied (in.Slice(i,i+1)) into slot lens[p] of the buffer of partition p = shards[i]: rows reach another partition than the partitioner chose, or overwrite each other")
			c.Check(incAt > copyAt && copyAt >= 0, fq+"|fill-count-advances-once-per-row", pr.Pos(loop.Pos()),
				"the partition's fill count is not advanced exactly once after each row is buffered: the next row overwrites it (rows are lost) or a gap of stale rows is written")
			c.Check(cntAt >= 0, fq+"|record-count-advances-per-row", pr.Pos(loop.Pos()),
				"the per-partition record count committed with the output is no longer advanced per row")
			// flush exactly when full, the whole buffer, then reset
			okFlush, why := flush != nil, "no flush"
			if flush != nil {
				size := ""
				ast.Inspect(fn.Body, func(n ast.Node) bool {
					if a, ok := n.(*ast.AssignStmt); ok && len(a.Lhs) == 1 && len(a.Rhs) == 1 {
						if ix, ok := a.Lhs[0].(*ast.IndexExpr); ok && expr(ix.X) == bufV {
							if k, ok := a.Rhs[0].(*ast.CallExpr); ok && fn.Pkg.CalleeName(k) == "frame.Make" && len(k.Args) == 3 && expr(k.Args[1]) == expr(k.Args[2]) {
								size = expr(k.Args[1])
							}
						}
					}
					return true
				})
				x, whenEq, okT := constTest(flush.Cond, func(s string) bool { return strings.ReplaceAll(s, " ", "") == lensV+"["+pV+"]" }, size)
				_ = x
				writes, resets := false, false
				for _, st := range flush.Body.List {
					ast.Inspect(st, func(m ast.Node) bool {
						if k, ok := m.(*ast.CallExpr); ok && len(k.Args) == 2 && strings.HasSuffix(expr(k.Fun), ".Write") && strings.ReplaceAll(expr(k.Args[1]), " ", "") == bufV+"["+pV+"]" {
							writes = true
						}
						return true
					})
					if a, ok := st.(*ast.AssignStmt); ok && len(a.Lhs) == 1 && strings.ReplaceAll(expr(a.Lhs[0]), " ", "") == lensV+"["+pV+"]" {
						if v, isC := constInt(fn.Pkg, a.Rhs[0]); isC && v == 0 && writes {
							resets = true
						}
					}
				}
				switch {
				case size == "" || !okT || !whenEq:
					okFlush, why = false, "the flush is not taken exactly when the fill count equals the buffer size "+size
				case !writes || !resets:
					okFlush, why = false, "the flush does not write the whole buffer and then reset the fill count"
				}
			}
			c.Check(okFlush, fq+"|full-buffer-is-written-and-reset", pr.Pos(loop.Pos()),
				"partition buffers are not flushed exactly when full ("+why+"): a full buffer is indexed past its end, or rows are written twice or not at all")
			// final flush
			okFinal := false
			ast.Inspect(fn.Body, func(n ast.Node) bool {
				r, ok := n.(*ast.RangeStmt)
				if !ok || expr(r.X) != lensV || r.Pos() < loop.End() {
					return true
				}
				p2, n2 := expr(r.Key), expr(r.Value)
				skipOK, wr := false, false
				for _, st := range r.Body.List {
					if ifs, ok := st.(*ast.IfStmt); ok && len(ifs.Body.List) == 1 {
						if b, ok := ifs.Body.List[0].(*ast.BranchStmt); ok && b.Tok == token.CONTINUE {
							if okZ, _ := thenBranchIffZero(le, ifs.Cond, n2); okZ {
								skipOK = true
							}
						}
					}
					ast.Inspect(st, func(m ast.Node) bool {
						if k, ok := m.(*ast.CallExpr); ok && len(k.Args) == 2 && strings.HasSuffix(expr(k.Fun), ".Write") {
							if s2, ok := ast.Unparen(k.Args[1]).(*ast.CallExpr); ok && fn.Pkg.CalleeName(s2) == "frame.Frame.Slice" && len(s2.Args) == 2 {
								if sel, ok := s2.Fun.(*ast.SelectorExpr); ok && strings.ReplaceAll(expr(sel.X), " ", "") == bufV+"["+p2+"]" {
									if v, isC := constInt(fn.Pkg, s2.Args[0]); isC && v == 0 && expr(s2.Args[1]) == n2 {
										wr = true
									}
								}
							}
						}
						return true
					})
				}
				if skipOK && wr {
					okFinal = true
				}
				return true
			})
			c.Check(okFinal, fq+"|remainder-is-written", pr.Pos(loop.End()),
				"after the last row, the partially filled buffers are not each written as buf[p].Slice(0, lens[p]) (skipping exactly the empty ones): the tail of every partition is lost, or stale rows beyond the fill count are written")
		}
	}
	// ------------------------------------------------------------ local
	if fn := c.MustFn("exec.bufferOutput"); fn != nil {
		fq := fn.QName()
		le := newLinEnv(pr, fn)
		le.defs = map[types.Object]ast.Expr{}
		var loop *ast.ForStmt
		var iv, pV, bufV, mV string
		ast.Inspect(fn.Body, func(n ast.Node) bool {
			f, ok := n.(*ast.ForStmt)
			if !ok {
				return true
			}
			v, _, okL := loopUpTo(fn, f)
			if !okL {
				return true
			}
			for _, st := range f.Body.List {
				if a, ok := st.(*ast.AssignStmt); ok && len(a.Lhs) == 1 && len(a.Rhs) == 1 {
					if ix, ok := a.Rhs[0].(*ast.IndexExpr); ok && expr(ix.Index) == v {
						if tv := fn.Pkg.Info.Types[ix.X]; tv.Type != nil && typeString(tv.Type) == "[]int" {
							loop, iv, pV = f, v, expr(a.Lhs[0])
						}
					}
				}
			}
			return true
		})
		if loop == nil {
			c.Fail(fq+"|partition-buffers", pr.Pos(fn.Body.Pos()), "bufferOutput's per-row partitioning loop was not found")
			return
		}
		var grow *ast.IfStmt
		okAppend := false
		for _, st := range loop.Body.List {
			switch x := st.(type) {
			case *ast.AssignStmt:
				if len(x.Lhs) != 1 || len(x.Rhs) != 1 {
					continue
				}
				if k, ok := x.Rhs[0].(*ast.CallExpr); ok {
					if expr(k.Fun) == "len" && len(k.Args) == 1 {
						if ix, ok := k.Args[0].(*ast.IndexExpr); ok && expr(ix.Index) == pV {
							mV, bufV = expr(x.Lhs[0]), expr(ix.X)
						}
					}
					if fn.Pkg.CalleeName(k) == "frame.AppendFrame" && len(k.Args) == 2 && bufV != "" {
						// buf[p][m-1] = AppendFrame(buf[p][m-1], in.Slice(i, i+1))
						last := func(e ast.Expr) bool {
							ix, ok := ast.Unparen(e).(*ast.IndexExpr)
							if !ok || strings.ReplaceAll(expr(ix.X), " ", "") != bufV+"["+pV+"]" {
								return false
							}
							return le.norm(ix.Index, 0).String() == (lin{mV: 1, "": -1}).String()
						}
						var inV string
						if s2, ok := ast.Unparen(k.Args[1]).(*ast.CallExpr); ok {
							if sel, ok := s2.Fun.(*ast.SelectorExpr); ok {
								inV = expr(sel.X)
							}
						}
						if last(x.Lhs[0]) && last(k.Args[0]) && sliceOfRow(fn, le, k.Args[1], inV, lin{iv: 1}) {
							okAppend = true
						}
					}
				}
			case *ast.IfStmt:
				grow = x
			}
		}
		c.Check(okAppend, fq+"|row-i-appended-to-its-partition", pr.Pos(loop.Pos()),
			"row i is not appended (in.Slice(i,i+1)) to the last frame of the buffer of partition p = shards[i], replacing that frame with the result: rows go to another partition, or the grown frame is dropped")
		// a new frame exactly when none exists or the last is full; appended and counted
		okGrow := false
		if grow != nil && mV != "" {
			good := true
			for _, empty := range []bool{false, true} {
				for _, full := range []bool{false, true} {
					v, known := evalCond(grow.Cond, func(e ast.Expr) (bool, bool) {
						if z, okZ := cmpAtomZero(le, e, mV, empty); okZ {
							return z, true
						}
						be, ok := ast.Unparen(e).(*ast.BinaryExpr)
						if ok && (be.Op == token.EQL || be.Op == token.NEQ) {
							l, r := strings.ReplaceAll(expr(be.X), " ", ""), strings.ReplaceAll(expr(be.Y), " ", "")
							if strings.HasSuffix(l, ".Cap()") && strings.HasSuffix(r, ".Len()") || strings.HasSuffix(l, ".Len()") && strings.HasSuffix(r, ".Cap()") {
								return (be.Op == token.EQL) == full, true
							}
						}
						return false, false
					})
					// when empty, fullness is irrelevant (short-circuit): require true
					want := empty || full
					if !known || v != want {
						good = false
					}
				}
			}
			app, inc := false, false
			for _, st := range grow.Body.List {
				switch x := st.(type) {
				case *ast.AssignStmt:
					if len(x.Rhs) == 1 {
						if k, ok := x.Rhs[0].(*ast.CallExpr); ok && expr(k.Fun) == "append" && strings.ReplaceAll(expr(x.Lhs[0]), " ", "") == bufV+"["+pV+"]" {
							app = true
						}
					}
				case *ast.IncDecStmt:
					if expr(x.X) == mV && x.Tok == token.INC {
						inc = true
					}
				}
			}
			okGrow = good && app && inc
		}
		c.Check(okGrow, fq+"|new-frame-exactly-when-needed", pr.Pos(loop.Pos()),
			"a new buffer frame is not started exactly when the partition has none or its last frame is full (and then appended and counted): rows are appended to a full frame that is not the one kept, or index -1 is used")
	}
}

// c05constructorsRedistribute (part of C05-R3): a redistributing constructor
// never hands back the slice it was given.  Returning the argument skips the
// shuffle, however redundant it may look: the argument may be keyed
// differently (a Prefixed view changes the key columns without changing the
// slice underneath).  One sanctioned exception: Reshard with the shard count
// the slice already has (its contract is the shard count, not the grouping).
func c05constructorsRedistribute(c *RC) {
	pr := c.P
	n := 0
	for _, q := range []string{".Reduce", ".Fold", ".Cogroup", ".Reshuffle", ".Repartition", ".Reshard"} {
		fn := c.MustFn(q)
		if fn == nil {
			continue
		}
		params := map[types.Object]bool{}
		for _, f := range fn.Type.Params.List {
			for _, nm := range f.Names {
				if o := fn.Pkg.Info.Defs[nm]; o != nil {
					ts := typeString(o.Type())
					if ts == "Slice" || ts == "[]Slice" {
						params[o] = true
					}
				}
			}
		}
		var bad []string
		inspectNoLit(fn.Body, func(nd ast.Node) bool {
			r, ok := nd.(*ast.ReturnStmt)
			if !ok || len(r.Results) != 1 {
				return true
			}
			n++
			// rooted at a Slice parameter?
			e := ast.Unparen(r.Results[0])
			for {
				if ix, ok := e.(*ast.IndexExpr); ok {
					e = ast.Unparen(ix.X)
					continue
				}
				break
			}
			id, ok := e.(*ast.Ident)
			if !ok || !params[fn.Pkg.Info.Uses[id]] {
				return true
			}
			if q == ".Reshard" {
				// sanctioned: under `slice.NumShard() == nshard`
				for _, anc := range pathTo(fn.Body, r) {
					if ifs, ok := anc.(*ast.IfStmt); ok && ifs.Body.Pos() <= r.Pos() && r.End() <= ifs.Body.End() {
						if be, ok := ast.Unparen(ifs.Cond).(*ast.BinaryExpr); ok && be.Op == token.EQL {
							t := strings.ReplaceAll(expr(be.X)+"|"+expr(be.Y), " ", "")
							if strings.Contains(t, ".NumShard()") {
								c.Except(q, "Reshard to the shard count the slice already has returns the slice: its contract is the number of shards")
								return true
							}
						}
					}
				}
			}
			bad = append(bad, pr.Pos(r.Pos()))
			return true
		})
		c.Check(len(bad) == 0, q+"|never-returns-its-argument", pr.Pos(fn.Body.Pos()),
			strings.TrimPrefix(q, ".")+" returns the slice it was given ("+strings.Join(bad, ", ")+") instead of a slice that declares a shuffle dependency: the redistribution is skipped, so rows with equal keys stay wherever they were (e.g. after Prefixed changed the key columns)")
	}
	c.Floor("returns of redistributing constructors", n, 6)
}
