package main

import (
	"fmt"
	"go/ast"
	"go/token"
	"go/types"
	"path/filepath"
	"sort"
	"strings"

	"golang.org/x/tools/go/types/typeutil"
)

// Func is a function declaration or function literal of the module.
type Func struct {
	Pkg    *Pkg
	Decl   *ast.FuncDecl
	Lit    *ast.FuncLit
	Obj    *types.Func // nil for literals
	Name   string      // "(*worker).Run", "compile", "Eval$2"
	Body   *ast.BlockStmt
	Type   *ast.FuncType
	Parent *Func
	Lits   []*Func // directly nested literals, in source order
}

func (f *Func) QName() string { return f.Pkg.Rel + "." + f.Name }

func (f *Func) Node() ast.Node {
	if f.Decl != nil {
		return f.Decl
	}
	return f.Lit
}

// Root returns the enclosing declared function.
func (f *Func) Root() *Func {
	for f.Parent != nil {
		f = f.Parent
	}
	return f
}

type index struct {
	funcs  map[string]*Func // by QName
	byObj  map[*types.Func]*Func
	byLit  map[*ast.FuncLit]*Func
	all    []*Func
	pkgOf  map[*ast.File]*Pkg
	fileOf map[string]*ast.File
}

func recvName(fd *ast.FuncDecl) string {
	if fd.Recv == nil || len(fd.Recv.List) == 0 {
		return fd.Name.Name
	}
	t := fd.Recv.List[0].Type
	star := false
	if s, ok := t.(*ast.StarExpr); ok {
		star = true
		t = s.X
	}
	var tn string
	switch x := t.(type) {
	case *ast.Ident:
		tn = x.Name
	case *ast.IndexExpr:
		if id, ok := x.X.(*ast.Ident); ok {
			tn = id.Name
		}
	}
	if star {
		return "(*" + tn + ")." + fd.Name.Name
	}
	return tn + "." + fd.Name.Name
}

func buildIndex(pr *Prog) *index {
	ix := &index{funcs: map[string]*Func{}, byObj: map[*types.Func]*Func{}, byLit: map[*ast.FuncLit]*Func{}, pkgOf: map[*ast.File]*Pkg{}, fileOf: map[string]*ast.File{}}
	for _, pk := range pr.Order {
		for i, file := range pk.Files {
			ix.pkgOf[file] = pk
			ix.fileOf[pk.Names[i]] = file
			for _, d := range file.Decls {
				switch d := d.(type) {
				case *ast.FuncDecl:
					if d.Body == nil {
						continue
					}
					f := &Func{Pkg: pk, Decl: d, Name: recvName(d), Body: d.Body, Type: d.Type}
					if o, ok := pk.Info.Defs[d.Name].(*types.Func); ok {
						f.Obj = o
						ix.byObj[o] = f
					}
					if f.Name == "init" || f.Name == "_" {
						f.Name = fmt.Sprintf("%s#%s:%d", f.Name, filepath.Base(pk.Names[i]), len(ix.all))
					}
					ix.add(f)
					ix.addLits(f, d.Body)
				case *ast.GenDecl:
					// function literals in package-level var initialisers
					hold := &Func{Pkg: pk, Name: "pkgvar#" + filepath.Base(pk.Names[i])}
					ix.addLits(hold, d)
				}
			}
		}
	}
	return ix
}

func (ix *index) add(f *Func) {
	ix.funcs[f.QName()] = f
	ix.all = append(ix.all, f)
}

func (ix *index) addLits(parent *Func, root ast.Node) {
	var walk func(n ast.Node, parent *Func)
	walk = func(n ast.Node, parent *Func) {
		ast.Inspect(n, func(m ast.Node) bool {
			lit, ok := m.(*ast.FuncLit)
			if !ok {
				return true
			}
			f := &Func{Pkg: parent.Pkg, Lit: lit, Body: lit.Body, Type: lit.Type, Parent: parent}
			f.Name = fmt.Sprintf("%s$%d", parent.Name, len(parent.Lits)+1)
			parent.Lits = append(parent.Lits, f)
			ix.byLit[lit] = f
			ix.add(f)
			walk(lit.Body, f)
			return false
		})
	}
	walk(root, parent)
}

// ---- lookup helpers on Prog ----

func (pr *Prog) Fn(qname string) *Func { return pr.idx.funcs[qname] }

func (pr *Prog) Funcs() []*Func { return pr.idx.all }

func (pr *Prog) FuncsIn(rel string) []*Func {
	var out []*Func
	for _, f := range pr.idx.all {
		if f.Pkg.Rel == rel {
			out = append(out, f)
		}
	}
	return out
}

func (pr *Prog) FuncOfObj(o *types.Func) *Func {
	if o == nil {
		return nil
	}
	return pr.idx.byObj[o.Origin()]
}

func (pr *Prog) FuncOfLit(l *ast.FuncLit) *Func { return pr.idx.byLit[l] }

// Pos renders a position relative to the module root (file:line).
func (pr *Prog) Pos(p token.Pos) string {
	if !p.IsValid() {
		return "?"
	}
	ps := pr.Fset.Position(p)
	rel, err := filepath.Rel(pr.Deps.Root, ps.Filename)
	if err != nil {
		rel = ps.Filename
	}
	return fmt.Sprintf("%s:%d", rel, ps.Line)
}

func (pr *Prog) Line(p token.Pos) int { return pr.Fset.Position(p).Line }

// SrcLine returns the trimmed source text of the line holding p.
func (pr *Prog) SrcLine(p token.Pos) string {
	ps := pr.Fset.Position(p)
	src := pr.Src[ps.Filename]
	lines := strings.Split(string(src), "\n")
	if ps.Line-1 < len(lines) && ps.Line >= 1 {
		return strings.TrimSpace(lines[ps.Line-1])
	}
	return ""
}

func expr(e ast.Expr) string {
	if e == nil {
		return ""
	}
	return types.ExprString(e)
}

// Callee resolves the static callee of call (function, method, or method of an
// interface), or nil.
func (pk *Pkg) Callee(call *ast.CallExpr) types.Object {
	return typeutil.Callee(pk.Info, call)
}

// objQName: "pkgpath.Name" for functions, "pkgpath.(*T).M" / "pkgpath.T.M" /
// "pkgpath.I.M" for methods.
func objQName(o types.Object) string {
	if o == nil {
		return ""
	}
	fn, ok := o.(*types.Func)
	if !ok {
		if o.Pkg() == nil {
			return o.Name()
		}
		return o.Pkg().Path() + "." + o.Name()
	}
	sig, _ := fn.Type().(*types.Signature)
	pkg := ""
	if fn.Pkg() != nil {
		pkg = fn.Pkg().Path()
	}
	if sig != nil && sig.Recv() != nil {
		t := sig.Recv().Type()
		ptr := false
		if p, ok := t.(*types.Pointer); ok {
			ptr = true
			t = p.Elem()
		}
		name := "?"
		if n, ok := t.(*types.Named); ok {
			name = n.Obj().Name()
			if n.Obj().Pkg() != nil {
				pkg = n.Obj().Pkg().Path()
			}
		}
		if ptr {
			return pkg + ".(*" + name + ")." + fn.Name()
		}
		return pkg + "." + name + "." + fn.Name()
	}
	return pkg + "." + fn.Name()
}

// short strips the module path prefix from a qualified name.
func short(q string) string {
	if q == modulePath {
		return ""
	}
	if strings.HasPrefix(q, modulePath+"/") {
		return strings.TrimPrefix(q, modulePath+"/")
	}
	if strings.HasPrefix(q, modulePath+".") {
		return strings.TrimPrefix(q, modulePath)
	}
	return q
}

// CalleeName returns the short qualified name of the callee of call ("" when
// unresolved): e.g. "exec.(*Task).Set", "sliceio.Reader.Read",
// "github.com/grailbio/base/errors.E", "panic".
func (pk *Pkg) CalleeName(call *ast.CallExpr) string {
	o := pk.Callee(call)
	if o == nil {
		return ""
	}
	if _, ok := o.(*types.Builtin); ok {
		return o.Name()
	}
	return short(objQName(o))
}

// isCall reports whether n is a call whose callee has one of the given short
// qualified names.
func (pk *Pkg) isCall(n ast.Node, names ...string) (*ast.CallExpr, bool) {
	call, ok := n.(*ast.CallExpr)
	if !ok {
		return nil, false
	}
	cn := pk.CalleeName(call)
	if cn == "" {
		return nil, false
	}
	for _, nm := range names {
		if cn == nm {
			return call, true
		}
	}
	return nil, false
}

// FieldOf returns the field object selected by sel, or nil.
func (pk *Pkg) FieldOf(sel *ast.SelectorExpr) *types.Var {
	if s, ok := pk.Info.Selections[sel]; ok && s.Kind() == types.FieldVal {
		if v, ok := s.Obj().(*types.Var); ok {
			return v
		}
	}
	return nil
}

// fieldQName: "exec.Task.state" for a field declared in named struct Task.
func (pr *Prog) fieldQName(v *types.Var) string {
	if v == nil || !v.IsField() {
		return ""
	}
	return pr.fieldOwner(v) + "." + v.Name()
}

var fieldOwnerCache = map[*types.Var]string{}

func (pr *Prog) fieldOwner(v *types.Var) string {
	if s, ok := fieldOwnerCache[v]; ok {
		return s
	}
	res := "?"
	if v.Pkg() != nil {
		sc := v.Pkg().Scope()
	outer:
		for _, n := range sc.Names() {
			tn, ok := sc.Lookup(n).(*types.TypeName)
			if !ok {
				continue
			}
			st, ok := tn.Type().Underlying().(*types.Struct)
			if !ok {
				continue
			}
			for i := 0; i < st.NumFields(); i++ {
				if st.Field(i) == v {
					res = short(v.Pkg().Path()) + "." + tn.Name()
					break outer
				}
			}
		}
	}
	fieldOwnerCache[v] = res
	return res
}

// typeString renders a type with module-relative package qualifiers.
func typeString(t types.Type) string {
	if t == nil {
		return "<nil>"
	}
	return types.TypeString(t, func(p *types.Package) string { return short(p.Path()) })
}

// namedOf unwraps pointers and returns the named type, or nil.
func namedOf(t types.Type) *types.Named {
	if t == nil {
		return nil
	}
	if p, ok := t.(*types.Pointer); ok {
		t = p.Elem()
	}
	n, _ := t.(*types.Named)
	return n
}

func namedQName(t types.Type) string {
	n := namedOf(t)
	if n == nil || n.Obj().Pkg() == nil {
		return ""
	}
	return short(n.Obj().Pkg().Path()) + "." + n.Obj().Name()
}

// inspectNoLit walks n without descending into function literals (unless
// they are called on the spot: func(){...}()).
func inspectNoLit(n ast.Node, f func(ast.Node) bool) {
	ast.Inspect(n, func(m ast.Node) bool {
		if m == nil {
			return false
		}
		if _, ok := m.(*ast.FuncLit); ok {
			return false
		}
		if c, ok := m.(*ast.CallExpr); ok {
			if lit, ok := c.Fun.(*ast.FuncLit); ok {
				// immediately invoked literal: its body runs here
				if !f(m) {
					return false
				}
				for _, a := range c.Args {
					inspectNoLit(a, f)
				}
				inspectNoLit(lit.Body, f)
				return false
			}
		}
		return f(m)
	})
}

// callsIn lists the calls syntactically inside n, in source order, skipping
// the bodies of function literals that are not invoked on the spot.
func callsIn(n ast.Node) []*ast.CallExpr {
	var out []*ast.CallExpr
	if n == nil {
		return nil
	}
	inspectNoLit(n, func(m ast.Node) bool {
		if c, ok := m.(*ast.CallExpr); ok {
			out = append(out, c)
		}
		return true
	})
	sort.SliceStable(out, func(i, j int) bool { return out[i].Pos() < out[j].Pos() })
	return out
}

// implementers returns the module's declared functions that implement method
// `method` of the interface type iface (methods of any named type in the
// module whose method set contains all of iface's methods).
func (pr *Prog) implementers(iface *types.Interface, method string) []*Func {
	var out []*Func
	seen := map[*Func]bool{}
	for _, pk := range pr.Order {
		sc := pk.Types.Scope()
		for _, n := range sc.Names() {
			tn, ok := sc.Lookup(n).(*types.TypeName)
			if !ok || tn.IsAlias() {
				continue
			}
			if _, isIface := tn.Type().Underlying().(*types.Interface); isIface {
				continue
			}
			for _, t := range []types.Type{tn.Type(), types.NewPointer(tn.Type())} {
				if !types.Implements(t, iface) {
					continue
				}
				obj, _, _ := types.LookupFieldOrMethod(t, true, pk.Types, method)
				fn, ok := obj.(*types.Func)
				if !ok {
					continue
				}
				if f := pr.FuncOfObj(fn); f != nil && !seen[f] {
					seen[f] = true
					out = append(out, f)
				}
			}
		}
	}
	sort.Slice(out, func(i, j int) bool { return out[i].QName() < out[j].QName() })
	return out
}

// lookupType returns the named type rel.name of the module, or nil.
func (pr *Prog) lookupType(rel, name string) *types.Named {
	pk := pr.Pkgs[rel]
	if pk == nil || pk.Types == nil {
		return nil
	}
	tn, ok := pk.Types.Scope().Lookup(name).(*types.TypeName)
	if !ok {
		return nil
	}
	n, _ := tn.Type().(*types.Named)
	return n
}

func (pr *Prog) lookupIface(rel, name string) *types.Interface {
	n := pr.lookupType(rel, name)
	if n == nil {
		return nil
	}
	i, _ := n.Underlying().(*types.Interface)
	return i
}

// enclosingFunc finds the innermost Func whose body contains pos.
func (pr *Prog) enclosingFunc(pk *Pkg, pos token.Pos) *Func {
	var best *Func
	for _, f := range pr.idx.all {
		if f.Pkg != pk || f.Body == nil {
			continue
		}
		if f.Body.Pos() <= pos && pos < f.Body.End() {
			if best == nil || (best.Body.Pos() <= f.Body.Pos() && f.Body.End() <= best.Body.End()) {
				best = f
			}
		}
	}
	return best
}

// FuncsInFile returns the functions (declarations and literals) whose source
// lies in the given module-relative file.
func (pr *Prog) FuncsInFile(rel string) []*Func {
	var out []*Func
	for _, f := range pr.idx.all {
		if f.Body == nil {
			continue
		}
		if pr.RelFile(f.Body.Pos()) == rel {
			out = append(out, f)
		}
	}
	return out
}

func (pr *Prog) RelFile(p token.Pos) string {
	ps := pr.Fset.Position(p)
	rel, err := filepath.Rel(pr.Deps.Root, ps.Filename)
	if err != nil {
		return ps.Filename
	}
	return rel
}

// directCalls lists the calls in n without descending into any function
// literal (each literal is a Func of its own).
func directCalls(n ast.Node) []*ast.CallExpr {
	var out []*ast.CallExpr
	ast.Inspect(n, func(m ast.Node) bool {
		if _, ok := m.(*ast.FuncLit); ok {
			return false
		}
		if c, ok := m.(*ast.CallExpr); ok {
			out = append(out, c)
		}
		return true
	})
	return out
}
