package main

// C03-R6: the evaluator's bookkeeping sets (todo, pending, wait memo,
// dependency counts) are maintained where the events happen.
//
// "Never idle with work outstanding" and "success only when every root is
// done" rest on state.Done() = err != nil || (no todo && no pending).  That is
// only meaningful if a task handed out by Runnable is in `pending` until
// Return takes it out again, if Return forgets the per-phase wait memo before
// it re-examines anything (task states have changed), and if the dependency
// counts released by done() were put there by add().

import (
	"go/ast"
	"go/token"
	"strings"
)

func c03r6(c *RC) {
	pr := c.P
	recvField := func(fn *Func, e ast.Expr, field string) bool {
		sel, ok := ast.Unparen(e).(*ast.SelectorExpr)
		return ok && pr.fieldQName(fn.Pkg.FieldOf(sel)) == "exec.state."+field
	}
	// --- Return
	if fn := c.MustFn("exec.(*state).Return"); fn != nil {
		fq := fn.QName()
		fl := pr.Flow(fn)
		p0 := ""
		if fn.Type.Params != nil && len(fn.Type.Params.List) == 1 && len(fn.Type.Params.List[0].Names) == 1 {
			p0 = fn.Type.Params.List[0].Names[0].Name
		}
		isDelPending := func(n ast.Node) bool {
			return nodeHas(n, func(m ast.Node) bool {
				k, ok := m.(*ast.CallExpr)
				return ok && expr(k.Fun) == "delete" && len(k.Args) == 2 && recvField(fn, k.Args[0], "pending") && expr(k.Args[1]) == p0
			})
		}
		isMemoReset := func(n ast.Node) bool {
			a, ok := n.(*ast.AssignStmt)
			if !ok || len(a.Lhs) != 1 || len(a.Rhs) != 1 || !recvField(fn, a.Lhs[0], "wait") {
				return false
			}
			k, ok := a.Rhs[0].(*ast.CallExpr)
			return ok && expr(k.Fun) == "make"
		}
		// every normal exit has removed the task from pending
		okDel, nex := true, 0
		var trail []string
		fl.Walk(fl.Entry(), "", nil, Visitor{NoFacts: true,
			Node: func(n ast.Node, x string, s *Step) (string, bool) {
				if isDelPending(n) {
					return "del", false
				}
				return x, false
			},
			Exit: func(kind ExitKind, ret *ast.ReturnStmt, x string, s *Step) {
				if kind == ExitPanic {
					return
				}
				nex++
				if x != "del" {
					okDel = false
					trail = s.Trail()
				}
			}})
		c.Check(okDel && nex > 0, fq+"|returned-task-leaves-pending", pr.Pos(fn.Body.Pos()),
			"Return can finish without removing the returned task from the pending set: state.Done() then never becomes true (Eval waits forever on its channels) or, re-handed by schedule's pending test, the task is never run again", trail...)
		// the wait memo is forgotten before anything is re-examined
		n := 0
		for _, k := range callsIn(fn.Body) {
			cn := fn.Pkg.CalleeName(k)
			if cn != "exec.(*state).Enqueue" && cn != "exec.(*state).done" {
				continue
			}
			n++
			loc, ok := fl.LocOf(k)
			if !ok {
				c.Undecide("%s: call not in flow graph", fq)
				continue
			}
			dom, tr := fl.Dominated(loc, func(m ast.Node, s *Step) bool { return isMemoReset(m) })
			c.Check(dom, fq+"|memo-forgotten-before-"+strings.TrimPrefix(cn, "exec.(*state).")+"#"+itoa(n), pr.Pos(k.Pos()),
				"Return re-examines tasks with the per-phase wait counts memoised before the returned task changed state: a phase whose last task has just completed still reports tasks waiting, its dependents are never released, and Eval ends (nothing todo, nothing pending) with roots not done — or waits forever", tr...)
		}
		c.Floor("re-examinations in Return", n, 2)
	}
	// --- Runnable: each handed-out task moves from todo to pending
	if fn := c.MustFn("exec.(*state).Runnable"); fn != nil {
		fq := fn.QName()
		var rng *ast.RangeStmt
		ast.Inspect(fn.Body, func(n ast.Node) bool {
			if r, ok := n.(*ast.RangeStmt); ok && recvField(fn, r.X, "todo") {
				rng = r
			}
			return true
		})
		if rng == nil {
			c.Fail(fq+"|hands-out-todo", pr.Pos(fn.Body.Pos()), "Runnable no longer walks the todo set")
		} else {
			k := expr(rng.Key)
			app, del, pend := false, false, false
			for _, st := range rng.Body.List {
				switch x := st.(type) {
				case *ast.AssignStmt:
					if len(x.Lhs) == 1 && len(x.Rhs) == 1 {
						if call, ok := x.Rhs[0].(*ast.CallExpr); ok && expr(call.Fun) == "append" && len(call.Args) == 2 && expr(call.Args[1]) == k {
							app = true
						}
						if ix, ok := x.Lhs[0].(*ast.IndexExpr); ok && recvField(fn, ix.X, "pending") && expr(ix.Index) == k && expr(x.Rhs[0]) == "true" {
							pend = true
						}
					}
				case *ast.ExprStmt:
					if call, ok := x.X.(*ast.CallExpr); ok && expr(call.Fun) == "delete" && len(call.Args) == 2 && recvField(fn, call.Args[0], "todo") && expr(call.Args[1]) == k {
						del = true
					}
				}
			}
			c.Check(app && del && pend, fq+"|todo-to-pending", pr.Pos(rng.Pos()),
				"Runnable does not, for every task of the todo set, return it, remove it from todo and record it as pending: a task is handed out twice (still todo), or is running without being pending so that Eval reports completion while it runs and Return panics on it")
		}
	}
	// --- schedule: not while pending
	if fn := c.MustFn("exec.(*state).schedule"); fn != nil {
		fq := fn.QName()
		fl := pr.Flow(fn)
		var put ast.Node
		ast.Inspect(fn.Body, func(n ast.Node) bool {
			if a, ok := n.(*ast.AssignStmt); ok && len(a.Lhs) == 1 {
				if ix, ok := a.Lhs[0].(*ast.IndexExpr); ok && recvField(fn, ix.X, "todo") {
					put = a
				}
			}
			return true
		})
		if put == nil {
			c.Fail(fq+"|enters-todo", pr.Pos(fn.Body.Pos()), "schedule no longer puts the task on the todo set")
		} else {
			loc, _ := fl.LocOf(put)
			guarded := true
			fl.Walk(fl.Entry(), "", nil, Visitor{NoFacts: true,
				Enter: func(from, to *cfg2Block, x string, s *Step) (string, bool) {
					cond := fl.edgeCond(from)
					if cond == nil || len(from.Succs) != 2 {
						return x, false
					}
					neg := false
					e := ast.Unparen(cond)
					if u, ok := e.(*ast.UnaryExpr); ok && u.Op == token.NOT {
						neg = true
						e = ast.Unparen(u.X)
					}
					if ix, ok := e.(*ast.IndexExpr); ok && recvField(fn, ix.X, "pending") {
						falseEdge := from.Succs[1] == to
						if falseEdge != neg {
							return "np", false
						}
					}
					return x, false
				},
				Node: func(n ast.Node, x string, s *Step) (string, bool) {
					if s.Block == loc.B && s.Idx == loc.I {
						if x != "np" {
							guarded = false
						}
						return x, true
					}
					return x, false
				}})
			c.Check(guarded, fq+"|not-while-pending", pr.Pos(put.Pos()),
				"schedule puts a task on the todo set without having established that it is not pending: a task that is still with the executor is handed out a second time")
		}
	}
	// --- add/done: counts go up by n once per (src,dst) edge and down by one per released edge
	if fn := c.MustFn("exec.(*state).add"); fn != nil {
		fq := fn.QName()
		nAdd, nEdge := 0, 0
		ast.Inspect(fn.Body, func(n ast.Node) bool {
			if a, ok := n.(*ast.AssignStmt); ok && len(a.Lhs) == 1 {
				if ix, ok := a.Lhs[0].(*ast.IndexExpr); ok {
					if recvField(fn, ix.X, "counts") && a.Tok == token.ADD_ASSIGN {
						nAdd++
					}
					if recvField(fn, ix.X, "deps") || strings.HasPrefix(expr(ix.X), "d") && a.Tok == token.ASSIGN {
						nEdge++
					}
				}
			}
			return true
		})
		c.Check(nAdd >= 1 && nEdge >= nAdd, fq+"|edge-recorded-with-its-count", pr.Pos(fn.Body.Pos()),
			"state.add no longer records the dependency edge together with the count it adds: done() later releases edges whose counts were never added (dependents start early) or never releases counted ones (dependents never start)")
	}
	if fn := c.MustFn("exec.(*state).done"); fn != nil {
		fq := fn.QName()
		dec, test, app := false, false, false
		ast.Inspect(fn.Body, func(n ast.Node) bool {
			switch x := n.(type) {
			case *ast.IncDecStmt:
				if ix, ok := x.X.(*ast.IndexExpr); ok && recvField(fn, ix.X, "counts") && x.Tok == token.DEC {
					dec = true
				}
			case *ast.IfStmt:
				if be, ok := ast.Unparen(x.Cond).(*ast.BinaryExpr); ok && be.Op == token.EQL && (expr(be.Y) == "0" || expr(be.X) == "0") {
					side := be.X
					if expr(be.X) == "0" {
						side = be.Y
					}
					if ix, ok := ast.Unparen(side).(*ast.IndexExpr); ok && recvField(fn, ix.X, "counts") {
						test = true
						for _, st := range x.Body.List {
							if a, ok := st.(*ast.AssignStmt); ok && len(a.Rhs) == 1 {
								if k, ok := a.Rhs[0].(*ast.CallExpr); ok && expr(k.Fun) == "append" {
									app = true
								}
							}
						}
					}
				}
			}
			return true
		})
		c.Check(dec && test && app, fq+"|releases-at-zero", pr.Pos(fn.Body.Pos()),
			"state.done no longer decrements the count of every dependent of the finished phase and releases exactly those that reach zero")
	}
}
