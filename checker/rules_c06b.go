package main

// C06-R7: a failed attempt of a combining task leaves nothing behind.
//
// (*worker).runCombine folds a task's rows into combine buffers that live in
// the worker across calls (w.combiners).  A task that fails half-way is run
// again — by the RPC retry for temporary errors, by the evaluator after a
// loss — and, on the same worker, finds those buffers.  Unless the failed
// attempt's contribution was dropped, the retry combines the same rows a
// second time: the run succeeds with wrong values.  The rule looks, inside
// runCombine and its closures, for the code that, on a failed attempt (a
// condition on the function's error result) or before the buffers are reused
// (the idle arm of the state switch), discards the buffers and returns the
// combine key to its initial state — separately for per-task buffers and for
// machine-shared ones.

import (
	"fmt"
	"go/ast"
	"go/token"
	"strings"
)

func c06r7(c *RC) {
	pr := c.P
	c06writeCombinerEnds(c)
	fn := c.MustFn("exec.(*worker).runCombine")
	if fn == nil {
		return
	}
	fq := fn.QName()
	// the named error result
	errRes := ""
	if fn.Type.Results != nil {
		for _, f := range fn.Type.Results.List {
			for _, nm := range f.Names {
				if typeString(fn.Pkg.Info.Defs[nm].Type()) == "error" {
					errRes = nm.Name
				}
			}
		}
	}
	type cover struct{ perTask, shared bool }
	var cov cover
	var where ast.Node
	resets := func(body *ast.BlockStmt, host *Func) bool {
		none, discard := false, false
		ast.Inspect(body, func(n ast.Node) bool {
			switch x := n.(type) {
			case *ast.AssignStmt:
				for i, l := range x.Lhs {
					ix, ok := l.(*ast.IndexExpr)
					if !ok || i >= len(x.Rhs) {
						continue
					}
					if sel, ok := ix.X.(*ast.SelectorExpr); ok && pr.fieldQName(host.Pkg.FieldOf(sel)) == "exec.worker.combinerStates" {
						if r := expr(x.Rhs[i]); r == "combinerNone" || r == "combinerError" {
							none = true
						}
					}
				}
			case *ast.CallExpr:
				if host.Pkg.CalleeName(x) == "exec.(*combiner).Discard" {
					discard = true
				}
			}
			return true
		})
		return none && discard
	}
	var visit func(f *Func)
	visit = func(f *Func) {
		ast.Inspect(f.Body, func(n ast.Node) bool {
			ifs, ok := n.(*ast.IfStmt)
			if !ok {
				return true
			}
			var conj []ast.Expr
			var split func(e ast.Expr)
			split = func(e ast.Expr) {
				e = ast.Unparen(e)
				if be, ok := e.(*ast.BinaryExpr); ok && be.Op == token.LAND {
					split(be.X)
					split(be.Y)
					return
				}
				conj = append(conj, e)
			}
			split(ifs.Cond)
			onErr, onlyPerTask, onlyShared, other := false, false, false, false
			for _, e := range conj {
				be, ok := e.(*ast.BinaryExpr)
				t := strings.ReplaceAll(expr(e), " ", "")
				switch {
				case func() bool { tx, nn, okT := nilTest(e); return okT && nn && tx == errRes && errRes != "" }():
					onErr = true
				case ok && be.Op == token.EQL && (strings.HasSuffix(expr(be.X), ".CombineKey") && expr(be.Y) == `""` || strings.HasSuffix(expr(be.Y), ".CombineKey") && expr(be.X) == `""`):
					onlyPerTask = true
				case ok && be.Op == token.NEQ && (strings.HasSuffix(expr(be.X), ".CombineKey") && expr(be.Y) == `""` || strings.HasSuffix(expr(be.Y), ".CombineKey") && expr(be.X) == `""`):
					onlyShared = true
				default:
					_ = t
					other = true
				}
			}
			if !onErr || other || !resets(ifs.Body, f) {
				return true
			}
			where = ifs
			if !onlyShared {
				cov.perTask = true
			}
			if !onlyPerTask {
				cov.shared = true
			}
			return true
		})
		for _, l := range f.Lits {
			visit(l)
		}
	}
	visit(fn)
	pos := pr.Pos(fn.Body.Pos())
	if where != nil {
		pos = pr.Pos(where.Pos())
	}
	if errRes == "" {
		c.Note("runCombine has no named error result; a deferred clean-up cannot see how the attempt ended")
	}
	c.Check(cov.perTask, fq+"|failed-attempt-leaves-no-residue:per-task-buffer", pos,
		"when a task with its own combine buffers fails after part of its input was combined, the buffers stay in the worker (state idle) and a retry of the task on the same worker combines into them again: the run succeeds with values that count the first attempt's rows twice")
	c.Check(cov.shared, fq+"|failed-attempt-leaves-no-residue:machine-buffer", pos,
		"when a task that combines into a machine-shared buffer fails after part of its input was combined, its contribution stays in the shared buffer and a retry adds it again: the run succeeds with values that count those rows twice (the option's documentation says only that error recovery is not implemented)")
}

// c06writeCombinerEnds (part of C06-R7): writeCombiner leaves the combine key
// in a terminal state and wakes the waiters.  CommitCombiner waits on the
// worker's condition while the key is combinerWriting; if the writer returned
// with the key still in that state, or without a broadcast, every task that
// depends on the combined output waits forever.
func c06writeCombinerEnds(c *RC) {
	pr := c.P
	fn := c.MustFn("exec.(*worker).writeCombiner")
	if fn == nil {
		return
	}
	fq := fn.QName()
	fl := pr.Flow(fn)
	isStateSet := func(n ast.Node, vals ...string) bool {
		a, ok := n.(*ast.AssignStmt)
		if !ok || len(a.Lhs) != 1 || len(a.Rhs) != 1 {
			return false
		}
		ix, ok := a.Lhs[0].(*ast.IndexExpr)
		if !ok {
			return false
		}
		sel, ok := ix.X.(*ast.SelectorExpr)
		if !ok || pr.fieldQName(fn.Pkg.FieldOf(sel)) != "exec.worker.combinerStates" {
			return false
		}
		for _, v := range vals {
			if expr(a.Rhs[0]) == v {
				return true
			}
		}
		return false
	}
	okState, okWake, nex := true, true, 0
	var trail []string
	fl.Walk(fl.Entry(), "", nil, Visitor{NoFacts: true,
		Node: func(n ast.Node, x string, s *Step) (string, bool) {
			if isStateSet(n, "combinerCommitted", "combinerError") {
				x = "T"
			}
			for _, k := range callsIn(n) {
				if strings.HasSuffix(fn.Pkg.CalleeName(k), ".Broadcast") && strings.HasPrefix(x, "T") {
					x = "TB"
				}
			}
			return x, false
		},
		Exit: func(kind ExitKind, ret *ast.ReturnStmt, x string, s *Step) {
			if kind == ExitPanic {
				return
			}
			nex++
			if !strings.HasPrefix(x, "T") {
				okState = false
				trail = s.Trail()
			}
			if x != "TB" {
				okWake = false
			}
		}})
	c.Check(okState && nex > 0, fq+"|leaves-a-terminal-combiner-state", pr.Pos(fn.Body.Pos()),
		"writeCombiner can return with the combine key neither committed nor in error: CommitCombiner keeps waiting for the writer, and every task that needs the combined output hangs", trail...)
	c.Check(okWake && nex > 0, fq+"|wakes-the-waiters", pr.Pos(fn.Body.Pos()),
		"writeCombiner does not broadcast on the worker's condition after setting the final state: CommitCombiner calls already waiting never wake up")
	// the error is kept for later callers
	keeps := false
	ast.Inspect(fn.Body, func(n ast.Node) bool {
		if a, ok := n.(*ast.AssignStmt); ok && len(a.Lhs) == 1 {
			if ix, ok := a.Lhs[0].(*ast.IndexExpr); ok {
				if sel, ok := ix.X.(*ast.SelectorExpr); ok && pr.fieldQName(fn.Pkg.FieldOf(sel)) == "exec.worker.combinerErrors" {
					keeps = true
				}
			}
		}
		return true
	})
	c.Check(keeps, fq+"|keeps-the-cause", pr.Pos(fn.Body.Pos()), "the error that made the combiner unwritable is no longer kept: later tasks fail with a nil cause (and a panic message in the user's combine function is lost)")
}

// c06userErrorsStayFatal (part of C06-R3): on the worker, an error that comes
// out of the task's own pipeline (a Read on what task.Do returned: user
// readers, writers, map functions) is handed on wrapped as maybeTaskFatalErr.
// Worker.Run downgrades every other fatal error to a retryable one
// (reviseSeverity), so an unwrapped user error is retried as a lost task five
// times — with its side effects — and the run ends with "lost on 5
// consecutive attempts" instead of the user's message.
func c06userErrorsStayFatal(c *RC) {
	pr := c.P
	n := 0
	for _, q := range []string{"exec.(*worker).Run", "exec.(*worker).runCombine"} {
		fn := c.MustFn(q)
		if fn == nil {
			continue
		}
		// variables holding the pipeline's reader: assigned from <task>.Do(...), or the
		// parameter that runCombine receives it in (type sliceio.Reader)
		pipe := map[string]bool{}
		inspectNoLit(fn.Body, func(nd ast.Node) bool {
			if a, ok := nd.(*ast.AssignStmt); ok && len(a.Lhs) == 1 && len(a.Rhs) == 1 {
				if k, ok := a.Rhs[0].(*ast.CallExpr); ok {
					if sel, ok := k.Fun.(*ast.SelectorExpr); ok && pr.fieldQName(fn.Pkg.FieldOf(sel)) == "exec.Task.Do" {
						pipe[expr(a.Lhs[0])] = true
					}
				}
			}
			return true
		})
		if q == "exec.(*worker).runCombine" && fn.Type.Params != nil {
			for _, f := range fn.Type.Params.List {
				if tv := fn.Pkg.Info.Types[f.Type]; tv.Type != nil && typeString(tv.Type) == "sliceio.Reader" {
					for _, nm := range f.Names {
						pipe[nm.Name] = true
					}
				}
			}
		}
		ord := 0
		inspectNoLit(fn.Body, func(nd ast.Node) bool {
			var read *ast.CallExpr
			var errV string
			var body *ast.BlockStmt
			switch x := nd.(type) {
			case *ast.IfStmt:
				if as, ok := x.Init.(*ast.AssignStmt); ok && len(as.Rhs) == 1 && len(as.Lhs) == 2 {
					if k, ok := as.Rhs[0].(*ast.CallExpr); ok {
						read, errV, body = k, expr(as.Lhs[1]), x.Body
					}
				}
			case *ast.BlockStmt, *ast.CaseClause:
				var list []ast.Stmt
				if b, ok := x.(*ast.BlockStmt); ok {
					list = b.List
				} else {
					list = x.(*ast.CaseClause).Body
				}
				for i, st := range list {
					as, ok := st.(*ast.AssignStmt)
					if !ok || len(as.Rhs) != 1 || len(as.Lhs) != 2 {
						continue
					}
					k, ok := as.Rhs[0].(*ast.CallExpr)
					if !ok {
						continue
					}
					sel, ok := k.Fun.(*ast.SelectorExpr)
					if !ok || sel.Sel.Name != "Read" || !pipe[expr(sel.X)] {
						continue
					}
					if i+1 < len(list) {
						if ifs, ok := list[i+1].(*ast.IfStmt); ok {
							ord++
							n++
							c06checkWrapped(c, fn, ord, expr(as.Lhs[1]), ifs.Body, k)
						}
					}
				}
				return true
			}
			if read != nil {
				sel, ok := read.Fun.(*ast.SelectorExpr)
				if ok && sel.Sel.Name == "Read" && pipe[expr(sel.X)] {
					ord++
					n++
					c06checkWrapped(c, fn, ord, errV, body, read)
				}
			}
			return true
		})
	}
	c.Floor("reads of the task's own pipeline on the worker", n, 3)
}

func c06checkWrapped(c *RC, fn *Func, ord int, errV string, body *ast.BlockStmt, read *ast.CallExpr) {
	pr := c.P
	ok, any := true, false
	ast.Inspect(body, func(m ast.Node) bool {
		r, isR := m.(*ast.ReturnStmt)
		if !isR || len(r.Results) == 0 {
			return true
		}
		res := r.Results[len(r.Results)-1]
		if expr(res) == "nil" {
			return true
		}
		any = true
		cl, isCl := ast.Unparen(res).(*ast.CompositeLit)
		if !isCl {
			ok = false
			return true
		}
		if tv := fn.Pkg.Info.Types[cl]; tv.Type == nil || typeString(tv.Type) != "exec.maybeTaskFatalErr" {
			ok = false
			return true
		}
		mentions := false
		ast.Inspect(cl, func(q ast.Node) bool {
			if id, isId := q.(*ast.Ident); isId && id.Name == errV {
				mentions = true
			}
			return true
		})
		if !mentions {
			ok = false
		}
		return true
	})
	c.Check(ok && any, fmt.Sprintf("%s|pipeline-read#%d-error-stays-task-fatal", fn.QName(), ord), pr.Pos(read.Pos()),
		"an error from reading the task's own pipeline is returned without the maybeTaskFatalErr wrapper: Worker.Run then downgrades a persistent user error to a retryable one, the shard (with the user's side effects) is re-run until it has been lost five times, and the run ends without the user's message")
}
