package main

// C06-R7: a failed attempt of a combining task leaves nothing behind.
//
// (*worker).runCombine folds a task's rows into combine buffers that live in
// the worker across calls (w.combiners).  A task that fails half-way is run
// again — by the RPC retry for temporary errors, by the evaluator after a
// loss — and, on the same worker, finds those buffers.  Unless the failed
// attempt's contribution was dropped, the retry combines the same rows a
// second time: the run succeeds with wrong values.  The rule looks, inside
// runCombine and its closures, for the code that, on a failed attempt (a
// condition on the function's error result) or before the buffers are reused
// (the idle arm of the state switch), discards the buffers and returns the
// combine key to its initial state — separately for per-task buffers and for
// machine-shared ones.

import (
	"go/ast"
	"go/token"
	"strings"
)

func c06r7(c *RC) {
	pr := c.P
	fn := c.MustFn("exec.(*worker).runCombine")
	if fn == nil {
		return
	}
	fq := fn.QName()
	// the named error result
	errRes := ""
	if fn.Type.Results != nil {
		for _, f := range fn.Type.Results.List {
			for _, nm := range f.Names {
				if typeString(fn.Pkg.Info.Defs[nm].Type()) == "error" {
					errRes = nm.Name
				}
			}
		}
	}
	type cover struct{ perTask, shared bool }
	var cov cover
	var where ast.Node
	resets := func(body *ast.BlockStmt, host *Func) bool {
		none, discard := false, false
		ast.Inspect(body, func(n ast.Node) bool {
			switch x := n.(type) {
			case *ast.AssignStmt:
				for i, l := range x.Lhs {
					ix, ok := l.(*ast.IndexExpr)
					if !ok || i >= len(x.Rhs) {
						continue
					}
					if sel, ok := ix.X.(*ast.SelectorExpr); ok && pr.fieldQName(host.Pkg.FieldOf(sel)) == "exec.worker.combinerStates" {
						if r := expr(x.Rhs[i]); r == "combinerNone" || r == "combinerError" {
							none = true
						}
					}
				}
			case *ast.CallExpr:
				if host.Pkg.CalleeName(x) == "exec.(*combiner).Discard" {
					discard = true
				}
			}
			return true
		})
		return none && discard
	}
	var visit func(f *Func)
	visit = func(f *Func) {
		ast.Inspect(f.Body, func(n ast.Node) bool {
			ifs, ok := n.(*ast.IfStmt)
			if !ok {
				return true
			}
			var conj []ast.Expr
			var split func(e ast.Expr)
			split = func(e ast.Expr) {
				e = ast.Unparen(e)
				if be, ok := e.(*ast.BinaryExpr); ok && be.Op == token.LAND {
					split(be.X)
					split(be.Y)
					return
				}
				conj = append(conj, e)
			}
			split(ifs.Cond)
			onErr, onlyPerTask, onlyShared, other := false, false, false, false
			for _, e := range conj {
				be, ok := e.(*ast.BinaryExpr)
				t := strings.ReplaceAll(expr(e), " ", "")
				switch {
				case func() bool { tx, nn, okT := nilTest(e); return okT && nn && tx == errRes && errRes != "" }():
					onErr = true
				case ok && be.Op == token.EQL && (strings.HasSuffix(expr(be.X), ".CombineKey") && expr(be.Y) == `""` || strings.HasSuffix(expr(be.Y), ".CombineKey") && expr(be.X) == `""`):
					onlyPerTask = true
				case ok && be.Op == token.NEQ && (strings.HasSuffix(expr(be.X), ".CombineKey") && expr(be.Y) == `""` || strings.HasSuffix(expr(be.Y), ".CombineKey") && expr(be.X) == `""`):
					onlyShared = true
				default:
					_ = t
					other = true
				}
			}
			if !onErr || other || !resets(ifs.Body, f) {
				return true
			}
			where = ifs
			if !onlyShared {
				cov.perTask = true
			}
			if !onlyPerTask {
				cov.shared = true
			}
			return true
		})
		for _, l := range f.Lits {
			visit(l)
		}
	}
	visit(fn)
	pos := pr.Pos(fn.Body.Pos())
	if where != nil {
		pos = pr.Pos(where.Pos())
	}
	if errRes == "" {
		c.Note("runCombine has no named error result; a deferred clean-up cannot see how the attempt ended")
	}
	c.Check(cov.perTask, fq+"|failed-attempt-leaves-no-residue:per-task-buffer", pos,
		"when a task with its own combine buffers fails after part of its input was combined, the buffers stay in the worker (state idle) and a retry of the task on the same worker combines into them again: the run succeeds with values that count the first attempt's rows twice")
	c.Check(cov.shared, fq+"|failed-attempt-leaves-no-residue:machine-buffer", pos,
		"when a task that combines into a machine-shared buffer fails after part of its input was combined, its contribution stays in the shared buffer and a retry adds it again: the run succeeds with values that count those rows twice (the option's documentation says only that error recovery is not implemented)")
}
