package main

// Three small, general rules that came out of the third seed batch.

import (
	"fmt"
	"go/ast"
	"go/token"
	"go/types"
	"strings"
)

// loopCaptures (C13-R2 / C08-R3): a function literal that is created inside a
// loop and stored (assigned to a field, element or variable that outlives the
// iteration) must not capture a variable that is declared outside the loop and
// assigned inside it: all the stored closures would share the one variable and
// see whatever the last iteration left in it (and a value meant to be reset
// per iteration carries over).
func loopCaptures(c *RC, fn *Func, tag string) int {
	pr := c.P
	n := 0
	var loops []ast.Node
	ast.Inspect(fn.Body, func(nd ast.Node) bool {
		switch nd.(type) {
		case *ast.ForStmt, *ast.RangeStmt:
			loops = append(loops, nd)
		}
		return true
	})
	for _, l := range fn.Lits {
		// innermost... any enclosing loop of the literal within fn
		var encl []ast.Node
		for _, lp := range loops {
			if lp.Pos() <= l.Lit.Pos() && l.Lit.End() <= lp.End() {
				encl = append(encl, lp)
			}
		}
		if len(encl) == 0 {
			continue
		}
		// stored? the literal is the RHS of an assignment to a selector/index, or to a
		// variable declared outside the innermost enclosing loop
		stored := false
		for _, p := range pathTo(fn.Body, l.Lit) {
			if a, ok := p.(*ast.AssignStmt); ok {
				for i, r := range a.Rhs {
					if r == ast.Expr(l.Lit) && i < len(a.Lhs) {
						switch a.Lhs[i].(type) {
						case *ast.SelectorExpr, *ast.IndexExpr:
							stored = true
						}
					}
				}
			}
		}
		if !stored {
			continue
		}
		n++
		var shared []string
		seen := map[types.Object]bool{}
		ast.Inspect(l.Lit.Body, func(m ast.Node) bool {
			id, ok := m.(*ast.Ident)
			if !ok {
				return true
			}
			v, ok := fn.Pkg.Info.Uses[id].(*types.Var)
			if !ok || v.IsField() || seen[v] {
				return true
			}
			seen[v] = true
			// declared inside the literal: not a capture
			if l.Lit.Pos() <= v.Pos() && v.Pos() < l.Lit.End() {
				return true
			}
			// declared outside fn (package level): not this rule's business
			if !(fn.Body.Pos() <= v.Pos() && v.Pos() < fn.Body.End()) && !(fn.Decl != nil && fn.Decl.Pos() <= v.Pos() && v.Pos() < fn.Decl.End()) {
				return true
			}
			for _, lp := range encl {
				declaredInLoop := lp.Pos() <= v.Pos() && v.Pos() < lp.End()
				if declaredInLoop {
					continue
				}
				// assigned inside this loop (outside the literal)?
				assigned := false
				ast.Inspect(lp, func(q ast.Node) bool {
					if q == ast.Node(l.Lit) {
						return false
					}
					switch a := q.(type) {
					case *ast.AssignStmt:
						if a.Tok == token.DEFINE {
							return true
						}
						for _, lh := range a.Lhs {
							if li, ok := lh.(*ast.Ident); ok && fn.Pkg.Info.Uses[li] == types.Object(v) {
								assigned = true
							}
						}
					case *ast.IncDecStmt:
						if li, ok := a.X.(*ast.Ident); ok && fn.Pkg.Info.Uses[li] == types.Object(v) {
							assigned = true
						}
					}
					return true
				})
				if assigned {
					shared = append(shared, v.Name())
				}
			}
			return true
		})
		c.Check(len(shared) == 0, fmt.Sprintf("%s|%s|stored-closure#%d-captures-per-iteration-state", fn.QName(), tag, n), pr.Pos(l.Lit.Pos()),
			"a closure stored for later use is created in a loop and captures "+strings.Join(shared, ", ")+", declared outside the loop and assigned inside it: every closure stored by the loop shares the one variable and sees what a later iteration left in it (and it is not reset from one iteration to the next)")
	}
	return n
}

// deferredErrorClobber (C15-R1): a deferred function literal that assigns the
// enclosing function's named error result does so only where the result is
// known to be nil (or through errors.CleanUp-style helpers, which keep the
// first error): otherwise the clean-up's outcome replaces the error the
// function was about to return, and a failed operation reports success.
func deferredErrorClobber(c *RC, fns []*Func) int {
	pr := c.P
	n := 0
	for _, fn := range fns {
		if fn.Body == nil || fn.Type.Results == nil {
			continue
		}
		errRes := map[types.Object]string{}
		for _, f := range fn.Type.Results.List {
			for _, nm := range f.Names {
				if o := fn.Pkg.Info.Defs[nm]; o != nil && typeString(o.Type()) == "error" {
					errRes[o] = nm.Name
				}
			}
		}
		if len(errRes) == 0 {
			continue
		}
		ord := 0
		ast.Inspect(fn.Body, func(nd ast.Node) bool {
			d, ok := nd.(*ast.DeferStmt)
			if !ok {
				return true
			}
			lit, ok := d.Call.Fun.(*ast.FuncLit)
			if !ok {
				return true
			}
			ast.Inspect(lit.Body, func(m ast.Node) bool {
				a, ok := m.(*ast.AssignStmt)
				if !ok {
					return true
				}
				for _, lh := range a.Lhs {
					id, ok := lh.(*ast.Ident)
					if !ok {
						continue
					}
					name, isRes := errRes[fn.Pkg.Info.Uses[id]]
					if !isRes {
						continue
					}
					// an assignment that rewrites the error from itself (err = wrap(err)) keeps it
					selfDerived := false
					for _, r := range a.Rhs {
						ast.Inspect(r, func(q ast.Node) bool {
							if qi, ok := q.(*ast.Ident); ok && fn.Pkg.Info.Uses[qi] == fn.Pkg.Info.Uses[id] {
								selfDerived = true
							}
							return true
						})
					}
					if selfDerived {
						continue
					}
					n++
					ord++
					// fine when: inside a recover handler (`if e := recover(); e != nil`), or under a test that
					// the result is nil, or under a test that the new error is non-nil AND the result nil
					guarded := false
					for _, anc := range pathTo(lit.Body, a) {
						ifs, ok := anc.(*ast.IfStmt)
						if !ok || !(ifs.Body.Pos() <= a.Pos() && a.End() <= ifs.Body.End()) {
							continue
						}
						// recover handler
						if as, ok := ifs.Init.(*ast.AssignStmt); ok && len(as.Rhs) == 1 {
							if k, ok := as.Rhs[0].(*ast.CallExpr); ok && expr(k.Fun) == "recover" {
								guarded = true
							}
						}
						// condition implies <name> == nil
						impl := true
						known := false
						for _, resNil := range []bool{true, false} {
							v, ok := evalCond(ifs.Cond, func(e ast.Expr) (bool, bool) {
								if x, nn, okN := nilTest(e); okN {
									if x == name {
										known = true
										return nn != resNil, true
									}
									return true, true // tests of other values: assume they can hold
								}
								return true, true
							})
							if ok && !resNil && v {
								impl = false // the branch is reachable with a non-nil result
							}
						}
						if known && impl {
							guarded = true
						}
					}
					c.Check(guarded, fmt.Sprintf("%s|deferred-assignment#%d-keeps-an-earlier-error", fn.QName(), ord), pr.Pos(a.Pos()),
						"a deferred function assigns the error result "+name+" without establishing that it is still nil: when the function body failed and the clean-up succeeds, the failure is replaced by nil and the operation reports success (a failed Stat returns a zero size and record count with no error)")
				}
				return true
			})
			return true
		})
	}
	return n
}

// capturedWrites (C05-R1): a partitioner is called by several tasks of a
// process at the same time; a partitioner closure must therefore not write to
// variables captured from the function that built it.
func capturedWrites(fn *Func, lit *ast.FuncLit) []string {
	var out []string
	seen := map[string]bool{}
	root := func(e ast.Expr) *ast.Ident {
		for {
			switch x := ast.Unparen(e).(type) {
			case *ast.Ident:
				return x
			case *ast.IndexExpr:
				e = x.X
			case *ast.SelectorExpr:
				e = x.X
			case *ast.StarExpr:
				e = x.X
			default:
				return nil
			}
		}
	}
	note := func(e ast.Expr) {
		id := root(e)
		if id == nil {
			return
		}
		v, ok := fn.Pkg.Info.Uses[id].(*types.Var)
		if !ok || v.IsField() {
			return
		}
		if lit.Pos() <= v.Pos() && v.Pos() < lit.End() {
			return // the literal's own variable or parameter
		}
		if v.Parent() == nil || v.Pkg() == nil {
			return
		}
		// writes through a parameter-like destination (e.g. the shards slice) are
		// writes to the literal's parameters, excluded above; everything else is shared
		if !seen[v.Name()] {
			seen[v.Name()] = true
			out = append(out, v.Name())
		}
	}
	ast.Inspect(lit.Body, func(m ast.Node) bool {
		switch a := m.(type) {
		case *ast.AssignStmt:
			if a.Tok == token.DEFINE {
				return true
			}
			for _, l := range a.Lhs {
				note(l)
			}
		case *ast.IncDecStmt:
			note(a.X)
		}
		return true
	})
	return out
}

// shadowedErrorResult: in a function whose error result is named, an inner
// `name := call()` (a different variable of the same name) that receives an
// error must hand it to a return inside its own scope.  Otherwise the
// function's later `return name` returns the *outer* variable, which never
// saw the failure.  Returns the number of shadowing definitions examined.
func shadowedErrorResult(c *RC, fns []*Func, tag string) int {
	pr := c.P
	n := 0
	for _, fn := range fns {
		if fn.Body == nil || fn.Type.Results == nil {
			continue
		}
		// named error results
		var outer []types.Object
		for _, fld := range fn.Type.Results.List {
			for _, nm := range fld.Names {
				if o := fn.Pkg.Info.Defs[nm]; o != nil && typeString(o.Type()) == "error" && nm.Name != "_" {
					outer = append(outer, o)
				}
			}
		}
		if len(outer) == 0 {
			continue
		}
		idx := 0
		inspectNoLit(fn.Body, func(nd ast.Node) bool {
			as, ok := nd.(*ast.AssignStmt)
			if !ok || as.Tok != token.DEFINE {
				return true
			}
			hasCall := false
			for _, r := range as.Rhs {
				if _, isCall := ast.Unparen(r).(*ast.CallExpr); isCall {
					hasCall = true
				}
			}
			if !hasCall {
				return true
			}
			for _, l := range as.Lhs {
				id, ok := l.(*ast.Ident)
				if !ok {
					continue
				}
				inner := fn.Pkg.Info.Defs[id]
				if inner == nil || typeString(inner.Type()) != "error" {
					continue
				}
				shadows := false
				for _, o := range outer {
					if o.Name() == inner.Name() && o != inner {
						shadows = true
					}
				}
				if !shadows {
					continue
				}
				// only where the function goes on to return the outer variable (by name,
				// or with a bare return) after this point: then the caller's verdict
				// depends on a variable that cannot have seen this failure
				relies := false
				inspectNoLit(fn.Body, func(m ast.Node) bool {
					r, ok := m.(*ast.ReturnStmt)
					if !ok || r.Pos() < as.End() {
						return true
					}
					if len(r.Results) == 0 {
						relies = true
					}
					for _, e := range r.Results {
						if i2, ok := ast.Unparen(e).(*ast.Ident); ok {
							for _, o := range outer {
								if fn.Pkg.Info.Uses[i2] == o {
									relies = true
								}
							}
						}
					}
					return true
				})
				if !relies {
					continue
				}
				idx++
				n++
				// the scope of the inner variable: the innermost enclosing statement that owns it
				var scope ast.Node = fn.Body
				for _, p := range pathTo(fn.Body, as) {
					switch s := p.(type) {
					case *ast.IfStmt:
						if s.Init == ast.Stmt(as) {
							scope = s
						}
					case *ast.SwitchStmt:
						if s.Init == ast.Stmt(as) {
							scope = s
						}
					case *ast.ForStmt:
						if s.Init == ast.Stmt(as) {
							scope = s
						}
					case *ast.BlockStmt:
						for _, st := range s.List {
							if st == ast.Stmt(as) {
								scope = s
							}
						}
					case *ast.CaseClause:
						for _, st := range s.Body {
							if st == ast.Stmt(as) {
								scope = s
							}
						}
					}
				}
				handed := false
				inspectNoLit(scope, func(m ast.Node) bool {
					switch s := m.(type) {
					case *ast.ReturnStmt:
						for _, r := range s.Results {
							ast.Inspect(r, func(x ast.Node) bool {
								if i2, ok := x.(*ast.Ident); ok && fn.Pkg.Info.Uses[i2] == inner {
									handed = true
								}
								return true
							})
						}
					case *ast.AssignStmt:
						// stored somewhere that outlives the scope (a field, an outer variable)
						for i, r := range s.Rhs {
							uses := false
							ast.Inspect(r, func(x ast.Node) bool {
								if i2, ok := x.(*ast.Ident); ok && fn.Pkg.Info.Uses[i2] == inner {
									uses = true
								}
								return true
							})
							if uses && i < len(s.Lhs) {
								if _, isSel := s.Lhs[i].(*ast.SelectorExpr); isSel {
									handed = true
								}
								if li, isId := s.Lhs[i].(*ast.Ident); isId && s.Tok == token.ASSIGN && fn.Pkg.Info.Uses[li] != inner {
									handed = true
								}
							}
						}
					case *ast.CallExpr:
						// passed to the task/scheduler (task.Error(err), fn(err)) counts as handed on
						// unless the callee is a logger
						cn := fn.Pkg.CalleeName(s)
						if strings.Contains(cn, "log.") || strings.HasPrefix(cn, "fmt.") {
							return true
						}
						for _, a := range s.Args {
							if i2, ok := ast.Unparen(a).(*ast.Ident); ok && fn.Pkg.Info.Uses[i2] == inner {
								handed = true
							}
						}
					}
					return true
				})
				c.Check(handed, fmt.Sprintf("%s|%s#%d", fn.QName(), tag, idx), pr.Pos(as.Pos()), "the error received here is held in an inner variable that shadows the function's named result "+inner.Name()+" and never leaves its scope (it is only tested or logged): the function's own `return "+inner.Name()+"` then reports success although the call failed")
			}
			return true
		})
	}
	return n
}
