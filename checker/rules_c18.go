package main

import (
	"fmt"
	"go/ast"
	"go/constant"
	"go/token"
	"go/types"
	"sort"
	"strings"
)

func init() {
	registerProperty(&Property{
		ID:          "C18",
		Explanation: "Decides structural necessary conditions of constructor type checking: (R1) every typecheck.Panic/Panicf in an exported constructor of package bigslice passes the call depth that attributes the error to the constructor's caller (1 in the constructor, 2 inside a closure it invokes, 2 in FuncValue.typecheck which is called from Invocation/applyValue); (R2) each constructor calls the schema checks its operator needs (slicefunc.Of, typecheck.CanApply/Equal/Devectorize, canMakeCombiningFrame, frame.CanHash/CanCompare, canMakeAccumulatorForKey), the outcome of each controls a branch whose failing edge panics, and every return of a slice is reached only through the passing edges; (R3) canMakeAccumulatorForKey and makeAccumulator accept the same kinds and makeAccumulator returns nil only in its default arm; (R4) invocation arguments are type-checked before the Func is called or the invocation created; (R5) a column of a function's or slice's type is inspected (Out(k), constant k) only after the arity was bounded above k on that path; (R6) an accumulator selected by the key's Kind must not assert the predeclared type of that kind on the key column (a named key type of the same kind passes the constructor and panics in the first Accumulate). Not decided: that every schema that fits is accepted, and the types of the returned slice (needs the cross product, i.e. execution).",
		Rules: []Rule{
			{ID: "C18-R1", Doc: "typecheck errors are attributed to the caller", Run: c18r1},
			{ID: "C18-R2", Doc: "each schema check guards a panic and dominates the return", Run: c18r2},
			{ID: "C18-R3", Doc: "accumulator tables agree", Run: c18r3},
			{ID: "C18-R4", Doc: "arguments are checked before the call", Run: c18r4},
			{ID: "C18-R5", Doc: "arity is established before a column is inspected", Run: c18r5},
			{ID: "C18-R6", Doc: "admission by Kind vs use by type assertion", Run: c18r6},
			{ID: "C18-R7", Doc: "CanApply's column loops tile every column index", Run: c18r7},
			{ID: "C18-R8", Doc: "the exact-shape clauses of the documented schemas are each rejected by some typecheck guard; the context parameter is recognised by type identity", Run: c18r8},
			{ID: "C18-R9", Doc: "element-wise type comparisons start at the first column", Run: c18r9},
			{ID: "C18-R10", Doc: "Fold expects func(acc, all columns after the first)", Run: c18r10},
			{ID: "C18-R11", Doc: "a key column must be hashable and comparable: canMakeCombiningFrame records a column when either check fails", Run: c18r11},
		},
	})
}

// constructors: exported top-level functions of the root package returning
// Slice or *FuncValue.
func c18constructors(pr *Prog) []*Func {
	var out []*Func
	for _, fn := range pr.FuncsIn("") {
		if fn.Decl == nil || fn.Decl.Recv != nil || !fn.Decl.Name.IsExported() || fn.Type.Results == nil || len(fn.Type.Results.List) != 1 {
			continue
		}
		rt := expr(fn.Type.Results.List[0].Type)
		if rt == "Slice" || rt == "*FuncValue" {
			out = append(out, fn)
		}
	}
	sort.Slice(out, func(i, j int) bool { return out[i].Name < out[j].Name })
	return out
}

func isTypecheckPanic(pk *Pkg, call *ast.CallExpr) bool {
	cn := pk.CalleeName(call)
	return cn == "typecheck.Panic" || cn == "typecheck.Panicf"
}

func c18r1(c *RC) {
	pr := c.P
	n := 0
	check := func(fn *Func, body ast.Node, want int64, where string) {
		ast.Inspect(body, func(nd ast.Node) bool {
			if lit, ok := nd.(*ast.FuncLit); ok && nd != body {
				_ = lit
				return false
			}
			call, ok := nd.(*ast.CallExpr)
			if !ok || !isTypecheckPanic(fn.Pkg, call) || len(call.Args) == 0 {
				return true
			}
			n++
			v, isC := constInt(fn.Pkg, call.Args[0])
			c.Check(isC && v == want, fmt.Sprintf("%s|panic-depth#%d", where, n), pr.Pos(call.Pos()),
				fmt.Sprintf("typecheck panic in %s passes call depth %s, expected %d: the error is attributed to the wrong source location (library code or the caller's caller) instead of the user's constructor call", where, expr(call.Args[0]), want))
			return true
		})
	}
	for _, fn := range c18constructors(pr) {
		check(fn, fn.Body, 1, fn.QName())
		// closures invoked from the constructor (die := func(...) {...}; die(...))
		for _, l := range fn.Lits {
			// is the literal bound to a local that is called in the constructor?
			called := false
			ast.Inspect(fn.Body, func(nd ast.Node) bool {
				if a, ok := nd.(*ast.AssignStmt); ok && len(a.Rhs) == 1 && a.Rhs[0] == ast.Expr(l.Lit) {
					name := expr(a.Lhs[0])
					for _, k := range directCalls(fn.Body) {
						if expr(k.Fun) == name {
							called = true
						}
					}
				}
				return true
			})
			if called {
				check(l, l.Body, 2, l.QName())
			}
		}
	}
	// FuncValue.typecheck is reached from Invocation / applyValue: depth 2
	done := map[*Func]bool{}
	for _, fn := range c18constructors(pr) {
		done[fn] = true
		for _, l := range fn.Lits {
			done[l] = true
		}
	}
	if tc := c.MustFn(".(*FuncValue).typecheck"); tc != nil {
		check(tc, tc.Body, 2, tc.QName())
		done[tc] = true
	}
	if av := c.MustFn(".(*FuncValue).applyValue"); av != nil {
		check(av, av.Body, 2, av.QName())
		done[av] = true
	}
	// every other function of the package that raises a typecheck panic
	n += c18depths(c, done)
	c.Floor("typecheck panics in constructors", n, 20)
}

// schema checks: callee -> short name
var c18checks = map[string]string{
	"slicefunc.Of":              "Of",
	"typecheck.CanApply":        "CanApply",
	"typecheck.Equal":           "Equal",
	"typecheck.Devectorize":     "Devectorize",
	"typecheck.Slices":          "Slices",
	".canMakeCombiningFrame":    "canMakeCombiningFrame",
	"frame.CanHash":             "CanHash",
	"frame.CanCompare":          "CanCompare",
	".canMakeAccumulatorForKey": "canMakeAccumulatorForKey",
}

// required checks per constructor (who-must-call), from the documented schemas.
var c18required = map[string][]string{
	".Map":         {"Of", "CanApply"},
	".Filter":      {"Of", "CanApply"},
	".Flatmap":     {"Of", "CanApply", "Devectorize"},
	".Fold":        {"Of", "Equal", "CanHash", "canMakeAccumulatorForKey"},
	".Repartition": {"Of", "Equal"},
	".ReaderFunc":  {"Of", "Devectorize"},
	".WriterFunc":  {"Of"},
	".Reduce":      {"Of", "canMakeCombiningFrame"},
	".Reshuffle":   {"canMakeCombiningFrame"},
	".Reshard":     {"canMakeCombiningFrame"},
	".Cogroup":     {"CanHash", "CanCompare"},
	".Const":       {"Slices"},
}

func c18r2(c *RC) {
	pr := c.P
	ctors := map[string]*Func{}
	for _, fn := range c18constructors(pr) {
		ctors[fn.QName()] = fn
	}
	var names []string
	for k := range c18required {
		names = append(names, k)
	}
	sort.Strings(names)
	helpers := c18assertingHelpers(pr)
	for _, q := range names {
		fn := ctors[q]
		if fn == nil {
			c.Undecide("constructor %s not found", q)
			continue
		}
		req := c18required[q]
		fl := pr.Flow(fn)
		// which checks are called at all
		called := map[string]bool{}
		viaHelper := map[string]bool{}
		_ = viaHelper
		for _, k := range callsIn(fn.Body) {
			if nm, ok := c18checks[fn.Pkg.CalleeName(k)]; ok {
				called[nm] = true
			}
			for _, nm := range helpers[fn.Pkg.CalleeName(k)] {
				called[nm] = true
				viaHelper[nm] = true
			}
		}
		for _, r := range req {
			c.Check(called[r], q+"|calls:"+r, pr.Pos(fn.Body.Pos()), fmt.Sprintf("%s no longer performs the %s check its schema requires: ill-typed arguments are accepted and fail (or misbehave) at run time instead of with a located typecheck error", strings.TrimPrefix(q, "."), r))
		}
		// path rule: every non-panicking return passed the good edge of each required check
		panics := func(b *cfg2Block) bool {
			for _, nd := range b.Nodes {
				for _, k := range callsIn(nd) {
					if !fn.Pkg.mayReturn(k) {
						return true
					}
					// a local closure that panics (die)
					if id, ok := k.Fun.(*ast.Ident); ok {
						for _, l := range fn.Lits {
							bound := false
							ast.Inspect(fn.Body, func(m ast.Node) bool {
								if a, ok := m.(*ast.AssignStmt); ok && len(a.Rhs) == 1 && a.Rhs[0] == ast.Expr(l.Lit) && expr(a.Lhs[0]) == id.Name {
									bound = true
								}
								return true
							})
							if bound {
								for _, k2 := range callsIn(l.Body) {
									if !l.Pkg.mayReturn(k2) {
										return true
									}
								}
							}
						}
					}
				}
			}
			return false
		}
		missing := map[string]bool{}
		var trail []string
		// state: "passed:<a,b>;bind:<var=check,...>"
		type st struct {
			passed map[string]bool
			bind   map[string]string
		}
		encode := func(s st) string {
			var p, b []string
			for k := range s.passed {
				p = append(p, k)
			}
			for k, v := range s.bind {
				b = append(b, k+"="+v)
			}
			sort.Strings(p)
			sort.Strings(b)
			return strings.Join(p, ",") + ";" + strings.Join(b, ",")
		}
		decode := func(x string) st {
			s := st{map[string]bool{}, map[string]string{}}
			parts := strings.SplitN(x, ";", 2)
			if len(parts) == 2 {
				for _, p := range strings.Split(parts[0], ",") {
					if p != "" {
						s.passed[p] = true
					}
				}
				for _, b := range strings.Split(parts[1], ",") {
					if kv := strings.SplitN(b, "=", 2); len(kv) == 2 {
						s.bind[kv[0]] = kv[1]
					}
				}
			}
			return s
		}
		checksIn := func(e ast.Node, cur st) []string {
			var out []string
			ast.Inspect(e, func(m ast.Node) bool {
				switch x := m.(type) {
				case *ast.CallExpr:
					if nm, ok := c18checks[fn.Pkg.CalleeName(x)]; ok {
						out = append(out, nm)
					}
				case *ast.Ident:
					if nm, ok := cur.bind[x.Name]; ok {
						out = append(out, nm)
					}
				}
				return true
			})
			return out
		}
		fl.Walk(fl.Entry(), ";", nil, Visitor{NoFacts: true,
			Node: func(nd ast.Node, x string, s *Step) (string, bool) {
				cur := decode(x)
				// bindings: v, ok := check(...)   /  err := check(...)
				var lhs []ast.Expr
				var rhs ast.Expr
				switch a := nd.(type) {
				case *ast.AssignStmt:
					if len(a.Rhs) == 1 {
						lhs, rhs = a.Lhs, a.Rhs[0]
					}
				}
				if rhs != nil {
					if k, ok := ast.Unparen(rhs).(*ast.CallExpr); ok {
						if nm, ok := c18checks[fn.Pkg.CalleeName(k)]; ok {
							last := lhs[len(lhs)-1]
							if id, ok := last.(*ast.Ident); ok {
								cur.bind[id.Name] = nm
							}
						}
					}
				}
				for _, k := range callsIn(nd) {
					for _, nm := range helpers[fn.Pkg.CalleeName(k)] {
						cur.passed[nm] = true
					}
				}
				if ret, ok := nd.(*ast.ReturnStmt); ok {
					_ = ret
					for _, r := range req {
						if !cur.passed[r] && called[r] {
							missing[r] = true
							trail = s.Trail()
						}
					}
				}
				return encode(cur), false
			},
			Enter: func(from, to *cfg2Block, x string, s *Step) (string, bool) {
				cond := fl.edgeCond(from)
				if cond == nil || len(from.Succs) != 2 {
					return x, false
				}
				cur := decode(x)
				names := checksIn(cond, cur)
				if len(names) == 0 {
					return x, false
				}
				other := from.Succs[0]
				if other == to {
					other = from.Succs[1]
				}
				// the edge is a passing edge if the *other* edge panics and is the
				// edge taken when the check has failed (the condition is evaluated
				// with the check's atom set to "failed", other atoms unknown)
				if panics(other) && !panics(to) {
					for _, nm := range names {
						vf, known := c18failValue(fn.Pkg, cond, nm, cur.bind)
						if known && other == from.Succs[c18edge(vf)] {
							cur.passed[nm] = true
						}
					}
				}
				return encode(cur), false
			},
		})
		for _, r := range req {
			if !called[r] {
				continue
			}
			// a check applied to every element in a loop cannot dominate the
			// return on the zero-iteration path; it is held to the local rule
			// (its failing edge panics) plus "the loop lies on every path"
			if lp := c18checkLoop(fn, r); lp != nil {
				localOK := false
				for _, b := range fl.G.Blocks {
					if !b.Live || len(b.Succs) != 2 {
						continue
					}
					cond := fl.edgeCond(b)
					if cond == nil || !(lp.Pos() <= cond.Pos() && cond.End() <= lp.End()) {
						continue
					}
					mentions := false
					ast.Inspect(cond, func(m ast.Node) bool {
						if k, ok := m.(*ast.CallExpr); ok && c18checks[fn.Pkg.CalleeName(k)] == r {
							mentions = true
						}
						return true
					})
					if mentions && (panics(b.Succs[0]) != panics(b.Succs[1])) {
						vf, known := c18failValue(fn.Pkg, cond, r, nil)
						if known && panics(b.Succs[c18edge(vf)]) {
							localOK = true
						}
					}
				}
				onPath := true
				for _, rl := range fl.FindAll(func(n ast.Node) bool { _, ok := n.(*ast.ReturnStmt); return ok }) {
					dom, _ := fl.Dominated(rl, func(n ast.Node, s *Step) bool {
						return n.Pos() >= lp.Pos() && n.End() <= lp.End()
					})
					// the range expression node precedes the loop; accept domination by the loop header
					if !dom {
						dom2, _ := fl.Dominated(rl, func(n ast.Node, s *Step) bool {
							rs, ok := lp.(*ast.RangeStmt)
							return ok && n == ast.Node(rs.X)
						})
						dom = dom2
					}
					if !dom {
						onPath = false
					}
				}
				c.Check(localOK && onPath, q+"|return-behind:"+r, pr.Pos(lp.Pos()),
					fmt.Sprintf("%s applies the %s check per element in a loop, but its failing outcome does not panic or the loop does not lie on every path to the return", strings.TrimPrefix(q, "."), r))
				continue
			}
			c.Check(!missing[r], q+"|return-behind:"+r, pr.Pos(fn.Body.Pos()),
				fmt.Sprintf("%s returns a slice on a path where the %s check did not pass (its outcome does not lead to a typecheck panic on the failing edge): the constructor accepts what its schema forbids", strings.TrimPrefix(q, "."), r), trail...)
		}
	}
}

func c18r3(c *RC) {
	pr := c.P
	can := c.MustFn(".canMakeAccumulatorForKey")
	mk := c.MustFn(".makeAccumulator")
	if can == nil || mk == nil {
		return
	}
	canK, _, _, ok1 := kindCases(can, "true")
	if !ok1 {
		c.Fail(can.QName()+"|kind-switch", pr.Pos(can.Body.Pos()), "not a switch over Kind()")
		return
	}
	// makeAccumulator: kinds whose arm returns a non-nil accumulator
	var mkK []string
	nilOutsideDefault := false
	ast.Inspect(mk.Body, func(n ast.Node) bool {
		cc, ok := n.(*ast.CaseClause)
		if !ok {
			return true
		}
		retNil := false
		ast.Inspect(cc, func(m ast.Node) bool {
			if r, ok := m.(*ast.ReturnStmt); ok && len(r.Results) == 1 && expr(r.Results[0]) == "nil" {
				retNil = true
			}
			return true
		})
		if cc.List == nil {
			return true
		}
		if retNil {
			nilOutsideDefault = true
		}
		for _, e := range cc.List {
			mkK = append(mkK, expr(e))
		}
		return true
	})
	sort.Strings(mkK)
	c.Check(strings.Join(canK, ",") == strings.Join(mkK, ","), ".canMakeAccumulatorForKey~makeAccumulator|same-kinds", pr.Pos(mk.Body.Pos()),
		fmt.Sprintf("Fold admits key kinds [%s] but accumulators exist for [%s]: an admitted key gets a nil accumulator and the task panics", strings.Join(canK, ","), strings.Join(mkK, ",")))
	c.Check(!nilOutsideDefault, mk.QName()+"|nil-only-in-default", pr.Pos(mk.Body.Pos()), "makeAccumulator returns nil for a listed kind")
}

func c18r4(c *RC) {
	pr := c.P
	for _, spec := range []struct{ fn, use string }{
		{".(*FuncValue).Invocation", ".newInvocation"},
		{".(*FuncValue).applyValue", "reflect.Value.Call"},
	} {
		fn := c.MustFn(spec.fn)
		if fn == nil {
			continue
		}
		fl := pr.Flow(fn)
		var use, tc *ast.CallExpr
		for _, k := range callsIn(fn.Body) {
			cn := fn.Pkg.CalleeName(k)
			if cn == spec.use {
				use = k
			}
			if cn == ".(*FuncValue).typecheck" {
				tc = k
			}
		}
		if use == nil {
			c.Fail(spec.fn+"|uses-args", pr.Pos(fn.Body.Pos()), "cannot find the use of the arguments ("+spec.use+")")
			continue
		}
		dom := false
		var wit []string
		if tc != nil {
			ul, _ := fl.LocOf(use)
			dom, wit = fl.Dominated(ul, func(n ast.Node, s *Step) bool {
				return nodeHas(n, func(m ast.Node) bool { return m == ast.Node(tc) })
			})
		}
		c.Check(dom, spec.fn+"|typecheck-before-use", pr.Pos(use.Pos()), "the arguments are used ("+spec.use+") on a path that did not type-check them against the Func's parameters first: an ill-typed argument dies in reflect (or travels to the workers) instead of producing a located typecheck error", wit...)
	}
	// FuncValue.typecheck compares arity first
	if tc := c.MustFn(".(*FuncValue).typecheck"); tc != nil {
		ok := false
		if len(tc.Body.List) > 0 {
			if ifs, isIf := tc.Body.List[0].(*ast.IfStmt); isIf {
				t := strings.ReplaceAll(expr(ifs.Cond), " ", "")
				rv := recvOf(tc)
				ap := "args"
				if tc.Type.Params != nil && len(tc.Type.Params.List) == 1 && len(tc.Type.Params.List[0].Names) == 1 {
					ap = tc.Type.Params.List[0].Names[0].Name
				}
				if t == "len("+ap+")!=len("+rv+".args)" || t == "len("+rv+".args)!=len("+ap+")" {
					for _, k := range callsIn(ifs.Body) {
						if isTypecheckPanic(tc.Pkg, k) {
							ok = true
						}
					}
				}
			}
		}
		c.Check(ok, tc.QName()+"|arity-first", pr.Pos(tc.Body.Pos()), "argument count is no longer compared with the parameter count before the per-argument checks (index out of range instead of a typecheck error)")
	}
}

var arityEnv *c11env

// arityBound: does cond (with outcome) bound <recv>.NumOut() to be > k?
func arityBounds(cond ast.Expr, outcome bool, recv string, k int64, pk *Pkg) bool {
	cond = ast.Unparen(cond)
	switch c := cond.(type) {
	case *ast.UnaryExpr:
		if c.Op == token.NOT {
			return arityBounds(c.X, !outcome, recv, k, pk)
		}
	case *ast.BinaryExpr:
		switch c.Op {
		case token.LOR:
			if !outcome { // both false
				return arityBounds(c.X, false, recv, k, pk) || arityBounds(c.Y, false, recv, k, pk)
			}
			return false
		case token.LAND:
			if outcome {
				return arityBounds(c.X, true, recv, k, pk) || arityBounds(c.Y, true, recv, k, pk)
			}
			return false
		}
		side := func(e ast.Expr) string {
			t := strings.ReplaceAll(expr(e), " ", "")
			if arityEnv != nil {
				t = strings.ReplaceAll(expr(arityEnv.resolve(e, 0)), " ", "")
			}
			return t
		}
		X, Y, op := c.X, c.Y, c.Op
		if side(X) != recv+".NumOut()" && side(Y) == recv+".NumOut()" {
			// the comparison is written the other way round: mirror it
			X, Y = Y, X
			op = map[token.Token]token.Token{token.LSS: token.GTR, token.GTR: token.LSS, token.LEQ: token.GEQ, token.GEQ: token.LEQ, token.EQL: token.EQL, token.NEQ: token.NEQ}[op]
		}
		if side(X) != recv+".NumOut()" {
			return false
		}
		v, ok := constInt(pk, Y)
		if !ok {
			// NumOut() != 3+slice.NumOut() style: a lower bound exists if the constant part > k
			if be, isBe := ast.Unparen(Y).(*ast.BinaryExpr); isBe && be.Op == token.ADD {
				for _, part := range []ast.Expr{be.X, be.Y} {
					if cv, isC := constInt(pk, part); isC && cv > k && (op == token.NEQ && !outcome || op == token.EQL && outcome) {
						return true
					}
				}
			}
			return false
		}
		switch op {
		case token.NEQ: // false => == v
			return !outcome && v > k
		case token.EQL:
			return outcome && v > k
		case token.LSS: // NumOut() < v false => >= v
			return !outcome && v > k
		case token.LEQ:
			return !outcome && v >= k
		case token.GEQ:
			return outcome && v > k
		case token.GTR:
			return outcome && v >= k
		}
	}
	return false
}

func c18r5(c *RC) {
	pr := c.P
	n := 0
	for _, fn := range c18constructors(pr) {
		fl := pr.Flow(fn)
		q := fn.QName()
		arityEnv = newC11env(pr, fn)
		for _, call := range callsIn(fn.Body) {
			sel, ok := call.Fun.(*ast.SelectorExpr)
			if !ok || sel.Sel.Name != "Out" || len(call.Args) != 1 {
				continue
			}
			k, isC := constInt(fn.Pkg, call.Args[0])
			if !isC {
				continue
			}
			recv := strings.ReplaceAll(expr(sel.X), " ", "")
			// only function signatures and slice types (things with NumOut)
			tv := fn.Pkg.Info.Types[sel.X]
			if tv.Type == nil {
				continue
			}
			if _, _, has := types.LookupFieldOrMethod(tv.Type, true, fn.Pkg.Types, "NumOut"); has {
				continue
			}
			obj, _, _ := types.LookupFieldOrMethod(tv.Type, true, fn.Pkg.Types, "NumOut")
			if obj == nil {
				continue
			}
			n++
			loc, ok := fl.LocOf(call)
			if !ok {
				continue
			}
			// the Out call may sit inside the very condition that bounds the arity
			// via short-circuit evaluation: `a.NumOut() != 1 || a.Out(0)...`
			inCondGuard := false
			if cond, isE := loc.B.Nodes[loc.I].(ast.Expr); isE {
				inCondGuard = shortCircuitGuards(cond, call, recv, k, fn.Pkg)
			}
			guarded := true
			var trail []string
			if !inCondGuard {
				fl.Walk(fl.Entry(), "", nil, Visitor{NoFacts: true,
					Enter: func(from, to *cfg2Block, x string, s *Step) (string, bool) {
						cond := fl.edgeCond(from)
						if cond == nil {
							return x, false
						}
						if arityBounds(cond, from.Succs[0] == to, recv, k, fn.Pkg) {
							return "b", false
						}
						return x, false
					},
					Node: func(nd ast.Node, x string, s *Step) (string, bool) {
						if s.Block == loc.B && s.Idx == loc.I {
							if x != "b" {
								guarded = false
								trail = s.Trail()
							}
							return x, true
						}
						return x, false
					}})
			}
			c.Check(guarded, fmt.Sprintf("%s|%s.Out(%d)-after-arity", q, recv, k), pr.Pos(call.Pos()),
				fmt.Sprintf("%s.Out(%d) is evaluated on a path that has not established %s.NumOut() > %d: a function or slice with fewer columns makes the constructor die with a reflect index panic instead of a typecheck error attributed to the caller", recv, k, recv, k), trail...)
		}
	}
	c.Floor("constant column inspections in constructors", n, 8)
}

// shortCircuitGuards: within cond, the call is only evaluated if an earlier
// operand established NumOut() > k (operands of || evaluated when earlier ones
// are false; of && when earlier ones are true).
func shortCircuitGuards(cond ast.Expr, call *ast.CallExpr, recv string, k int64, pk *Pkg) bool {
	cond = ast.Unparen(cond)
	if u, isNot := cond.(*ast.UnaryExpr); isNot && u.Op == token.NOT {
		// negation does not change which operands are evaluated
		return shortCircuitGuards(u.X, call, recv, k, pk)
	}
	be, ok := cond.(*ast.BinaryExpr)
	if !ok {
		return false
	}
	contains := func(e ast.Expr) bool {
		f := false
		ast.Inspect(e, func(n ast.Node) bool {
			if n == ast.Node(call) {
				f = true
			}
			return true
		})
		return f
	}
	switch be.Op {
	case token.LOR:
		if contains(be.Y) {
			// evaluated only if X is false
			if arityBounds(be.X, false, recv, k, pk) {
				return true
			}
			return shortCircuitGuards(be.Y, call, recv, k, pk)
		}
		return shortCircuitGuards(be.X, call, recv, k, pk)
	case token.LAND:
		if contains(be.Y) {
			if arityBounds(be.X, true, recv, k, pk) {
				return true
			}
			return shortCircuitGuards(be.Y, call, recv, k, pk)
		}
		return shortCircuitGuards(be.X, call, recv, k, pk)
	}
	return false
}

func c18r6(c *RC) {
	pr := c.P
	mk := c.MustFn(".makeAccumulator")
	if mk == nil {
		return
	}
	n := 0
	ast.Inspect(mk.Body, func(nd ast.Node) bool {
		cc, ok := nd.(*ast.CaseClause)
		if !ok || cc.List == nil {
			return true
		}
		// the accumulator type built in this arm
		var accT string
		ast.Inspect(cc, func(m ast.Node) bool {
			if cl, ok := m.(*ast.CompositeLit); ok && accT == "" {
				accT = expr(cl.Type)
			}
			return true
		})
		if accT == "" {
			return true
		}
		acc := pr.Fn(".(*" + accT + ").Accumulate")
		if acc == nil {
			return true
		}
		n++
		kind := expr(cc.List[0])
		// single-result type assertion of the key column to a predeclared slice type
		var bad *ast.TypeAssertExpr
		ast.Inspect(acc.Body, func(m ast.Node) bool {
			ta, ok := m.(*ast.TypeAssertExpr)
			if !ok || ta.Type == nil {
				return true
			}
			if call, ok := ta.X.(*ast.CallExpr); ok && strings.HasSuffix(acc.Pkg.CalleeName(call), "frame.Frame.Interface") {
				// single-result form?
				par := parentOf(acc.Body, ta)
				if a, ok := par.(*ast.AssignStmt); ok && len(a.Lhs) == 1 {
					bad = ta
				}
			}
			return true
		})
		c.Check(bad == nil, fmt.Sprintf(".makeAccumulator|arm:%s|%s-asserts-predeclared-type", kind, accT), pr.Pos(acc.Body.Pos()),
			fmt.Sprintf("Fold admits every key type of kind %s (canMakeAccumulatorForKey switches on Kind), but %s.Accumulate asserts the key column to %s with a single-result assertion: a named key type of that kind with registered frame ops passes the constructor and panics in the first Accumulate", strings.TrimPrefix(kind, "reflect."), accT, exprOr(bad)))
		return true
	})
	c.Floor("accumulator arms", n, 3)
}

func exprOr(ta *ast.TypeAssertExpr) string {
	if ta == nil {
		return "?"
	}
	return expr(ta.Type)
}

// c18checkLoop: the innermost loop containing every call of check r in fn, or nil.
func c18checkLoop(fn *Func, r string) ast.Stmt {
	var loop ast.Stmt
	all := true
	n := 0
	for _, k := range callsIn(fn.Body) {
		if c18checks[fn.Pkg.CalleeName(k)] != r {
			continue
		}
		n++
		l := enclosingLoop(fn.Body, k)
		if l == nil {
			all = false
		} else {
			loop = l
		}
	}
	if n == 0 || !all {
		return nil
	}
	return loop
}

// c18assertingHelpers: unexported functions of the root package whose body
// asserts a schema check — a top-level `if` whose condition applies the check
// and whose body ends in a call that does not return (a typecheck panic) — so
// that returning from the helper means the check passed.  Function name ->
// checks asserted.
func c18assertingHelpers(pr *Prog) map[string][]string {
	out := map[string][]string{}
	for _, fn := range pr.FuncsIn("") {
		if fn.Decl == nil || fn.Body == nil || fn.Decl.Name.IsExported() {
			continue
		}
		for _, st := range fn.Body.List {
			if _, isRet := st.(*ast.ReturnStmt); isRet {
				break
			}
			ifs, ok := st.(*ast.IfStmt)
			if !ok || len(ifs.Body.List) == 0 {
				continue
			}
			var names []string
			for _, part := range []ast.Node{ifs.Init, ifs.Cond} {
				if part == nil || part == ast.Node((*ast.AssignStmt)(nil)) {
					continue
				}
				ast.Inspect(part, func(m ast.Node) bool {
					if k, ok := m.(*ast.CallExpr); ok {
						if nm, ok := c18checks[fn.Pkg.CalleeName(k)]; ok {
							names = append(names, nm)
						}
					}
					return true
				})
			}
			if len(names) == 0 {
				continue
			}
			last := ifs.Body.List[len(ifs.Body.List)-1]
			noret := false
			if es, ok := last.(*ast.ExprStmt); ok {
				if k, ok := es.X.(*ast.CallExpr); ok && !fn.Pkg.mayReturn(k) {
					noret = true
				}
			}
			if noret {
				bind := map[string]string{}
				if as, ok := ifs.Init.(*ast.AssignStmt); ok && len(as.Rhs) == 1 {
					if k, ok := ast.Unparen(as.Rhs[0]).(*ast.CallExpr); ok {
						if nm, ok := c18checks[fn.Pkg.CalleeName(k)]; ok {
							if id, ok := as.Lhs[len(as.Lhs)-1].(*ast.Ident); ok {
								bind[id.Name] = nm
							}
						}
					}
				}
				for _, nm := range names {
					// the panicking body must be entered when the check has failed
					if vf, known := c18failValue(fn.Pkg, ifs.Cond, nm, bind); known && vf {
						out[fn.QName()] = append(out[fn.QName()], nm)
					}
				}
			}
		}
	}
	return out
}

// c18edge: index of the successor taken when a branch condition has value v
// (go/cfg puts the true edge first).
func c18edge(v bool) int {
	if v {
		return 0
	}
	return 1
}

// c18failValue evaluates a branch condition under the assumption that schema
// check nm has failed, every other atom being unknown (Kleene logic): a direct
// call of the check is false, a boolean bound to its outcome (`_, ok := ...`)
// is false, an error bound to its outcome is non-nil.  known == false means
// the failure of the check alone does not decide the branch.
func c18failValue(pk *Pkg, cond ast.Expr, nm string, bind map[string]string) (bool, bool) {
	var atom func(e ast.Expr) (bool, bool)
	atom = func(e ast.Expr) (bool, bool) {
		e = ast.Unparen(e)
		// X == true, X != false, ... (either operand order)
		if be, ok := e.(*ast.BinaryExpr); ok && (be.Op == token.EQL || be.Op == token.NEQ) {
			l, r := be.X, be.Y
			if tv := pk.Info.Types[l]; tv.Value != nil && tv.Value.Kind() == constant.Bool {
				l, r = r, l
			}
			if tv := pk.Info.Types[r]; tv.Value != nil && tv.Value.Kind() == constant.Bool {
				v, known := evalCond3(l, atom)
				if !known {
					return false, false
				}
				return (v == constant.BoolVal(tv.Value)) == (be.Op == token.EQL), true
			}
		}
		switch x := e.(type) {
		case *ast.CallExpr:
			if c18checks[pk.CalleeName(x)] == nm {
				return false, true
			}
		case *ast.Ident:
			if bind[x.Name] == nm {
				if t := pk.Info.TypeOf(x); t != nil {
					if b, ok := t.Underlying().(*types.Basic); ok && b.Kind() == types.Bool {
						return false, true
					}
				}
			}
		case *ast.BinaryExpr:
			if x.Op == token.EQL || x.Op == token.NEQ {
				if v, nonNil, ok := nilTest(x); ok && bind[v] == nm {
					return nonNil, true
				}
			}
		}
		return false, false
	}
	return evalCond3(cond, atom)
}
