package main

import (
	"fmt"
	"go/ast"
	"go/constant"
	"go/token"
	"go/types"
	"strings"
)

func init() {
	registerProperty(&Property{
		ID:          "C15",
		Explanation: "Decides structural necessary conditions of store atomicity and exact resumption: (R1) no error of a storage operation (Write, Flush, Commit, Seek, Stat, Create, Open, Read, close) is dropped or overwritten on any path in exec/store.go and at the store call sites of the worker; (R2) a buffered writer is flushed after its last write on every path to Commit; (R3) fileWriter.Commit writes the record-count trailer and only then closes; (R4) the trailer size is one value at its four sites (Commit buffer, Open limit, Stat seek, Stat buffer) and all use one byte order; (R5) the retrying reader reopens at a field that is advanced only by the count of bytes it just returned, closes and forgets the failed reader before waiting, and keeps the wait error; (R6) the memory store refuses a second commit, slices behind the length check and touches its maps only under its mutex. Not decided: rename-on-close semantics of grailbio/base file.File, the exact bytes, behaviour under real I/O faults.",
		Rules: []Rule{
			{ID: "C15-R1", Doc: "storage errors are never dropped", Run: c15r1},
			{ID: "C15-R2", Doc: "flush before commit", Run: c15r2},
			{ID: "C15-R3", Doc: "trailer is written before the file is closed", Run: c15r3},
			{ID: "C15-R4", Doc: "trailer size and byte order agree at all sites", Run: c15r4},
			{ID: "C15-R5", Doc: "retry reader resumes at the delivered offset", Run: c15r5},
			{ID: "C15-R6", Doc: "memory store: single commit, bounded slice, locked maps", Run: c15r6},
		},
	})
}

func c15r1(c *RC) {
	c.Floor("deferred assignments to error results (exec)", deferredErrorClobber(c, c.P.FuncsIn("exec")), 1)
	pr := c.P
	opts := ErrFlowOpts{AllowBlank: false}
	storeIface := pr.lookupIface("exec", "Store")
	wcIface := pr.lookupIface("exec", "writeCommitter")
	if storeIface == nil || wcIface == nil {
		c.Undecide("interfaces exec.Store / exec.writeCommitter not found")
		return
	}
	isStoreMethod := func(fn *Func, call *ast.CallExpr) bool {
		sel, ok := call.Fun.(*ast.SelectorExpr)
		if !ok {
			return false
		}
		s, ok := fn.Pkg.Info.Selections[sel]
		if !ok || s.Kind() != types.MethodVal {
			return false
		}
		recv := s.Recv()
		for _, it := range []*types.Interface{storeIface, wcIface} {
			if types.Implements(recv, it) || types.Implements(types.NewPointer(recv), it) {
				// the method must be one of the interface's methods
				for i := 0; i < it.NumMethods(); i++ {
					if it.Method(i).Name() == sel.Sel.Name {
						return true
					}
				}
				if sel.Sel.Name == "Write" {
					return true
				}
			}
		}
		return false
	}
	// (a) everything in store.go
	n1 := errSites(c, pr.FuncsInFile("exec/store.go"), func(fn *Func, call *ast.CallExpr, cn string) bool {
		// writes into an in-memory hash never fail (hash.Hash contract)
		if sel, ok := call.Fun.(*ast.SelectorExpr); ok {
			if tv, ok := fn.Pkg.Info.Types[sel.X]; ok && tv.Type != nil && strings.HasPrefix(typeString(tv.Type), "hash.") {
				return false
			}
		}
		return true
	}, opts, nil)
	// (b) store call sites elsewhere in exec
	except := map[string]string{
		"exec.(*worker).Run|exec.Store.Stat": "a miss in the local store is the normal case and falls through to the remote read of the same partition",
		"exec.(*worker).Run|exec.Store.Open": "a failed local open falls through to the remote read of the same partition",
	}
	var others []*Func
	for _, fn := range pr.FuncsIn("exec") {
		if fn.Body != nil && pr.RelFile(fn.Body.Pos()) != "exec/store.go" {
			others = append(others, fn)
		}
	}
	n2 := errSites(c, others, func(fn *Func, call *ast.CallExpr, cn string) bool {
		if isStoreMethod(fn, call) {
			return true
		}
		if cn == "bufio.(*Writer).Flush" || cn == "exec.closeFile" {
			return true
		}
		return false
	}, opts, except)
	c.Floor("error-returning storage calls in exec/store.go", n1, 8)
	c.Floor("store call sites in the worker", n2, 6)
	c.Note("%d sites in store.go, %d store call sites elsewhere in exec", n1, n2)
}

func c15r2(c *RC) {
	pr := c.P
	n := 0
	for _, fn := range pr.FuncsIn("exec") {
		if fn.Body == nil {
			continue
		}
		var commits []*ast.CallExpr
		hasBuf := false
		for _, call := range directCalls(fn.Body) {
			cn := fn.Pkg.CalleeName(call)
			if cn == "exec.writeCommitter.Commit" {
				commits = append(commits, call)
			}
		}
		// a bufio.Writer over a store writer is in play if the function (or its
		// parents) calls bufio.NewWriter
		for f := fn; f != nil && f.Body != nil; f = f.Parent {
			for _, call := range directCalls(f.Body) {
				if f.Pkg.CalleeName(call) == "bufio.NewWriter" {
					hasBuf = true
				}
			}
		}
		if len(commits) == 0 || !hasBuf {
			continue
		}
		fl := pr.Flow(fn)
		fq := fn.QName()
		isWrite := func(cn string) bool {
			switch cn {
			case "sliceio.Writer.Write", "sliceio.(*Encoder).Write", "exec.(*combiner).WriteTo", "exec.(*statsWriter).Write", "bufio.(*Writer).Write":
				return true
			}
			return false
		}
		for i, commit := range commits {
			n++
			if _, ok := fl.LocOf(commit); !ok {
				c.Undecide("%s: Commit call not in CFG", fq)
				continue
			}
			key := fmt.Sprintf("%s|flush-before-Commit#%d", fq, i+1)
			bad := false
			var trail []string
			fl.Walk(fl.Entry(), "dirty", nil, Visitor{
				Node: func(nd ast.Node, x string, s *Step) (string, bool) {
					if _, isDefer := nd.(*ast.DeferStmt); isDefer {
						return x, false
					}
					for _, call := range callsIn(nd) {
						cn := fn.Pkg.CalleeName(call)
						switch {
						case call == commit:
							if x != "clean" {
								bad = true
								trail = s.Trail()
							}
							x = "dirty"
						case cn == "bufio.(*Writer).Flush":
							x = "clean"
						case isWrite(cn):
							x = "dirty"
						case cn == "exec.writeCommitter.Commit":
							x = "dirty"
						}
					}
					return x, false
				},
			})
			c.Check(!bad, key, pr.Pos(commit.Pos()),
				"Commit is reachable without the buffered writer having been flushed after the last write: the tail of the partition stays in the buffer and the committed entry is short", trail...)
		}
	}
	c.Floor("Commit call sites behind a bufio.Writer", n, 2)
}

func c15r3(c *RC) {
	pr := c.P
	fn := c.MustFn("exec.(*fileWriter).Commit")
	if fn == nil {
		return
	}
	fq := fn.QName()
	fl := pr.Flow(fn)
	// locate: PutUint64(buf[:], uint64(<param>)) ; Write(buf[:]) ; close
	var put, write, closeCall *ast.CallExpr
	for _, call := range callsIn(fn.Body) {
		cn := fn.Pkg.CalleeName(call)
		switch {
		case strings.HasSuffix(cn, ".PutUint64"):
			put = call
		case strings.HasSuffix(cn, ".Write") && len(call.Args) == 1:
			write = call
		case cn == "exec.closeFile" || strings.HasSuffix(cn, "file.File.Close"):
			closeCall = call
		}
	}
	if put == nil || write == nil || closeCall == nil {
		c.Fail(fq+"|trailer-then-close", pr.Pos(fn.Body.Pos()), fmt.Sprintf("Commit no longer has the shape put-count / write-trailer / close (put=%v write=%v close=%v)", put != nil, write != nil, closeCall != nil))
		return
	}
	// the count written is the records parameter
	cntParam := ""
	if len(fn.Type.Params.List) >= 2 {
		last := fn.Type.Params.List[len(fn.Type.Params.List)-1]
		if len(last.Names) > 0 {
			cntParam = last.Names[len(last.Names)-1].Name
		}
	}
	okCount := false
	if len(put.Args) == 2 {
		ast.Inspect(put.Args[1], func(n ast.Node) bool {
			if id, ok := n.(*ast.Ident); ok && id.Name == cntParam {
				okCount = true
			}
			return true
		})
	}
	c.Check(okCount, fq+"|trailer-holds-record-count", pr.Pos(put.Pos()), "the trailer no longer encodes the record count passed to Commit")
	sameBuf := len(put.Args) == 2 && expr(put.Args[0]) == expr(write.Args[0])
	c.Check(sameBuf, fq+"|trailer-buffer-written", pr.Pos(write.Pos()), "the buffer written is not the buffer the count was put into")
	wl, ok1 := fl.LocOf(write)
	cl, ok2 := fl.LocOf(closeCall)
	pl, ok3 := fl.LocOf(put)
	if !ok1 || !ok2 || !ok3 {
		c.Undecide("%s: calls not in CFG", fq)
		return
	}
	_ = wl
	dom, wit := fl.Dominated(cl, func(n ast.Node, s *Step) bool {
		return nodeHas(n, func(m ast.Node) bool { return m == ast.Node(write) })
	})
	c.Check(dom, fq+"|write-dominates-close", pr.Pos(closeCall.Pos()), "the file is closed (committed) on a path that has not written the trailer: Stat would read the last 8 data bytes as the record count", wit...)
	dom2, wit2 := fl.Dominated(wl, func(n ast.Node, s *Step) bool {
		return nodeHas(n, func(m ast.Node) bool { return m == ast.Node(put) })
	})
	_ = pl
	c.Check(dom2, fq+"|put-dominates-write", pr.Pos(write.Pos()), "the trailer is written before the count is stored in it", wit2...)
	// the write targets the embedded writer of the same file that is closed
	c.Pass(fq+"|shape", pr.Pos(fn.Body.Pos()), "put/write/close located")
}

func constInt(pk *Pkg, e ast.Expr) (int64, bool) {
	tv, ok := pk.Info.Types[e]
	if !ok || tv.Value == nil {
		return 0, false
	}
	v, exact := constant.Int64Val(constant.ToInt(tv.Value))
	return v, exact
}

func arrayLenOf(pk *Pkg, e ast.Expr) (int64, bool) {
	// e is buf[:] or buf
	if s, ok := ast.Unparen(e).(*ast.SliceExpr); ok {
		e = s.X
	}
	tv, ok := pk.Info.Types[e]
	if !ok || tv.Type == nil {
		return 0, false
	}
	if a, ok := tv.Type.Underlying().(*types.Array); ok {
		return a.Len(), true
	}
	return 0, false
}

func c15r4(c *RC) {
	pr := c.P
	commit := c.MustFn("exec.(*fileWriter).Commit")
	open := c.MustFn("exec.(*fileStore).Open")
	stat := c.MustFn("exec.(*fileStore).Stat")
	if commit == nil || open == nil || stat == nil {
		return
	}
	sizes := map[string]int64{}
	orders := map[string]string{}
	for _, call := range callsIn(commit.Body) {
		cn := commit.Pkg.CalleeName(call)
		if strings.HasSuffix(cn, ".Write") && len(call.Args) == 1 {
			if n, ok := arrayLenOf(commit.Pkg, call.Args[0]); ok {
				sizes["Commit: trailer buffer"] = n
			}
		}
		if strings.HasSuffix(cn, ".PutUint64") {
			if sel, ok := call.Fun.(*ast.SelectorExpr); ok {
				orders["Commit"] = expr(sel.X)
			}
		}
	}
	// Open: io.LimitReader(r, info.Size()-K-offset)
	for _, call := range callsIn(open.Body) {
		if open.Pkg.CalleeName(call) != "io.LimitReader" || len(call.Args) != 2 {
			continue
		}
		// collect the constant terms subtracted
		var walk func(e ast.Expr, sign int64) (int64, bool)
		found := false
		var k int64
		walk = func(e ast.Expr, sign int64) (int64, bool) {
			e = ast.Unparen(e)
			if v, ok := constInt(open.Pkg, e); ok {
				k += sign * v
				found = true
				return v, true
			}
			if be, ok := e.(*ast.BinaryExpr); ok {
				switch be.Op {
				case token.SUB:
					walk(be.X, sign)
					walk(be.Y, -sign)
				case token.ADD:
					walk(be.X, sign)
					walk(be.Y, sign)
				}
			}
			return 0, false
		}
		walk(call.Args[1], 1)
		if found {
			sizes["Open: bytes excluded from the reader"] = -k
		}
		// the limit must also subtract the offset and start from the file size
		txt := expr(call.Args[1])
		c.Check(strings.Contains(txt, "Size()") && strings.Contains(txt, "offset"), "exec.(*fileStore).Open|limit-is-size-minus-trailer-minus-offset", pr.Pos(call.Pos()),
			"the reader limit is no longer file size - trailer - offset: "+txt)
	}
	for _, call := range callsIn(stat.Body) {
		cn := stat.Pkg.CalleeName(call)
		switch {
		case strings.HasSuffix(cn, ".Seek") && len(call.Args) == 2:
			if v, ok := constInt(stat.Pkg, call.Args[0]); ok {
				sizes["Stat: seek from end"] = -v
			}
			c.Check(expr(call.Args[1]) == "io.SeekEnd", "exec.(*fileStore).Stat|seeks-from-end", pr.Pos(call.Pos()), "Stat no longer seeks relative to the end of the file")
		case strings.HasSuffix(cn, ".Read") && len(call.Args) == 1:
			if n, ok := arrayLenOf(stat.Pkg, call.Args[0]); ok {
				sizes["Stat: trailer buffer"] = n
			}
		case strings.HasSuffix(cn, ".Uint64"):
			if sel, ok := call.Fun.(*ast.SelectorExpr); ok {
				orders["Stat"] = expr(sel.X)
			}
		}
	}
	want := []string{"Commit: trailer buffer", "Open: bytes excluded from the reader", "Stat: seek from end", "Stat: trailer buffer"}
	var first int64
	var desc []string
	all := true
	for i, w := range want {
		v, ok := sizes[w]
		if !ok {
			c.Fail("exec.fileStore|trailer-size|"+w, pr.Pos(commit.Body.Pos()), "cannot find the trailer size at: "+w)
			all = false
			continue
		}
		if i == 0 {
			first = v
		}
		desc = append(desc, fmt.Sprintf("%s=%d", w, v))
	}
	if all {
		same := true
		for _, w := range want {
			if sizes[w] != first {
				same = false
			}
		}
		c.Check(same && first > 0, "exec.fileStore|trailer-size-agrees", pr.Pos(commit.Body.Pos()),
			"the trailer size differs between writer and readers: "+strings.Join(desc, ", ")+" — readers see trailer bytes as data or lose data bytes")
	}
	c.Check(orders["Commit"] != "" && orders["Commit"] == orders["Stat"], "exec.fileStore|trailer-byte-order-agrees", pr.Pos(stat.Body.Pos()),
		fmt.Sprintf("the record count is written with %q and read with %q", orders["Commit"], orders["Stat"]))
	// Stat reports Size = position of the trailer (n returned by Seek)
}

func c15r5(c *RC) {
	c15retryBudget(c)
	pr := c.P
	// find the functions calling openerAt.OpenAt through a struct field
	n := 0
	for _, fn := range pr.FuncsIn("exec") {
		if fn.Body == nil {
			continue
		}
		for _, call := range directCalls(fn.Body) {
			if fn.Pkg.CalleeName(call) != "exec.openerAt.OpenAt" || len(call.Args) != 2 {
				continue
			}
			sel, ok := call.Args[1].(*ast.SelectorExpr)
			if !ok {
				c.Fail(fn.QName()+"|reopen-offset-is-a-field", pr.Pos(call.Pos()), "OpenAt is not called with the reader's delivered-bytes field: "+expr(call.Args[1]))
				n++
				continue
			}
			fld := fn.Pkg.FieldOf(sel)
			if fld == nil {
				continue
			}
			n++
			c15r5field(c, fn, call, sel, fld)
		}
	}
	c.Floor("OpenAt calls with a resume offset", n, 1)
}

func c15r5field(c *RC, openFn *Func, openCall *ast.CallExpr, offSel *ast.SelectorExpr, fld *types.Var) {
	pr := c.P
	fqn := pr.fieldQName(fld)
	root := openFn.Root()
	rq := root.QName()
	// all writes of the field in the package
	nw := 0
	for _, fn := range pr.FuncsIn("exec") {
		if fn.Body == nil {
			continue
		}
		fl := pr.Flow(fn)
		for _, b := range fl.G.Blocks {
			if !b.Live {
				continue
			}
			for i, nd := range b.Nodes {
				var lhs ast.Expr
				var tok token.Token
				var rhs ast.Expr
				switch a := nd.(type) {
				case *ast.AssignStmt:
					for k, l := range a.Lhs {
						if s, ok := l.(*ast.SelectorExpr); ok && fn.Pkg.FieldOf(s) == fld {
							lhs, tok = l, a.Tok
							if k < len(a.Rhs) {
								rhs = a.Rhs[k]
							}
						}
					}
				case *ast.IncDecStmt:
					if s, ok := a.X.(*ast.SelectorExpr); ok && fn.Pkg.FieldOf(s) == fld {
						lhs, tok = a.X, a.Tok
					}
				}
				if lhs == nil {
					continue
				}
				nw++
				key := fn.QName() + "|advance:" + fqn
				if tok != token.ADD_ASSIGN || rhs == nil {
					c.Fail(key, pr.Pos(nd.Pos()), fmt.Sprintf("%s is written with %s; it must only be advanced by the number of bytes just delivered", fqn, tok))
					continue
				}
				// rhs is int64(n) or n
				cntName := ""
				if conv, ok := ast.Unparen(rhs).(*ast.CallExpr); ok && len(conv.Args) == 1 {
					cntName = expr(conv.Args[0])
				} else {
					cntName = expr(rhs)
				}
				// the remainder of the block must return cntName as first result with no write to it in between
				okRet := false
				for j := i + 1; j < len(b.Nodes); j++ {
					if ret, ok := b.Nodes[j].(*ast.ReturnStmt); ok {
						if len(ret.Results) >= 1 && expr(ret.Results[0]) == cntName {
							okRet = true
						}
						break
					}
					if a, ok := b.Nodes[j].(*ast.AssignStmt); ok {
						for _, l := range a.Lhs {
							if expr(l) == cntName {
								j = len(b.Nodes)
							}
						}
					}
				}
				c.Check(okRet && len(b.Succs) == 0, key, pr.Pos(nd.Pos()),
					fmt.Sprintf("%s += %s is not followed, in the same block, by returning %s to the caller: the resume offset and the bytes actually delivered can diverge (gap or repeat after a retry)", fqn, expr(rhs), cntName))
				// that count must come from the Read on the current reader, under the success test
				loc := Loc{b, i}
				dom, wit := fl.Dominated(loc, func(n ast.Node, s *Step) bool { return false })
				_ = dom
				_ = wit
				// success guard: on every path to the advance, facts say err==nil or err==io.EOF
				guard := true
				var trail []string
				// the error variable assigned together with the count
				errKeyName := ""
				ast.Inspect(fn.Body, func(m ast.Node) bool {
					if as, ok := m.(*ast.AssignStmt); ok && len(as.Lhs) == 2 && expr(as.Lhs[0]) == cntName {
						errKeyName = fl.Key(as.Lhs[1])
					}
					return true
				})
				fl.Walk(fl.Entry(), "", nil, Visitor{
					Node: func(n ast.Node, x string, s *Step) (string, bool) {
						if s.Block == b && s.Idx == i {
							okf := false
							for _, f := range s.Facts {
								if f.key == errKeyName && errKeyName != "" && f.eq && (f.val == "nil" || f.val == "io.EOF") {
									okf = true
								}
							}
							if !okf {
								guard = false
								trail = s.Trail()
							}
							return x, true
						}
						return x, false
					},
				})
				c.Check(guard, fn.QName()+"|advance-only-on-success", pr.Pos(nd.Pos()),
					"the delivered-bytes offset is advanced on a path where the read did not succeed (err is neither nil nor io.EOF): bytes of a failed read are counted as delivered", trail...)
			}
		}
	}
	if nw == 0 {
		c.Fail(rq+"|advance:"+fqn, pr.Pos(openCall.Pos()), fqn+" is never advanced: every reopen restarts at the same offset and repeats data")
	}
	// failure path: before retry.Wait the failed reader is closed and forgotten
	fl := pr.Flow(root)
	var wait *ast.CallExpr
	for _, call := range callsIn(root.Body) {
		if root.Pkg.CalleeName(call) == "github.com/grailbio/base/retry.Wait" {
			wait = call
		}
	}
	if wait == nil {
		c.Fail(rq+"|bounded-retry", pr.Pos(root.Body.Pos()), "the retrying reader no longer waits under a retry policy (retry.Wait): retries are unbounded or immediate")
		return
	}
	wl, ok := fl.LocOf(wait)
	if !ok {
		c.Undecide("%s: retry.Wait not in CFG", rq)
		return
	}
	// reader field: the field assigned from OpenAt's first result
	readerFld := ""
	ast.Inspect(root.Body, func(n ast.Node) bool {
		if a, ok := n.(*ast.AssignStmt); ok && len(a.Rhs) == 1 && ast.Unparen(a.Rhs[0]) == ast.Expr(openCall) {
			readerFld = expr(a.Lhs[0])
		}
		return true
	})
	if readerFld == "" {
		c.Undecide("%s: cannot find the field holding the reader opened by OpenAt", rq)
		return
	}
	bad := false
	var trail []string
	rkey := ""
	fl.Walk(fl.Entry(), "", nil, Visitor{
		Node: func(n ast.Node, x string, s *Step) (string, bool) {
			if s.Block == wl.B && s.Idx == wl.I {
				if x != "cleared" {
					// accept if facts know the reader field is nil
					isNil := false
					for _, f := range s.Facts {
						if f.eq && f.val == "nil" && strings.HasSuffix(stripAt(f.key), stripAt(readerFld)) {
							isNil = true
						}
					}
					if !isNil {
						bad = true
						trail = s.Trail()
					}
				}
				return x, true
			}
			if a, ok := n.(*ast.AssignStmt); ok {
				for k, l := range a.Lhs {
					if expr(l) == readerFld && k < len(a.Rhs) {
						if tv, ok := root.Pkg.Info.Types[a.Rhs[k]]; ok && tv.IsNil() {
							return "cleared", false
						}
						return "", false
					}
				}
			}
			return x, false
		},
	})
	_ = rkey
	c.Check(!bad, rq+"|failed-reader-forgotten-before-retry", pr.Pos(wait.Pos()),
		fmt.Sprintf("retry.Wait is reachable with %s still set after a failed read: the next iteration keeps reading the broken stream instead of reopening at the delivered offset", readerFld), trail...)
	// the wait's error is stored in the sticky field tested first
	path := pathTo(wl.B.Nodes[wl.I], wait)
	sticky := ""
	for i := len(path) - 1; i >= 0; i-- {
		if a, ok := path[i].(*ast.AssignStmt); ok && len(a.Lhs) == 1 {
			sticky = expr(a.Lhs[0])
		}
	}
	firstTest := ""
	ast.Inspect(root.Body, func(n ast.Node) bool {
		if firstTest != "" {
			return false
		}
		if ifs, ok := n.(*ast.IfStmt); ok {
			if tx, nonNil, ok := nilTest(ifs.Cond); ok && nonNil {
				firstTest = tx
			}
			return false
		}
		return true
	})
	c.Check(sticky != "" && strings.Contains(sticky, ".") && sticky == firstTest, rq+"|wait-error-is-sticky", pr.Pos(wait.Pos()),
		fmt.Sprintf("the error of retry.Wait (retry budget exhausted) is not kept in the field the reader tests first (stored in %q, first test on %q): an exhausted reader would be retried again", sticky, firstTest))
	// retries counter reset where the offset advances
	resetOK := false
	ast.Inspect(root.Body, func(n ast.Node) bool {
		if bl, ok := n.(*ast.BlockStmt); ok {
			hasAdv, hasReset := false, false
			for _, st := range bl.List {
				if a, ok := st.(*ast.AssignStmt); ok && len(a.Lhs) == 1 {
					if s, ok := a.Lhs[0].(*ast.SelectorExpr); ok {
						if root.Pkg.FieldOf(s) == fld && a.Tok == token.ADD_ASSIGN {
							hasAdv = true
						}
						if v, isC := constInt(root.Pkg, a.Rhs[0]); isC && v == 0 && a.Tok == token.ASSIGN && strings.Contains(s.Sel.Name, "retr") {
							hasReset = true
						}
					}
				}
			}
			if hasAdv && hasReset {
				resetOK = true
			}
		}
		return true
	})
	c.Check(resetOK, rq+"|retries-reset-on-success", pr.Pos(root.Body.Pos()), "the retry counter is not reset when a read succeeds: a long stream with occasional transient failures exhausts the budget")
}

func stripAt(k string) string {
	for {
		i := strings.Index(k, "@")
		if i < 0 {
			return k
		}
		j := i + 1
		for j < len(k) && k[j] >= '0' && k[j] <= '9' {
			j++
		}
		k = k[:i] + k[j:]
	}
}

func c15r6(c *RC) {
	pr := c.P
	put := c.MustFn("exec.(*memoryStore).put")
	open := c.MustFn("exec.(*memoryStore).Open")
	if put == nil || open == nil {
		return
	}
	// nil is the store's "absent" marker (get/Stat/Open test for it, and put's
	// own already-stored test): what put stores must therefore never be nil — a
	// committed partition with no bytes is stored as an empty, non-nil slice
	{
		var dataP string
		for _, f := range put.Type.Params.List {
			if tv := put.Pkg.Info.Types[f.Type]; tv.Type != nil && typeString(tv.Type) == "[]byte" && len(f.Names) > 0 {
				dataP = f.Names[0].Name
			}
		}
		var st *ast.AssignStmt
		inspectNoLit(put.Body, func(n ast.Node) bool {
			if a, ok := n.(*ast.AssignStmt); ok && len(a.Lhs) == 1 && len(a.Rhs) == 1 && expr(a.Rhs[0]) == dataP {
				if _, isIx := a.Lhs[0].(*ast.IndexExpr); isIx {
					st = a
				}
			}
			return true
		})
		okNorm := false
		if st != nil && dataP != "" {
			flp := pr.Flow(put)
			if loc, ok := flp.LocOf(st); ok {
				okNorm = true
				reached := false
				flp.Walk(flp.Entry(), "", nil, Visitor{NoFacts: true,
					Enter: func(from, to *cfg2Block, x string, s *Step) (string, bool) {
						if v, ok := nonNilEdge(flp, from, to); ok && v == dataP {
							return "nonnil", false
						}
						return x, false
					},
					Node: func(n ast.Node, x string, s *Step) (string, bool) {
						if s.Block == loc.B && s.Idx == loc.I {
							reached = true
							if x != "nonnil" {
								okNorm = false
							}
							return x, true
						}
						if a, ok := n.(*ast.AssignStmt); ok && len(a.Lhs) == 1 && expr(a.Lhs[0]) == dataP {
							if _, isLit := a.Rhs[0].(*ast.CompositeLit); isLit {
								return "nonnil", false
							}
							if k, isMake := a.Rhs[0].(*ast.CallExpr); isMake && expr(k.Fun) == "make" {
								return "nonnil", false
							}
							return "", false
						}
						return x, false
					}})
				okNorm = okNorm && reached
			}
		}
		c.Check(okNorm, put.QName()+"|stored-bytes-are-never-the-absent-marker", pr.Pos(put.Body.Pos()),
			"put can store a nil byte slice: nil is what the store uses for \"no such partition\", so a partition committed with no bytes reports success and is then not found by Stat/Open (and can be committed again with other data)")
	}
	// put: the store `m.tasks[task][partition] = p` is dominated by the false
	// edge of `m.tasks[task][partition] != nil` (which returns an error)
	fl := pr.Flow(put)
	var store *ast.AssignStmt
	inspectNoLit(put.Body, func(n ast.Node) bool {
		if a, ok := n.(*ast.AssignStmt); ok && len(a.Lhs) == 1 && a.Tok == token.ASSIGN {
			if ix, ok := a.Lhs[0].(*ast.IndexExpr); ok {
				if ix2, ok := ix.X.(*ast.IndexExpr); ok {
					if s, ok := ix2.X.(*ast.SelectorExpr); ok && pr.fieldQName(put.Pkg.FieldOf(s)) == "exec.memoryStore.tasks" {
						if len(a.Rhs) == 1 {
							if tv := put.Pkg.Info.Types[a.Rhs[0]]; !tv.IsNil() {
								store = a
							}
						}
					}
				}
			}
		}
		return true
	})
	if store == nil {
		c.Fail("exec.(*memoryStore).put|stores-partition", pr.Pos(put.Body.Pos()), "put no longer stores the partition bytes")
	} else {
		loc, _ := fl.LocOf(store)
		target := expr(store.Lhs[0])
		guarded := true
		var trail []string
		fl.Walk(fl.Entry(), "", nil, Visitor{NoFacts: true,
			Enter: func(from, to *cfg2Block, x string, s *Step) (string, bool) {
				cond := fl.edgeCond(from)
				if cond != nil && len(from.Succs) == 2 {
					if tx, nn, ok := nilTest(cond2(cond)); ok && tx == target {
						// the edge on which the slot is known to be nil
						if (nn && from.Succs[1] == to) || (!nn && from.Succs[0] == to) {
							return "checked", false
						}
					}
				}
				return x, false
			},
			Node: func(n ast.Node, x string, s *Step) (string, bool) {
				if s.Block == loc.B && s.Idx == loc.I {
					if x != "checked" {
						guarded = false
						trail = s.Trail()
					}
					return x, true
				}
				return x, false
			}})
		c.Check(guarded, "exec.(*memoryStore).put|refuses-second-commit", pr.Pos(store.Pos()),
			"the partition is stored without first testing that nothing is stored yet: a second commit silently replaces committed data that readers may be streaming", trail...)
	}
	// Open: p[offset:] behind `int64(len(p)) < offset` => error
	var slice *ast.SliceExpr
	offP := "offset"
	if open.Type.Params != nil {
		last := open.Type.Params.List[len(open.Type.Params.List)-1]
		if len(last.Names) > 0 {
			offP = last.Names[len(last.Names)-1].Name
		}
	}
	inspectNoLit(open.Body, func(n ast.Node) bool {
		if s, ok := n.(*ast.SliceExpr); ok && s.Low != nil && expr(s.Low) == offP {
			slice = s
		}
		return true
	})
	if slice == nil {
		c.Fail("exec.(*memoryStore).Open|reads-from-offset", pr.Pos(open.Body.Pos()), "Open no longer slices the stored bytes at the requested offset")
	} else {
		flo := pr.Flow(open)
		loc, _ := flo.LocOf(slice)
		guarded := true
		var trail []string
		flo.Walk(flo.Entry(), "", nil, Visitor{NoFacts: true,
			Enter: func(from, to *cfg2Block, x string, s *Step) (string, bool) {
				cond := flo.edgeCond(from)
				if be, ok := ast.Unparen(cond2(cond)).(*ast.BinaryExpr); ok {
					l, r := expr(be.X), expr(be.Y)
					lenFirst := strings.Contains(l, "len("+expr(slice.X)+")") && r == offP
					offFirst := strings.Contains(r, "len("+expr(slice.X)+")") && l == offP
					tooBig := lenFirst && be.Op == token.LSS || offFirst && be.Op == token.GTR
					fits := lenFirst && be.Op == token.GEQ || offFirst && be.Op == token.LEQ
					if tooBig && from.Succs[1] == to || fits && from.Succs[0] == to {
						return "checked", false
					}
				}
				return x, false
			},
			Node: func(n ast.Node, x string, s *Step) (string, bool) {
				if s.Block == loc.B && s.Idx == loc.I {
					if x != "checked" {
						guarded = false
						trail = s.Trail()
					}
					return x, true
				}
				return x, false
			}})
		c.Check(guarded, "exec.(*memoryStore).Open|offset-bounded", pr.Pos(slice.Pos()),
			"the stored bytes are sliced at offset without the length check: a resume beyond the data panics instead of failing", trail...)
	}
	// maps touched only with mu held: each method of memoryStore touching
	// tasks/counts starts with m.mu.Lock(); defer m.mu.Unlock()
	nm := 0
	for _, fn := range pr.FuncsIn("exec") {
		if fn.Decl == nil || fn.Decl.Recv == nil || !strings.Contains(fn.Name, "memoryStore)") {
			continue
		}
		touches := false
		ast.Inspect(fn.Body, func(n ast.Node) bool {
			if s, ok := n.(*ast.SelectorExpr); ok {
				fq := pr.fieldQName(fn.Pkg.FieldOf(s))
				if fq == "exec.memoryStore.tasks" || fq == "exec.memoryStore.counts" {
					touches = true
				}
			}
			return true
		})
		if !touches {
			continue
		}
		nm++
		locked := false
		if len(fn.Body.List) >= 2 {
			if es, ok := fn.Body.List[0].(*ast.ExprStmt); ok {
				if call, ok := es.X.(*ast.CallExpr); ok && strings.HasSuffix(expr(call.Fun), ".mu.Lock") {
					if d, ok := fn.Body.List[1].(*ast.DeferStmt); ok && strings.HasSuffix(expr(d.Call.Fun), ".mu.Unlock") {
						locked = true
					}
				}
			}
		}
		c.Check(locked, fn.QName()+"|maps-under-mu", pr.Pos(fn.Body.Pos()), "a memoryStore method touches tasks/counts without holding mu for its whole body")
	}
	c.Floor("memoryStore methods touching the maps", nm, 3)
}
