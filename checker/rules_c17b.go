package main

// C17-R7: no test of a read's error against nil and the end-of-stream
// sentinel is constant.
//
// Every pump loop in the library tells three outcomes of a Read apart: no
// error, end of stream, a real error.  It does so with compound conditions
// over `err == nil`, `err != nil`, `err == EOF`, `err != EOF`.  A compound
// condition that has the same value for all three outcomes (`err != nil ||
// err != EOF` is always true, `err == nil && err == EOF` never) makes one of
// the outcomes indistinguishable: a clean read returns early, or a real error
// is taken for data.  The rule evaluates every such condition of the module
// under the three outcomes (a contradiction rule: no statistics, no idiom
// table).  A stronger "every pump loop has both exits" rule was tried and
// withdrawn: the multi-readers and the scanner use switch/field idioms that it
// would have had to enumerate; C17-R1/R5/R6 cover those exits by data flow.

import (
	"fmt"
	"go/ast"
	"go/token"
	"go/types"
	"strings"
)

// errOutcome: 0 nil, 1 EOF sentinel, 2 other error.
func errAtom(e ast.Expr, name string, outcome int) (bool, bool) {
	be, ok := ast.Unparen(e).(*ast.BinaryExpr)
	if !ok || (be.Op != token.EQL && be.Op != token.NEQ) {
		return false, false
	}
	l, r := expr(be.X), expr(be.Y)
	if r == name {
		l, r = r, l
	}
	if l != name {
		return false, false
	}
	var v bool
	switch {
	case r == "nil":
		v = outcome == 0
	case strings.HasSuffix(r, "EOF") && !strings.Contains(r, "Unexpected"):
		v = outcome == 1
	default:
		return false, false
	}
	if be.Op == token.NEQ {
		v = !v
	}
	return v, true
}

// errTests returns the names compared with nil/EOF inside cond.
func errTestNames(cond ast.Expr) map[string]int {
	out := map[string]int{}
	ast.Inspect(cond, func(n ast.Node) bool {
		be, ok := n.(*ast.BinaryExpr)
		if !ok || (be.Op != token.EQL && be.Op != token.NEQ) {
			return true
		}
		l, r := expr(be.X), expr(be.Y)
		if l == "nil" || strings.HasSuffix(l, "EOF") {
			l, r = r, l
		}
		if r == "nil" || (strings.HasSuffix(r, "EOF") && !strings.Contains(r, "Unexpected")) {
			if _, isId := ast.Unparen(be.X).(*ast.Ident); isId || l == expr(be.Y) {
				out[l]++
			} else if _, isSel := ast.Unparen(be.X).(*ast.SelectorExpr); isSel {
				out[l]++
			}
		}
		return true
	})
	return out
}

func c17r7(c *RC) {
	pr := c.P
	n := 0
	for _, pk := range pr.Order {
		for _, fn := range pr.FuncsIn(pk.Rel) {
			if fn.Body == nil {
				continue
			}
			ord := 0
			inspectNoLit(fn.Body, func(nd ast.Node) bool {
				var cond ast.Expr
				switch x := nd.(type) {
				case *ast.IfStmt:
					cond = x.Cond
				case *ast.ForStmt:
					cond = x.Cond
				}
				if cond == nil {
					return true
				}
				for name, cnt := range errTestNames(cond) {
					if cnt < 2 {
						continue
					}
					// all leaves must be tests of this name, otherwise skip (mixed conditions)
					vals := [3]bool{}
					known := true
					for o := 0; o < 3; o++ {
						v, ok := evalCond(cond, func(e ast.Expr) (bool, bool) { return errAtom(e, name, o) })
						if !ok {
							known = false
						}
						vals[o] = v
					}
					if !known {
						continue
					}
					n++
					ord++
					c.Check(!(vals[0] == vals[1] && vals[1] == vals[2]), fmt.Sprintf("%s|error-test#%d-distinguishes-outcomes", fn.QName(), ord), pr.Pos(cond.Pos()),
						fmt.Sprintf("the condition `%s` has the value %v whether %s is nil, the end-of-stream sentinel or a real error: one of the three outcomes of the read is not told apart (a clean read is treated as an error or as the end, or a real error as data)", nodeSrc(pr, cond), vals[0], name))
				}
				return true
			})
		}
	}
	c.Floor("compound nil/EOF tests", n, 8)
}

// C17-R8: nothing that outlives a refill points into a refillable buffer.
//
// frame.Frame.Index/Value return reflect.Values that alias the frame's
// storage.  A sortio.FrameBuffer's frame is overwritten by Fill, so such a
// value taken from a buffer may be passed on at once (Set copies it) or held
// in a local that is consumed before the refill (C10-R6), but it must not be
// stored into a slice element, map or field: those survive the refill, and
// the stored "key" silently changes under the reader (a group is emitted
// under a later key).
func c17r8(c *RC) {
	pr := c.P
	n := 0
	rooted := func(fn *Func, e ast.Expr) bool {
		found := false
		ast.Inspect(e, func(m ast.Node) bool {
			x, ok := m.(ast.Expr)
			if !ok {
				return true
			}
			if tv := fn.Pkg.Info.Types[x]; tv.Type != nil {
				ts := typeString(tv.Type)
				if ts == "*sortio.FrameBuffer" || ts == "sortio.FrameBuffer" {
					found = true
				}
			}
			return true
		})
		return found
	}
	for _, fn := range readerFuncs(pr) {
		if fn.Body == nil {
			continue
		}
		fills := false
		for _, k := range callsIn(fn.Body) {
			if fn.Pkg.CalleeName(k) == "sortio.(*FrameBuffer).Fill" {
				fills = true
			}
		}
		if !fills {
			continue
		}
		ord := 0
		inspectNoLit(fn.Body, func(nd ast.Node) bool {
			a, ok := nd.(*ast.AssignStmt)
			if !ok || len(a.Lhs) != len(a.Rhs) {
				return true
			}
			for i, r := range a.Rhs {
				k, ok := ast.Unparen(r).(*ast.CallExpr)
				if !ok {
					continue
				}
				cn := fn.Pkg.CalleeName(k)
				if cn != "frame.Frame.Index" && cn != "frame.Frame.Value" {
					continue
				}
				sel, ok := k.Fun.(*ast.SelectorExpr)
				if !ok || !rooted(fn, sel.X) {
					continue
				}
				n++
				ord++
				_, isLocal := a.Lhs[i].(*ast.Ident)
				c.Check(isLocal, fmt.Sprintf("%s|buffer-value#%d-not-kept", fn.QName(), ord), pr.Pos(a.Pos()),
					"a reflect.Value that aliases a refillable buffer ("+expr(r)+") is stored into "+expr(a.Lhs[i])+", which outlives the buffer's next Fill: after a refill it shows a later row, so a group or row is emitted under the wrong key")
			}
			return true
		})
	}
	c.Floor("values taken from refillable buffers", n, 1)
}

// C10-R7: the sorter's fill frame never shrinks to nothing.
//
// SortReader re-estimates after every spill how many rows fit the spill
// target and resizes its fill frame with Ensure(rows).  With rows == 0 the
// next ReadFull reads nothing, and the bytes-per-row estimate divides by the
// zero row count: the sort panics instead of emitting its input (tiny spill
// targets, very wide rows).  The resize argument must therefore be clamped
// from below by a positive constant (or the configured spill batch size, a
// package-level variable) on every path to the Ensure.
func c10r7(c *RC) {
	pr := c.P
	fn := c.MustFn("sortio.SortReader")
	if fn == nil {
		return
	}
	fq := fn.QName()
	fl := pr.Flow(fn)
	n := 0
	for _, k := range callsIn(fn.Body) {
		if fn.Pkg.CalleeName(k) != "frame.Frame.Ensure" || len(k.Args) != 1 {
			continue
		}
		n++
		id, ok := ast.Unparen(k.Args[0]).(*ast.Ident)
		if !ok {
			v, isC := constInt(fn.Pkg, k.Args[0])
			c.Check(isC && v >= 1, fq+"|fill-size-positive", pr.Pos(k.Pos()), "the fill frame is resized to "+expr(k.Args[0])+", which is not known to be at least 1")
			continue
		}
		x := id.Name
		loc, okL := fl.LocOf(k)
		if !okL {
			c.Undecide("%s: Ensure call not in the flow graph", fq)
			continue
		}
		isClamp := func(nd ast.Node) bool {
			ifs, ok := nd.(*ast.IfStmt)
			if !ok {
				// go/cfg stores the condition, not the if: look the if up by its condition
				return false
			}
			_ = ifs
			return false
		}
		_ = isClamp
		// clamp statements: `if x < K { x = K }` with constant K >= 1 (either spelling of the test)
		clampAssign := map[ast.Node]bool{}
		clampCond := map[ast.Expr]bool{}
		ast.Inspect(fn.Body, func(m ast.Node) bool {
			ifs, ok := m.(*ast.IfStmt)
			if !ok || len(ifs.Body.List) != 1 || ifs.Else != nil {
				return true
			}
			a, ok := ifs.Body.List[0].(*ast.AssignStmt)
			if !ok || len(a.Lhs) != 1 || len(a.Rhs) != 1 || expr(a.Lhs[0]) != x {
				return true
			}
			if !positiveBound(pr, fn, a.Rhs[0]) {
				return true
			}
			kt := expr(a.Rhs[0])
			be, ok := ast.Unparen(ifs.Cond).(*ast.BinaryExpr)
			if !ok {
				return true
			}
			switch {
			case expr(be.X) == x && expr(be.Y) == kt && (be.Op == token.LSS || be.Op == token.LEQ):
				clampAssign[a] = true
				clampCond[ifs.Cond] = true
			case expr(be.Y) == x && expr(be.X) == kt && (be.Op == token.GTR || be.Op == token.GEQ):
				clampAssign[a] = true
				clampCond[ifs.Cond] = true
			}
			return true
		})
		// on every path to the Ensure: after the last plain assignment to x, either the
		// clamp assignment ran or its test was passed on the not-taken side (x >= K)
		bad := false
		var trail []string
		fl.Walk(fl.Entry(), "", nil, Visitor{NoFacts: true,
			Enter: func(from, to *cfg2Block, st string, s *Step) (string, bool) {
				// the clamp's test not taken: x is already at least the bound
				if cond := fl.edgeCond(from); cond != nil && clampCond[cond] && len(from.Succs) == 2 && from.Succs[1] == to {
					return "clamped", false
				}
				return st, false
			},
			Node: func(nd ast.Node, st string, s *Step) (string, bool) {
				if s.Block == loc.B && s.Idx == loc.I {
					if st != "clamped" {
						bad = true
						trail = s.Trail()
					}
					return st, true
				}
				if a, ok := nd.(*ast.AssignStmt); ok {
					if clampAssign[a] {
						return "clamped", false
					}
					for _, l := range a.Lhs {
						if expr(l) == x {
							return "", false
						}
					}
				}
				return st, false
			}})
		c.Check(!bad && len(clampAssign) > 0, fq+"|fill-size-positive", pr.Pos(k.Pos()),
			"the fill frame is resized to "+x+" rows on a path where "+x+" has not been clamped from below by a positive constant or the configured batch size: for a spill target smaller than one batch of rows it becomes 0, the next fill reads nothing, and the bytes-per-row estimate divides by zero — the sort panics instead of emitting its input", trail...)
	}
	c.Floor("fill-frame resizes in SortReader", n, 1)
}

// positiveBound: e is a constant >= 1, or a package-level configuration
// variable of the module (such as sliceio.SpillBatchSize, whose default comes
// from a flag): the rule then establishes "clamped from below by the
// configured batch size", not a numeric bound.
func positiveBound(pr *Prog, fn *Func, e ast.Expr) bool {
	if v, isC := constInt(fn.Pkg, e); isC {
		return v >= 1
	}
	var id *ast.Ident
	switch x := ast.Unparen(e).(type) {
	case *ast.Ident:
		id = x
	case *ast.SelectorExpr:
		id = x.Sel
	}
	if id == nil {
		return false
	}
	v, ok := fn.Pkg.Info.Uses[id].(*types.Var)
	if !ok || v.Pkg() == nil || v.Parent() != v.Pkg().Scope() {
		return false
	}
	b, isBasic := v.Type().Underlying().(*types.Basic)
	return isBasic && b.Info()&types.IsInteger != 0 && strings.HasPrefix(v.Pkg().Path(), modulePath)
}

// C10-R8: a merge heap is heapified after it has been filled.
//
// The three merging readers collect one buffer per non-empty input by plain
// append and only then establish the heap order.  Every later step
// (heap.Fix / heap.Remove after a cursor move, C10-R4) preserves the order but
// never creates it: without the initial heap.Init the first rows come from
// whichever input happened to be appended first, and the output is not sorted
// (reduce: values of one key folded into another).  In each function that
// appends to FrameBufferHeap.Buffers, heap.Init on that heap is reached on
// every path from the appending loop to the normal exits / first use.
func c10r8(c *RC) {
	pr := c.P
	n := 0
	for _, fn := range readerFuncs(pr) {
		if fn.Body == nil || fn.Parent != nil {
			continue
		}
		// appends to <x>.Buffers inside a loop
		var appLoop ast.Stmt
		heapExpr := ""
		inspectNoLit(fn.Body, func(nd ast.Node) bool {
			a, ok := nd.(*ast.AssignStmt)
			if !ok || len(a.Lhs) != 1 || len(a.Rhs) != 1 {
				return true
			}
			sel, ok := a.Lhs[0].(*ast.SelectorExpr)
			if !ok || pr.fieldQName(fn.Pkg.FieldOf(sel)) != "sortio.FrameBufferHeap.Buffers" {
				return true
			}
			if k, ok := a.Rhs[0].(*ast.CallExpr); ok && expr(k.Fun) == "append" {
				if lp := enclosingLoop(fn.Body, a); lp != nil {
					appLoop = lp
					heapExpr = strings.ReplaceAll(expr(sel.X), " ", "")
				}
			}
			return true
		})
		if appLoop == nil {
			continue
		}
		n++
		fl := pr.Flow(fn)
		// start: first node after the loop statement; walk; every normal exit (and every
		// use of Buffers[0]) must have passed heap.Init(heapExpr)
		var start Loc
		found := false
		var best token.Pos
		for _, b := range fl.G.Blocks {
			if !b.Live {
				continue
			}
			for i, nd := range b.Nodes {
				if nd.Pos() >= appLoop.End() && (!found || nd.Pos() < best) {
					start, found, best = Loc{b, i}, true, nd.Pos()
				}
			}
		}
		if !found {
			c.Undecide("%s: nothing follows the buffer-collecting loop", fn.QName())
			continue
		}
		ok := true
		var trail []string
		isInit := func(nd ast.Node) bool {
			for _, k := range callsIn(nd) {
				if fn.Pkg.CalleeName(k) == "container/heap.Init" && len(k.Args) == 1 && strings.ReplaceAll(expr(k.Args[0]), " ", "") == heapExpr {
					return true
				}
			}
			return false
		}
		fl.Walk(start, "", nil, Visitor{NoFacts: true,
			Node: func(nd ast.Node, x string, s *Step) (string, bool) {
				if isInit(nd) {
					return x, true
				}
				// first use of the heap's top
				use := false
				ast.Inspect(nd, func(m ast.Node) bool {
					if ix, isIx := m.(*ast.IndexExpr); isIx && strings.HasSuffix(strings.ReplaceAll(expr(ix.X), " ", ""), heapExpr+".Buffers") {
						use = true
					}
					return true
				})
				if use {
					ok = false
					trail = s.Trail()
					return x, true
				}
				return x, false
			},
			Exit: func(kind ExitKind, ret *ast.ReturnStmt, x string, s *Step) {
				if kind == ExitPanic {
					return
				}
				// error returns (non-nil last result) are fine
				if ret != nil && len(ret.Results) > 0 && expr(ret.Results[len(ret.Results)-1]) != "nil" {
					if _, isCall := ret.Results[0].(*ast.UnaryExpr); !isCall {
						return
					}
				}
				ok = false
				trail = s.Trail()
			}})
		c.Check(ok, fn.QName()+"|heapified-after-filling", pr.Pos(appLoop.End()),
			"the merge heap "+heapExpr+" is filled by appending and then used (or returned) on a path that does not pass heap.Init: the heap order is never established, the first rows come from an arbitrary input, and the merged output is not sorted", trail...)
	}
	c.Floor("merge heaps filled by appending", n, 3)
}
