package main

import (
	"fmt"
	"go/ast"
	"go/token"
	"strings"
)

func init() {
	registerProperty(&Property{
		ID:          "C12",
		Explanation: "Decides structural necessary conditions of reuse/rescan/discard: (R1) every function that moves a task it found OK into RUNNING (the discard hand-over state) brings it to a state >= OK again on every exit, following calls into the module's own discard helpers; (R2) the local executor drops the buffer and marks the task LOST inside one critical section of the task lock, only when it found the task OK, and broadcasts; (R3) compiling a reused Result returns the Result's own tasks unless a shuffle is requested, refuses tasks with combiners, and otherwise inserts tasks that depend one-to-one on partition 0 of the old tasks (their partition fields are C05-R5); (R4) every Executor.Reader answers a task without stored output with an error reader, never an empty one; (R5) a Result is scanned by opening reader i on task i, partition 0, and concatenating them in index order; (R6) both executors refuse to discard tasks that share a machine combiner. Not decided: that rows after recomputation equal those of the first evaluation.",
		Rules: []Rule{
			{ID: "C12-R1", Doc: "discard leaves no task parked in RUNNING", Run: c12r1},
			{ID: "C12-R2", Doc: "local discard is atomic", Run: c12r2},
			{ID: "C12-R3", Doc: "reuse compiles to the old tasks or re-shuffles of them", Run: c12r3},
			{ID: "C05-R5", Doc: "Task literals carry their partitioning (shared)", Run: c05r5},
			{ID: "C12-R4", Doc: "reading a task without output is an error", Run: c12r4},
			{ID: "C12-R5", Doc: "scan order", Run: c12r5},
			{ID: "C12-R6", Doc: "shared combiners are not discarded", Run: c12r6},
			{ID: "C12-R7", Doc: "a Result from an invocation the executor has not seen does not crash the driver", Run: c12r7},
			{ID: "C05-R7", Doc: "re-shuffles of a reused result with different custom partitioners never share memoised tasks (shared)", Run: c05r7},
			{ID: "C02-R6", Doc: "reading a discarded input is not fatal: the input is recomputed (shared)", Run: c02r6},
			{ID: "C12-R8", Doc: "the local executor stores a task's output before it marks the task OK, and records the cause of a failure", Run: c12r8},
			{ID: "C12-R9", Doc: "a discarded task stays parked until the worker has let go of it (Worker.Discard before the task is set lost, and it is set lost afterwards on every path)", Run: c12r9},
			{ID: "C08-R2", Doc: "re-shuffle tasks of a reused result get names minted by the namer, so two re-shuffles of one result never share a task name (shared)", Run: c08r2},
			{ID: "C16-R5", Doc: "a worker receives the invocations behind Result arguments dependencies-first (shared)", Run: c16r5},
			{ID: "C03-R4", Doc: "recomputation after discard/loss is not limited by earlier, recovered losses (shared)", Run: c03r4},
		},
	})
}

// restoresState: does every exit of fn (after start) pass a terminal state
// write on the task denoted by taskExpr?  Calls to module functions that take
// the task as an argument are followed (depth-limited) with the parameter
// substituted.
func c12restores(c *RC, fn *Func, start Loc, taskExpr string, depth int, report func(pos, why string, trail []string)) {
	pr := c.P
	fl := pr.Flow(fn)
	isTerminalSet := func(call *ast.CallExpr) bool {
		sel, ok := call.Fun.(*ast.SelectorExpr)
		if !ok || expr(sel.X) != taskExpr {
			return false
		}
		cn := fn.Pkg.CalleeName(call)
		switch cn {
		case "exec.(*Task).Error", "exec.(*Task).Errorf":
			return true
		case "exec.(*Task).Set":
			if len(call.Args) == 1 {
				a := expr(call.Args[0])
				return a == "TaskOk" || a == "TaskErr" || a == "TaskLost"
			}
		}
		return false
	}
	fl.Walk(start, "", nil, Visitor{
		Node: func(n ast.Node, x string, s *Step) (string, bool) {
			if _, isDefer := n.(*ast.DeferStmt); isDefer {
				return x, false
			}
			done := false
			inspectNoLit(n, func(m ast.Node) bool {
				switch a := m.(type) {
				case *ast.CallExpr:
					if isTerminalSet(a) {
						done = true
						return false
					}
					// a module function receiving the task: follow it
					if depth < 2 {
						if callee, ok := fn.Pkg.Callee(a).(interface{ Name() string }); ok && callee != nil {
							for ai, arg := range a.Args {
								if expr(arg) != taskExpr {
									continue
								}
								cf := pr.Fn(fn.Pkg.CalleeName(a))
								if cf == nil || cf.Body == nil || cf.Type.Params == nil {
									continue
								}
								// name of the ai-th parameter
								pi := 0
								pname := ""
								for _, f := range cf.Type.Params.List {
									for _, nm := range f.Names {
										if pi == ai {
											pname = nm.Name
										}
										pi++
									}
								}
								if pname == "" {
									continue
								}
								if !c12mayRestore(pr, cf, pname) {
									continue // a lookup or helper that never touches the state: keep walking
								}
								c12restores(c, cf, pr.Flow(cf).Entry(), pname, depth+1, func(pos, why string, trail []string) {
									report(pos, fmt.Sprintf("%s (reached through %s called at %s)", why, cf.QName(), pr.Pos(a.Pos())), trail)
								})
								// the callee is the discard helper: it is responsible from here on
								done = true
								return false
							}
						}
					}
				case *ast.AssignStmt:
					for i, l := range a.Lhs {
						if sel, ok := ast.Unparen(l).(*ast.SelectorExpr); ok && expr(sel.X) == taskExpr && pr.fieldQName(fn.Pkg.FieldOf(sel)) == "exec.Task.state" && i < len(a.Rhs) {
							v := expr(a.Rhs[i])
							if v == "TaskOk" || v == "TaskErr" || v == "TaskLost" {
								done = true
							}
						}
					}
				}
				return true
			})
			return x, done
		},
		Exit: func(kind ExitKind, ret *ast.ReturnStmt, x string, s *Step) {
			if kind == ExitPanic {
				return
			}
			report(fl.exitPos(s, ret), fmt.Sprintf("%s returns with %s still in the RUNNING hand-over state", fn.QName(), taskExpr), s.Trail())
		},
	})
}

func c12r1(c *RC) {
	pr := c.P
	c12workerDiscardResets(c)
	n := 0
	for _, fn := range pr.FuncsIn("exec") {
		if fn.Body == nil {
			continue
		}
		fl := pr.Flow(fn)
		for _, b := range fl.G.Blocks {
			if !b.Live {
				continue
			}
			for i, nd := range b.Nodes {
				a, ok := nd.(*ast.AssignStmt)
				if !ok || len(a.Lhs) != 1 || len(a.Rhs) != 1 || expr(a.Rhs[0]) != "TaskRunning" {
					continue
				}
				sel, ok := ast.Unparen(a.Lhs[0]).(*ast.SelectorExpr)
				if !ok || pr.fieldQName(fn.Pkg.FieldOf(sel)) != "exec.Task.state" {
					continue
				}
				// only the discard pattern: the function found the task OK before
				foundOK := false
				ast.Inspect(fn.Body, func(m ast.Node) bool {
					if be, ok := m.(*ast.BinaryExpr); ok && (be.Op == token.NEQ || be.Op == token.EQL) && (expr(be.Y) == "TaskOk" && strings.HasSuffix(expr(be.X), ".state") || expr(be.X) == "TaskOk" && strings.HasSuffix(expr(be.Y), ".state")) && m.Pos() < a.Pos() {
						foundOK = true
					}
					return true
				})
				if !foundOK {
					continue
				}
				n++
				task := expr(sel.X)
				fq := fn.QName()
				nf := 0
				// exits taken because the executor knows no location for the task:
				// returns inside `if X == nil` where X := <executor>.location(task)
				nilLocExits := map[string]bool{}
				ast.Inspect(fn.Body, func(m ast.Node) bool {
					ifs, ok := m.(*ast.IfStmt)
					if !ok {
						return true
					}
					tx, nn, okT := nilTest(ifs.Cond)
					if !okT || nn {
						return true
					}
					be := &ast.BinaryExpr{X: &ast.Ident{Name: tx}}
					isLoc := false
					ast.Inspect(fn.Body, func(q ast.Node) bool {
						if as, ok := q.(*ast.AssignStmt); ok && len(as.Lhs) == 1 && len(as.Rhs) == 1 && expr(as.Lhs[0]) == expr(be.X) {
							if k, ok := as.Rhs[0].(*ast.CallExpr); ok && fn.Pkg.CalleeName(k) == "exec.(*bigmachineExecutor).location" {
								isLoc = true
							}
						}
						return true
					})
					if isLoc {
						for _, st := range ifs.Body.List {
							if r, ok := st.(*ast.ReturnStmt); ok {
								nilLocExits[pr.Pos(r.Pos())] = true
							}
						}
					}
					return true
				})
				c12restores(c, fn, Loc{b, i + 1}, task, 0, func(pos, why string, trail []string) {
					// exception: bigmachineExecutor.Discard's nil-location exit
					if fq == "exec.(*bigmachineExecutor).Discard" && nilLocExits[pos] {
						if c12locationPrecedesOk(c) {
							c.Except(fq+"|exit on location(task) == nil", "infeasible once the state was TaskOk: setLocation precedes Set(TaskOk) in Run (checked as a side obligation)")
							return
						}
					}
					nf++
					c.Fail(fmt.Sprintf("%s|discard-restores-state|%s", fq, keyOfWhy(why)), pos,
						"a task taken from OK into RUNNING for discarding is left in RUNNING: "+why+" — the next evaluation that needs the task waits forever (Discard wedges a concurrent or later run)", trail...)
				})
				if nf == 0 {
					c.Pass(fq+"|discard-restores-state", pr.Pos(a.Pos()), "every exit reaches a state >= OK")
				}
			}
		}
	}
	c.Floor("OK->RUNNING discard hand-overs", n, 2)
}

func keyOfWhy(why string) string {
	// stable part: the function that returns
	if i := strings.Index(why, " returns with"); i > 0 {
		return why[:i]
	}
	return "exit"
}

// c12locationPrecedesOk: in (*bigmachineExecutor).Run, task.Set(TaskOk) is
// dominated by b.setLocation(task, m).
func c12locationPrecedesOk(c *RC) bool {
	pr := c.P
	fn := pr.Fn("exec.(*bigmachineExecutor).Run")
	if fn == nil {
		return false
	}
	fl := pr.Flow(fn)
	okAll := true
	found := false
	for _, call := range callsIn(fn.Body) {
		if fn.Pkg.CalleeName(call) == "exec.(*Task).Set" && len(call.Args) == 1 && expr(call.Args[0]) == "TaskOk" {
			found = true
			loc, _ := fl.LocOf(call)
			dom, _ := fl.Dominated(loc, func(n ast.Node, s *Step) bool {
				return nodeHas(n, func(m ast.Node) bool {
					k, ok := m.(*ast.CallExpr)
					return ok && fn.Pkg.CalleeName(k) == "exec.(*bigmachineExecutor).setLocation"
				})
			})
			if !dom {
				okAll = false
			}
		}
	}
	return found && okAll
}

func c12r2(c *RC) {
	pr := c.P
	fn := c.MustFn("exec.(*localExecutor).Discard")
	if fn == nil {
		return
	}
	fq := fn.QName()
	fl := pr.Flow(fn)
	var del *ast.CallExpr
	var lost *ast.AssignStmt
	inspectNoLit(fn.Body, func(n ast.Node) bool {
		switch a := n.(type) {
		case *ast.CallExpr:
			if expr(a.Fun) == "delete" && len(a.Args) == 2 && strings.HasSuffix(expr(a.Args[0]), ".buffers") {
				del = a
			}
		case *ast.AssignStmt:
			if len(a.Lhs) == 1 && strings.HasSuffix(expr(a.Lhs[0]), ".state") && expr(a.Rhs[0]) == "TaskLost" {
				lost = a
			}
		}
		return true
	})
	if del == nil || lost == nil {
		c.Fail(fq+"|drops-buffer-and-marks-lost", pr.Pos(fn.Body.Pos()), "local Discard no longer deletes the buffer and marks the task LOST")
		return
	}
	task := "task"
	if sel, ok := lost.Lhs[0].(*ast.SelectorExpr); ok {
		task = expr(sel.X)
	}
	for _, tgt := range []struct {
		n    ast.Node
		name string
	}{{del, "buffer-deletion"}, {lost, "LOST-write"}} {
		loc, _ := fl.LocOf(tgt.n)
		held := c03lockHeldAt(fl, fn, loc, task, false)
		c.Check(held, fq+"|"+tgt.name+"-under-task-lock", pr.Pos(tgt.n.Pos()), "the "+tgt.name+" happens outside the task lock: a concurrent evaluation can observe the task OK after its buffer is gone (a read then fails) or start reading a buffer that is being dropped")
		// guarded by state == TaskOk
		guarded := true
		fl.Walk(fl.Entry(), "", nil, Visitor{NoFacts: true,
			Enter: func(from, to *cfg2Block, x string, s *Step) (string, bool) {
				if _, ok := equalEdge(fl, from, to, func(x string) bool { return strings.HasSuffix(x, ".state") }, "TaskOk"); ok {
					return "ok", false
				}
				return x, false
			},
			Node: func(n ast.Node, x string, s *Step) (string, bool) {
				if s.Block == loc.B && s.Idx == loc.I {
					if x != "ok" {
						guarded = false
					}
					return x, true
				}
				// releasing the lock ends the validity of the test
				for _, k := range callsIn(n) {
					if s2, ok := k.Fun.(*ast.SelectorExpr); ok && expr(s2.X) == task && s2.Sel.Name == "Unlock" {
						return "", false
					}
				}
				return x, false
			}})
		c.Check(guarded, fq+"|"+tgt.name+"-only-if-OK", pr.Pos(tgt.n.Pos()), "the "+tgt.name+" is not guarded by the state having been found OK in the same critical section: a running task's buffer is dropped or its state overwritten")
	}
}

func c12r3(c *RC) {
	pr := c.P
	sliceCapabilityAsserts(c, "*exec.Result", "a reused Result under Prefixed is not recognised and compile walks into it as if it were an operator")
	fn := c.MustFn("exec.(*compiler).compile")
	if fn == nil {
		return
	}
	fq := fn.QName()
	// the branch: if result, ok := Unwrap(slice).(*Result); ok { ... }
	var br *ast.IfStmt
	ast.Inspect(fn.Body, func(n ast.Node) bool {
		ifs, ok := n.(*ast.IfStmt)
		if !ok || ifs.Init == nil {
			return true
		}
		if a, ok := ifs.Init.(*ast.AssignStmt); ok && len(a.Rhs) == 1 {
			if ta, ok := a.Rhs[0].(*ast.TypeAssertExpr); ok && strings.HasSuffix(expr(ta.Type), "Result") {
				br = ifs
			}
		}
		return true
	})
	if br == nil {
		c.Fail(fq+"|result-branch", pr.Pos(fn.Body.Pos()), "compile no longer recognises a reused Result")
		return
	}
	resVar := expr(br.Init.(*ast.AssignStmt).Lhs[0])
	partP := "part"
	if fn.Type.Params != nil && len(fn.Type.Params.List) >= 2 && len(fn.Type.Params.List[len(fn.Type.Params.List)-1].Names) > 0 {
		partP = fn.Type.Params.List[len(fn.Type.Params.List)-1].Names[0].Name
	}
	tasksR := "tasks"
	if fn.Type.Results != nil && len(fn.Type.Results.List) > 0 && len(fn.Type.Results.List[0].Names) > 0 {
		tasksR = fn.Type.Results.List[0].Names[0].Name
	}
	// (a) combiner tasks rejected with an error
	rej := false
	ast.Inspect(br.Body, func(n ast.Node) bool {
		if ifs, ok := n.(*ast.IfStmt); ok && strings.Contains(expr(ifs.Cond), "Combiner.IsNil()") {
			for _, st := range ifs.Body.List {
				if r, ok := st.(*ast.ReturnStmt); ok && len(r.Results) == 2 && expr(r.Results[1]) != "nil" {
					rej = true
				}
			}
		}
		return true
	})
	c.Check(rej, fq+"|reused-combiner-tasks-rejected", pr.Pos(br.Pos()), "tasks with combiners of a reused Result are no longer rejected")
	// (b) !part.IsShuffle() => tasks = result.tasks; return
	direct := false
	ast.Inspect(br.Body, func(n ast.Node) bool {
		if ifs, ok := n.(*ast.IfStmt); ok && strings.ReplaceAll(expr(ifs.Cond), " ", "") == "!"+partP+".IsShuffle()" {
			as, ret := false, false
			for _, st := range ifs.Body.List {
				if a, ok := st.(*ast.AssignStmt); ok && expr(a.Lhs[0]) == tasksR && expr(a.Rhs[0]) == resVar+".tasks" {
					as = true
				}
				if _, ok := st.(*ast.ReturnStmt); ok {
					ret = true
				}
			}
			direct = as && ret
		}
		return true
	})
	c.Check(direct, fq+"|non-shuffle-reuse-returns-old-tasks", pr.Pos(br.Pos()), "a reused Result consumed without a shuffle no longer compiles to exactly the Result's own tasks (guarded by !part.IsShuffle()): the old tasks would be recomputed under new names, or a shuffle consumer would read unpartitioned output")
	// (c) the re-shuffle tasks depend one-to-one on the old tasks
	okDeps := false
	ast.Inspect(br.Body, func(n ast.Node) bool {
		rng, ok := n.(*ast.RangeStmt)
		if !ok || expr(rng.X) != resVar+".tasks" {
			return true
		}
		tv := expr(rng.Value)
		ast.Inspect(rng.Body, func(m ast.Node) bool {
			kv, ok := m.(*ast.KeyValueExpr)
			if !ok || expr(kv.Key) != "Deps" {
				return true
			}
			outer, ok := kv.Value.(*ast.CompositeLit)
			if !ok || len(outer.Elts) != 1 {
				return true
			}
			inner, ok := outer.Elts[0].(*ast.CompositeLit)
			if !ok {
				return true
			}
			f := map[string]string{"Partition": "0", "Expand": "false", "CombineKey": `""`}
			names := []string{"Head", "Partition", "Expand", "CombineKey"}
			for i, e := range inner.Elts {
				if kv2, ok := e.(*ast.KeyValueExpr); ok {
					f[expr(kv2.Key)] = expr(kv2.Value)
				} else if i < len(names) {
					f[names[i]] = expr(e)
				}
			}
			if f["Head"] == tv && f["Partition"] == "0" && f["Expand"] == "false" && f["CombineKey"] == `""` {
				okDeps = true
			}
			return true
		})
		return true
	})
	c.Check(okDeps, fq+"|reshuffle-tasks-read-old-tasks-one-to-one", pr.Pos(br.Pos()), "the re-shuffle task for shard i no longer depends exactly on partition 0 of the Result's task i")
	// (d) the branch always returns (never falls into the pipeline compilation with a Result)
	last := br.Body.List[len(br.Body.List)-1]
	_, isRet := last.(*ast.ReturnStmt)
	c.Check(isRet, fq+"|result-branch-returns", pr.Pos(br.End()), "the reused-Result branch falls through into normal compilation")
}

func c12r4(c *RC) {
	pr := c.P
	iface := pr.lookupIface("exec", "Executor")
	if iface == nil {
		c.Undecide("Executor not found")
		return
	}
	impls := pr.implementers(iface, "Reader")
	for _, fn := range impls {
		fq := fn.QName()
		// the first if whose condition tests absence (!ok / == nil) must return an ErrReader
		found, good := false, false
		for _, st := range fn.Body.List {
			ifs, ok := st.(*ast.IfStmt)
			if !ok {
				continue
			}
			t := strings.ReplaceAll(expr(ifs.Cond), " ", "")
			isNotOK := false
			if u, isU := ast.Unparen(ifs.Cond).(*ast.UnaryExpr); isU && u.Op == token.NOT {
				if id, isId := u.X.(*ast.Ident); isId {
					// the comma-ok result of a map lookup
					ast.Inspect(fn.Body, func(m ast.Node) bool {
						if as, isA := m.(*ast.AssignStmt); isA && len(as.Lhs) == 2 && len(as.Rhs) == 1 && expr(as.Lhs[1]) == id.Name {
							if _, isIx := as.Rhs[0].(*ast.IndexExpr); isIx {
								isNotOK = true
							}
						}
						return true
					})
				}
			}
			isNil := false
			if _, nn, okN := nilTest(ifs.Cond); okN && !nn {
				isNil = true
			}
			_ = t
			if isNotOK || isNil {
				found = true
				for _, k := range callsIn(ifs.Body) {
					if fn.Pkg.CalleeName(k) == "sliceio.ErrReader" {
						good = true
					}
				}
				break
			}
		}
		c.Check(found && good, fq+"|missing-output-is-an-error-reader", pr.Pos(fn.Body.Pos()), "Reader does not answer a task without stored output with sliceio.ErrReader: scanning a discarded or lost result would yield an empty (i.e. different) result instead of an error")
		// no EmptyReader anywhere in the executor's Reader
		empty := false
		ast.Inspect(fn.Body, func(n ast.Node) bool {
			if cl, ok := n.(*ast.CompositeLit); ok && strings.HasSuffix(expr(cl.Type), "EmptyReader") {
				empty = true
			}
			return true
		})
		c.Check(!empty, fq+"|never-empty-reader", pr.Pos(fn.Body.Pos()), "an Executor.Reader hands out an EmptyReader")
	}
	c.Floor("Executor.Reader implementations", len(impls), 2)
}

func c12r5(c *RC) {
	pr := c.P
	fn := c.MustFn("exec.(*Result).open")
	if fn == nil {
		return
	}
	fq := fn.QName()
	okIdx, okMulti := false, false
	var rv string
	ast.Inspect(fn.Body, func(n ast.Node) bool {
		if rng, ok := n.(*ast.RangeStmt); ok {
			i := expr(rng.Key)
			for _, st := range rng.Body.List {
				if a, ok := st.(*ast.AssignStmt); ok && len(a.Lhs) == 1 {
					if ix, ok := a.Lhs[0].(*ast.IndexExpr); ok && expr(ix.Index) == i {
						if call, ok := a.Rhs[0].(*ast.CallExpr); ok && strings.HasSuffix(fn.Pkg.CalleeName(call), "Executor.Reader") && len(call.Args) == 2 {
							if expr(call.Args[0]) == recvOf(fn)+".tasks["+i+"]" {
								if v, isC := constInt(fn.Pkg, call.Args[1]); isC && v == 0 {
									okIdx = true
									rv = expr(ix.X)
								}
							}
						}
					}
				}
			}
		}
		return true
	})
	for _, k := range callsIn(fn.Body) {
		if fn.Pkg.CalleeName(k) == "sliceio.MultiReader" && len(k.Args) == 1 && expr(k.Args[0]) == rv && k.Ellipsis.IsValid() {
			okMulti = true
		}
	}
	c.Check(okIdx, fq+"|reader-i-on-task-i-partition-0", pr.Pos(fn.Body.Pos()), "Result.open no longer opens reader i on root task i, partition 0")
	c.Check(okMulti, fq+"|concatenated-in-index-order", pr.Pos(fn.Body.Pos()), "the shard readers are no longer handed to MultiReader in index order")
	// readers slice sized by the tasks
	sized := false
	ast.Inspect(fn.Body, func(n ast.Node) bool {
		if call, ok := n.(*ast.CallExpr); ok && expr(call.Fun) == "make" && len(call.Args) == 2 && expr(call.Args[1]) == "len("+recvOf(fn)+".tasks)" {
			sized = true
		}
		return true
	})
	c.Check(sized, fq+"|one-reader-per-root-task", pr.Pos(fn.Body.Pos()), "Result.open does not create one reader per root task")
}

func c12r6(c *RC) {
	pr := c.P
	iface := pr.lookupIface("exec", "Executor")
	if iface == nil {
		c.Undecide("Executor not found")
		return
	}
	impls := pr.implementers(iface, "Discard")
	for _, fn := range impls {
		ok := false
		if len(fn.Body.List) > 0 {
			if ifs, isIf := fn.Body.List[0].(*ast.IfStmt); isIf {
				// true exactly when the task has a combiner and a (shared) combine key
				good := true
				for _, combNil := range []bool{false, true} {
					for _, keyEmpty := range []bool{false, true} {
						v, known := evalCond(ifs.Cond, func(e ast.Expr) (bool, bool) {
							if k, ok := ast.Unparen(e).(*ast.CallExpr); ok && strings.HasSuffix(expr(k.Fun), ".Combiner.IsNil") {
								return combNil, true
							}
							if _, whenEq, ok := constTest(e, func(x string) bool { return strings.HasSuffix(x, ".CombineKey") }, `""`); ok {
								return whenEq == keyEmpty, true
							}
							return false, false
						})
						if !known || v != (!combNil && !keyEmpty) {
							good = false
						}
					}
				}
				if good {
					for _, st := range ifs.Body.List {
						if _, isRet := st.(*ast.ReturnStmt); isRet {
							ok = true
						}
					}
				}
			}
		}
		c.Check(ok, fn.QName()+"|shared-combiner-not-discarded", pr.Pos(fn.Body.Pos()), "Discard no longer starts by refusing tasks whose output lives in a shared machine combiner: discarding one task would invalidate the combined output of its siblings")
	}
	c.Floor("Executor.Discard implementations", len(impls), 2)
}

// c12mayRestore: cf contains, somewhere, a terminal state write on its
// parameter pname (so it is a function that takes responsibility for the
// task's state).
func c12mayRestore(pr *Prog, cf *Func, pname string) bool {
	found := false
	ast.Inspect(cf.Body, func(n ast.Node) bool {
		switch a := n.(type) {
		case *ast.CallExpr:
			if sel, ok := a.Fun.(*ast.SelectorExpr); ok && expr(sel.X) == pname {
				switch cf.Pkg.CalleeName(a) {
				case "exec.(*Task).Set", "exec.(*Task).Error", "exec.(*Task).Errorf":
					found = true
				}
			}
		case *ast.AssignStmt:
			for _, l := range a.Lhs {
				if sel, ok := ast.Unparen(l).(*ast.SelectorExpr); ok && expr(sel.X) == pname && pr.fieldQName(cf.Pkg.FieldOf(sel)) == "exec.Task.state" {
					found = true
				}
			}
		}
		return true
	})
	return found
}

// c12workerDiscardResets (part of C12-R1): discarding a task on a worker
// returns the task's own combine key to its initial state, so that the
// recomputation a later Func triggers can build its combine buffers again
// (otherwise runCombine answers "already committed", the task is lost five
// times and the run fails).
func c12workerDiscardResets(c *RC) {
	pr := c.P
	fn := c.MustFn("exec.(*worker).Discard")
	if fn == nil {
		return
	}
	fq := fn.QName()
	ok := false
	ast.Inspect(fn.Body, func(n ast.Node) bool {
		ifs, isIf := n.(*ast.IfStmt)
		if !isIf {
			return true
		}
		// condition true exactly for a task with its own (per-task) combine buffers
		good := true
		for _, combNil := range []bool{false, true} {
			for _, keyEmpty := range []bool{false, true} {
				v, known := evalCond(ifs.Cond, func(e ast.Expr) (bool, bool) {
					if k, ok := ast.Unparen(e).(*ast.CallExpr); ok && strings.HasSuffix(expr(k.Fun), ".Combiner.IsNil") {
						return combNil, true
					}
					if _, whenEq, ok := constTest(e, func(x string) bool { return strings.HasSuffix(x, ".CombineKey") }, `""`); ok {
						return whenEq == keyEmpty, true
					}
					return false, false
				})
				if !known || v != (!combNil && keyEmpty) {
					good = false
				}
			}
		}
		if !good {
			return true
		}
		for _, st := range ifs.Body.List {
			if a, isA := st.(*ast.AssignStmt); isA && len(a.Lhs) == 1 && len(a.Rhs) == 1 && expr(a.Rhs[0]) == "combinerNone" {
				if ix, isIx := a.Lhs[0].(*ast.IndexExpr); isIx {
					if sel, isSel := ix.X.(*ast.SelectorExpr); isSel && pr.fieldQName(fn.Pkg.FieldOf(sel)) == "exec.worker.combinerStates" {
						ok = true
					}
				}
			}
		}
		return true
	})
	c.Check(ok, fq+"|combine-key-returns-to-its-initial-state", pr.Pos(fn.Body.Pos()),
		"discarding a task with its own combine buffers no longer resets the task's combine key on the worker: when a later Func recomputes the discarded task on the same machine, runCombine finds the key already committed, the task is lost again and again, and the run fails instead of recomputing")
}

// c12r7: using a Result as an argument never crashes the driver.
//
// (*bigmachineExecutor).addInvocation replaces every *Result argument by a
// reference to the invocation that produced it.  It knows only invocations
// that some task it has run belonged to, and panics on any other.  A Func that
// returns (a Prefixed view of) one of its Result arguments yields a Result
// whose invocation never owned a task, so the next Func that takes it as an
// argument brings the driver process down.
func c12r7(c *RC) {
	pr := c.P
	fn := c.MustFn("exec.(*bigmachineExecutor).addInvocation")
	if fn == nil {
		return
	}
	var pan []*ast.CallExpr
	for _, k := range callsIn(fn.Body) {
		if !fn.Pkg.mayReturn(k) {
			pan = append(pan, k)
		}
	}
	pos := pr.Pos(fn.Body.Pos())
	if len(pan) > 0 {
		pos = pr.Pos(pan[0].Pos())
	}
	c.Check(len(pan) == 0, fn.QName()+"|result-of-unknown-invocation-does-not-panic", pos,
		"addInvocation panics when a *Result argument comes from an invocation it has not seen; a Func that returns one of its Result arguments (or a Prefixed view of it) produces exactly such a Result, and the next Func that is given it crashes the driver instead of running or failing with an error")
}
