package main

import (
	"fmt"
	"go/ast"
	"go/token"
	"go/types"
	"strings"
)

func init() {
	registerProperty(&Property{
		ID:          "C01",
		Explanation: "Narrow. The statement equates the scanned rows with a sequential reference evaluation; that is a property of values and is NOT decided. Three clauses visible in the shape of the code are decided: (R1) a line source never reads a token before advancing — on every feasible path to (*bufio.Scanner).Text/Bytes in the module at least one Scan is guaranteed since the scanner was created or last read (a read without an advance invents an empty row or repeats one); (R2) the side-effecting operators see every upstream read exactly once, including the last: every path of writerFuncReader.Read that performs the upstream Read performs exactly one write callback with that read's error and exactly its first n rows, the sticky error is tested first and the callback's error never masks a read error; scanReader.Read hands the upstream reader to the callback once and turns a nil result into end-of-stream; (R3 = C12-R5) result rows are concatenated in shard order. Not decided: equality with the reference rows, buffer-boundary behaviour of flatmap/filter, constShard arithmetic, nested shuffles, termination. The structural halves that can be decided are owned by C05 (partition wiring), C08 (graph shape), C10/C17 (error/EOF propagation, row counts).",
		Rules: []Rule{
			{ID: "C01-R1", Doc: "a line source advances before it reads", Run: c01r1},
			{ID: "C01-R2", Doc: "side-effecting operators see every read exactly once", Run: c01r2},
			{ID: "C12-R5", Doc: "result rows are concatenated in shard order (shared)", Run: c12r5},
			{ID: "C09-R9", Doc: "rows taken out of a combining frame are never dropped (shared)", Run: c09r9},
			{ID: "C10-R4", Doc: "merging readers (cogroup, reduce, sort) repair their heap after every cursor move (shared)", Run: c10r4},
			{ID: "C10-R8", Doc: "a merge heap is heapified after it has been filled (shared)", Run: c10r8},
			{ID: "C10-R9", Doc: "a merge cursor moves only past a row that was taken (shared)", Run: c10r9},
			{ID: "C10-R6", Doc: "reducing merge: the combined value is stored in the output row before its buffers are refilled (shared)", Run: c10r6},
			{ID: "C05-R1", Doc: "hash kernels and partitioner closures are pure: concurrent tasks of one slice do not share partitioning state (shared)", Run: c05r1},
			{ID: "C12-R8", Doc: "a task that is OK has its output stored (local executor) (shared)", Run: c12r8},
			{ID: "C05-R10", Doc: "every dependency of a task contributes its reader(s) to the task's input vector (shared)", Run: c05r10},
			{ID: "C10-R11", Doc: "frames on which a reader compares or hashes keys take their key prefix from the reader's own type, never from the caller's destination frame (shared)", Run: c10r11},
			{ID: "C10-R12", Doc: "a loop over the input readers visits every reader (shared)", Run: c10r12},
			{ID: "C17-R9", Doc: "a pump loop ends exactly at end-of-stream (shared)", Run: c17r9},
			{ID: "C05-R7", Doc: "memoised compilations are keyed by every partitioning field (shared)", Run: c05r7},
			{ID: "C05-R8", Doc: "partition buffering loses, duplicates and misplaces no row (shared)", Run: c05r8},
			{ID: "C01-R3", Doc: "operator row loops visit every row read exactly once, at its own index, and write it at the next free output row", Run: c01r3},
			{ID: "C17-R5", Doc: "end-of-stream is produced only at the sanctioned sites, under their recorded conditions: a reader that still holds rows does not end (shared)", Run: c17r5},
			{ID: "C17-R6", Doc: "rows returned together with end-of-stream (or nil) are never dropped (shared)", Run: c17r6},
			{ID: "C17-R1", Doc: "an input error is reported by every operator reader, never turned into a clean, shorter result (shared)", Run: c17r1},
			{ID: "C05-R9", Doc: "driver and worker agree on one location per dependency task (shared)", Run: c05r9},
		},
	})
}

// lowerBound of an int expression under the documented axioms shard >= 0,
// nshard >= 1, len(x) >= 0.
func c01lowerBound(fn *Func, e ast.Expr) int64 {
	e = ast.Unparen(e)
	if v, ok := constInt(fn.Pkg, e); ok {
		return v
	}
	switch x := e.(type) {
	case *ast.Ident:
		// axiom: the shard count handed to a constructor is >= 1 (first parameter
		// of the exported constructor enclosing this function)
		if o, ok := fn.Pkg.Info.Uses[x].(*types.Var); ok {
			root := fn.Root()
			if root.Decl != nil && root.Decl.Name.IsExported() && root.Type.Params != nil && len(root.Type.Params.List) > 0 && len(root.Type.Params.List[0].Names) > 0 {
				if fn.Pkg.Info.Defs[root.Type.Params.List[0].Names[0]] == types.Object(o) && expr(root.Type.Params.List[0].Type) == "int" {
					return 1
				}
			}
		}
		return 0
	case *ast.BinaryExpr:
		switch x.Op {
		case token.ADD:
			return c01lowerBound(fn, x.X) + c01lowerBound(fn, x.Y)
		case token.MUL:
			a, b := c01lowerBound(fn, x.X), c01lowerBound(fn, x.Y)
			if a >= 0 && b >= 0 {
				return a * b
			}
		}
	}
	return 0
}

// c01skipSummary: does fn (e.g. skip(scan, n)) call Scan() on its first
// parameter exactly once per iteration of a loop `for i := 0; i < n; i++`
// and return non-nil as soon as a Scan fails?  Then a nil return guarantees n
// scans.
func c01advancesBy(pr *Prog, f *Func) (countParam int, ok bool) {
	if f == nil || f.Type.Params == nil {
		return 0, false
	}
	var names []string
	for _, p := range f.Type.Params.List {
		for _, n := range p.Names {
			names = append(names, n.Name)
		}
	}
	if len(names) != 2 {
		return 0, false
	}
	var loop *ast.ForStmt
	for _, st := range f.Body.List {
		if l, isFor := st.(*ast.ForStmt); isFor {
			loop = l
		}
	}
	if loop == nil || loop.Cond == nil {
		return 0, false
	}
	if _, bound, okL := loopUpTo(f, loop); !okL || expr(bound) != names[1] {
		return 0, false
	}
	// body: if !scan.Scan() { ... return <non-nil> }
	if len(loop.Body.List) != 1 {
		return 0, false
	}
	ifs, isIf := loop.Body.List[0].(*ast.IfStmt)
	if !isIf {
		return 0, false
	}
	u, isU := ast.Unparen(ifs.Cond).(*ast.UnaryExpr)
	if !isU || u.Op != token.NOT {
		return 0, false
	}
	call, isC := u.X.(*ast.CallExpr)
	if !isC || f.Pkg.CalleeName(call) != "bufio.(*Scanner).Scan" || !strings.HasPrefix(expr(call.Fun), names[0]+".") {
		return 0, false
	}
	// every exit inside the if returns a non-nil error
	allRet := true
	fl := pr.Flow(f)
	fl.Walk(fl.Entry(), "", nil, Visitor{NoFacts: true,
		Enter: func(from, to *cfg2Block, x string, s *Step) (string, bool) {
			if fl.edgeCond(from) == ast.Expr(ifs.Cond) && from.Succs[0] == to {
				return "failed", false
			}
			return x, false
		},
		Exit: func(kind ExitKind, ret *ast.ReturnStmt, x string, s *Step) {
			if x == "failed" && (ret == nil || len(ret.Results) != 1 || expr(ret.Results[0]) == "nil") {
				allRet = false
			}
		},
		Node: func(n ast.Node, x string, s *Step) (string, bool) {
			if x == "failed" {
				// must not continue the loop
				if _, isInc := n.(*ast.IncDecStmt); isInc {
					allRet = false
				}
			}
			return x, false
		}})
	return 1, allRet
}

func c01r1(c *RC) {
	pr := c.P
	n := 0
	for _, fn := range pr.Funcs() {
		if fn.Body == nil || strings.HasPrefix(fn.Pkg.Rel, "cmd/") || strings.HasPrefix(fn.Pkg.Rel, "example") || strings.HasPrefix(fn.Pkg.Rel, "analysis") {
			continue
		}
		var reads []*ast.CallExpr
		for _, call := range directCalls(fn.Body) {
			cn := fn.Pkg.CalleeName(call)
			if cn == "bufio.(*Scanner).Text" || cn == "bufio.(*Scanner).Bytes" {
				reads = append(reads, call)
			}
		}
		if len(reads) == 0 {
			continue
		}
		fl := pr.Flow(fn)
		fq := fn.QName()
		for ri, rd := range reads {
			n++
			loc, ok := fl.LocOf(rd)
			if !ok {
				c.Undecide("%s: read not in CFG", fq)
				continue
			}
			loop, _ := enclosingLoop(fn.Body, rd).(*ast.RangeStmt)
			loopKey := ""
			if loop != nil && loop.Key != nil {
				loopKey = expr(loop.Key)
			}
			// 3-valued evaluation of conditions over (facts, iteration flag)
			var eval func(e ast.Expr, f Facts, iter string) int // 1 true, 0 false, -1 unknown
			eval = func(e ast.Expr, f Facts, iter string) int {
				e = ast.Unparen(e)
				switch x := e.(type) {
				case *ast.Ident:
					switch f.Eq(fl.Key(x)) {
					case "true":
						return 1
					case "false":
						return 0
					}
					// once-assigned boolean standing for `scanner == nil`
					return -1
				case *ast.UnaryExpr:
					if x.Op == token.NOT {
						v := eval(x.X, f, iter)
						if v < 0 {
							return -1
						}
						return 1 - v
					}
				case *ast.BinaryExpr:
					switch x.Op {
					case token.LOR:
						a, b := eval(x.X, f, iter), eval(x.Y, f, iter)
						if a == 1 || b == 1 {
							return 1
						}
						if a == 0 && b == 0 {
							return 0
						}
						return -1
					case token.LAND:
						a, b := eval(x.X, f, iter), eval(x.Y, f, iter)
						if a == 0 || b == 0 {
							return 0
						}
						if a == 1 && b == 1 {
							return 1
						}
						return -1
					case token.NEQ, token.EQL:
						if loopKey != "" && (expr(x.X) == loopKey && expr(x.Y) == "0" || expr(x.Y) == loopKey && expr(x.X) == "0") && iter != "" {
							isZero := iter == "iter0"
							if (x.Op == token.EQL) == isZero {
								return 1
							}
							return 0
						}
					}
				}
				return -1
			}
			bad := false
			var trail []string
			// rule state: "<scans 0|1>/<iter>"
			fl.Walk(fl.Entry(), "0/", nil, Visitor{
				Enter: func(from, to *cfg2Block, x string, s *Step) (string, bool) {
					parts := strings.SplitN(x, "/", 2)
					scans, iter := parts[0], parts[1]
					// iteration bookkeeping for the loop enclosing the read
					if loop != nil && to.Stmt == ast.Stmt(loop) {
						switch to.Kind.String() {
						case "RangeLoop":
							inBody := len(from.Nodes) > 0 && loop.Body.Pos() <= from.Nodes[0].Pos() && from.Nodes[0].End() <= loop.Body.End()
							if from.Stmt == ast.Stmt(loop) && from.Kind.String() != "RangeBody" && !inBody {
								iter = "iter0"
							} else if inBody || from.Kind.String() == "RangeBody" {
								iter = "iterN"
							} else {
								iter = "iter0"
							}
						}
					}
					if cond := fl.edgeCond(from); cond != nil && len(from.Succs) == 2 {
						v := eval(cond, s.Facts, iter)
						if v >= 0 && (v == 1) != (from.Succs[0] == to) {
							return x, true // infeasible under the iteration knowledge
						}
					}
					return scans + "/" + iter, false
				},
				Node: func(nd ast.Node, x string, s *Step) (string, bool) {
					parts := strings.SplitN(x, "/", 2)
					scans, iter := parts[0], parts[1]
					for _, call := range callsIn(nd) {
						cn := fn.Pkg.CalleeName(call)
						switch {
						case call == rd:
							if scans == "0" {
								bad = true
								trail = s.Trail()
							}
							scans = "0" // the token is consumed: the next read needs a new advance
						case cn == "bufio.(*Scanner).Scan":
							scans = "1"
						case cn == "bufio.NewScanner":
							scans = "0"
						case cn == "bufio.(*Scanner).Text" || cn == "bufio.(*Scanner).Bytes":
							scans = "0"
						default:
							// a helper that advances its scanner argument n times
							if cf := pr.Fn(cn); cf != nil && cf.Pkg == fn.Pkg && len(call.Args) == 2 {
								if _, ok := c01advancesBy(pr, cf); ok {
									if c01lowerBound(fn, call.Args[1]) >= 1 {
										scans = "1"
									}
								}
							}
						}
					}
					_ = loc
					return scans + "/" + iter, false
				},
			})
			c.Check(!bad, fmt.Sprintf("%s|advance-before-read#%d", fq, ri+1), pr.Pos(rd.Pos()),
				"a token is read from the line scanner on a path on which no Scan() is guaranteed since the scanner was created or last read (lower bounds: shard >= 0, nshard >= 1): bufio.Scanner.Text returns the empty string before the first Scan, so the shard starts with a row that is in no input (and every shard is one line behind)", trail...)
		}
	}
	c.Floor("line-scanner reads in the module", n, 1)
}

func c01r2(c *RC) {
	pr := c.P
	fn := c.MustFn(".(*writerFuncReader).Read")
	if fn != nil {
		fq := fn.QName()
		stickyFirst(c, fn)
		fl := pr.Flow(fn)
		var read *ast.CallExpr
		nVar, errVar := "", ""
		inspectNoLit(fn.Body, func(n ast.Node) bool {
			if a, ok := n.(*ast.AssignStmt); ok && len(a.Rhs) == 1 && len(a.Lhs) == 2 {
				if call, ok := a.Rhs[0].(*ast.CallExpr); ok && isReaderRead(pr, fn.Pkg, call) {
					read = call
					nVar, errVar = expr(a.Lhs[0]), expr(a.Lhs[1])
				}
			}
			return true
		})
		if read == nil {
			c.Fail(fq+"|reads-upstream", pr.Pos(fn.Body.Pos()), "writerFuncReader.Read no longer reads its upstream")
		} else {
			outArg := expr(read.Args[1])
			rl, _ := fl.LocOf(read)
			nEx := 0
			fl.Walk(Loc{rl.B, rl.I}, "0", nil, Visitor{NoFacts: true,
				Node: func(nd ast.Node, x string, s *Step) (string, bool) {
					for _, call := range callsIn(nd) {
						if fn.Pkg.CalleeName(call) == ".(*writerFuncReader).callWrite" {
							okArgs := len(call.Args) == 3 && expr(call.Args[1]) == errVar && strings.ReplaceAll(expr(call.Args[2]), " ", "") == outArg+".Slice(0,"+nVar+")"
							c.Check(okArgs, fq+"|callback-gets-this-read", pr.Pos(call.Pos()),
								fmt.Sprintf("the write callback is not given this read's error and exactly its first n rows (want callWrite(ctx, %s, %s.Slice(0, %s)), got %s)", errVar, outArg, nVar, expr(call)))
							if x == "0" {
								x = "1"
							} else {
								x = "2"
							}
						}
					}
					// nVar/errVar rewritten before the callback?
					return x, false
				},
				Exit: func(kind ExitKind, ret *ast.ReturnStmt, x string, s *Step) {
					if kind == ExitPanic {
						return
					}
					nEx++
					c.Check(x == "1", fq+"|exit:"+exitKey(fl, s, ret)+"|one-callback-per-read", fl.exitPos(s, ret),
						"after reading upstream, this exit passes "+x+" write callbacks (want exactly one): the writer misses a batch (or the final end-of-stream notification) or sees one twice", s.Trail()...)
				}})
			if nEx == 0 {
				c.Undecide("%s: no exits after the read", fq)
			}
			// the callback's error replaces err only when the read itself had none
			okMask := false
			werrVar := "werr"
			inspectNoLit(fn.Body, func(n ast.Node) bool {
				if a, ok := n.(*ast.AssignStmt); ok && len(a.Rhs) == 1 && len(a.Lhs) == 1 {
					if k, ok := a.Rhs[0].(*ast.CallExpr); ok && fn.Pkg.CalleeName(k) == ".(*writerFuncReader).callWrite" {
						werrVar = expr(a.Lhs[0])
					}
				}
				return true
			})
			ast.Inspect(fn.Body, func(n ast.Node) bool {
				if ifs, ok := n.(*ast.IfStmt); ok {
					// true exactly when the callback failed and the read's own
					// outcome was nil or end-of-stream
					good := true
					for _, wnil := range []bool{true, false} {
						for o := 0; o < 3; o++ {
							v, known := evalCond(ifs.Cond, func(e ast.Expr) (bool, bool) {
								if x, nn, ok := nilTest(e); ok && x == werrVar {
									return nn != wnil, true
								}
								return errAtom(e, errVar, o)
							})
							if !known || v != (!wnil && o != 2) {
								good = false
							}
						}
					}
					if good {
						okMask = true
					}
				}
				return true
			})
			c.Check(okMask, fq+"|callback-error-does-not-mask-read-error", pr.Pos(fn.Body.Pos()), "the write callback's error is adopted without the guard that the read itself returned nil or end-of-stream: a real upstream error is replaced by the writer's")
			// the final error is stored sticky and returned together with n
			okRet := false
			if last, ok := fn.Body.List[len(fn.Body.List)-1].(*ast.ReturnStmt); ok && len(last.Results) == 2 && expr(last.Results[0]) == nVar && expr(last.Results[1]) == errVar {
				if len(fn.Body.List) >= 2 {
					if a, ok := fn.Body.List[len(fn.Body.List)-2].(*ast.AssignStmt); ok && strings.HasSuffix(expr(a.Lhs[0]), ".err") && expr(a.Rhs[0]) == errVar {
						okRet = true
					}
				}
			}
			c.Check(okRet, fq+"|returns-read-count-and-sticky-error", pr.Pos(fn.Body.Pos()), "Read no longer stores its final error and returns it with the count of the upstream read")
		}
	}
	// callWrite passes shard, state, err, columns in that order
	if cw := c.MustFn(".(*writerFuncReader).callWrite"); cw != nil {
		okOrder := false
		txt := nodeSrc(pr, cw.Body)
		rv := recvOf(cw)
		// the three appends, in source order: (shard, state) literal, the error, the columns
		i1 := strings.Index(txt, "reflect.ValueOf("+rv+".shard), "+rv+".state")
		i2, i3 := -1, -1
		ast.Inspect(cw.Body, func(n ast.Node) bool {
			a, ok := n.(*ast.AssignStmt)
			if !ok || len(a.Rhs) != 1 {
				return true
			}
			k, ok := a.Rhs[0].(*ast.CallExpr)
			if !ok || expr(k.Fun) != "append" || len(k.Args) != 2 {
				return true
			}
			off := pr.Fset.Position(a.Pos()).Offset - pr.Fset.Position(cw.Body.Pos()).Offset
			if tv := cw.Pkg.Info.Types[k.Args[1]]; tv.Type != nil && typeString(tv.Type) == "reflect.Value" && !k.Ellipsis.IsValid() {
				i2 = off
			}
			if k.Ellipsis.IsValid() && strings.HasSuffix(expr(k.Args[1]), ".Values()") {
				i3 = off
			}
			return true
		})
		if i1 >= 0 && i2 > i1 && i3 > i2 {
			okOrder = true
		}
		c.Check(okOrder, cw.QName()+"|argument-order", pr.Pos(cw.Body.Pos()), "the write callback's arguments are no longer (shard, state, err, columns...)")
	}
	// scanReader
	if sr := c.MustFn(".(*scanReader).Read"); sr != nil {
		fq := sr.QName()
		ncall := 0
		okArgs := false
		for _, call := range callsIn(sr.Body) {
			if sel, ok := call.Fun.(*ast.SelectorExpr); ok && sel.Sel.Name == "scan" && pr.fieldQName(sr.Pkg.FieldOf(sel)) == ".scanSlice.scan" {
				ncall++
				if len(call.Args) == 2 && strings.HasSuffix(expr(call.Args[0]), ".shard") {
					for _, k := range callsIn(call.Args[1]) {
						if sr.Pkg.CalleeName(k) == "sliceio.NewScanner" && len(k.Args) == 2 && strings.Contains(expr(k.Args[1]), recvOf(sr)+".reader") {
							okArgs = true
						}
					}
				}
			}
		}
		c.Check(ncall == 1 && okArgs, fq+"|callback-once-with-whole-reader", pr.Pos(sr.Body.Pos()), "the scan callback is no longer invoked exactly once with the shard number and a scanner over the whole dependency reader")
		okEOF := false
		// the variable holding the callback's result
		cbErr := "err"
		inspectNoLit(sr.Body, func(n ast.Node) bool {
			if a, ok := n.(*ast.AssignStmt); ok && len(a.Rhs) == 1 && len(a.Lhs) == 1 {
				if k, ok := a.Rhs[0].(*ast.CallExpr); ok {
					if sel, ok := k.Fun.(*ast.SelectorExpr); ok && pr.fieldQName(sr.Pkg.FieldOf(sel)) == ".scanSlice.scan" {
						cbErr = expr(a.Lhs[0])
					}
				}
			}
			return true
		})
		ast.Inspect(sr.Body, func(n ast.Node) bool {
			if ifs, ok := n.(*ast.IfStmt); ok && func() bool { x, nn, ok := nilTest(ifs.Cond); return ok && !nn && x == cbErr }() {
				for _, st := range ifs.Body.List {
					if a, ok := st.(*ast.AssignStmt); ok && expr(a.Lhs[0]) == cbErr && strings.HasSuffix(expr(a.Rhs[0]), "EOF") {
						okEOF = true
					}
				}
			}
			return true
		})
		c.Check(okEOF, fq+"|nil-becomes-EOF", pr.Pos(sr.Body.Pos()), "a scan callback that finished without error no longer ends the (empty) output stream: the task would call it again")
	}
}
