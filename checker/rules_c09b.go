package main

// C09-R8: every spilling combiner that is created or taken is, on every path,
// read back (Reader / WriteTo remove the spill directory), discarded, or
// handed on (sent to a channel, stored, returned, passed to a function that
// does one of these).  A path that simply drops it leaves its temporary spill
// directory behind.

import (
	"fmt"
	"go/ast"
	"go/token"
	"go/types"
	"strings"
)

type combTrack struct {
	c    *RC
	pr   *Prog
	seen map[string]bool
	n    int
}

func c09r8(c *RC) {
	pr := c.P
	t := &combTrack{c: c, pr: pr, seen: map[string]bool{}}
	for _, fn := range pr.FuncsIn("exec") {
		if fn.Body == nil {
			continue
		}
		fl := pr.Flow(fn)
		for _, b := range fl.G.Blocks {
			if !b.Live {
				continue
			}
			for i, nd := range b.Nodes {
				a, ok := nd.(*ast.AssignStmt)
				if !ok || len(a.Rhs) != 1 || len(a.Lhs) == 0 {
					continue
				}
				id, ok := a.Lhs[0].(*ast.Ident)
				if !ok || id.Name == "_" {
					continue
				}
				rhs := ast.Unparen(a.Rhs[0])
				switch x := rhs.(type) {
				case *ast.CallExpr:
					if fn.Pkg.CalleeName(x) != "exec.newCombiner" {
						continue
					}
					var facts Facts
					if len(a.Lhs) == 2 {
						if k := fl.Key(a.Lhs[1]); k != "" {
							facts = Facts{{key: k, eq: true, val: "nil"}}
						}
					}
					t.track(fn, Loc{b, i + 1}, id.Name, facts, "created", 0)
				case *ast.UnaryExpr:
					if x.Op != token.ARROW {
						continue
					}
					if tv := fn.Pkg.Info.Types[x]; tv.Type == nil || typeString(tv.Type) != "*exec.combiner" {
						continue
					}
					t.track(fn, Loc{b, i + 1}, id.Name, nil, "taken", 0)
				}
			}
			// select { case X = <-ch: ... }: the comm clause's assignment is a node too
		}
	}
	c.Floor("combiners created or taken", t.n, 3)
}

// track walks fn from start and requires every exit to have disposed of the
// combiner held in variable name.
func (t *combTrack) track(fn *Func, start Loc, name string, facts Facts, how string, depth int) bool {
	c, pr := t.c, t.pr
	key := fmt.Sprintf("%s|combiner:%s:%s", fn.QName(), how, name)
	if depth == 0 {
		if t.seen[key] {
			return true
		}
		t.seen[key] = true
		t.n++
	}
	fl := pr.Flow(fn)
	obj := func(e ast.Expr) bool {
		id, ok := ast.Unparen(e).(*ast.Ident)
		return ok && id.Name == name
	}
	disposes := func(n ast.Node) bool {
		done := false
		ast.Inspect(n, func(m ast.Node) bool {
			if done {
				return false
			}
			switch x := m.(type) {
			case *ast.CallExpr:
				if sel, ok := x.Fun.(*ast.SelectorExpr); ok && obj(sel.X) {
					switch fn.Pkg.CalleeName(x) {
					case "exec.(*combiner).Reader", "exec.(*combiner).WriteTo", "exec.(*combiner).Discard":
						done = true
					}
				}
				for ai, a := range x.Args {
					if !obj(a) {
						continue
					}
					// handed to a function: follow it when its body is known
					if callee := t.calleeOf(fn, x); callee != nil && depth < 3 {
						if p := paramName(callee, ai); p != "" {
							cfl := pr.Flow(callee)
							if t.track(callee, cfl.Entry(), p, nil, "param", depth+1) {
								done = true
							}
							continue
						}
					}
					done = true // append, or a callee outside the module: it escapes
				}
			case *ast.SendStmt:
				if obj(x.Value) {
					done = true
				}
			case *ast.AssignStmt:
				for i, r := range x.Rhs {
					if obj(r) && i < len(x.Lhs) {
						if _, plain := x.Lhs[i].(*ast.Ident); !plain {
							done = true // stored in a field, map or slice
						}
					}
				}
			case *ast.ReturnStmt:
				for _, r := range x.Results {
					if obj(r) {
						done = true
					}
				}
			case *ast.FuncLit:
				// captured by a literal: the literal takes over
				uses := false
				ast.Inspect(x.Body, func(k ast.Node) bool {
					if id, ok := k.(*ast.Ident); ok && id.Name == name {
						uses = true
					}
					return true
				})
				if uses {
					if lf := pr.FuncOfLit(x); lf != nil && depth < 3 {
						lfl := pr.Flow(lf)
						if _, isDefer := n.(*ast.DeferStmt); isDefer {
							// a deferred literal runs on every exit: it disposes if it can
							if t.anyDisposal(lf, name) {
								done = true
							}
						} else if t.track(lf, lfl.Entry(), name, nil, "captured", depth+1) {
							done = true
						} else {
							done = true // reported inside the literal
						}
					}
				}
				return false
			}
			return true
		})
		return done
	}
	ok := true
	nex := 0
	fl.Walk(start, "", facts, Visitor{
		Node: func(n ast.Node, x string, s *Step) (string, bool) {
			if disposes(n) {
				return x, true
			}
			// reassigned: the old value is gone (only count plain overwrite by a new take)
			return x, false
		},
		Exit: func(kind ExitKind, ret *ast.ReturnStmt, x string, s *Step) {
			if kind == ExitPanic {
				return
			}
			nex++
			ok = false
			ek := key + "|exit:" + exitKey(fl, s, ret)
			if depth > 0 {
				ek = fn.QName() + "|combiner:" + name + "|exit:" + exitKey(fl, s, ret)
			}
			c.Check(false, ek, fl.exitPos(s, ret),
				"this exit is reached with the combiner "+name+" neither read back (Reader/WriteTo), discarded, nor handed on: its temporary spill directory is left behind", s.Trail()...)
		}})
	if ok && depth == 0 {
		c.Pass(key, pr.Pos(fl.G.Blocks[0].Nodes[0].Pos()), "disposed of on every path")
	}
	return ok
}

// anyDisposal: the literal's body contains a disposal of name (used for
// deferred literals, which run on every exit).
func (t *combTrack) anyDisposal(lf *Func, name string) bool {
	found := false
	ast.Inspect(lf.Body, func(m ast.Node) bool {
		switch x := m.(type) {
		case *ast.SendStmt:
			if id, ok := x.Value.(*ast.Ident); ok && id.Name == name {
				found = true
			}
		case *ast.CallExpr:
			if sel, ok := x.Fun.(*ast.SelectorExpr); ok {
				if id, ok := sel.X.(*ast.Ident); ok && id.Name == name {
					switch lf.Pkg.CalleeName(x) {
					case "exec.(*combiner).Reader", "exec.(*combiner).WriteTo", "exec.(*combiner).Discard":
						found = true
					}
				}
			}
		}
		return true
	})
	return found
}

// calleeOf resolves a call to a module function or to a local closure bound
// to a variable by a single assignment.
func (t *combTrack) calleeOf(fn *Func, call *ast.CallExpr) *Func {
	if o, ok := fn.Pkg.Callee(call).(*types.Func); ok {
		if f := t.pr.FuncOfObj(o); f != nil && f.Body != nil {
			return f
		}
		return nil
	}
	id, ok := call.Fun.(*ast.Ident)
	if !ok {
		return nil
	}
	for f := fn; f != nil && f.Body != nil; f = f.Parent {
		var lit *Func
		ast.Inspect(f.Body, func(n ast.Node) bool {
			if a, ok := n.(*ast.AssignStmt); ok && len(a.Lhs) == 1 && len(a.Rhs) == 1 && expr(a.Lhs[0]) == id.Name {
				if l, ok := a.Rhs[0].(*ast.FuncLit); ok {
					lit = t.pr.FuncOfLit(l)
				}
			}
			return true
		})
		if lit != nil {
			return lit
		}
	}
	return nil
}

func paramName(f *Func, idx int) string {
	if f.Type == nil || f.Type.Params == nil {
		return ""
	}
	i := 0
	for _, fld := range f.Type.Params.List {
		for _, nm := range fld.Names {
			if i == idx {
				return nm.Name
			}
			i++
		}
		if len(fld.Names) == 0 {
			i++
		}
	}
	return ""
}

var _ = strings.Contains
